#!/usr/bin/env python3
"""Self-test with seeded breaking changes (not a registered check).

  tools/seedtest.py import C04 [C05 ...]   copy /tmp/seedout/<id>/{patch.diff,meta.json,demo/} to /verif/seeded/<id>/
  tools/seedtest.py confirm C04 ...         in the scratch worktree /tmp/seedwt_<id>: run the demonstration with the patch applied
                                            (must fail) and reverted (must pass); result -> seeded/<id>/meta.json "confirmed"
  tools/seedtest.py run C04[:C06,C18] ...   apply seeded/<id>/patch.diff to /repo, run ./check for the property itself and the
                                            extra ones listed after ':', undo with `git -C /repo checkout -- .`; the verdicts go to
                                            seeded/<id>/result.json

/repo is restored in a `finally` block; nothing is ever committed there.
"""
import json, os, re, shutil, subprocess, sys, time

ROOT = os.path.dirname(os.path.dirname(os.path.abspath(__file__)))
SUFFIX = ""   # "-r2" for the second round of seeded changes: stored under seeded/<id>-r2
ENV = dict(os.environ, GOFLAGS="-mod=mod", GOPROXY="off", GOSUMDB="off", GOTOOLCHAIN="local")


def sh(cmd, cwd=None, timeout=3600):
    p = subprocess.run(cmd, shell=isinstance(cmd, str), cwd=cwd, env=ENV, stdout=subprocess.PIPE, stderr=subprocess.STDOUT, text=True, timeout=timeout)
    return p.returncode, p.stdout


def do_import(pid):
    src, dst = "/tmp/seedout/" + pid, os.path.join(ROOT, "seeded", pid + SUFFIX)
    os.makedirs(dst, exist_ok=True)
    shutil.copy(os.path.join(src, "patch.diff"), dst)
    shutil.copy(os.path.join(src, "meta.json"), dst)
    if os.path.isdir(os.path.join(dst, "demo")):
        shutil.rmtree(os.path.join(dst, "demo"))
    os.makedirs(os.path.join(dst, "demo"))
    for f in os.listdir(os.path.join(src, "demo")):
        p = os.path.join(src, "demo", f)
        if os.path.isfile(p) and os.path.getsize(p) < 300000 and not f.startswith("suite_results"):
            shutil.copy(p, os.path.join(dst, "demo"))
    print("imported", pid)


def demo_files(pid):
    d = os.path.join(ROOT, "seeded", pid + SUFFIX, "demo")
    return [f for f in os.listdir(d) if f.endswith("_test.go")]


def do_confirm(pid):
    """run the agent's demonstration myself, patched and unpatched, in the scratch worktree"""
    wt = "/tmp/seedwt_" + pid
    dst = os.path.join(ROOT, "seeded", pid + SUFFIX)
    meta = json.load(open(os.path.join(dst, "meta.json")))
    patch = os.path.join(dst, "patch.diff")
    files = demo_files(pid)
    changed = re.findall(r"^diff --git a/(\S+)", open(patch).read(), re.M)
    pkgdir = os.path.dirname(changed[0])
    mcp = re.search(r"cp\s+\S+_test\.go\s+/tmp/seedwt_\w+/([A-Za-z_/]+?)/?(\s|$)", meta.get("demo_cmd", ""))
    if mcp:
        pkgdir = mcp.group(1)
    m = re.search(r"-run\s+'?([A-Za-z0-9_]+)'?", meta.get("demo_cmd", ""))
    run = m.group(1) if m else "Test"
    m2 = re.search(r"(\./[a-z/]+/?)\s*(;|$|&&)", meta.get("demo_cmd", ""))
    pkg = "./" + pkgdir + "/"
    res = {}
    sh("git checkout -- . && git clean -fdq", cwd=wt)
    try:
        for mode in ("patched", "unpatched"):
            sh("git checkout -- .", cwd=wt)
            if mode == "patched":
                rc, out = sh(["git", "apply", patch], cwd=wt)
                if rc != 0:
                    raise RuntimeError("patch does not apply: " + out)
            for f in files:
                shutil.copy(os.path.join(dst, "demo", f), os.path.join(wt, pkgdir, f))
            rc, out = sh(["go", "test", "-vet=off", "-count=1", "-run", run, pkg], cwd=wt, timeout=1800)
            res[mode] = {"rc": rc, "tail": out[-600:]}
            for f in files:
                os.remove(os.path.join(wt, pkgdir, f))
    finally:
        sh("git checkout -- . && git clean -fdq", cwd=wt)
    ok = res["patched"]["rc"] != 0 and res["unpatched"]["rc"] == 0
    meta["confirmed"] = {"demonstration_fails_with_patch": res["patched"]["rc"] != 0, "demonstration_passes_without": res["unpatched"]["rc"] == 0,
                         "how": "go test -run %s %s in a scratch worktree, patch applied / reverted" % (run, pkg)}
    json.dump(meta, open(os.path.join(dst, "meta.json"), "w"), indent=1)
    print(pid, "confirmed" if ok else "NOT CONFIRMED", {k: v["rc"] for k, v in res.items()})
    if not ok:
        print(res["patched"]["tail"], "\n----\n", res["unpatched"]["tail"])
    return ok


def do_run(spec, tier="quick"):
    pid, _, extra = spec.partition(":")
    props = [pid] + [x for x in extra.split(",") if x]
    dst = os.path.join(ROOT, "seeded", pid + SUFFIX)
    patch = os.path.join(dst, "patch.diff")
    rc, out = sh(["git", "-C", "/repo", "status", "--porcelain"])
    if out.strip():
        raise RuntimeError("/repo is not clean: " + out)
    result = {"patch": "seeded/%s/patch.diff" % (pid + SUFFIX), "tier": tier, "checks": {}}
    # the evidence files under /verif/evidence must describe runs on the unchanged tree: keep them aside
    ev, bak = os.path.join(ROOT, "evidence"), os.path.join(ROOT, ".work", "evidence_backup")
    if os.path.isdir(bak):
        shutil.rmtree(bak)
    shutil.copytree(ev, bak)
    try:
        rc, out = sh(["git", "-C", "/repo", "apply", patch])
        if rc != 0:
            raise RuntimeError("patch does not apply to /repo: " + out)
        for p in props:
            t0 = time.time()
            rc, out = sh([os.path.join(ROOT, "check"), p, "--tier", tier], cwd=ROOT, timeout=7200)
            viol = [l for l in out.split("\n") if l.startswith("VIOLATION")]
            first = None
            if viol:
                m = re.search(r"replay=(\S+)", viol[0])
                if m and os.path.exists(m.group(1)):
                    try:
                        rj = json.load(open(m.group(1)))
                        first = json.dumps(rj)[:700]
                    except Exception:
                        first = open(m.group(1)).read()[:700]
            result["checks"][p] = {"exit": rc, "violations": len(viol), "no_failing_input": sum("no-failing-input-found" in v for v in viol),
                                   "first_violation": viol[0] if viol else None, "first_replay_excerpt": first, "seconds": round(time.time() - t0)}
            print(pid, "->", p, "exit", rc, "violations", len(viol), "(%d without input)" % result["checks"][p]["no_failing_input"])
    finally:
        sh(["git", "-C", "/repo", "checkout", "--", "."])
        shutil.rmtree(ev)
        shutil.copytree(bak, ev)
    rc, out = sh(["git", "-C", "/repo", "status", "--porcelain"])
    assert not out.strip(), out
    json.dump(result, open(os.path.join(dst, "result.json"), "w"), indent=1)
    return result


if __name__ == "__main__":
    cmd, args = sys.argv[1], sys.argv[2:]
    tier = "quick"
    for a in list(args):
        if a.startswith("--round="):
            args.remove(a)
            SUFFIX = "-r" + a.split("=")[1]
    if "--thorough" in args:
        args.remove("--thorough")
        tier = "thorough"
    for a in args:
        if cmd == "import":
            do_import(a)
        elif cmd == "confirm":
            do_confirm(a)
        elif cmd == "run":
            do_run(a, tier)
