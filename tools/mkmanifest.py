#!/usr/bin/env python3
"""regenerate MANIFEST.json from vlib/props.py (claimed checks) — run after adding a property."""
import json, os, sys
ROOT = os.path.dirname(os.path.dirname(os.path.abspath(__file__)))
sys.path.insert(0, os.path.join(ROOT, "vlib"))
import props

ALL = ["C%02d" % i for i in range(1, 21)]
m = {
    "version": 1,
    "setup_cmd": "./setup.sh",
    "hooks": {
        "guard": "verif",
        "enable": "go build -tags verif (harness module /verif/harness with `replace github.com/artela-network/artela-evm => /repo`)",
        "baseline_off_cmd": "cd /repo && GOFLAGS=-mod=mod GOPROXY=off GOSUMDB=off GOTOOLCHAIN=local go test -json -vet=off -count=1 -timeout 25m ./...",
        "source_commits": props.HOOK_COMMITS,
        "add_only": True,
    },
    "engines": [
        {"name": "coq", "path": "coq", "serves_properties": sorted(props.PROPS), "kind_free_text": "Coq 8.16.1 development: executable model (Model/), proofs (Proofs/), property theorems (Props/), correspondence evaluators (Corr/), generated facts (Gen/)"},
        {"name": "vh", "path": "harness", "serves_properties": sorted(props.PROPS), "kind_free_text": "Go harness built against /repo's working tree: translator (gen) and correspondence/search drivers"},
        {"name": "modelrun", "path": "coq/Extract", "serves_properties": sorted(props.PROPS), "kind_free_text": "OCaml extraction of the model's checkers + line-protocol driver"},
    ],
    "checks": [],
    "notes": "All checks: ./check <id> [--tier quick|thorough]; VERIF_SEED / VERIF_TIER honoured. See DESIGN.md.",
    "not_applicable": [],
}
for pid in ALL:
    if pid in props.PROPS:
        p = props.PROPS[pid]
        m["checks"].append({
            "property_id": pid,
            "quick_cmd": "./check %s --tier quick" % pid,
            "thorough_cmd": "./check %s --tier thorough" % pid,
            "evidence_file": "evidence/%s.json" % pid,
            "replay_cmd_template": "./check %s --replay {path}" % pid,
            "engine": "coq+vh+modelrun",
            "level_claimed": {"category": "proof", "text": p["level_text"], "design_ref": p.get("design_ref", "DESIGN.md Part I, sections I.2-I.3 (%s); Part II section 5 is the plan written before the build" % pid)},
            "level_note": p["level_note"],
            "technique": p["technique"],
        })
    else:
        m["not_applicable"].append({"property_id": pid, "reason": props.NOT_YET.get(pid, "check not built yet (work in progress; see DESIGN.md section 10)")})
json.dump(m, open(os.path.join(ROOT, "MANIFEST.json"), "w"), indent=1)
print("claimed:", [c["property_id"] for c in m["checks"]])
