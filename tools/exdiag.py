#!/usr/bin/env python3
"""debug helper: show structure problems / first differing event of EX cases"""
import json,sys
d=sys.argv[1]
lines=open(d+'/cases.txt').read().split('\n')
diag=open(d+'/diag.txt').read().split()
cases=json.load(open(d+'/cases.json'))
def parse(toks):
    def rec(i):
        res=[]
        while i<len(toks):
            t=toks[i]
            if t=='[':
                sub,i=rec(i+1); res.append(sub)
            elif t==']':
                return res,i+1
            else:
                res.append(t); i+=1
        return res,i
    return rec(0)[0]
want=sys.argv[2]
n=0
for idx,(l,dg) in enumerate(zip(lines,diag)):
    if dg!=want: continue
    it=parse(l.split()[1:])
    print('== case',idx,'result',cases[idx]['result'],'entry',cases[idx]['entry'],'debug',cases[idx]['debug'],'fork',cases[idx]['fork'],'jp',cases[idx]['jp'],'gas',cases[idx]['gas'])
    print('   toplevel',[len(x) if isinstance(x,list) else x for x in it])
    def chk(scr,depth=0):
        for a in scr:
            code=a[0]
            exp={'n:0':5,'n:1':10,'n:2':10,'n:3':7,'n:4':7}
            if len(a)!=exp.get(code,-1): print('   bad action',code,len(a),str(a)[:200])
            if code in('n:1','n:2'): chk(a[9],depth+1)
    if len(it)>6: chk(it[6])
    if len(sys.argv)>3:
        print('   entry',it[5][:3],it[5][4:])
        def show(scr,ind):
            for a in scr:
                print('   '+' '*ind, [x if not isinstance(x,list) or len(str(x))<60 else '[..]' for x in a][:9])
                if a[0] in('n:1','n:2'): show(a[9],ind+2)
        show(it[6],0)
        print('   obs result',it[7][0])
        for e in it[7][1]: print('     ev',[x if not isinstance(x,list) or len(str(x))<80 else '[..]' for x in e])
    n+=1
    if n>=int(sys.argv[4]) if len(sys.argv)>4 else n>=3: break
