#!/usr/bin/env python3
"""debug helper: run vh calltracer + modelrun and summarise"""
import json,subprocess,sys
from collections import Counter
n=sys.argv[1] if len(sys.argv)>1 else '400'; seed=sys.argv[2] if len(sys.argv)>2 else '3'
subprocess.run(['/verif/.work/bin/vh','calltracer','--n',n,'--seed',seed,'--out','/verif/.work/ct']+sys.argv[3:],check=True)
cases=json.load(open('/verif/.work/ct/cases.json'))
bad=[c for c in cases if c.get('oracle_fail')]
print(len(cases),'cases',len(bad),'oracle failures')
for c in bad[:4]: print(c)
lines=open('/verif/.work/ct/cases.txt').read().splitlines()
out=subprocess.run(['/verif/.work/bin/modelrun'],input="\n".join(lines)+"\n",capture_output=True,text=True)
res=out.stdout.split()
print(Counter(res), out.stderr[:300])
badm=[i for i,l in enumerate(res) if l!='1']
print(badm[:10])
for i in badm[:3]: print(cases[i])
