#!/bin/sh
# offline setup: build harness + full Coq build
cd "$(dirname "$0")" && exec python3 ./check --setup
