"""Driver logic for ./check (stdlib only)."""
import fcntl, hashlib, json, os, re, subprocess, sys, time

ROOT = os.path.dirname(os.path.dirname(os.path.abspath(__file__)))
WORK = os.path.join(ROOT, ".work")
COQ = os.path.join(ROOT, "coq")
HARNESS = os.path.join(ROOT, "harness")
BIN = os.path.join(WORK, "bin")
VH = os.path.join(BIN, "vh")
MODELRUN = os.path.join(BIN, "modelrun")
REPO = "/repo"
KNOWN = os.path.join(ROOT, "known-findings.txt")

GOENV = dict(os.environ, GOFLAGS="-mod=mod", GOPROXY="off", GOSUMDB="off", GOTOOLCHAIN="local",
             CGO_ENABLED="1")


def sh(cmd, timeout=1800, cwd=None, env=None, stdin=None):
    """run a command, return (rc, combined output)"""
    try:
        p = subprocess.run(cmd, shell=isinstance(cmd, str), cwd=cwd, env=env, input=stdin,
                           stdout=subprocess.PIPE, stderr=subprocess.STDOUT, timeout=timeout, text=True)
        return p.returncode, p.stdout
    except subprocess.TimeoutExpired as e:
        out = e.stdout if isinstance(e.stdout, str) else (e.stdout or b"").decode(errors="replace")
        return 124, (out or "") + "\n[timeout after %ss]" % timeout


class Lock:
    def __enter__(self):
        os.makedirs(WORK, exist_ok=True)
        self.f = open(os.path.join(WORK, "lock"), "w")
        fcntl.flock(self.f, fcntl.LOCK_EX)
        return self

    def __exit__(self, *a):
        fcntl.flock(self.f, fcntl.LOCK_UN)
        self.f.close()


def log(msg):
    print("[check] " + msg, flush=True)


# ----------------------------------------------------------------------------- builds

def build_harness():
    os.makedirs(BIN, exist_ok=True)
    sumsrc = os.path.join(REPO, "go.sum")
    if os.path.exists(sumsrc):
        with open(sumsrc) as f, open(os.path.join(HARNESS, "go.sum"), "w") as g:
            g.write(f.read())
    rc, out = sh(["go", "build", "-tags", "verif", "-o", VH, "./cmd/vh"], cwd=HARNESS, env=GOENV, timeout=1500)
    return rc == 0, out


VH_RACE = os.path.join(BIN, "vh-race")


def build_harness_race():
    """the same harness with the Go race detector (first build ~2 min, later builds are incremental)"""
    rc, out = sh(["go", "build", "-race", "-tags", "verif", "-o", VH_RACE, "./cmd/vh"], cwd=HARNESS, env=GOENV, timeout=3000)
    return rc == 0, out


def coq_makefile():
    mk = os.path.join(COQ, "Makefile")
    cp = os.path.join(COQ, "_CoqProject")
    if (not os.path.exists(mk)) or os.path.getmtime(mk) < os.path.getmtime(cp):
        rc, out = sh("coq_makefile -f _CoqProject -o Makefile", cwd=COQ)
        if rc != 0:
            raise RuntimeError("coq_makefile failed: " + out)


def coq_make(targets=None, timeout=3000):
    coq_makefile()
    cmd = ["make", "-j16"] + (targets or [])
    return sh(cmd, cwd=COQ, timeout=timeout)


def newest_vo():
    t = 0
    for d in ("Base", "Model", "Corr", "Gen"):
        dd = os.path.join(COQ, d)
        if not os.path.isdir(dd):
            continue
        for f in os.listdir(dd):
            if f.endswith(".vo"):
                t = max(t, os.path.getmtime(os.path.join(dd, f)))
    for f in ("Extract/Extract.v", "Extract/driver.ml"):
        t = max(t, os.path.getmtime(os.path.join(COQ, f)))
    return t


def build_modelrun(force=False):
    """extract the checkers and compile the OCaml driver (only when something changed)"""
    if not force and os.path.exists(MODELRUN) and os.path.getmtime(MODELRUN) >= newest_vo():
        return True, "up to date"
    d = os.path.join(WORK, "extract")
    os.makedirs(d, exist_ok=True)
    rc, out = sh(["coqc", "-Q", COQ, "Verif", os.path.join(COQ, "Extract", "Extract.v")], cwd=d, timeout=900)
    if rc != 0:
        return False, out
    for f in ("Extract.vo", "Extract.glob", "Extract.vok", "Extract.vos", ".Extract.aux"):
        p = os.path.join(COQ, "Extract", f)
        if os.path.exists(p):
            os.remove(p)
    with open(os.path.join(COQ, "Extract", "driver.ml")) as f, open(os.path.join(d, "driver.ml"), "w") as g:
        g.write(f.read())
    rc, out2 = sh("ocamlfind ocamlopt -w -a modelrun_core.mli modelrun_core.ml driver.ml -o %s" % MODELRUN, cwd=d, timeout=900)
    return rc == 0, out + out2


# ----------------------------------------------------------------------------- known findings

def load_known():
    """lines `finding: property=Cxx tag=<tag> <text>`"""
    res = []
    if os.path.exists(KNOWN):
        for line in open(KNOWN):
            line = line.strip()
            m = re.match(r"finding:\s+property=(\S+)\s+tag=(\S+)\s+(.*)", line)
            if m:
                res.append({"property": m.group(1), "tag": m.group(2), "text": m.group(3)})
    return res


# ----------------------------------------------------------------------------- correspondence runs

def _modelrun_chunk(chunk):
    rc, out = sh([MODELRUN], stdin="\n".join(chunk) + "\n", timeout=6000)
    if rc != 0:
        raise RuntimeError("modelrun failed rc=%s: %s" % (rc, out[-300:]))
    res = out.split()
    if len(res) != len(chunk):
        raise RuntimeError("modelrun answered %d lines for %d cases" % (len(res), len(chunk)))
    return res


def run_modelrun(lines):
    """evaluate the extracted checker on every case line; large sets are split over the cores"""
    if len(lines) < 400:
        return _modelrun_chunk(lines)
    from concurrent.futures import ThreadPoolExecutor
    n = 16
    size = (len(lines) + n - 1) // n
    chunks = [lines[i:i + size] for i in range(0, len(lines), size)]
    with ThreadPoolExecutor(max_workers=n) as ex:
        parts = list(ex.map(_modelrun_chunk, chunks))
    return [v for p in parts for v in p]


class Ctx:
    """state of one check run"""

    def __init__(self, prop, tier, seed):
        self.prop, self.tier, self.seed = prop, tier, seed
        self.t0 = time.time()
        self.violations = []      # (replay path, text)
        self.known_hits = {}      # tag -> text
        self.evaluations = 0
        self.distinct = set()
        self.samples = []
        self.stats = {}
        self.obligations = []     # dicts name/status/assumptions
        self.notes = []
        self.known = [k for k in load_known() if k["property"] == prop]
        self.workdir = os.path.join(WORK, prop)
        os.makedirs(self.workdir, exist_ok=True)
        self.replaydir = os.path.join(WORK, "replay")
        os.makedirs(self.replaydir, exist_ok=True)

    def violation(self, name, payload, found_input=True):
        path = os.path.join(self.replaydir, "%s_%s_%d.json" % (self.prop, name, len(self.violations)))
        payload = dict(payload, property=self.prop, tier=self.tier, seed=self.seed,
                       replay_cmd="./check %s --replay %s" % (self.prop, path))
        with open(path, "w") as f:
            json.dump(payload, f, indent=1)
        line = "VIOLATION property=%s replay=%s" % (self.prop, path)
        if not found_input:
            line += " no-failing-input-found"
        self.violations.append((path, line))
        print(line, flush=True)

    def known_finding(self, tag, what):
        if tag not in self.known_hits:
            self.known_hits[tag] = what
            print("KNOWN-FINDING: property=%s %s %s" % (self.prop, tag, what), flush=True)

    def is_known(self, tag):
        return any(k["tag"] == tag for k in self.known)


def corr_run(ctx, name, vh_args, component_desc, nontrivial=lambda c: True, spec_component=None, spec_tags=None, has_oracle=False, max_samples=3,
             oracle_prefix=None, diag_component=None, diag_mask=None, oracle_exclude=None):
    """run a harness sub-command that writes cases.txt/cases.json(/spec.txt), evaluate the model on
    every case and report differences.

    cases.txt lines start with the component; modelrun answers 1/0/E for "model == implementation".
    If spec_component is given, the same lines are evaluated again under that component name and modelrun
    answers for each case a number: 1 = the observation satisfies the property's executable
    specification, 0 = it does not, k>=2 = it fails in the way of known-finding class k.
    """
    out = os.path.join(ctx.workdir, name)
    os.makedirs(out, exist_ok=True)
    for f in ("cases.txt", "cases.json", "spec.txt", "stats.json"):
        p = os.path.join(out, f)
        if os.path.exists(p):
            os.remove(p)
    cmd = [VH] + vh_args + ["--seed", str(ctx.seed), "--tier", ctx.tier, "--out", out]
    rc, o = sh(cmd, timeout=6000, env=GOENV)
    if rc != 0:
        # the harness links the implementation: a fatal error there (out of memory, runtime throw, deadlock,
        # timeout) kills the harness process.  That is an observation about the implementation, not a check error.
        ctx.violation(name + "_died", {"kind": "the harness process running the implementation died (fatal error, not a recoverable panic) or timed out",
                                      "broken": "correspondence %s (%s) could not be completed" % (name, component_desc),
                                      "run": name, "vh_args": vh_args, "rc": rc, "output_tail": o[-3000:]}, found_input=False)
        ctx.notes.append("%s: harness died rc=%s" % (name, rc))
        return {"cases": 0, "mismatches": [], "specbad": []}
    lines = [l for l in open(os.path.join(out, "cases.txt")).read().split("\n") if l.strip()]
    cases = json.load(open(os.path.join(out, "cases.json")))
    if len(cases) != len(lines):
        raise RuntimeError("%s: %d cases but %d lines" % (name, len(cases), len(lines)))
    verdicts = run_modelrun(lines)
    if ctx.tier == "thorough":
        coq_reeval(ctx, name, lines, verdicts)
    specv = None
    if spec_component:
        specv = run_modelrun([spec_component + " " + l.split(" ", 1)[1] for l in lines])
    stats_p = os.path.join(out, "stats.json")
    if os.path.exists(stats_p):
        ctx.stats[name] = json.load(open(stats_p))
    ctx.evaluations += len(lines)
    for c, l in zip(cases, lines):
        if nontrivial(c):
            ctx.distinct.add(hashlib.sha1(l.encode()).hexdigest())
    for c in cases[:max_samples]:
        ctx.samples.append({"run": name, "case": c})
    mism = [i for i, v in enumerate(verdicts) if v != "1"]
    specbad = []
    if specv is not None:
        for i, v in enumerate(specv):
            if v == "1":
                continue
            tag = (spec_tags or {}).get(v)
            if tag and ctx.is_known(tag):
                ctx.known_finding(tag, "(e.g. case %d of run %s: %s)" % (i, name, json.dumps(cases[i])[:300]))
                continue
            specbad.append(i)
    # property oracle evaluated by the harness itself on the implementation's answers
    for i, c in enumerate(cases):
        of = c.get("oracle_fail") or []
        if oracle_prefix:
            of = [o for o in of if o.startswith(oracle_prefix) or o.startswith("Go panic")]
        if oracle_exclude:
            of = [o for o in of if not o.startswith(oracle_exclude)]
        if of and i not in specbad:
            specbad.append(i)
    # a model/implementation difference concerns this property only when it shows in the observables the
    # property speaks about (bit mask over: 1 result, 2 event stream, 4 world state, 8 tracer queries)
    if diag_component and diag_mask is not None and mism:
        dv = run_modelrun([diag_component + " " + lines[i].split(" ", 1)[1] for i in mism])
        keep = []
        for i, v in zip(mism, dv):
            try:
                bits = (int(v) // 1000000) - 16
            except ValueError:
                bits = 15
            if v == "E" or bits & diag_mask:
                keep.append(i)
        ctx.notes.append("%s: %d model/impl differences, %d in this property's observables" % (name, len(mism), len(keep)))
        mism = keep
    reported = 0
    # 1. the implementation's observation violates the executable specification: concrete failing input
    for i in specbad[:5]:
        ctx.violation(name + "_spec", {"kind": "specification violated by the implementation on this input",
                                      "run": name, "vh_args": vh_args, "index": i, "case": cases[i], "line": lines[i],
                                      "spec_verdict": (specv[i] if specv else None), "oracle_fail": cases[i].get("oracle_fail"),
                                      "model_verdict": verdicts[i]})
        reported += 1
    # 2. model and implementation differ although the spec oracle is satisfied (or there is none)
    rest = [i for i in mism if i not in set(specbad)]
    if rest and not reported:
        i = rest[0]
        found = specv is None and not has_oracle  # without a separate spec oracle the differing case is itself the failing input
        ctx.violation(name + "_corr", {"kind": "correspondence broken: model and implementation differ on this case",
                                      "broken": "correspondence %s (%s)" % (name, component_desc),
                                      "run": name, "vh_args": vh_args, "index": i, "case": cases[i], "line": lines[i],
                                      "model_verdict": verdicts[i], "spec_verdict": (specv[i] if specv else None),
                                      "other_mismatches": rest[1:20]}, found_input=found)
    ctx.notes.append("%s: %d cases, %d model/impl differences, %d spec failures" % (name, len(lines), len(mism), len(specbad)))
    return {"cases": len(lines), "mismatches": mism, "specbad": specbad}


COQ_CHECKERS = {"PC": ("Corr.PrecompileCorr", "pc_check_items"), "TH": ("Corr.TracerCorr", "th_check_items"), "JO": ("Corr.JournalCorr", "jo_check_items"),
                "EX": ("Corr.ExecCorr", "ex_check_items"), "MC": ("Corr.MemCorr", "mc_check_items"), "TR": ("Corr.CallTracerCorr", "tr_check_items"),
                "CN": ("Corr.CancelCorr", "cn_check_items"), "CG": ("Corr.CallGasCorr", "cg_check_items"),
                "JD": ("Corr.JumpDestCorr", "jd_check_items"), "MG": ("Corr.ModExpCorr", "mg_check_items"), "MS": ("Corr.MemSizeCorr", "ms_check_items"),
                "SS": ("Corr.SStoreCorr", "ss_check_items")}


def items_to_coq(toks):
    """case-line tokens -> Coq term of type list item"""
    out, stack = [], [[]]
    for t in toks:
        if t == "[":
            stack.append([])
        elif t == "]":
            inner = stack.pop()
            stack[-1].append("IL [" + "; ".join(inner) + "]")
        elif t.startswith("n:"):
            stack[-1].append("IN 0x%s" % (t[2:] or "0"))
        elif t.startswith("b:"):
            h = t[2:]
            stack[-1].append("IB [" + "; ".join("0x" + h[i:i + 2] for i in range(0, len(h), 2)) + "]")
        else:
            raise ValueError("bad token " + t)
    return "[" + "; ".join(stack[0]) + "]"


def coq_reeval(ctx, name, lines, verdicts, sample=24, max_len=6000):
    """thorough tier: evaluate a sample of the very same case lines INSIDE Coq (vm_compute on the Corr checker) and compare with
    what the extracted OCaml program answered — guards extraction, the OCaml compiler and Extract/driver.ml."""
    idx = [i for i, l in enumerate(lines) if len(l) <= max_len and l.split(" ", 1)[0] in COQ_CHECKERS]
    idx = sorted(idx, key=lambda i: -len(lines[i]))[:sample // 2] + idx[:sample // 2]
    idx = sorted(set(idx))
    if not idx:
        return
    d = os.path.join(WORK, "reeval")
    os.makedirs(d, exist_ok=True)
    comp = lines[idx[0]].split(" ", 1)[0]
    mod, fn = COQ_CHECKERS[comp]
    src = ["From Verif Require Import Base.Bytes Corr.Items %s." % mod, "Open Scope N_scope."]
    for k, i in enumerate(idx):
        src.append("Definition c%d : list item := %s." % (k, items_to_coq(lines[i].split()[1:])))
    src.append("Definition verdicts := Eval vm_compute in [%s]." % "; ".join("%s c%d" % (fn, k) for k in range(len(idx))))
    src.append("Print verdicts.")
    path = os.path.join(d, "Reeval_%s.v" % name)
    open(path, "w").write("\n".join(src) + "\n")
    t0 = time.time()
    rc, out = sh(["coqc", "-Q", COQ, "Verif", path], cwd=d, timeout=1800)
    if rc != 0:
        ctx.notes.append("%s: in-Coq re-evaluation could not be compiled: %s" % (name, out[-300:]))
        ctx.violation(name + "_reeval", {"kind": "in-Coq re-evaluation of sampled cases failed to compile", "output_tail": out[-2000:]}, found_input=False)
        return
    got = re.findall(r"Some true|Some false|None", out[out.find("verdicts ="):])
    want = {"1": "Some true", "0": "Some false", "E": "None"}
    diff = [idx[k] for k in range(min(len(got), len(idx))) if want.get(verdicts[idx[k]]) != got[k]]
    ctx.notes.append("%s: %d sampled case lines re-evaluated inside Coq with vm_compute in %.0f s: %d disagree with the extracted program" % (name, len(idx), time.time() - t0, len(diff)))
    if diff or len(got) != len(idx):
        ctx.violation(name + "_reeval", {"kind": "the extracted OCaml checker and vm_compute inside Coq disagree on a case line (extraction / driver problem)",
                                        "run": name, "lines": diff[:5], "coq_answers": got[:40]}, found_input=False)


def ref_run(ctx, name, vh_args, desc, nontrivial=lambda c: True, max_samples=3, report_max=3, oracle_prefix=None):
    """run a harness sub-command that compares the implementation with a reference (another implementation or an
    executable oracle) by itself and lists the differences per case in cases.json (`oracle_fail`)."""
    out = os.path.join(ctx.workdir, name)
    os.makedirs(out, exist_ok=True)
    for f in ("cases.json", "stats.json"):
        p = os.path.join(out, f)
        if os.path.exists(p):
            os.remove(p)
    cmd = [VH] + vh_args + ["--seed", str(ctx.seed), "--tier", ctx.tier, "--out", out]
    rc, o = sh(cmd, timeout=6000, env=GOENV)
    if rc != 0:
        ctx.violation(name + "_died", {"kind": "the harness process running the implementation died (fatal error, not a recoverable panic) or timed out",
                                      "broken": "reference comparison %s (%s) could not be completed" % (name, desc),
                                      "run": name, "vh_args": vh_args, "rc": rc, "output_tail": o[-3000:]}, found_input=False)
        return {"cases": 0, "bad": []}
    cases = json.load(open(os.path.join(out, "cases.json")))
    stats_p = os.path.join(out, "stats.json")
    if os.path.exists(stats_p):
        ctx.stats[name] = json.load(open(stats_p))
    ran = [c for c in cases if not c.get("skipped")]
    ctx.evaluations += len(ran)
    for c in ran:
        if nontrivial(c):
            key = json.dumps({k: v for k, v in c.items() if k not in ("idx", "artela", "upstream", "oracle_fail")}, sort_keys=True)
            ctx.distinct.add(hashlib.sha1(key.encode()).hexdigest())
    for c in ran[:max_samples]:
        ctx.samples.append({"run": name, "case": {k: v for k, v in c.items() if k not in ("artela", "upstream")}})
    bad = []
    for c in ran:
        of = c.get("oracle_fail") or []
        if oracle_prefix:
            of = [o for o in of if o.startswith(oracle_prefix) or o.startswith("Go panic")]
        if not of:
            continue
        tags = c.get("known_tags") or []
        if tags and all(ctx.is_known(t) for t in tags):
            for t in tags:
                ctx.known_finding(t, "(e.g. %s)" % json.dumps({k: v for k, v in c.items() if k not in ("artela", "upstream")})[:400])
            continue
        bad.append(c)
    for c in bad[:report_max]:
        ctx.violation(name, {"kind": "the implementation differs from the reference / violates the property oracle on this input",
                             "run": name, "vh_args": vh_args, "index": c.get("idx"), "case": c})
    ctx.notes.append("%s: %d cases (%d skipped), %d with differences" % (name, len(ran), len(cases) - len(ran), len(bad)))
    return {"cases": len(ran), "bad": bad}


# ----------------------------------------------------------------------------- proofs

def prop_theorems(prop):
    p = os.path.join(COQ, "Props", prop + ".v")
    txt = open(p).read()
    return re.findall(r"^\s*(?:Theorem|Corollary)\s+(\w+)", txt, re.M)


def check_proofs(ctx, extra_targets=None):
    """build the property's cone with make, then re-run coqc on Props/<id>.v to capture the
    Print Assumptions output of every theorem."""
    prop = ctx.prop
    targets = ["Props/%s.vo" % prop] + (extra_targets or [])
    # the correspondence evaluators are extracted from Corr/*.vo: keep them in step with the models
    targets += sorted("Corr/" + f[:-2] + ".vo" for f in os.listdir(os.path.join(COQ, "Corr")) if f.endswith(".v"))
    rc, out = coq_make(targets)
    names = prop_theorems(prop)
    if rc != 0:
        for n in names:
            ctx.obligations.append({"name": n, "status": "not checked (cone failed to build)"})
        m = re.findall(r'File "([^"]+)", line (\d+)', out)
        return False, out, (m[-1] if m else None)
    rc2, out2 = sh(["coqc", "-Q", ".", "Verif", "Props/%s.v" % prop], cwd=COQ, timeout=900)
    if rc2 != 0:
        return False, out2, None
    # parse Print Assumptions blocks in order
    blocks = re.split(r"(?=Closed under the global context|Axioms:)", out2)
    ass = []
    for b in blocks:
        if b.startswith("Closed under"):
            ass.append("closed under the global context")
        elif b.startswith("Axioms:"):
            ass.append(" ".join(b.split()))
    for i, n in enumerate(names):
        ctx.obligations.append({"name": n, "status": "Qed", "assumptions": ass[i] if i < len(ass) else "?"})
    if ctx.tier == "thorough":
        ok3, out3 = thorough_proof_audit(ctx)
        if not ok3:
            return False, out3, None
    return True, out2, None


FORBIDDEN = (r"^\s*(?:#\[[^\]]*\]\s*)?(?:Local\s+|Global\s+|Polymorphic\s+)?(Axiom|Axioms|Parameter|Parameters|Conjecture|Conjectures|Hypothesis|Hypotheses|Variable|Variables)\b"
             r"|\b(Admitted|admit|give_up)\b|Unset\s+Guard|Unset\s+Positivity|Unset\s+Universe|bypass_check|type-in-type|impredicative-set|native_compute|Admit\s+Obligations")


def strip_comments(txt):
    out, depth, i = [], 0, 0
    while i < len(txt):
        if txt.startswith("(*", i):
            depth += 1; i += 2
        elif txt.startswith("*)", i) and depth:
            depth -= 1; i += 2
        else:
            if not depth:
                out.append(txt[i])
            i += 1
    return "".join(out)


def thorough_proof_audit(ctx):
    """thorough tier: (1) no forbidden declaration or switch anywhere in the development (Variable/Hypothesis are allowed only
    inside a Section), (2) the independent checker coqchk re-checks the property's compiled cone and lists its axioms."""
    bad = []
    for root, _, files in os.walk(COQ):
        for f in files:
            if not f.endswith(".v"):
                continue
            p = os.path.join(root, f)
            txt = re.sub(r'"[^"]*"', '""', strip_comments(open(p).read()))
            depth = 0
            for ln, line in enumerate(txt.split("\n"), 1):
                if re.match(r"\s*Section\b", line):
                    depth += 1
                if re.match(r"\s*End\b", line) and depth:
                    depth -= 1
                for m in re.finditer(FORBIDDEN, line):
                    w = m.group(0).strip()
                    if m.group(1) in ("Hypothesis", "Hypotheses", "Variable", "Variables") and depth > 0:
                        continue
                    bad.append("%s:%d: %s" % (os.path.relpath(p, COQ), ln, w))
    flags = open(os.path.join(COQ, "_CoqProject")).read()
    for w in ("-type-in-type", "-impredicative-set", "-native-compiler yes"):
        if w in flags:
            bad.append("_CoqProject: " + w)
    if bad:
        ctx.notes.append("audit: forbidden declarations/switches: " + "; ".join(bad[:10]))
        return False, "forbidden declarations or switches in the development:\n" + "\n".join(bad)
    t0 = time.time()
    rc, out = sh(["coqchk", "-silent", "-o", "-Q", ".", "Verif", "Verif.Props.%s" % ctx.prop], cwd=COQ, timeout=3000)
    summary = out[out.find("CONTEXT SUMMARY"):] if "CONTEXT SUMMARY" in out else out[-800:]
    axioms = re.search(r"\* Axioms:(.*?)\n\s*\n", summary + "\n\n", re.S)
    ctx.notes.append("coqchk -silent -o Verif.Props.%s: rc=%d in %.0f s; axioms: %s" % (ctx.prop, rc, time.time() - t0, " ".join((axioms.group(1) if axioms else "?").split())))
    ctx.notes.append("audit: %d .v files scanned for Admitted/admit/Axiom/Parameter/Conjecture/unset checks/native_compute and Variable/Hypothesis outside sections: none" % sum(len([f for f in fs if f.endswith(".v")]) for _, _, fs in os.walk(COQ)))
    if rc != 0 or "<none>" not in (axioms.group(1) if axioms else ""):
        return False, "coqchk failed or reports axioms:\n" + summary
    return True, summary


# ----------------------------------------------------------------------------- evidence

TRUSTED_COMMON = [
    "Coq 8.16.1 kernel (coqc, full .vo build; vm_compute used for finite-table theorems and Examples; no native_compute)",
    "no axioms declared by this development; Print Assumptions output per theorem is listed under coverage.theorems",
    "extraction: ExtrOcamlBasic only (Extract Inductive bool/option/unit/list/prod/sumbool/sumor, Extract Inlined Constant fst snd andb orb negb); no Extract Constant of our own; OCaml 4.13.1 ocamlopt; Extract/driver.ml line parser",
    "correspondence harness (Go, /verif/harness): generators, canonicalisation, fake Aspect provider/runtime, host callbacks",
]


def write_evidence(ctx, spec, ok):
    names = ctx.obligations
    ev = {
        "property_id": ctx.prop,
        "tier": ctx.tier,
        "seed": ctx.seed,
        "level": "proof",
        "coverage": {
            "obligations": len(names),
            "discharged": sum(1 for o in names if o.get("status") == "Qed"),
            "checker_cmd": ("make -C coq -j16 Props/%s.vo && coqc -Q coq Verif coq/Props/%s.v (Print Assumptions)" % (ctx.prop, ctx.prop)) + ("; thorough: keyword audit of all .v files + coqchk -silent -o -Q coq Verif Verif.Props.%s" % ctx.prop if ctx.tier == "thorough" else ""),
            "trusted_base": TRUSTED_COMMON + spec.get("trusted", []),
            "theorems": names,
            "evaluations": ctx.evaluations,
            "distinct_nontrivial": len(ctx.distinct),
            "rule": spec.get("rule", ""),
            "samples": ctx.samples[:8] if ctx.samples else [{"theorem": o} for o in names[:3]],
            "input_distribution": ctx.stats,
            "notes": ctx.notes,
            "known_findings_seen": ctx.known_hits,
            "modelled_not_verified": spec.get("modelled", []),
        },
        "assumptions": spec.get("assumptions", []),
        "wall_s": round(time.time() - ctx.t0, 2),
        "violations": len(ctx.violations),
    }
    os.makedirs(os.path.join(ROOT, "evidence"), exist_ok=True)
    with open(os.path.join(ROOT, "evidence", ctx.prop + ".json"), "w") as f:
        json.dump(ev, f, indent=1)


# ----------------------------------------------------------------------------- main

def setup():
    with Lock():
        log("building harness")
        ok, out = build_harness()
        if not ok:
            print(out)
            return 3
        log("building harness with the race detector")
        ok, out = build_harness_race()
        if not ok:
            print(out)
            return 3
        import props
        props.gen_all()
        log("building Coq development (full)")
        rc, out = coq_make()
        if rc != 0:
            print(out[-6000:])
            return 3
        log("extracting model and compiling modelrun")
        ok, out = build_modelrun(force=True)
        if not ok:
            print(out[-6000:])
            return 3
    log("setup done")
    return 0


def main(argv):
    if argv and argv[0] == "--setup":
        return setup()
    if not argv:
        print(__doc__)
        return 2
    prop = argv[0]
    tier = os.environ.get("VERIF_TIER", "quick")
    replay = None
    i = 1
    while i < len(argv):
        if argv[i] == "--tier":
            tier = argv[i + 1]; i += 2
        elif argv[i] == "--replay":
            replay = argv[i + 1]; i += 2
        else:
            print("unknown argument", argv[i]); return 2
    seed = int(os.environ.get("VERIF_SEED", "1"))
    import props
    if prop not in props.PROPS:
        print("unknown property", prop)
        return 2
    spec = props.PROPS[prop]
    if replay:
        r = json.load(open(replay))
        seed, tier = r.get("seed", seed), r.get("tier", tier)
    ctx = Ctx(prop, tier, seed)
    with Lock():
        ok, out = build_harness()
        if not ok:
            print(out[-6000:])
            print("[check] /repo does not build with the harness; nothing checked")
            return 3
        props.gen_all()
        pok, pout, where = check_proofs(ctx, spec.get("coq_targets"))
        mok, mout = build_modelrun() if pok else (False, "skipped")
        if pok and not mok:
            print(mout[-4000:])
            return 3
        if pok:
            spec["run"](ctx)
        else:
            log("proof cone of %s failed to build:\n%s" % (prop, pout[-3000:]))
            # a proof obligation no longer checks: search for a concrete failing input
            if mok or os.path.exists(MODELRUN):
                try:
                    spec["run"](ctx)
                except Exception as e:  # the model itself may be broken
                    ctx.notes.append("search failed: %r" % (e,))
            if not ctx.violations:
                ctx.violation("proof", {"kind": "proof obligation broken",
                                        "broken": "theorem cone of Props/%s.v no longer compiles" % prop,
                                        "where": where, "log_tail": pout[-3000:]}, found_input=False)
        write_evidence(ctx, spec, not ctx.violations)
    if replay:
        log("replay of %s: %s" % (replay, "violation reproduced" if ctx.violations else "not reproduced"))
    return 1 if ctx.violations else 0
