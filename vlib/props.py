"""Per-property configuration: what is proved, which correspondences run, what is trusted."""
import os
import driver
from driver import corr_run, ref_run


_UPSTREAM = None


def upstream_dir():
    """go-ethereum v1.12.0 as resolved by /repo's go.mod (module cache; nothing is fetched)"""
    global _UPSTREAM
    if _UPSTREAM is None:
        rc, out = driver.sh(["go", "list", "-m", "-f", "{{.Dir}}", "github.com/ethereum/go-ethereum"], cwd=driver.REPO, env=driver.GOENV)
        if rc != 0:
            raise RuntimeError("cannot locate go-ethereum module: " + out)
        _UPSTREAM = out.strip().split("\n")[-1]
    return _UPSTREAM


def gen_all():
    """T-gen: regenerate coq/Gen/Digests.v and coq/Gen/Tables.v from /repo's current source and from the
    live instruction tables of the freshly built harness (files are rewritten only when their content changes)"""
    rc, out = driver.sh([driver.VH, "gen", "--out", os.path.join(driver.COQ, "Gen"), "--upstream", upstream_dir()], env=driver.GOENV, timeout=600)
    if rc != 0:
        raise RuntimeError("vh gen failed: " + out[-3000:])
    return True


def n_cases(ctx, quick, thorough):
    return str(thorough if ctx.tier == "thorough" else quick)


# ------------------------------------------------------------------ C14

def run_C14(ctx):
    corr_run(ctx, "abi", ["abi", "--n", n_cases(ctx, 3000, 200000)],
             "Model/Precompile.v call_artela vs EVM.Call/CallCode/DelegateCall/StaticCall to 0x64-0x66",
             nontrivial=lambda c: len(c["input"]) > 0,
             spec_component="PCS", spec_tags={"11": "F11"})


def run_C09(ctx):
    corr_run(ctx, "journal", ["journal", "--n", n_cases(ctx, 2500, 150000)],
             "Model/Tracer.v jop (journal instructions 0xe0-0xe7) vs single-frame programs on the real EVM",
             nontrivial=lambda c: len(c.get("steps") or []) > 1, has_oracle=True)


def run_C11(ctx):
    corr_run(ctx, "tracerhist", ["tracerhist", "--n", n_cases(ctx, 2000, 100000)],
             "Model/KeyTree.v + CallTree.v vs vm.Tracer exported API (SaveStateKey/SaveStateChange/SaveCall/ExitCall/TransferWithRecord and every query)",
             nontrivial=lambda c: c["registrations"] >= 2, has_oracle=True, oracle_exclude="C16")


def run_C07(ctx):
    corr_run(ctx, "tracerhist", ["tracerhist", "--n", n_cases(ctx, 1500, 60000)],
             "Model/CallTree.v vs vm.Tracer SaveCall/ExitCall + CallTree accessors (Root/Current/FindCall/ParentOf/ChildrenOf)",
             nontrivial=lambda c: c["calls"] >= 2, has_oracle=True, oracle_exclude="C16")
    ref_run(ctx, "depthlimit", ["fuzzcrash", "--class", "depth-limit", "--n", n_cases(ctx, 150, 3000)],
            "self-recursive frames (all four call kinds, all forks) reaching the call depth limit, then CREATE/CREATE2/CALL refused in the deepest frames: "
            "tree accessors checked against each other, no call left open, a follow-up top-level call is a new parentless node",
            nontrivial=lambda c: c.get("steps", 0) >= 2000, oracle_prefix="C07")
    _exec_run_late(ctx, "C07", 8, 500, 10000)


def run_C01(ctx):
    ref_run(ctx, "corectx", ["corectx", "--n", n_cases(ctx, 300, 10000)],
            "package core: block context from a header, BLOCKHASH lookup through header chains (gaps, probes in any order, lookups counted), transaction context and the message view "
            "handed to Aspects, against go-ethereum v1.12.0's core on the same headers and messages", oracle_prefix="C01")
    corr_run(ctx, "jumpdest", ["jumpdest", "--n", n_cases(ctx, 40, 500)],
             "Model/JumpDest.v (the byte-level bit-vector analysis) vs the JUMP instruction: codes dense in PUSH opcodes of every width and JUMPDEST bytes, truncated pushes at the end; "
             "every destination 0..len+40 and huge words", nontrivial=lambda c: c.get("byte_is_jumpdest", False))
    corr_run(ctx, "memsize", ["memsize", "--n", n_cases(ctx, 150, 2500)],
             "Model/MemSize.v (which operands name a memory region, calcMemSize64, rounding to words) vs the memory length successive instructions of a frame see, "
             "generated executions on all 13 rule sets + memory-walk programs", nontrivial=lambda c: c.get("memory_after", 0) > c.get("memory_before", 0), has_oracle=True, oracle_prefix="C01")
    ref_run(ctx, "diffref", ["diffref", "--n", n_cases(ctx, 700, 15000)],
            "artela-evm vm vs go-ethereum v1.12.0 core/vm on generated programs (results, post-state root, logs, refund, self-destructs, debug events)",
            nontrivial=lambda c: c.get("steps", 0) >= 5)
    execref_run(ctx)
    precomp_run(ctx, "C01")


def precomp_run(ctx, prefix):
    ref_run(ctx, "precompdiff", ["precompdiff", "--n", n_cases(ctx, 200, 4000)],
            "standard precompiles 0x01-0x09 of all four historical tables vs go-ethereum v1.12.0: RequiredGas on boundary-length inputs and on MODEXP headers sweeping powers of two "
            "(incl. the 64-bit clamp region of the EIP-2565 price), results when the fee is payable",
            oracle_prefix=prefix)


def execref_run(ctx, quick=600, thorough=15000):
    corr_run(ctx, "execref", ["execref", "--n", n_cases(ctx, quick, thorough)],
             "Model/Exec.v frame logic with the Artela additions OFF (artela = false; recorded-script instance) vs go-ethereum v1.12.0's own EVM.Call/CallCode/DelegateCall/"
             "StaticCall/Create/Create2 on generated standard programs: results, gas, complete debug event stream, world state (the reference side of the refinement theorem additions_invisible)",
             nontrivial=lambda c: c.get("frames", 0) >= 2)


def run_C02(ctx):
    corr_run(ctx, "callgas", ["callgas", "--n", n_cases(ctx, 700, 20000)],
             "Model/CallGas.v (forwarded gas = min(request, all but one 64th of what is left) from EIP-150, the request before; callee gas = forwarded + stipend) vs every "
             "CALL/CALLCODE/DELEGATECALL/STATICCALL instruction of generated executions on all 13 rule sets (gas before, total charge, 256-bit request, evm.callGasTemp, gas the callee frame is announced with)",
             nontrivial=lambda c: True, has_oracle=True, oracle_prefix="C02")
    corr_run(ctx, "sstoregas", ["sstoregas", "--n", n_cases(ctx, 250, 8000)],
             "Model/SStore.v (charge and refund of SSTORE under the five schedules: legacy, EIP-1283, EIP-2200, EIP-2929 with the EIP-2200 / EIP-3529 clearing refund) vs every "
             "SSTORE of storage-heavy generated executions on all 13 rule sets (committed, current, new value, gas, charge, refund counter before and after)",
             nontrivial=lambda c: c.get("current") != c.get("value"))
    corr_run(ctx, "memsize", ["memsize", "--n", n_cases(ctx, 90, 2500)],
             "Model/MemGas.v (memoryGasCost with the Memory object's lastGasCost bookkeeping on 64 bits; pureMemoryGascost, memoryCopierGas, gasKeccak256, makeGasLog) vs the cost "
             "the tracer is told for MLOAD/MSTORE/MSTORE8/KECCAK256/CALLDATACOPY/CODECOPY/RETURNDATACOPY/MCOPY/LOG0-4 in generated executions and memory-walk programs "
             "(uneven strides past the 22 words below which the quadratic term vanishes), all 13 rule sets", nontrivial=lambda c: c.get("memory_after", 0) > c.get("memory_before", 0) > 0,
             has_oracle=True, oracle_prefix="C02")
    ref_run(ctx, "diffref", ["diffref", "--mode", "gas", "--n", n_cases(ctx, 800, 8000)],
            "per-step gas/cost stream, frame gas hand-over, refund and leftover gas vs go-ethereum v1.12.0, re-run at gas limits one below / on / one above intermediate gas values",
            nontrivial=lambda c: c.get("steps", 0) >= 3)
    execref_run(ctx, 400, 10000)
    precomp_run(ctx, "C02")


def _exec_run_late(ctx, prefix, mask, quick, thorough):
    exec_run(ctx, prefix, mask, quick=quick, thorough=thorough)


def exec_run(ctx, prefix, mask, quick=1200, thorough=25000):
    corr_run(ctx, "exec", ["exec", "--n", n_cases(ctx, quick, thorough)],
             "Model/Exec.v frame logic (recorded-script instance) vs EVM.Call/CallCode/DelegateCall/StaticCall/Create/Create2 with fake Aspects: "
             "results, interleaved event stream, call tree, journals, world state",
             nontrivial=lambda c: c.get("frames", 0) >= 2, has_oracle=True,
             oracle_prefix=prefix, diag_component="EXD", diag_mask=mask)


def run_C04(ctx): exec_run(ctx, "C04", 1 | 4)
def run_C05(ctx): exec_run(ctx, "C05", 2)
def run_C06(ctx): exec_run(ctx, "C06", 1 | 2)
def run_C08(ctx): exec_run(ctx, "C08", 8)
def run_C10(ctx): exec_run(ctx, "C10", 8)
def run_C13(ctx): exec_run(ctx, "C13", 8)


def probe_f7(ctx, k, limit_s):
    """run the reference journal on a long-form length word 2^k in a child process under a wall-clock and address-space limit"""
    cmd = "ulimit -v 6000000; exec %s probe-f7 --k %d" % (driver.VH, k)
    t0 = driver.time.time()
    rc, out = driver.sh(["bash", "-c", cmd], timeout=limit_s, env=driver.GOENV)
    dt = driver.time.time() - t0
    ctx.evaluations += 1
    ctx.notes.append("probe-f7 k=%d: rc=%s wall=%.1fs %s" % (k, rc, dt, out.strip().split("\n")[-1][:160]))
    return rc, out, dt


def run_C03(ctx):
    ref_run(ctx, "fuzzcrash", ["fuzzcrash", "--n", n_cases(ctx, 2500, 150000)],
            "every entry point on random bytes / malformed programs / hostile journal operands / generated programs incl. calls to 0x64-0x66, all 13 forks, inside a panic boundary; "
            "follow-up call must be announced at depth 0, no call left open", oracle_prefix="C03")
    exec_run(ctx, "C03", 0, quick=400, thorough=10000)
    corr_run(ctx, "abi", ["abi", "--n", n_cases(ctx, 1000, 50000)], "Artela precompiles under all call kinds (a panic shows as a difference from the model, which never panics)",
             nontrivial=lambda c: len(c["input"]) > 0)
    # known finding F7: the reference journal's work is unbounded; beyond ~2^27 bytes it does not return in reasonable time / memory
    for word in ("1ffffffffffffffff", "1ffffffffffffffc3"):   # long-form lengths 2^64-1 and 2^64-31
        probe_word(ctx, word)
    rc, out, dt = probe_f7(ctx, 27, 6)
    if rc != 0 or dt > 4:
        if ctx.is_known("F7"):
            ctx.known_finding("F7", "VRJNAL on a long-form length word 2^27+1 did not finish within %.1f s / 6 GB for its flat 800 gas (rc=%s)" % (dt, rc))
        else:
            ctx.violation("probe_f7", {"kind": "reference journal does not return for a storage word encoding a huge length", "k": 27, "rc": rc, "output": out[-1000:]})


def probe_word(ctx, word, limit_s=4):
    """finding F17 (fixed): VRJNAL on a storage word whose long-form length lies within 31 of 2^64, in a child process under a
    wall-clock and address-space limit.  Before the fix the slot count wrapped to 0 and the instruction panicked at once;
    with the true ceiling the instruction starts reading 2^59 slots (known finding F7) and is cut off by the limit."""
    cmd = "ulimit -v 6000000; exec %s probe-word --word %s" % (driver.VH, word)
    t0 = driver.time.time()
    rc, out = driver.sh(["bash", "-c", cmd], timeout=limit_s, env=driver.GOENV)
    dt = driver.time.time() - t0
    ctx.evaluations += 1
    last = (out.strip().split("\n") or [""])[-1]
    ctx.notes.append("probe-word %s: rc=%s wall=%.1fs %s" % (word, rc, dt, last[:200]))
    if 'panic="' in out and 'panic=""' not in out:
        ctx.violation("probe_word", {"kind": "Go panic in the reference journal instruction on a storage word the contract itself can store",
                                     "program": "RSVJNAL(slot 1) ; VRJNAL(slot 1) with storage[1] = 0x" + word, "replay_cmd": "vh probe-word --word " + word,
                                     "output": out[-1500:]})


def run_C12(ctx):
    ref_run(ctx, "journalpair", ["journalpair", "--n", n_cases(ctx, 5000, 60000)],
            "program pairs of equal length on the real EVM: journal opcode (+ n-1 JUMPDESTs) vs n POPs; return data, post-state, logs, control flow and stack heights must agree, gas must differ by exactly 800+(n-1)-2n per executed site; malformed sites must halt exceptionally",
            nontrivial=lambda c: c.get("journal_sites_executed", 0) >= 1, oracle_prefix="C12")
    corr_run(ctx, "journal", ["journal", "--n", n_cases(ctx, 1200, 60000)],
             "Model/Tracer.v jop vs the journal instructions incl. per-step fee, stack and memory invisibility oracle",
             nontrivial=lambda c: len(c.get("steps") or []) > 1, has_oracle=True)


def run_C15(ctx):
    corr_run(ctx, "mcopy", ["mcopy", "--n", n_cases(ctx, 1500, 100000)],
             "Model/Mem.v mcopy_step (memory after, gas charged, errors) vs the MCOPY instruction; (dst,src,len) exhaustive over {0,1,31,32,33,63,64,65,96,100}^3 plus random and out-of-range operands; pre-Cancun forks must reject the byte",
             nontrivial=lambda c: c.get("result") == "ok", has_oracle=True, oracle_prefix="C15")
    ref_run(ctx, "tstoreref", ["tstoreref", "--n", n_cases(ctx, 1500, 80000)],
            "TLOAD/TSTORE programs mixed with calls and reverts: artela-evm under Cancun vs go-ethereum v1.12.0 under Shanghai + EIP-1153 (opcode bytes rewritten), results, gas, post-state incl. transient storage, step streams",
            nontrivial=lambda c: c.get("transient_ops", 0) >= 1, oracle_prefix="C15")


def run_C16(ctx):
    ref_run(ctx, "determinism", ["determinism", "--n", n_cases(ctx, 300, 3000)],
            "one tracer history / one transaction replayed 20 (thorough 200) resp. 4 times in fresh instances interleaved with unrelated executions; every result and every query answer serialised in returned order must be identical; a fresh instance sees nothing",
            oracle_prefix="C16")
    corr_run(ctx, "tracerhist", ["tracerhist", "--n", n_cases(ctx, 1000, 50000)],
             "returned order of ChildrenIndices / IndicesOfChanges / call children vs the model's specified order",
             nontrivial=lambda c: c["registrations"] >= 3, has_oracle=True, oracle_prefix="C16")


def run_C18(ctx):
    ref_run(ctx, "diffref", ["diffref", "--mode", "events", "--n", n_cases(ctx, 400, 10000)],
            "sequence and arguments of every debug-tracer callback (start/end, enter/exit, per-step state incl. stack digest, memory size, return data, faults) vs go-ethereum v1.12.0",
            nontrivial=lambda c: c.get("steps", 0) >= 5)
    ref_run(ctx, "tracerpair", ["tracerpair", "--n", n_cases(ctx, 1200, 60000)],
            "paired tracers on both implementations: struct logger (6 configs), access-list, prestate (+diff mode), 4byte, call (only-top-call, with-log), flat call (parity errors, include precompiles), mux, noop; GetResult compared",
            nontrivial=lambda c: c.get("output_bytes", 0) > 2, oracle_prefix="C18")
    exec_run(ctx, "C18", 2, quick=500, thorough=15000)
    execref_run(ctx, 400, 10000)


def run_C19(ctx):
    corr_run(ctx, "calltracer", ["calltracer", "--n", n_cases(ctx, 1500, 60000)],
             "Model/CallTracer.v (ct_run/ct_result, ctf_run/ctf_result incl. flatFromNested) vs the real callTracer / flatCallTracer from tracers.DefaultDirectory fed the same callback stream: "
             "enumerated shapes (0..3 Aspects per join point x 0..2 calls per Aspect x body width 0..2 x Aspects on inner calls), random trees (depth <= 3), malformed streams; whole GetResult JSON compared field by field",
             nontrivial=lambda c: c.get("aspects", 0) >= 1 and c.get("stream") != "malformed", has_oracle=True, oracle_prefix="C19")
    corr_run(ctx, "calltracerlive", ["calltracerlive", "--n", n_cases(ctx, 500, 20000)],
             "the same model vs the real tracers attached (next to a recording logger) to REAL executions: generated scenarios with nested calls of every kind, creations and "
             "Aspects bound to join points that succeed or fail in every way; the recorded callbacks are the model's input, GetResult of callTracer / flatCallTracer the observation",
             nontrivial=lambda c: c.get("aspects", 0) >= 1, has_oracle=True, oracle_prefix="C19")


def run_C17(ctx):
    ok, out = driver.build_harness_race()
    if not ok:
        raise RuntimeError("race build failed: " + out[-2000:])
    outdir = os.path.join(ctx.workdir, "race")
    os.makedirs(outdir, exist_ok=True)
    for f in ("cases.json", "stats.json"):
        p = os.path.join(outdir, f)
        if os.path.exists(p):
            os.remove(p)
    corr_run(ctx, "cancelrun", ["cancelrun", "--n", n_cases(ctx, 150, 6000)],
             "Model/Cancel.v (a cancelled frame walks the straight-line path of its code and stops at the first JUMP/JUMPI) vs the interpreter: Cancel() called from the "
             "CaptureState callback of the k-th instruction (first, last, two random k per program; endless call loops, counted loops with pushes of every width, generated programs; "
             "Aspects bound), code and program counters of every frame from that moment on",
             nontrivial=lambda c: c.get("steps_after_cancel", 0) >= 2, has_oracle=True, oracle_prefix="C17")
    n = n_cases(ctx, 24, 400)
    rc, o = driver.sh([driver.VH_RACE, "race", "--n", n, "--seed", str(ctx.seed), "--out", outdir], timeout=3000, env=dict(driver.GOENV, GORACE="halt_on_error=0"))
    races = o.count("WARNING: DATA RACE")
    if races:
        i = o.index("WARNING: DATA RACE")
        ctx.violation("race", {"kind": "the Go race detector reported %d data race(s) between concurrently running EVM instances" % races,
                               "vh_args": ["race", "--n", n], "first_report": o[i:i + 4000]})
    elif rc != 0:
        ctx.violation("race_died", {"kind": "the race harness died", "rc": rc, "output_tail": o[-3000:]}, found_input=False)
    if os.path.exists(os.path.join(outdir, "cases.json")):
        cases = driver.json.load(open(os.path.join(outdir, "cases.json")))
        ctx.stats["race"] = driver.json.load(open(os.path.join(outdir, "stats.json")))
        ctx.evaluations += len(cases)
        for c in cases:
            ctx.distinct.add("%s/%s/%s/%s" % (c["kind"], c["fork"], c.get("eips"), c["idx"] % 97))
        for c in cases[:2] + cases[-1:]:
            ctx.samples.append({"run": "race", "case": c})
        bad = [c for c in cases if c.get("oracle_fail")]
        for c in bad[:3]:
            ctx.violation("race", {"kind": "concurrent / cancelled execution misbehaved", "case": c})
        ctx.notes.append("race: %d executions under the race detector, %d data races, %d misbehaving" % (len(cases), races, len(bad)))


def run_C20(ctx):
    corr_run(ctx, "modexpgas", ["modexpgas", "--n", n_cases(ctx, 300, 8000)],
             "Model/ModExp.v (bigModExp.RequiredGas, EIP-198 and EIP-2565 schedules with the 64-bit clamp) vs the precompile of the Byzantium and Berlin tables: headers from powers of two "
             "and neighbours, instances with chosen exponent heads, truncated inputs, the clamp region", nontrivial=lambda c: True, has_oracle=True, oracle_prefix="C20")
    corr_run(ctx, "memsize", ["memsize", "--n", n_cases(ctx, 90, 2500)],
             "Model/MemGas.v + Model/MemSize.v vs the memory length and cost of successive instructions (generated executions and memory-walk programs, all 13 rule sets); oracle: no "
             "instruction grows the frame's memory by more than 32/3 bytes per unit of gas it is charged", nontrivial=lambda c: c.get("memory_after", 0) > c.get("memory_before", 0),
             has_oracle=True, oracle_prefix="C20")
    ref_run(ctx, "workscan", ["workscan"], "state reads (counting StateDB) and allocated bytes per journal instruction / Artela precompile call with length fields 2^5..2^16 (2^22 thorough)",
            oracle_prefix="C20")
    corr_run(ctx, "journal", ["journal", "--n", n_cases(ctx, 800, 40000)], "Model/Journal.v decoders vs the instructions (the work formulas are about these functions)",
             nontrivial=lambda c: len(c.get("steps") or []) > 1, has_oracle=True)
    precomp_run(ctx, "C20")


EXEC_RULE = ("scenario = 4 mutually calling generated contracts (snippet grammar incl. all call kinds, value transfers, SSTORE/LOG/CREATE/CREATE2/SELFDESTRUCT, "
             "journal instructions, calls to precompiles 0x04 and 0x64-0x66, early exits) x 6 entry points x forks Byzantium..Cancun x random Aspect bindings "
             "(0-2 Aspects per join point, provider errors) x per-firing Aspect behaviour (burn 0/small/more than available, return data, out-of-gas / revert-text / generic failure) "
             "x gas limits (ample or 2k-60k) x debug tracer on/off x Aspect logger on/off; non-trivial = at least 2 frames executed; distinct = distinct case lines")

HOOK_COMMITS = []
NOT_YET = {}

COMMON_NOTE = ("Trusted: Coq 8.16.1 kernel; extraction (ExtrOcamlBasic only) + OCaml driver; the Go harness (generators, canonical dumps, "
               "property oracles). Error texts are compared by class (out of gas / execution reverted / other). ")

REF_NOTE = ("Reference: github.com/ethereum/go-ethereum v1.12.0 core/vm, the module /repo itself depends on (offline module cache), run in the same process on an identical pre-state. "
            "Translator trusted: go/parser + the normalisation rules N1-N5 of harness/internal/gen/digest.go (leading ctx parameter/argument dropped, var x = e as x := e, layout ignored, "
            "const/var blocks digested whole); reflect/runtime.FuncForPC for table entries. The step from 'structurally identical declarations in identical tables' to 'identical behaviour' is a meta-argument about Go, not a Coq theorem. ")

PROPS = {
    "C01": {
        "run": run_C01,
        "technique": "Coq theorems over regenerated facts (every inherited declaration digest-identical to go-ethereum v1.12.0, instruction tables equal outside 0xe0-0xe7 on all forks and extra-EIP sets) + differential execution against the reference implementation",
        "level_text": "On every run a translator re-reads /repo and go-ethereum v1.12.0 and regenerates (a) a structural digest of every top-level declaration of vm and core and (b) the 256-entry instruction "
                      "tables the live interpreters select for Frontier..Shanghai and for each activatable EIP; Coq theorems (vm_compute over this finite data, bound = the listed declarations and 256 x forks) state that every "
                      "declaration is identical to upstream's or is one of the 184 reviewed Artela modifications/additions with its reviewed digest, that every table entry outside the journal bytes equals upstream's, and that "
                      "the precompile sets are upstream's plus 0x64-0x66 from Berlin. The frame logic Artela changed (Call/CallCode/DelegateCall/StaticCall/create + the interpreter loop skeleton) is modelled in Coq (Model/Exec.v) and PROVED (Proofs/Exec_refine.v, additions_invisible) "
                      "to compute, with nothing bound and for every standard program, entry point, call tree, gas and depth, exactly the results, world state and debug events of the same logic with the Artela additions switched off; "
                      "that switched-off model is itself run against go-ethereum v1.12.0's own entry points (recorded scripts from the reference implementation, run `execref`). "
                      "Behavioural equality is validated, and a failing input searched, by running generated programs (valid grammar-based + malformed) through all six entry points on both implementations. Inherited pieces on which control flow and memory depend are modelled and proved as well: the jump-destination analysis (Model/JumpDest.v: the byte-level bit-vector algorithm equals its specification for every code; run against JUMP to every position of push-dense codes) and memory expansion (Model/MemSize.v: which operands name a region, rounding to words; run against the memory length successive instructions see). Package core (block context, BLOCKHASH lookup, transaction context) is run against go-ethereum's core.",
        "level_note": COMMON_NOTE + REF_NOTE,
        "rule": "programs for 4 mutually calling contracts from a snippet grammar (arithmetic, memory, storage, logs, jumps, loops, all call kinds to contracts/EOA/empty/precompiles 1-9 with varied gas and value, CREATE/CREATE2, "
                "returndata, SELFDESTRUCT, early exits) plus a malformed stream (random bytes, truncated PUSH, bad jumps, stack under/overflow, mutated programs) x 12 forks x extra-EIP sets x 6 entry points x join points on/off; "
                "each followed by re-runs at gas limits around intermediate gas values; non-trivial = at least 5 executed steps; distinct = distinct (fork, entry, codes, input, gas)",
        "modelled": ["vm/evm.go Call/create frame logic (Exec model)"],
        "assumptions": ["programs that execute a journal opcode or touch addresses 0x64-0x66 are outside 'standard programs' and are skipped (counted)"],
    },
    "C02": {
        "run": run_C02,
        "technique": "Coq theorems over regenerated facts (gas functions, constants and table entries identical to go-ethereum v1.12.0) and over hand-written models of forwarded call gas, SSTORE schedules and the memory fee bookkeeping, each run against the implementation + differential per-step gas comparison at boundary gas limits",
        "level_text": "Same regenerated-facts theorems as C01 (every gas function, constant-gas entry and dynamic-gas symbol identical to upstream or reviewed). The differential run compares, for every executed step, "
                      "(pc, opcode, gas before, cost, depth), the gas handed to and back by every frame (enter/exit events), the refund counter and the leftover gas, and re-runs each program with gas limits one unit short of, "
                      "exactly on and one unit above randomly chosen intermediate gas values, so that out-of-gas must strike at the same instruction. The gas a CALL-family instruction forwards (callGas, EIP-150) and the gas its callee frame starts with (stipend) are modelled (Model/CallGas.v): forwarded = min(request, all but one 64th of what is left) for every 256-bit request, and checked against every such instruction of generated executions on all 13 rule sets. The memory-expansion fee is modelled as the code computes it (Model/MemGas.v: memoryGasCost with the Memory object's lastGasCost field as state, 64-bit arithmetic with the wraps written out): lastGasCost is always the total fee of the current length, so the fee is the difference of the totals 3w + w^2/512 with no wrap-around, and the total a frame pays is path independent; run against the cost reported for MLOAD/MSTORE/MSTORE8/KECCAK256/copies/MCOPY/LOG in generated executions and memory-walk programs.",
        "level_note": COMMON_NOTE + REF_NOTE,
        "rule": "as C01; every case is followed by 2 (quick) / 6 (thorough) x 3 boundary gas limits; warm/cold access-list states arise from the calls inside the programs and StateDB.Prepare; non-trivial = at least 3 executed steps",
        "modelled": [],
        "assumptions": ["as C01"],
    },
    "C09": {
        "run": run_C09,
        "technique": "Coq theorems (packed-field extraction and Solidity string round trip for all words/offsets/widths/contents/slots, any hash) + differential correspondence on journal programs + independent Solidity-layout oracle",
        "level_text": "Theorems in Coq, for every storage word, offset, width, string content of any length, slot number and storage/hash function: the value journal "
                      "records exactly Solidity's packed field, the reference journal exactly the string content, anything else is rejected and records nothing. "
                      "The model (Model/Journal.v, Tracer.v) is run against the real instructions on generated programs (SSTOREs + journal opcodes) on 7 forks; "
                      "an independent Solidity-layout decoder in the harness checks the implementation's recorded values directly.",
        "level_note": COMMON_NOTE + "keccak256 is a parameter of the model (a table of the hashes the harness computed with go-ethereum's crypto package); "
                      "Modelled rather than verified: vm/instructions.go:926-1140, vm/tracer.go.",
        "rule": "programs of 1..10 journal steps (state-variable/nested registrations, value and reference change journals with SSTOREd contents: string lengths "
                "0,1,2,30..33,63..65,100 with leading-zero/all-zero variants, slots 0,1,2,7,hashed) optionally ending in one hostile step (offset/width/pointer/length words over "
                "0,1,31,32,33,2^63-1,2^63,2^64-1,2^64,2^255,2^256-1, invalid length encodings); non-trivial = at least 2 journal steps; distinct = distinct case lines",
        "modelled": ["vm/instructions.go:926-1140 (journal instructions, loadDataFromMem)", "vm/tracer.go (StateChanges, CallTree, Tracer)"],
        "assumptions": ["geth StateDB.GetState returns what SSTORE stored", "keccak256 as computed by go-ethereum/crypto"],
    },
    "C11": {
        "run": run_C11,
        "technique": "Coq invariant proof over all operation histories of the key tree + differential correspondence through the exported Tracer API + direct agreement oracle",
        "level_text": "Theorems in Coq over every finite history of registrations / change journals / balance journals (any call index pattern): an invariant that makes the lookup by "
                      "name and index path and the lookup by (slot, offset, type) reach the same record, visibility of a journaled change through both, refusal without modification, "
                      "stability of bindings, exactness of reported child indices; histories are required to be consistent (a name is not re-registered with another location, a location not "
                      "under another name) — shared slots with distinct offsets or types are consistent (Example). Model tied to vm/tracer.go by random histories through the exported API "
                      "with every query answer compared, plus a pointer-equality oracle on the real objects.",
        "level_note": COMMON_NOTE + "Go pointers are modelled as node ids, Go maps as association lists (first registration wins). Modelled rather than verified: vm/tracer.go:19-371.",
        "rule": "random histories of 2..60 operations over 2 accounts x 5 slots x offsets {nil,0,1,16,31,32,2^64,2^200} x 3 type ids x 4 names x 5 index keys, mixed with "
                "SaveCall/ExitCall/TransferWithRecord and all query kinds, closing sweep over every registered key; non-trivial = at least 2 successful registrations; distinct = distinct case lines",
        "modelled": ["vm/tracer.go:19-371 (StorageChanges, StorageKey, StateChanges)"],
        "assumptions": [],
    },
    "C07": {
        "run": run_C07,
        "technique": "Coq invariant proof over all add/exit sequences of the call tree (+ frame-level balance, see Exec) + differential correspondence through Tracer.SaveCall/ExitCall",
        "level_text": "Theorems in Coq for every sequence of add/exit operations (balanced or not): children lists are exactly the increasing lists of the nodes whose parent they are, "
                      "parents have smaller indices, each child is listed once, a balanced run restores the cursor (no call left open). Tied to vm/tracer.go by histories through the exported API "
                      "with structural self-consistency checks of Root/Current/FindCall/ParentOf/ChildrenOf.",
        "level_note": COMMON_NOTE + "Modelled rather than verified: vm/tracer.go:373-498; the frame-level claim (every EVM entry point issues a balanced sequence under every outcome) is carried by the Exec model.",
        "rule": "random interleavings of SaveCall/ExitCall (incl. exits with no call open, unbalanced prefixes) inside tracer histories; non-trivial = at least 2 calls; distinct = distinct case lines",
        "modelled": ["vm/tracer.go:373-498 (Call, CallTree)"],
        "assumptions": [],
    },
    "C14": {
        "run": run_C14,
        "technique": "Coq theorems (decoder refines unbounded ABI spec; attribution; no panic) over a hand-written model + differential correspondence model vs implementation",
        "level_text": "Machine-checked theorems in Coq about an executable model of the three Artela precompiles and loadParamBytes "
                      "(uint64 wrap-around written out), for every payload, index, call kind, caller and gas; the model is tied to the code on every run "
                      "by running both on a generated payload family through the real EVM entry points and by an executable statement of the property "
                      "(Corr/PrecompileCorr.v pcs_check_items) evaluated on each observation. Known finding F11 (truncated payloads accepted) is kept as a _refuted theorem.",
        "level_note": "Trusted: Coq kernel; extraction (ExtrOcamlBasic) + OCaml driver; Go harness and its host-callback oracle; Go slices < 2^63 bytes; host callbacks do not panic. "
                      "Modelled rather than verified: vm/contracts.go:1080-1193, RunPrecompiledContract fee rule, evm.go context attachment.",
        "rule": "payload family (canonical (bytes,bytes) encodings with lengths 0..100; head/length words replaced by boundary values "
                "0,31,32,33,len-32..len+1,2^63-1,2^63,2^64-64..2^64,2^255,2^256-1; truncated/extended/aliased/random payloads) x 4 call kinds "
                "x gas {0,4999,5000,5001,1e5,2^40} x forks Berlin..Cancun, top-level entry points and nested wrappers of depth 1..3; "
                "a case is non-trivial when its payload is non-empty; distinct = distinct case lines",
        "trusted": ["host callbacks GetAspectContext/SetAspectContext/JITSenderAspectByContext replaced by a deterministic oracle on both sides"],
        "modelled": ["vm/contracts.go:1080-1193 (aspcontext, userOpSender, contextWriter, loadParamBytes)", "RunPrecompiledContract fee rule",
                     "vm/evm.go:265-273 context attachment (CALL only)", "frame rule: error forfeits gas"],
        "assumptions": ["Go slices are shorter than 2^63 bytes", "the host callbacks do not panic"],
    },
}

def _exec_prop(run, technique, text, extra_note=""):
    return {
        "run": run, "technique": technique, "level_text": text,
        "level_note": COMMON_NOTE + "The frame logic (vm/evm.go Call/CallCode/DelegateCall/StaticCall/create, vm/interpreter.go Run) is modelled by hand in Model/Exec.v, generic in the "
                      "instruction semantics; what each frame's instructions did is replayed from the implementation's own debug trace (recorded scripts), so instruction-level behaviour is taken from the code, "
                      "not verified here. Modelled rather than verified: geth StateDB (balances, nonces, storage, existence, logs, self-destruct flags as observed), aspect-core djpm glue (transactionAdvice/runAspect), "
                      "the Aspect runtime (a fake installed through the runtime pool). " + extra_note,
        "rule": EXEC_RULE,
        "modelled": ["vm/evm.go:238-664", "vm/interpreter.go:112-247 (loop structure)", "vm/tracer.go Tracer", "aspect-core djpm.Aspect.transactionAdvice/runAspect (as observed)"],
        "assumptions": ["the Aspect runtime reports no more leftover gas than it was given (C06 gas inequality only)"],
    }


PROPS.update({
    "C04": _exec_prop(run_C04, "Coq theorems (failure atomicity of all five entry points, any instruction semantics / Aspect behaviour / failure position) + frame correspondence + world-digest oracle",
                      "Theorems in Coq over the generic frame model: whenever Call, CallCode, DelegateCall, StaticCall end in an error the world state equals the state on entry; a failed create leaves the entry state "
                      "or the entry state with the creator's nonce bumped and the address warm. Proved for every instruction semantics, host, precompile, Aspect oracle, provider and fuel. The model is run against the real "
                      "entry points on generated scenarios with failures injected at join-point firings; an independent oracle compares a digest of the world before every call instruction and after a failed call."),
    "C05": _exec_prop(run_C05, "Coq theorems (the join points of a CALL: once before the callee with the call's own data, once after it with its result, nothing after a failing pre join point; no join point anywhere when switched off) + frame correspondence comparing every provider query / Aspect enter / firing payload / exit in order + bracket oracle",
                      "Theorems in Coq: for every CALL that reaches a contract with code (any depth, instruction semantics, Aspect behaviour, provider) the pre join point is evaluated once on the state right after the frame was opened with the payload "
                      "(caller, callee, index of the node just added, calldata, value, gas supplied); if it fails neither the callee nor the post join point runs; otherwise the callee runs once with the pre join point's leftover and the post join point "
                      "once with the same call data plus the callee's return data, error text and leftover gas (C05_join_points_once_with_call_data); with join points off no join-point event occurs in any execution; events nest (C18_events_balanced). "
                      "The model's event stream is compared with the code event by event: the fake provider and runtime log every query and the decoded "
                      "request; an independent oracle checks per call frame: queries are [] / [pre] / [pre, post], payload fields equal the call's, a bound Aspect receives the call also for empty calldata."),
    "C06": _exec_prop(run_C06, "Coq theorems (out-of-gas join point = EVM out of gas with no gas, post failure forfeits, success hands back the leftover; no frame of any entry point ever returns more gas than it was given, by mutual induction from local per-instruction assumptions) + frame correspondence on gas values + gas oracle",
                      "Theorems in Coq about the gas the frame logic hands over: a join point failing with the text 'out of gas' yields the EVM's own error and zero gas (pre and post), any other post failure forfeits all gas and rolls back, "
                      "a succeeding post join point's leftover is what the caller gets, and (C06_no_frame_gains_gas, Proofs/Exec_gas.v) no frame of any entry point, at any depth of any call tree, returns more gas than it was given, provided no single instruction increases its frame's gas, returned gas is credited once, and Aspects and precompiles report no more than they got. The model's per-step gas, enter/exit gas and "
                      "call-tree gas are compared with the implementation's under Aspects burning 0 / some / more than available gas."),
    "C08": _exec_prop(run_C08, "Coq theorems (one node per attempt with inputs as made and outcome as returned; existing nodes immutable) by mutual induction + frame correspondence + independent instruction-stream log",
                      "Theorems in Coq: every do_call / do_create adds exactly one node at the next index under the cursor with caller, target, calldata/init code, value, gas as passed and ret, leftover gas, error as returned, "
                      "for every nesting and outcome; a whole call leaves all earlier nodes untouched except for the issuing node's children. Go slice aliasing is outside the model: the harness builds an independent log from the "
                      "CALL/CREATE steps of the debug trace (operands and memory at that moment) and compares it with the call tree read after the top-level return, with programs that reuse their argument memory."),
    "C10": _exec_prop(run_C10, "Coq theorem (journal entries of a frame carry its storage address and the index of the innermost CALL/CREATE node, across any nested calls) + frame correspondence of key-tree queries",
                      "Theorem in Coq by induction over the interpreter loop, using the balanced-call-tree theorem for every nested entry point: all journal instructions a frame executes itself are filed under f_self and the cursor index at "
                      "frame start; callees' entries are tagged strictly deeper; failed frames keep their entries. The journal state after scenario executions (FindKeyIndices / Balance / changes per call index) is compared with the model's."),
    "C13": _exec_prop(run_C13, "Coq theorems (transfer recorded with balances read before and after the host transfer, under the frame's own node) + frame correspondence + wrapping-transfer oracle",
                      "Theorems in Coq: the frame logic records the sender's and recipient's balances read from the state immediately before and after whatever the host transfer function does, in that order, under the index of the node just added; "
                      "entering/leaving a call writes nothing else to the journal. The harness installs a wrapping transfer function and compares StateChanges.Balance of every address with the balances it saw."),
})

PROPS.update({
    "C03": {
        "run": run_C03,
        "technique": "Coq theorems (journal instructions and Artela precompiles never panic for any operand/memory/storage/payload; call tree closed after every entry point) + crash fuzzing inside a panic boundary",
        "level_text": "Theorems in Coq with Go panics as a first-class outcome of the modelled functions: every journal instruction (any opcode byte 0xe0-0xe7, operand words up to 2^256-1, memory, storage, tracer state) and every call kind / payload "
                      "to 0x64-0x66 ends normally or with an error; every CALL/CREATE entry point returns with the call tree well formed and the cursor at rest for every outcome. For the inherited instruction set absence of panics is the premise "
                      "'go-ethereum v1.12.0 does not panic', tied by C01's identity theorems. The real entry points are fuzzed (random bytes, malformed and generated programs, boundary journal operands, Artela precompile payloads, 13 forks) "
                      "inside a recover boundary, followed by a depth-0 follow-up call. Known finding F7 (unbounded reference journal) is probed in a child process. The refund counter, whose underflow would be a panic inside the state database, is proved never to go below zero for every SSTORE schedule and every sequence of writes (Model/SStore.v).",
        "level_note": COMMON_NOTE + "Modelled: vm/instructions.go:926-1140, vm/contracts.go:1080-1193, vm/evm.go frame logic. Not modelled: Go runtime fatal errors other than through the F7 probe.",
        "rule": "4 generator classes (random bytes with 0xe7 masked, one hostile journal instruction over the boundary word set {0,1,31,32,33,2^63-1,2^63,2^64-1,2^64,2^255,2^256-1,2^40,small}, malformed programs, grammar programs with journal "
                "snippets and calls to precompiles 1-9 and 0x64-0x66) x 6 entry points x 13 forks x join points on/off; non-trivial = any case; distinct = distinct (fork, entry, codes, input)",
        "modelled": ["vm/instructions.go:926-1140", "vm/contracts.go:1080-1193", "vm/evm.go:238-664"],
        "assumptions": ["go-ethereum v1.12.0's own instructions do not panic (inherited code, identical by C01_inherited_identical)"],
    },
    "C20": {
        "run": run_C20,
        "technique": "Coq theorems (work formulas of the journal decoders and ABI decoder; refutation witness for the reference journal; MODEXP fee bounds operand lengths; memory bytes bounded by the gas paid for every sequence of expansions) + correspondence runs + counting-StateDB / allocation sweep over length fields 2^k",
        "level_text": "Theorems in Coq: the value journal reads one slot and copies at most 32 bytes; memory strings copied by the key journals lie within the frame's memory; the context-write precompile returns sub-slices of its calldata; "
                      "the reference journal performs 1 + ceil(len/32) reads with len taken from a contract-controlled storage word — the bound by a fixed multiple of the flat 800 gas is REFUTED (theorem with witness, known finding F7) and the weaker bound by the encoded length is proved. "
                      "A sweep with a counting StateDB and allocation accounting runs each journal instruction and the context-write precompile with length fields 2^5..2^16 (2^22 thorough). MODEXP's fee function is modelled with its clamp (Model/ModExp.v): unless the fee is the unpayable maximum, the operand lengths the input declares are at most 51 x fee + 66; the model is run against RequiredGas of both schedules. The frame's memory (Model/MemGas.v): for every sequence of expansions the bytes held are at most 32/3 x the gas paid for them; run against memory length and cost of successive instructions.",
        "level_note": COMMON_NOTE + "For the inherited opcodes the statement is inherited from go-ethereum v1.12.0 (the identity theorem over regenerated digests is part of C20's theorems) and additionally swept (sizes 2^k against allocation per gas), not re-proved. Allocation is measured with runtime.MemStats (TotalAlloc delta).",
        "rule": "6 instruction/precompile shapes x k = 5..16 (22): a length field of 2^k placed where it could drive reads, copies or allocations; plus 4 journal instructions with a pointer operand 2^10..2^24 beyond the frame's memory; bound checked: reads <= gas/100 + 2, allocated bytes <= 128 KiB + 16 x memory size; "
                "plus 16 inherited copy/hash/log/call/create/return shapes x size 2^12..2^26 (thorough 2^10..2^63) x {Berlin, Cancun}: allocated bytes of the whole transaction <= 256 KiB + 8 x gas used; plus CREATE2 over 2^k bytes (k = 10..20) of paid-for memory at offsets 0/64/half on Constantinople, Berlin, London: gas added >= 6 per 32 bytes hashed; "
                "non-trivial = any case; distinct = (shape, k)",
        "modelled": ["vm/instructions.go:926-1140", "vm/contracts.go:1161-1193", "vm/gas_table.go makeGasJournal"],
        "assumptions": [],
    },
})

PROPS.update({
    "C12": {
        "run": run_C12,
        "technique": "Coq theorems (uniform table entries on every fork from regenerated tables; a journal step passes the world through unchanged; errors are exceptional halts) + relational pair runs (journal opcode vs pops)",
        "level_text": "Theorems: over the regenerated instruction tables of all 13 forks the eight journal entries are identical (flat fee function, n pops, nothing pushed, no memory function); in the frame model serving a journal instruction "
                      "leaves the world state and the call tree untouched and tells the machine only success/error; errors are never panics and end the frame with all gas forfeited. Non-interference is validated as a relational property on the real EVM: "
                      "generated program pairs that differ only in journal opcode vs operand pops must agree on return data, post-state, logs, control flow and stack heights, and differ in gas by exactly the flat fee per executed site, on all forks and in static frames.",
        "level_note": COMMON_NOTE + "Pair programs do not observe gas, their own code or re-enter themselves (those would legitimately differ). Modelled: vm/instructions.go:926-1140, vm/jump_table.go journal entries, vm/gas_table.go makeGasJournal.",
        "rule": "pairs from the snippet grammar with journal snippets (registration + value/reference change journals, ~12% malformed operands), 13 forks, 20% static frames; non-trivial = at least one journal instruction executed; distinct = distinct code",
        "modelled": ["vm/instructions.go:926-1140", "vm/gas_table.go:224-229", "vm/jump_table.go:1021-1068"],
        "assumptions": [],
    },
})

PROPS.update({
    "C15": {
        "run": run_C15,
        "technique": "Coq theorems (MCOPY = memmove, memory size/expansion, gas formula; Cancun table entries from regenerated tables; transient storage restored with the frame) + model correspondence for MCOPY + reference comparison for EIP-1153",
        "level_text": "Theorems in Coq: for every memory and (dst, src, len) MCOPY's result is byte for byte memmove's (overlap either way, zero length), the required size is max(dst,src)+len (0 for zero length, overflow beyond 2^64), memory grows in words to cover both "
                      "ranges, the charge is 3 + 3/word + expansion; over the regenerated tables 0x5c-0x5e are undefined before Cancun and TLOAD/TSTORE/MCOPY with the EIP's static gas and stack arity in Cancun, the rest of the Cancun table being Shanghai's; "
                      "transient storage is part of the state the failing-frame tail restores. MCOPY's model is run against the instruction (exhaustive small operand cube + random + out-of-range); transient storage is compared with go-ethereum v1.12.0 + EIP-1153.",
        "level_note": COMMON_NOTE + REF_NOTE + "'Empty at the start of each transaction' is geth's StateDB.Prepare (outside the repository): assumed, exercised by the harness. MCOPY has no upstream in v1.12.0: the Coq memmove specification is the oracle.",
        "rule": "MCOPY: 10^3 exhaustive small operand triples on 128 bytes of memory + random triples (operands up to 5000, huge values 2^32..2^256-1, memory 0..5 words) on Cancun and pre-Cancun forks; non-trivial = the copy succeeded. "
                "EIP-1153: generated programs (4 contracts, calls of all kinds, reverts, static frames) with extra TSTORE/TLOAD traffic; non-trivial = at least one transient-storage instruction executed",
        "modelled": ["vm/memory.go Memory.Copy", "vm/memory_table.go memoryMcopy", "vm/gas_table.go memoryGasCost/memoryCopierGas", "vm/eips.go opMcopy/enable5656", "vm/interpreter.go memory expansion"],
        "assumptions": ["StateDB.Prepare resets transient storage at transaction start (go-ethereum code)"],
    },
})

PROPS.update({
    "C19": {
        "run": run_C19,
        "technique": "Coq theorems (by induction over the mutually nested call/Aspect trees: the tracer's result is the tree's frame; no callback stream panics; flat traces have unique, prefix-closed addresses with exact sub-trace counts) + model correspondence against the real tracers' JSON",
        "level_text": "Theorems in Coq, for every transaction tree of any depth and width (any number of Aspects per join point, any number of calls inside an Aspect, Aspects on those calls' join points): callTracer's result IS the frame of the tree "
                      "(each call under its issuer, each Aspect execution with its own gas used/output/error, nothing twice or missing); with onlyTopCall it is the top frame with every Aspect execution once in entry order; "
                      "flatCallTracer's callbacks leave the frame of the tree minus the precompile calls it filters, and its result lists each frame of that tree once in the shape 'frame, then its children's traces at indices 0..subtraces-1', "
                      "from which uniqueness, prefix-closure and 'subtraces = number of emitted children' are proved; no stream of callbacks at all (well nested or not) makes either tracer panic. "
                      "Cross-model theorems (Proofs/Exec_stream.v): the callbacks the frame logic of Model/Exec.v makes below the top level ARE such a well-nested stream (a forest of call trees with the Aspects of each CALL's pre and post join point), "
                      "hence the call tracer fed the callbacks of a real nested CALL appends exactly the frames of what ran. "
                      "The executable model is run against the real tracers on every case (the full JSON is compared).",
        "level_note": COMMON_NOTE + "Modelled, not verified: JSON marshalling (gen_callframe_json.go) is covered only by the correspondence (every field is parsed back from the JSON); event logs (withLog: collected from LOG steps, cleared for failed frames at CaptureTxEnd) are modelled and compared on real executions; revertReason, execContext and block/tx context fields are not modelled; "
                      "the EVM reports a revert only with the vm.ErrExecutionReverted sentinel (text comparison in the model); flat_c is fuelled (8192 > call depth limit). "
                      "Observed and modelled as is: calls to precompiles made by pre-transaction Aspects are not filtered by the flat tracer (it learns the precompile set at CaptureStart).",
        "rule": "streams: (a) enumerated shapes pretx 0..2 x pre 0..3 x post 0..3 x calls-per-Aspect 0..2 x body 0..2 x inner-call Aspects 0..2 (every 7th at quick tier, all 1296 at thorough), (b) random trees of depth <= 3 with random widths, addresses incl. precompiles, "
                "all call types, errors incl. revert, (c) well-nested streams with 1-3 events dropped, duplicated or swapped; configurations rotate over callTracer {onlyTopCall, withLog} and flatCallTracer {includePrecompiles, convertParityErrors}; "
                "non-trivial = a well-nested stream with at least one Aspect execution; distinct = distinct case lines",
        "modelled": ["tracers/native/call.go callTracer callbacks, processOutput, GetResult", "tracers/native/call_flat.go flatCallTracer callbacks, precompile filter, flatFromNested, flatAspectNested, convertErrorToParity"],
        "assumptions": ["events of one transaction arrive sequentially (the tracer is not called concurrently)"],
    },
    "C16": {
        "run": run_C16,
        "technique": "Coq theorems (every list-valued answer has a specified order depending only on what was recorded) + model correspondence comparing returned order + repetition runs in fresh instances",
        "level_text": "Theorems in Coq: the reported child indices are bytewise sorted and hence a function of the set of registered keys (two histories registering the same keys in any order give identical lists), call children are in entry order; "
                      "the model itself is a function, so equal inputs give equal results. PARTIAL by nature: Go's randomised map iteration and shared mutable package-level values are runtime behaviour; they are detected by comparing returned order against the model "
                      "and by replaying the same history/transaction in fresh instances (20-200 times, interleaved with unrelated executions) and comparing complete serialisations; every transaction is additionally executed as the first execution of a fresh child process "
                      "(vh determinism-one) and must give the same serialisation as in the warm process that has already run unrelated executions, including calls with a context to the Artela precompiles.",
        "level_note": COMMON_NOTE + "Not modelled: Go map iteration order, allocator, shared package-level uint256 constants (their in-place mutation, or a context kept in a shared precompile instance, shows as a difference between the fresh-process run and the warm-process replays).",
        "rule": "1/2 tracer histories (10..60 operations, several children per parent) replayed R times, 1/6 single-frame journal programs and 1/3 whole transactions (exec scenarios with journal instructions and Aspects) replayed 4 times in-process plus once in a fresh process; non-trivial = any; distinct = (kind, seed)",
        "modelled": ["vm/tracer.go query functions"],
        "assumptions": [],
    },
})

PROPS.update({
    "C18": {
        "run": run_C18,
        "technique": "Coq theorems (tracer packages and emitting code digest-identical to go-ethereum v1.12.0; start/end and enter/exit balanced for every Aspect behaviour by mutual induction) + reference comparison of callback streams and of paired tracer outputs",
        "level_text": "Theorems: over regenerated digests every declaration of tracers, tracers/logger, tracers/native (and of vm/core) is identical to upstream's or a reviewed Aspect addition; in the frame model the events any entry point adds are a well-nested "
                      "word of start/end and enter/exit for every instruction semantics, Aspect oracle and failure position. Equality of the callback sequence and arguments with go-ethereum v1.12.0 is validated by recording both streams on generated programs "
                      "(all forks, entry points), equality of the inherited tracers by running them pairwise and comparing GetResult; the model's event stream is compared with the implementation's when join points abort calls. The opcode names printed by the tracers are read from the live tables of both code bases and proved equal except for the thirteen reviewed Artela names.",
        "level_note": COMMON_NOTE + REF_NOTE + "Access-list tracer outputs are compared as sorted sets (both implementations range over a map, inherited). Invalid-opcode names are compared by class (opcode bytes were renumbered).",
        "rule": "diffref programs (see C01) with the full callback stream compared; tracer pairs: generated programs x 8 forks x 18 tracer configurations x entry points call/create/create2 x gas limits; exec scenarios with failing join points (events mask); "
                "non-trivial = at least 5 steps resp. non-empty tracer output; distinct = (fork, entry, codes, input, tracer, config)",
        "modelled": ["vm/evm.go event emission (dbg_open/dbg_close, Enter/Exit of the non-recording call kinds)"],
        "assumptions": ["as C01"],
    },
})

PROPS.update({
    "C17": {
        "run": run_C17,
        "technique": "Coq theorems (copy-on-write of instruction tables from regenerated table dumps; bookkeeping closed after any run, cancelled ones included) + Go race detector over concurrent workers and cross-goroutine Cancel",
        "level_text": "PARTIAL: data races and the Go memory model cannot be expressed in an executable Gallina model. Proved: over regenerated dumps, the package-level instruction tables of all forks are unchanged after interpreters with every extra EIP were built; "
                      "every entry point closes its bookkeeping for every instruction semantics, hence also for a run whose jumps stop after Cancel; from the moment the abort flag is visible a frame takes no jump any more, walks the straight-line path of its code and stops within length(code)-pc+1 iterations "
                      "(Model/Cancel.v, for every instruction semantics; the premises - only opJump/opJumpi assign the program counter, only Cancel stores the flag - are read from the syntax trees on every run). "
                      "Correspondence: Cancel() is called from the tracer callback of the k-th instruction of generated and looping programs, and the code and program counters of every frame from then on are checked against the model. Validated: the harness is built with -race; 8 workers run scenarios (13 fork/EIP combinations, Aspects bound, "
                      "journal instructions) concurrently and compare with sequential results; Cancel is called from another goroutine at random moments on a looping execution with nested calls, which must stop promptly, without panic, with depth and call tree at rest.",
        "level_note": COMMON_NOTE + "Trusted additionally: the Go race detector (it reports races that occur in the explored schedules only). Not modelled: scheduler, sync.Pool, allocator.",
        "rule": "n jobs (fork x extra-EIP set x join points x entry point) run sequentially once and then twice by each of 8 concurrent workers; n/2+4 cancel trials with a delay of 0-3 ms; cancelrun: n programs (1/4 endless call loops, 1/4 counted loops, 1/2 generated) x 4 cancel moments (first, last, two random instructions), one case per frame that executes after the cancel; non-trivial = any; distinct = (kind, fork, EIPs, job) resp. the frame's code and program counters",
        "modelled": ["vm/interpreter.go NewEVMInterpreter copy-on-write (as table dumps)", "vm/interpreter.go Run loop control skeleton + vm/instructions.go opJump/opJumpi/makePush + vm/evm.go Cancel (Model/Cancel.v)"],
        "assumptions": ["schedules not explored by the run may still race"],
    },
})
