"""Per-property configuration: what is proved, which correspondences run, what is trusted."""
import os
import driver
from driver import corr_run


def gen_all():
    """regenerate coq/Gen/*.v from /repo's current source (T-gen)"""
    return True


def n_cases(ctx, quick, thorough):
    return str(thorough if ctx.tier == "thorough" else quick)


# ------------------------------------------------------------------ C14

def run_C14(ctx):
    corr_run(ctx, "abi", ["abi", "--n", n_cases(ctx, 3000, 200000)],
             "Model/Precompile.v call_artela vs EVM.Call/CallCode/DelegateCall/StaticCall to 0x64-0x66",
             nontrivial=lambda c: len(c["input"]) > 0,
             spec_component="PCS", spec_tags={"11": "F11"})


HOOK_COMMITS = []
NOT_YET = {}

PROPS = {
    "C14": {
        "run": run_C14,
        "technique": "Coq theorems (decoder refines unbounded ABI spec; attribution; no panic) over a hand-written model + differential correspondence model vs implementation",
        "level_text": "Machine-checked theorems in Coq about an executable model of the three Artela precompiles and loadParamBytes "
                      "(uint64 wrap-around written out), for every payload, index, call kind, caller and gas; the model is tied to the code on every run "
                      "by running both on a generated payload family through the real EVM entry points and by an executable statement of the property "
                      "(Corr/PrecompileCorr.v pcs_check_items) evaluated on each observation. Known finding F11 (truncated payloads accepted) is kept as a _refuted theorem.",
        "level_note": "Trusted: Coq kernel; extraction (ExtrOcamlBasic) + OCaml driver; Go harness and its host-callback oracle; Go slices < 2^63 bytes; host callbacks do not panic. "
                      "Modelled rather than verified: vm/contracts.go:1080-1193, RunPrecompiledContract fee rule, evm.go context attachment.",
        "rule": "payload family (canonical (bytes,bytes) encodings with lengths 0..100; head/length words replaced by boundary values "
                "0,31,32,33,len-32..len+1,2^63-1,2^63,2^64-64..2^64,2^255,2^256-1; truncated/extended/aliased/random payloads) x 4 call kinds "
                "x gas {0,4999,5000,5001,1e5,2^40} x forks Berlin..Cancun, top-level entry points and nested wrappers of depth 1..3; "
                "a case is non-trivial when its payload is non-empty; distinct = distinct case lines",
        "trusted": ["host callbacks GetAspectContext/SetAspectContext/JITSenderAspectByContext replaced by a deterministic oracle on both sides"],
        "modelled": ["vm/contracts.go:1080-1193 (aspcontext, userOpSender, contextWriter, loadParamBytes)", "RunPrecompiledContract fee rule",
                     "vm/evm.go:265-273 context attachment (CALL only)", "frame rule: error forfeits gas"],
        "assumptions": ["Go slices are shorter than 2^63 bytes", "the host callbacks do not panic"],
    },
}
