(* Props/C03.v — no bytecode, calldata or storage content can crash the VM; bookkeeping is closed afterwards.
   "Panic" is a first-class outcome of the model's Go-level functions (Base/Bytes.v res), so absence of
   panics is a theorem about the modelled code; for the inherited instruction set it is the premise
   "go-ethereum v1.12.0 does not panic" tied by the identity theorems of C01. *)
From Verif Require Import Base.Bytes Model.KeyTree Model.CallTree Model.Journal Model.Tracer Model.Precompile Model.Exec
  Proofs.Journal_proofs Proofs.Precompile_proofs Proofs.Work_proofs Proofs.CallTree_proofs Proofs.Exec_proofs Gen.GenProps Gen.G03.
Open Scope N_scope.

Theorem C03_source_reviewed : group_ok 3 = true.
Proof. exact gen_group_3. Qed.
Print Assumptions C03_source_reviewed.

(** every journal instruction, for every operand word (0 .. 2^256-1), memory, storage content, hash
    function and tracer state, returns normally or with an error — never a panic *)
Theorem C03_journal_no_panic : forall st kk op self mem stack t, is_panic (snd (jop st kk op self mem stack t)) = false.
Proof. exact jop_no_panic. Qed.
Print Assumptions C03_journal_no_panic.

(** in particular the Go slice expression `stateBytes[:length]` of the reference journal is in range for every storage
    word: the number of data slots read is the true ceiling of length/32 for every uint64 length — the quotient-plus-
    remainder form cannot wrap around (finding F17: the earlier `(length+31)/32` on uint64 did, Findings/PreFix_Ceil.v) *)
Theorem C03_reference_journal_slice_in_range : forall st kk slot,
  (is_panic (vr_read st kk slot) = false) /\
  (forall len, u64_ceiling32 len = (len + 31) / 32 /\ len <= 32 * u64_ceiling32 len).
Proof.
  intros st kk slot. split; [apply vr_no_panic|]. intro len. rewrite u64_ceiling32_is_ceil32. split; [reflexivity|apply ceil32_covers].
Qed.
Print Assumptions C03_reference_journal_slice_in_range.

(** every call kind, caller, payload and gas value to the Artela precompiles returns normally or with an error *)
Theorem C03_precompiles_no_panic : forall host k caller addr input gas,
  blen input < two63 -> (forall c, is_panic (host c) = false) ->
  is_panic (fst (fst (call_artela host k caller addr input gas))) = false.
Proof. exact artela_precompiles_no_panic. Qed.
Print Assumptions C03_precompiles_no_panic.

(** afterwards the bookkeeping is closed: the call-tree cursor is back where it was (no call left open)
    and the tree is well formed, for every outcome of every CALL / CREATE entry point; the call depth is a
    parameter of the model's entry points and so is trivially back at its entry value (the implementation's
    counter is checked by the follow-up call of the fuzz run) *)
Theorem C03_bookkeeping_closed_call : forall W M HT can_transfer transfer balance_of exists_acct create_account code_of collides
    get_nonce set_nonce acl_add set_code touch is_homestead is_eip158 is_berlin is_london max_code_size is_precompile precompile
    local_step init_machine keccak artela jp_on debug asp_logger bound aspect
    fuel depth hint ps caller addr input gas value s r s',
  do_call W M HT can_transfer transfer balance_of exists_acct create_account code_of collides get_nonce set_nonce acl_add set_code touch
          is_homestead is_eip158 is_berlin is_london max_code_size is_precompile precompile local_step init_machine keccak
          artela jp_on debug asp_logger bound aspect fuel depth hint ps caller addr input gas value s = Some (r, s') ->
  ct_wf (tc (xt s)) -> ct_wf (tc (xt s')) /\ current (tc (xt s')) = current (tc (xt s)).
Proof. exact call_closes_tree. Qed.
Print Assumptions C03_bookkeeping_closed_call.

Theorem C03_bookkeeping_closed_create : forall W M HT can_transfer transfer balance_of exists_acct create_account code_of collides
    get_nonce set_nonce acl_add set_code touch is_homestead is_eip158 is_berlin is_london max_code_size is_precompile precompile
    local_step init_machine keccak artela jp_on debug asp_logger bound aspect
    fuel depth hint caller code gas value address typ s r s',
  do_create W M HT can_transfer transfer balance_of exists_acct create_account code_of collides get_nonce set_nonce acl_add set_code touch
          is_homestead is_eip158 is_berlin is_london max_code_size is_precompile precompile local_step init_machine keccak
          artela jp_on debug asp_logger bound aspect fuel depth hint caller code gas value address typ s = Some (r, s') ->
  ct_wf (tc (xt s)) -> ct_wf (tc (xt s')) /\ current (tc (xt s')) = current (tc (xt s)).
Proof. exact create_closes_tree. Qed.
Print Assumptions C03_bookkeeping_closed_create.

From Verif Require Import Model.ScriptInst Proofs.Exec_examples.
(** non-vacuity: a concrete, non-trivial execution meets the premises of the frame theorems above (a top-level CALL with
    value that stores, CALLs with value through a pre join point into a contract that stores and then halts exceptionally,
    and stops): it terminates within the fuel, records two nodes, and the failed inner frame leaves no trace in the world *)
Example C03_premises_met_by_a_concrete_run :
  exists r s', ex_call true true 50 0 ex_script_A ex_caller ex_A [] 100000 7 ex_state = Some (r, s') /\
    r_err r = None /\ length (calls (tc (xt s'))) = 2%nat /\
    s_balance (xw s') ex_A = 7 /\ s_balance (xw s') ex_B = 0 /\
    aget eq_nn (sw_stor (xw s')) (ex_A, 1) = Some 5 /\ aget eq_nn (sw_stor (xw s')) (ex_B, 2) = None /\
    (15 <= length (xe s'))%nat.
Proof. exact ex_top_run. Qed.

Example C03_premises_met_by_a_failing_frame :
  exists r s', ex_call true true 50 1 ex_script_B ex_A ex_B [1; 2] 20000 3
                       {| xw := s_transfer ex_world ex_caller ex_A 7; xt := tracer_empty; xe := []; xn := O |} = Some (r, s') /\
    r_err r <> None /\ r_gas r = 0.
Proof. exact ex_failing_frame. Qed.

From Verif Require Import Model.SStore Proofs.SStore_proofs.
(** one panic of the INHERITED instruction set that is not just assumed away: StateDB.SubRefund panics when the refund counter
    would go below zero, and SSTORE's net-metering gas functions call it ("We can prove that refund counter will never go
    below 0", gas_table.go).  For every schedule of the code base (legacy, EIP-1283, EIP-2200, EIP-2929 with either clearing
    refund), every committed storage and every sequence of writes of a transaction, in the order the code applies them
    (SubRefund before the reset clause's AddRefund): it never does *)
Theorem C03_refund_counter_never_below_zero : forall sch orig ws, is_panic (run_writes sch orig ws orig 0) = false.
Proof. exact refund_counter_never_below_zero. Qed.
Print Assumptions C03_refund_counter_never_below_zero.
