(* Props/C19.v — call tracers account for every EVM and Aspect frame exactly once. *)
From Verif Require Import Base.Bytes Model.CallTracer Proofs.CallTracer_proofs Proofs.CallTracerFlat_proofs
     Proofs.CallTracerPrune_proofs Proofs.CallTracerTyped_proofs Gen.GenProps Gen.G19.
Open Scope N_scope.

Theorem C19_source_reviewed : group_ok 19 = true.
Proof. exact gen_group_19. Qed.
Print Assumptions C19_source_reviewed.

(** callTracer: for EVERY well-nested stream (a transaction tree of any depth and width, any number of Aspects
    on each join point, any number of calls inside an Aspect, Aspects on the join points of those calls, ...)
    the result is exactly the frame of the tree: each call under the frame or Aspect execution that issued it,
    each Aspect execution with its own gas used, output and error, nothing twice, nothing missing. *)
Theorem C19_call_tracer_exact : forall x, wf_tx x = true ->
  match ct_run false t_init (events_tx x) with Ok s => ct_result s | Err e => Err e | Panic e => Panic e end = Ok (frame_tx x).
Proof. exact ct_tree_exact. Qed.
Print Assumptions C19_call_tracer_exact.

(** with onlyTopCall: the top frame, with every Aspect execution of the transaction exactly once (in entry
    order, each with its own result), also when Aspects of the same join-point type nest through a call *)
Theorem C19_call_tracer_only_top_exact : forall x, wf_tx x = true ->
  match ct_run true t_init (events_tx x) with Ok s => ct_result s | Err e => Err e | Panic e => Panic e end = Ok (frame_tx_top x).
Proof. exact ct_top_exact. Qed.
Print Assumptions C19_call_tracer_only_top_exact.

(** no stream of callbacks whatsoever, well nested or not, makes either tracer's callbacks panic *)
Theorem C19_call_tracer_never_panics : forall only_top es, exists s, ct_run only_top t_init es = Ok s.
Proof. intros ot es. destruct (ct_never_panics ot es t_init inv_init) as (s & E & _). exists s. exact E. Qed.
Print Assumptions C19_call_tracer_never_panics.
Theorem C19_flat_tracer_never_panics : forall include_pre is_pre es, exists s, ctf_run include_pre is_pre t_init es = Ok s.
Proof. intros ip P es. destruct (ctf_never_panics ip P es t_init inv_init) as (s & E & _). exists s. exact E. Qed.
Print Assumptions C19_flat_tracer_never_panics.

(** flatCallTracer: its callbacks leave exactly the frame of the tree, minus (unless includePrecompiles) the
    CALL/STATICCALLs to precompiles made after CaptureStart, each removed with everything below it *)
Theorem C19_flat_tracer_frame_exact : forall include_pre is_pre x, wf_tx x = true ->
  ctf_run include_pre is_pre t_init (events_tx x) = Ok (st [of (frame_tx (prune_tx include_pre is_pre x)) 0] (x_gaslimit x) true).
Proof. exact ctf_tree_exact. Qed.
Print Assumptions C19_flat_tracer_frame_exact.

(** and its result lists every frame of that tree exactly once, in the shape "a frame, then the traces of its
    children at the consecutive indices 0 .. subtraces-1" *)
Theorem C19_flat_trace_exact : forall include_pre is_pre convert fuel x l,
  typed_tx x = true ->
  flat_trace_of include_pre is_pre convert fuel (events_tx x) = Ok l ->
  flat_c convert fuel (frame_tx (prune_tx include_pre is_pre x)) [] = Some l /\
  flat_tree [] l /\ length l = nodes_tx (prune_tx include_pre is_pre x).
Proof. exact flat_trace_exact. Qed.
Print Assumptions C19_flat_trace_exact.

(** which makes trace addresses unique, *)
Theorem C19_trace_addresses_unique : forall addr l, flat_tree addr l -> NoDup (map fl_addr l).
Proof. exact (proj1 shape_nodup). Qed.
Print Assumptions C19_trace_addresses_unique.
(** prefix-closed, *)
Theorem C19_trace_addresses_prefix_closed : forall addr l, flat_tree addr l ->
  forall e, In e l -> fl_addr e = addr \/ exists p j, In p l /\ fl_addr e = fl_addr p ++ [j].
Proof. exact (proj1 shape_prefix_closed). Qed.
Print Assumptions C19_trace_addresses_prefix_closed.
(** and sub-trace counts equal to the number of emitted children: the entries directly below [p] are exactly
    those at [fl_addr p ++ [j]] for j < fl_subtraces p (one each, by uniqueness) *)
Theorem C19_subtraces_count_children : forall addr l, flat_tree addr l ->
  forall p, In p l -> forall j, (exists e, In e l /\ fl_addr e = fl_addr p ++ [j]) <-> (j < fl_subtraces p)%nat.
Proof. exact (proj1 shape_children). Qed.
Print Assumptions C19_subtraces_count_children.

(** flattening never fails on frames of the types the EVM produces once the fuel exceeds the nesting depth (the model's
    recursion is fuelled with 8192 > the call depth limit): so "flat_c ... = Some l" above is not a vacuous hypothesis *)
Theorem C19_flattening_succeeds : forall convert fuel,
  (forall f addr, types_ok_c f = true -> (depth_c f <= fuel)%nat -> exists l, flat_c convert fuel f addr = Some l) /\
  (forall a addr, types_ok_a a = true -> (depth_a a <= fuel)%nat -> exists l, flat_a convert fuel a addr = Some l).
Proof. exact flat_total. Qed.
Print Assumptions C19_flattening_succeeds.

From Verif Require Import Model.Exec Proofs.Exec_generic Proofs.Exec_stream.
(** WHAT THE EVM FEEDS THE TRACERS IS SUCH A STREAM.  The callbacks the frame logic (Model/Exec.v) makes to a debug tracer
    that is also an Aspect logger — for every instruction semantics that makes no frame callbacks of its own, every entry
    point below the top level, call tree, Aspect behaviour, provider, failure and fuel — are the event stream of a forest of
    well-formed call trees: each CALL frame with the Aspect executions of its pre join point, then the calls its code
    makes, then those of its post join point ([PS] is the conjunction over the seven entry points). *)
Theorem C19_frames_emit_tree_streams : forall W M HT can_transfer transfer balance_of exists_acct create_account code_of collides get_nonce set_nonce acl_add set_code touch is_homestead is_eip158 is_berlin is_london max_code_size is_precompile precompile local_step init_machine keccak artela jp_on asp_logger bound aspect,
  (forall d fc m w, forallb silent (step_events (local_step d fc m w)) = true) ->
  forall fuel, PS W M HT can_transfer transfer balance_of exists_acct create_account code_of collides get_nonce set_nonce acl_add set_code touch is_homestead is_eip158 is_berlin is_london max_code_size is_precompile precompile local_step init_machine keccak artela jp_on asp_logger bound aspect fuel.
Proof. exact frames_emit_tree_streams. Qed.
Print Assumptions C19_frames_emit_tree_streams.

(** ... so the call tracer, fed the callbacks of any nested CALL of a real execution while the enclosing frame is open,
    appends to that frame's calls exactly the frames of the execution's trees (composition with C19_call_tracer_exact's
    lemmas): what the tracer reports IS the tree of what ran. *)
Theorem C19_tracer_reports_what_ran : forall W M HT can_transfer transfer balance_of exists_acct create_account code_of collides get_nonce set_nonce acl_add set_code touch is_homestead is_eip158 is_berlin is_london max_code_size is_precompile precompile local_step init_machine keccak artela jp_on asp_logger bound aspect,
  (forall d fc m w, forallb silent (step_events (local_step d fc m w)) = true) ->
  forall fuel d hint ps caller addr input gas value s r s',
  do_call W M HT can_transfer transfer balance_of exists_acct create_account code_of collides get_nonce set_nonce acl_add set_code touch is_homestead is_eip158 is_berlin is_london max_code_size is_precompile precompile local_step init_machine keccak artela jp_on true asp_logger bound aspect fuel (S d) hint ps caller addr input gas value s = Some (r, s') ->
  exists forest ev, xe s' = xe s ++ ev /\
    forall f rest g b k,
      ct_run false (st (of f 0 :: rest) g b) (trs ev ++ k) =
      ct_run false (st (of (cf_set_calls f (cf_calls f ++ map frame_c forest)) 0 :: rest) g b) k.
Proof. exact traced_frames. Qed.
Print Assumptions C19_tracer_reports_what_ran.

(** ... and for the WHOLE top-level CALL (EVM.Call driven directly, debug tracer + Aspect logger attached): unless the call
    is refused before anything is reported, the callbacks are CaptureStart, the Aspect executions of the pre join point,
    the forest of the calls the code makes, those of the post join point, CaptureEnd — and callTracer's result on exactly
    these callbacks is the frame of that tree. *)
Theorem C19_top_level_call_traced : forall W M HT can_transfer transfer balance_of exists_acct create_account code_of collides get_nonce set_nonce acl_add set_code touch is_homestead is_eip158 is_berlin is_london max_code_size is_precompile precompile local_step init_machine keccak artela jp_on asp_logger bound aspect,
  (forall d fc m w, forallb silent (step_events (local_step d fc m w)) = true) ->
  forall fuel hint ps caller addr input gas value s r s',
  do_call W M HT can_transfer transfer balance_of exists_acct create_account code_of collides get_nonce set_nonce acl_add set_code touch is_homestead is_eip158 is_berlin is_london max_code_size is_precompile precompile local_step init_machine keccak artela jp_on true asp_logger bound aspect fuel 0 hint ps caller addr input gas value s = Some (r, s') ->
  xe s' = xe s \/
  exists ev x, xe s' = xe s ++ ev /\ trs ev = events_call x /\
    x_from x = caller /\ x_to x = addr /\ x_input x = input /\ x_value x = value /\ x_create x = false /\
    match ct_run false t_init (trs ev) with Ok st => ct_result st | Err e => Err e | Panic e => Panic e end = Ok (frame_call x).
Proof. exact traced_top_call. Qed.
Print Assumptions C19_top_level_call_traced.

From Verif Require Import Model.ScriptInst.
(** non-vacuity of the side condition: the instance run against the code (recorded scripts) emits only step events *)
Example C19_side_condition_inhabited : forall d fc m w, forallb silent (step_events (s_step d fc m w)) = true.
Proof.
  intros d fc m w. unfold s_step. destruct (m_acts m) as [|a rest]; [reflexivity|].
  destruct a as [pc op cost eff|pc op cost k to input cg value sub|pc op cost typ code cg value addr sub|pc op cost stack mem stor|pc op cost ret err eff]; try reflexivity.
  destruct err as [[]|]; reflexivity.
Qed.

(** non-vacuity: a transaction with two Aspects on one join point, a call made from inside an Aspect whose own
    join point runs an Aspect of the same type, and a precompile call, satisfies the hypotheses and flattens *)
Definition ex_ci (typ to : N) (v : option N) : callinfo :=
  {| ci_typ := typ; ci_from := 0xc0; ci_to := to; ci_input := [1]; ci_gas := 1000; ci_value := v; ci_out := [7]; ci_used := 10; ci_err := None |}.
Definition ex_ai (jp asp left : N) (e : option string) : aspinfo :=
  {| ai_jp := jp; ai_from := 0xc0; ai_to := 0xc1; ai_aspect := asp; ai_input := []; ai_gas := 500; ai_value := None;
     ai_left := left; ai_ret := [9]; ai_err := e |}.
Definition ex_tx : txtree :=
  {| x_gaslimit := 100000; x_rest := 40000; x_pretx := [AT (ex_ai 2 0xa1 100 None) [CT (ex_ci 0xf1 4 (Some 0)) [] [] []]];
     x_from := 0xee; x_to := 0xc0; x_create := false; x_input := [5]; x_gas := 79000; x_value := 3;
     x_pre := [AT (ex_ai 4 0xa1 200 None) [CT (ex_ci 0xf1 0xc2 (Some 1)) [AT (ex_ai 4 0xa3 50 (Some "out of gas"%string)) []] [] []];
               AT (ex_ai 4 0xa2 300 (Some "execution reverted"%string)) []];
     x_body := [CT (ex_ci 0xfa 4 None) [] [] []; CT (ex_ci 0xf1 0xc3 (Some 2)) [] [CT (ex_ci 0xf4 0xc4 None) [] [] []] [AT (ex_ai 8 0xa1 1 None) []]];
     x_post := [AT (ex_ai 8 0xa1 400 None) []]; x_out := [1; 2]; x_used := 60000; x_err := None; x_posttx := [AT (ex_ai 16 0xa2 0 None) []] |}.
Example C19_hypotheses_satisfiable :
  typed_tx ex_tx = true /\ wf_tx ex_tx = true /\
  (exists l, flat_trace_of false (fun a => a =? 4) false 64 (events_tx ex_tx) = Ok l /\ length l = 12%nat) /\
  (exists l, flat_trace_of true (fun a => a =? 4) false 64 (events_tx ex_tx) = Ok l /\ length l = 13%nat).
Proof. split; [reflexivity|]. split; [reflexivity|]. split; eexists; split; vm_compute; reflexivity. Qed.
