(* Props/C02.v — gas charged at every step and returned by every frame matches the reference.
   Part 1 (this file, generated-data theorems): the code that executes standard programs IS upstream's code,
   declaration by declaration and table entry by table entry, except the reviewed Artela changes.
   Part 2 (frame logic Artela changed): Props/C02 imports the refinement theorem of the Exec model. *)
From Coq Require Import String NArith List Bool.
From Verif Require Import Gen.GenProps Gen.GInheritedVm Gen.GStdTables Gen.GPrecompiles Gen.G02.
Import ListNotations.

(** every declaration of packages vm and core that is not a reviewed Artela change is structurally
    identical (modulo the context parameter) to the go-ethereum v1.12.0 declaration of the same name;
    no reviewed entry is stale; nothing upstream has was deleted *)
Theorem C02_inherited_identical : inherited_ok ["vm"; "core"]%string && pins_live && nothing_deleted = true.
Proof. exact gen_inherited_vm. Qed.
Print Assumptions C02_inherited_identical.

(** for each fork Frontier..Shanghai and each activatable EIP (on Frontier, Istanbul, London) the
    instruction table NewEVMInterpreter selects equals upstream's outside 0xe0..0xe7 — constant gas,
    stack bounds, execute / dynamic-gas / memory-size functions — and upstream leaves 0xe0..0xe7 undefined
    (EIP-1153 sits at 0x5c/0x5d instead of 0xb3/0xb4, with identical entries) *)
Theorem C02_tables_equal : std_tables_equal && eip_tables_equal && journal_undefined_upstream = true.
Proof. exact gen_std_tables. Qed.
Print Assumptions C02_tables_equal.

Theorem C02_precompile_sets : precompile_sets_ok = true.
Proof. exact gen_precompile_sets. Qed.
Print Assumptions C02_precompile_sets.

(** the reviewed Artela changes on the execution path still have their reviewed digests *)
Theorem C02_source_reviewed : group_ok 2 = true.
Proof. exact gen_group_2. Qed.
Print Assumptions C02_source_reviewed.

From Verif Require Import Base.Bytes Model.Exec Proofs.Exec_generic Proofs.Exec_refine.
(** the same theorem read for gas: the result [r] of every entry point — which carries the leftover gas handed back — and the
    step events (which carry gas and cost of every step) are identical with and without the Artela additions when nothing is bound *)
Theorem C02_gas_identical_with_additions : forall W M HT can_transfer transfer balance_of exists_acct create_account code_of collides get_nonce set_nonce acl_add set_code touch is_homestead is_eip158 is_berlin is_london max_code_size is_precompile precompile local_step init_machine keccak debug jpA alA aspA jpR alR bR aspR t0,
  (forall d fc m w, Forall (fun e => is_jp_event e = false) (step_events (local_step d fc m w))) ->
  (forall d fc m w, match local_step d fc m w with SJournal _ _ _ _ _ _ => False | _ => True end) ->
  (forall a c i g, precompile a (Some c) i g = precompile a None i g) ->
  forall fuel, PR W M HT can_transfer transfer balance_of exists_acct create_account code_of collides get_nonce set_nonce acl_add set_code touch is_homestead is_eip158 is_berlin is_london max_code_size is_precompile precompile local_step init_machine keccak debug jpA alA aspA jpR alR bR aspR t0 fuel.
Proof. exact additions_invisible. Qed.
Print Assumptions C02_gas_identical_with_additions.

From Verif Require Import Model.CallGas Proofs.CallGas_proofs.
Open Scope N_scope.
(** THE GAS A FRAME IS GIVEN.  What a CALL-family instruction forwards (vm/gas.go callGas) is, from EIP-150 on, the smaller of
    the request and all but one 64th of what the frame has left after the instruction's own costs — for every 256-bit
    request, also one that does not fit 64 bits; before EIP-150 it is the request itself ... *)
Theorem C02_forwarded_gas_is_min_of_request_and_cap : forall available base requested,
  base <= available -> available < two64 ->
  call_gas true available base requested = Ok (N.min requested ((available - base) - (available - base) / 64)).
Proof. exact call_gas_eip150. Qed.
Print Assumptions C02_forwarded_gas_is_min_of_request_and_cap.

Theorem C02_forwarding_leaves_a_64th : forall available base requested g,
  base <= available -> available < two64 -> call_gas true available base requested = Ok g ->
  g <= available - base /\ (available - base) / 64 <= (available - base) - g.
Proof. exact call_gas_leaves_a_64th. Qed.
Print Assumptions C02_forwarding_leaves_a_64th.

Theorem C02_forwarded_gas_before_eip150 : forall available base requested,
  call_gas false available base requested = if requested <? two64 then Ok requested else Err "gas uint64 overflow".
Proof. exact call_gas_legacy. Qed.
Print Assumptions C02_forwarded_gas_before_eip150.

(** ... and the callee frame starts with exactly that, plus the 2300 stipend only for a value-bearing CALL / CALLCODE *)
Theorem C02_callee_gas_is_forwarded_plus_stipend : forall kind value_nonzero g,
  callee_gas kind value_nonzero g = g \/ (callee_gas kind value_nonzero g = g + 2300 /\ value_nonzero = true /\ (kind = 0 \/ kind = 1)).
Proof. exact callee_gas_stipend. Qed.
Print Assumptions C02_callee_gas_is_forwarded_plus_stipend.

Example C02_call_gas_example :
  call_gas true 100000 700 (two64 + 5) = Ok 97749 /\ call_gas true 100000 700 5000 = Ok 5000 /\
  call_gas false 100000 700 5000000 = Ok 5000000 /\ callee_gas 0 true 5000 = 7300 /\ callee_gas 2 true 5000 = 5000.
Proof. exact ex_call_gas. Qed.

From Verif Require Import Model.SStore Proofs.SStore_proofs.
(** WHAT SSTORE CHARGES AND REFUNDS under the five schedules (Model/SStore.v, run against every SSTORE of generated executions
    on all 13 rule sets incl. the Constantinople-only EIP-1283): the re-entrancy sentry of the EIP-2200 family ... *)
Theorem C02_sstore_sentry : forall o c v g cold cl, g <= 2300 ->
  is_err (sstore S2200 o c v g cold) = true /\ is_err (sstore (S2929 cl) o c v g cold) = true.
Proof. exact sstore_sentry. Qed.
Print Assumptions C02_sstore_sentry.

(** ... and the bookkeeping identity behind the refunds: what a write adds to / takes from the counter keeps it at or above
    the clearing refunds currently held for originally non-zero slots that are zero now *)
Theorem C02_sstore_refund_step : forall sch o c v g cold gas add sub,
  sstore sch o c v g cold = Ok (gas, add, sub) ->
  sub <= L sch o c /\ L sch o v + sub <= L sch o c + add.
Proof. exact sstore_step. Qed.
Print Assumptions C02_sstore_refund_step.

Example C02_sstore_example :
  sstore (S2929 4800) 5 5 0 50000 true = Ok (5000, 4800, 0) /\ sstore (S2929 4800) 5 0 5 50000 false = Ok (100, 2800, 4800) /\
  sstore S2200 0 0 7 50000 false = Ok (20000, 0, 0) /\ sstore S1283 0 7 0 50000 false = Ok (200, 19800, 0) /\
  counter_after (run_writes (S2929 4800) (fun _ => 5) [(1, 0); (1, 5); (1, 0); (2, 0)] (fun _ => 5) 0) = Some 12400.
Proof. exact ex_sstore. Qed.

From Verif Require Import Model.Mem Model.MemSize Model.MemGas Proofs.MemGas_proofs.
(** the memory-expansion fee (vm/gas_table.go memoryGasCost with the Memory object's own bookkeeping, all arithmetic on 64 bits
    with the wraps written out): in a live frame lastGasCost is the total fee of the current length, so the fee charged for a
    step is exactly the difference of the yellow-paper totals 3w + w^2/512 — the 64-bit subtraction never wraps — ... *)
Theorem C02_memory_fee_is_difference_of_totals : forall st n fee st',
  mg_inv st -> n mod 32 = 0 -> mg_step st n = Ok (fee, st') ->
  mg_inv st' /\ fst st' = N.max (fst st) n /\ fee + mem_fee (fst st / 32) = mem_fee (fst st' / 32).
Proof. exact mg_step_inv. Qed.
Print Assumptions C02_memory_fee_is_difference_of_totals.

(** ... and whatever sequence of expansions a frame makes, what it has paid for memory in total is the fee of the length it
    reached: the same as expanding there in one step (path independence; the reference satisfies the same equation, so equal
    lengths mean equal totals) *)
Theorem C02_memory_fee_path_independent : forall sizes tot fin,
  all_word_sizes sizes -> mg_run mg_init sizes = Some (tot, fin) -> tot = mem_fee (fst fin / 32) /\ mg_inv fin.
Proof. exact mg_run_from_empty. Qed.
Print Assumptions C02_memory_fee_path_independent.

Example C02_memory_fee_example :
  mg_run mg_init [32; 64; 32; 1024; 0; 96] = Some (98, (1024, 98)) /\
  mg_run mg_init [1024] = Some (98, (1024, 98)) /\
  mg_step (1024, 98) 0x1FFFFFFFE0 = Ok (36028809887088637 - 98, (0x1FFFFFFFE0, 36028809887088637)) /\
  mg_run mg_init [0x2000000000] = None /\
  step_cost 0x52 [100; 7] (64, 6) = Some (3 + 9) /\ step_cost 0x20 [0; 33] (0, 0) = Some (30 + 6 + 12) /\
  step_cost 0xa2 [0; 5; 1; 2] (32, 3) = Some (375 + 750 + 40) /\ step_cost 0x37 [0; 0; two64] mg_init = None.
Proof. exact ex_mem_gas. Qed.
