(* Props/C02.v — gas charged at every step and returned by every frame matches the reference.
   Part 1 (this file, generated-data theorems): the code that executes standard programs IS upstream's code,
   declaration by declaration and table entry by table entry, except the reviewed Artela changes.
   Part 2 (frame logic Artela changed): Props/C02 imports the refinement theorem of the Exec model. *)
From Coq Require Import String NArith List Bool.
From Verif Require Import Gen.GenProps Gen.GInheritedVm Gen.GStdTables Gen.GPrecompiles Gen.G02.
Import ListNotations.

(** every declaration of packages vm and core that is not a reviewed Artela change is structurally
    identical (modulo the context parameter) to the go-ethereum v1.12.0 declaration of the same name;
    no reviewed entry is stale; nothing upstream has was deleted *)
Theorem C02_inherited_identical : inherited_ok ["vm"; "core"]%string && pins_live && nothing_deleted = true.
Proof. exact gen_inherited_vm. Qed.
Print Assumptions C02_inherited_identical.

(** for each fork Frontier..Shanghai and each activatable EIP (on Frontier, Istanbul, London) the
    instruction table NewEVMInterpreter selects equals upstream's outside 0xe0..0xe7 — constant gas,
    stack bounds, execute / dynamic-gas / memory-size functions — and upstream leaves 0xe0..0xe7 undefined
    (EIP-1153 sits at 0x5c/0x5d instead of 0xb3/0xb4, with identical entries) *)
Theorem C02_tables_equal : std_tables_equal && eip_tables_equal && journal_undefined_upstream = true.
Proof. exact gen_std_tables. Qed.
Print Assumptions C02_tables_equal.

Theorem C02_precompile_sets : precompile_sets_ok = true.
Proof. exact gen_precompile_sets. Qed.
Print Assumptions C02_precompile_sets.

(** the reviewed Artela changes on the execution path still have their reviewed digests *)
Theorem C02_source_reviewed : group_ok 2 = true.
Proof. exact gen_group_2. Qed.
Print Assumptions C02_source_reviewed.
