(* Props/C04.v — statements only; model: Model/Exec.v (vm/evm.go frame logic + vm/interpreter.go loop),
   generic in the instruction semantics [local_step], the host state operations, the precompiles, the
   Aspect behaviour [aspect] and the provider [bound]. Proofs: Proofs/Exec_proofs.v. *)
From Verif Require Import Base.Bytes Model.KeyTree Model.CallTree Model.Tracer Model.Exec
  Proofs.CallTree_proofs Proofs.Exec_proofs Gen.GenProps Gen.G04.
Open Scope N_scope.

Theorem C04_source_reviewed : group_ok 4 = true.
Proof. exact gen_group_4. Qed.
Print Assumptions C04_source_reviewed.

(** Whenever a CALL frame ends in an error — depth or balance refusal, a precompile failure, a failing
    pre join point, an exceptional halt or revert of the callee, a failing post join point — the world
    state is exactly the world state on entry (value transfer, account creation, storage writes, logs,
    self-destructs of the frame and all its descendants undone).  For every instruction semantics, Aspect
    behaviour, provider, position of the failure, and with the Artela additions on or off. *)
Theorem C04_call_failure_atomic : forall W M HT can_transfer transfer balance_of exists_acct create_account code_of collides
    get_nonce set_nonce acl_add set_code touch is_homestead is_eip158 is_berlin is_london max_code_size is_precompile precompile
    local_step init_machine keccak artela jp_on debug asp_logger bound aspect
    fuel depth hint pstatic caller addr input gas value s r s',
  do_call W M HT can_transfer transfer balance_of exists_acct create_account code_of collides get_nonce set_nonce acl_add set_code touch
          is_homestead is_eip158 is_berlin is_london max_code_size is_precompile precompile local_step init_machine keccak
          artela jp_on debug asp_logger bound aspect fuel depth hint pstatic caller addr input gas value s = Some (r, s') ->
  r_err r <> None -> xw s' = xw s.
Proof. exact call_failure_atomic. Qed.
Print Assumptions C04_call_failure_atomic.

Theorem C04_callcode_failure_atomic : forall W M HT can_transfer transfer balance_of exists_acct create_account code_of collides
    get_nonce set_nonce acl_add set_code touch is_homestead is_eip158 is_berlin is_london max_code_size is_precompile precompile
    local_step init_machine keccak artela jp_on debug asp_logger bound aspect
    fuel depth hint pf addr input gas value s r s',
  do_callcode W M HT can_transfer transfer balance_of exists_acct create_account code_of collides get_nonce set_nonce acl_add set_code touch
          is_homestead is_eip158 is_berlin is_london max_code_size is_precompile precompile local_step init_machine keccak
          artela jp_on debug asp_logger bound aspect fuel depth hint pf addr input gas value s = Some (r, s') ->
  r_err r <> None -> xw s' = xw s.
Proof. exact callcode_failure_atomic. Qed.
Print Assumptions C04_callcode_failure_atomic.

Theorem C04_delegatecall_failure_atomic : forall W M HT can_transfer transfer balance_of exists_acct create_account code_of collides
    get_nonce set_nonce acl_add set_code touch is_homestead is_eip158 is_berlin is_london max_code_size is_precompile precompile
    local_step init_machine keccak artela jp_on debug asp_logger bound aspect
    fuel depth hint pf addr input gas s r s',
  do_delegatecall W M HT can_transfer transfer balance_of exists_acct create_account code_of collides get_nonce set_nonce acl_add set_code touch
          is_homestead is_eip158 is_berlin is_london max_code_size is_precompile precompile local_step init_machine keccak
          artela jp_on debug asp_logger bound aspect fuel depth hint pf addr input gas s = Some (r, s') ->
  r_err r <> None -> xw s' = xw s.
Proof. exact delegatecall_failure_atomic. Qed.
Print Assumptions C04_delegatecall_failure_atomic.

Theorem C04_staticcall_failure_atomic : forall W M HT can_transfer transfer balance_of exists_acct create_account code_of collides
    get_nonce set_nonce acl_add set_code touch is_homestead is_eip158 is_berlin is_london max_code_size is_precompile precompile
    local_step init_machine keccak artela jp_on debug asp_logger bound aspect
    fuel depth hint pf addr input gas s r s',
  do_staticcall W M HT can_transfer transfer balance_of exists_acct create_account code_of collides get_nonce set_nonce acl_add set_code touch
          is_homestead is_eip158 is_berlin is_london max_code_size is_precompile precompile local_step init_machine keccak
          artela jp_on debug asp_logger bound aspect fuel depth hint pf addr input gas s = Some (r, s') ->
  r_err r <> None -> xw s' = xw s.
Proof. exact staticcall_failure_atomic. Qed.
Print Assumptions C04_staticcall_failure_atomic.

(** A failed creation leaves the world as on entry, or as on entry with the creator's nonce
    incremented and (from Berlin) the new address warm — the two effects the protocol keeps. *)
Theorem C04_create_failure_atomic : forall W M HT can_transfer transfer balance_of exists_acct create_account code_of collides
    get_nonce set_nonce acl_add set_code touch is_homestead is_eip158 is_berlin is_london max_code_size is_precompile precompile
    local_step init_machine keccak artela jp_on debug asp_logger bound aspect
    fuel depth hint caller code gas value address typ s r s',
  do_create W M HT can_transfer transfer balance_of exists_acct create_account code_of collides get_nonce set_nonce acl_add set_code touch
          is_homestead is_eip158 is_berlin is_london max_code_size is_precompile precompile local_step init_machine keccak
          artela jp_on debug asp_logger bound aspect fuel depth hint caller code gas value address typ s = Some (r, s') ->
  r_err r <> None -> is_homestead = true ->
  xw s' = xw s \/ xw s' = world_after_failed_create W get_nonce set_nonce acl_add is_berlin (xw s) caller address.
Proof. exact create_failure_atomic. Qed.
Print Assumptions C04_create_failure_atomic.

From Verif Require Import Model.ScriptInst Proofs.Exec_examples.
(** non-vacuity: a concrete, non-trivial execution meets the premises of the frame theorems above (a top-level CALL with
    value that stores, CALLs with value through a pre join point into a contract that stores and then halts exceptionally,
    and stops): it terminates within the fuel, records two nodes, and the failed inner frame leaves no trace in the world *)
Example C04_premises_met_by_a_concrete_run :
  exists r s', ex_call true true 50 0 ex_script_A ex_caller ex_A [] 100000 7 ex_state = Some (r, s') /\
    r_err r = None /\ length (calls (tc (xt s'))) = 2%nat /\
    s_balance (xw s') ex_A = 7 /\ s_balance (xw s') ex_B = 0 /\
    aget eq_nn (sw_stor (xw s')) (ex_A, 1) = Some 5 /\ aget eq_nn (sw_stor (xw s')) (ex_B, 2) = None /\
    (15 <= length (xe s'))%nat.
Proof. exact ex_top_run. Qed.

Example C04_premises_met_by_a_failing_frame :
  exists r s', ex_call true true 50 1 ex_script_B ex_A ex_B [1; 2] 20000 3
                       {| xw := s_transfer ex_world ex_caller ex_A 7; xt := tracer_empty; xe := []; xn := O |} = Some (r, s') /\
    r_err r <> None /\ r_gas r = 0.
Proof. exact ex_failing_frame. Qed.
