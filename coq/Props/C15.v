(* Props/C15.v — Cancun additions behave per EIP-1153 and EIP-5656. *)
From Verif Require Import Base.Bytes Model.Mem Model.Exec Proofs.Mem_proofs Proofs.Exec_proofs Gen.GenProps Gen.GCancunTables Gen.G15.
Open Scope N_scope.

Theorem C15_source_reviewed : group_ok 15 = true.
Proof. exact gen_group_15. Qed.
Print Assumptions C15_source_reviewed.

(** In the tables NewEVMInterpreter selects: before Cancun the bytes 0x5c, 0x5d, 0x5e are the undefined
    instruction on every fork; in Cancun they are TLOAD (100 gas, 1 operand), TSTORE (100 gas, 2 operands,
    no dynamic gas) and MCOPY (3 gas + copier gas with the MCOPY memory-size function); apart from these
    three bytes the Cancun table is the Shanghai table. *)
Theorem C15_cancun_tables : cancun_bytes && cancun_is_shanghai_plus = true.
Proof. exact gen_cancun_tables. Qed.
Print Assumptions C15_cancun_tables.

(** MCOPY copies exactly like an overlap-safe memmove, for every memory and every (dst, src, len) inside it *)
Theorem C15_mcopy_is_memmove : forall m dst src len i,
  src + len <= blen m -> dst + len <= blen m -> i < blen m ->
  nth (N.to_nat i) (mem_copy m dst src len) 0 = memmove_byte m dst src len i.
Proof. exact mcopy_is_memmove. Qed.
Print Assumptions C15_mcopy_is_memmove.

(** the memory is expanded, in whole words, to cover BOTH the source and the destination range *)
Theorem C15_mcopy_expands_both : forall m dst src len g m',
  blen m mod 32 = 0 -> blen m < 0x2000000000 ->
  mcopy_step m dst src len = Ok (g, m') ->
  (0 < len -> src + len <= blen m' /\ dst + len <= blen m') /\ blen m <= blen m' /\ blen m' mod 32 = 0.
Proof. exact mcopy_expands_both. Qed.
Print Assumptions C15_mcopy_expands_both.

Theorem C15_mcopy_memsize : forall dst src len, 0 < len -> N.max dst src + len < two64 ->
  mcopy_mem_size dst src len = (N.max dst src + len, false).
Proof. exact mcopy_memsize. Qed.
Print Assumptions C15_mcopy_memsize.
Theorem C15_mcopy_zero_length_needs_no_memory : forall dst src, mcopy_mem_size dst src 0 = (0, false).
Proof. exact mcopy_memsize_zero. Qed.
Print Assumptions C15_mcopy_zero_length_needs_no_memory.
Theorem C15_mcopy_out_of_range_is_overflow : forall dst src len, 0 < len -> two64 <= N.max dst src + len ->
  snd (mcopy_mem_size dst src len) = true.
Proof. exact mcopy_memsize_overflow. Qed.
Print Assumptions C15_mcopy_out_of_range_is_overflow.

(** the charge is 3 + 3 per word copied + the expansion fee *)
Theorem C15_mcopy_gas : forall m dst src len g m',
  mcopy_step m dst src len = Ok (g, m') ->
  exists expansion, memory_gas_cost (blen m) (to_words (fst (mcopy_mem_size dst src len)) * 32) = Ok expansion /\
                    g = 3 + expansion + to_words len * 3.
Proof. exact mcopy_gas_formula. Qed.
Print Assumptions C15_mcopy_gas.

(** transient storage is part of the world state a failing frame restores (C04): whatever a frame and its
    descendants wrote is gone when the frame ends in an error.  Stated for the common tail every entry
    point goes through. (Per-address keys, the static-context refusal and the fixed fee are properties of
    opTload/opTstore/enable1153, which the digest theorems show identical to go-ethereum v1.12.0's; the
    reference comparison run checks them against go-ethereum with EIP-1153 enabled.) *)
Theorem C15_transient_reverted_with_frame : forall W w0 r (s : xstate W) r' s',
  tail W w0 r s = (r', s') -> r_err r' <> None -> xw s' = w0.
Proof. intros W w0 r s r' s' T E. destruct (tail_err W w0 r s r' s' T E) as [H _]. exact H. Qed.
Print Assumptions C15_transient_reverted_with_frame.

Example C15_example_overlap :
  mem_copy [1;2;3;4;5;6;7;8] 2 0 5 = [1;2;1;2;3;4;5;8] /\ mem_copy [1;2;3;4;5;6;7;8] 0 2 5 = [3;4;5;6;7;6;7;8].
Proof. split; reflexivity. Qed.

From Verif Require Import Model.MemSize Model.MemGas Proofs.MemGas_proofs.
(** the expansion fee in [C15_mcopy_gas] is Model/Mem.v's [memory_gas_cost], which takes lastGasCost to be the fee of the current
    length; with the Memory object's bookkeeping as state (Model/MemGas.v) that is an invariant of every live frame, and the
    64-bit computation of the code yields the same fee *)
Theorem C15_expansion_fee_from_bookkeeping : forall st n fee last',
  mg_inv st -> n mod 32 = 0 -> memory_gas_cost64 st n = Ok (fee, last') -> memory_gas_cost (fst st) n = Ok fee.
Proof. exact memory_gas_cost64_agrees. Qed.
Print Assumptions C15_expansion_fee_from_bookkeeping.
