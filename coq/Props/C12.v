(* Props/C12.v — journal instructions are invisible to execution and cost a constant fee. *)
From Verif Require Import Base.Bytes Model.KeyTree Model.CallTree Model.Journal Model.Tracer Model.Exec
  Proofs.Exec_proofs Proofs.Work_proofs Gen.GenProps Gen.GJournalTables Gen.G12.
Open Scope N_scope.

Theorem C12_source_reviewed : group_ok 12 = true.
Proof. exact gen_group_12. Qed.
Print Assumptions C12_source_reviewed.

(** In the table NewEVMInterpreter selects for EVERY fork (Frontier .. Cancun) the bytes 0xe0-0xe7 hold the
    same eight entries: no constant gas, the one flat dynamic-fee function (makeGasJournal), no memory-size
    function, exactly n operands popped and nothing pushed (min stack n, max stack 1024+n). *)
Theorem C12_journal_entries_uniform : journal_entries_uniform = true.
Proof. exact gen_journal_tables. Qed.
Print Assumptions C12_journal_entries_uniform.

(** Serving a journal instruction touches nothing a contract can observe: the world state (storage,
    balances, logs, ...) is passed on unchanged, only the tracer's key tree may change, the call tree
    does not, and the frame's machine learns only whether the instruction succeeded. In static and
    non-static frames alike (the loop does not look at [f_static] here). *)
Theorem C12_journal_step_invisible : forall W M HT can_transfer transfer balance_of exists_acct create_account code_of collides
    get_nonce set_nonce acl_add set_code touch is_homestead is_eip158 is_berlin is_london max_code_size is_precompile precompile
    local_step init_machine keccak artela jp_on debug asp_logger bound aspect
    fuel depth fc m s j ev resume,
  local_step depth fc m (xw s) = SJournal W M HT j ev resume ->
  exists s2 rj,
    run W M HT can_transfer transfer balance_of exists_acct create_account code_of collides get_nonce set_nonce acl_add set_code touch
        is_homestead is_eip158 is_berlin is_london max_code_size is_precompile precompile local_step init_machine keccak
        artela jp_on debug asp_logger bound aspect (S fuel) depth fc m s =
    run W M HT can_transfer transfer balance_of exists_acct create_account code_of collides get_nonce set_nonce acl_add set_code touch
        is_homestead is_eip158 is_berlin is_london max_code_size is_precompile precompile local_step init_machine keccak
        artela jp_on debug asp_logger bound aspect fuel depth fc (resume rj) s2 /\
    xw s2 = xw s /\
    rj = snd (jop (jr_storage j) keccak (jr_op j) (f_self fc) (jr_mem j) (jr_stack j) (xt s)) /\
    tc (xt s2) = tc (xt s).
Proof. exact journal_step_invisible. Qed.
Print Assumptions C12_journal_step_invisible.

(** With malformed operands the instruction reports an error — never a panic — and an error ends the
    frame like any other exceptional instruction: it is not the interpreter's revert, so the common
    tail forfeits all gas and rolls the frame back. *)
Theorem C12_malformed_is_error_not_panic : forall st kk op self mem stack t, is_panic (snd (jop st kk op self mem stack t)) = false.
Proof. exact jop_no_panic. Qed.
Print Assumptions C12_malformed_is_error_not_panic.
Theorem C12_error_is_exceptional_halt : forall W w0 ret gas text (s : xstate W),
  tail W w0 (mk ret gas (Some (VOther text))) s = (mk ret 0 (Some (VOther text)), set_w W s w0).
Proof. reflexivity. Qed.
Print Assumptions C12_error_is_exceptional_halt.
