(* Props/C20.v — work done per instruction is bounded by the gas it pays. *)
From Verif Require Import Base.Bytes Model.Journal Model.SolLayout Model.Precompile
  Proofs.Journal_proofs Proofs.Work_proofs Gen.GenProps Gen.GInheritedVm Gen.G20.
Open Scope N_scope.

Theorem C20_source_reviewed : group_ok 20 = true.
Proof. exact gen_group_20. Qed.
Print Assumptions C20_source_reviewed.

(** for the inherited instruction set and the standard precompiles the bound is go-ethereum v1.12.0's: every declaration of
    vm/ and core/ (gas functions, memory-size functions, instruction bodies, precompile fee functions) is identical to
    upstream's or one of the reviewed Artela modifications — re-established from the syntax trees on every run *)
Theorem C20_inherited_work_rules_identical : inherited_ok ["vm"; "core"]%string && pins_live && nothing_deleted = true.
Proof. exact gen_inherited_vm. Qed.
Print Assumptions C20_inherited_work_rules_identical.

(** NOT provable — kept visible: the full statement is false of the reference journal (known finding F7).
    Its number of storage reads is 1 + ceil(len/32) where len comes from a storage word the contract
    controls, while the fee is flat: for every bound K there is a storage content exceeding it. *)
Theorem C20_reference_journal_work_bounded_refuted : forall K : N, K < 0x10000000000000 ->
  exists (st : N -> N) (slot : N), vr_reads st slot > K.
Proof. exact vr_work_bounded_refuted. Qed.
Print Assumptions C20_reference_journal_work_bounded_refuted.

(** proved instead (partial): its work is bounded by the encoded length and nothing else *)
Theorem C20_reference_journal_work_partial : forall st slot len,
  extract_storage_len (st slot) = Ok len -> vr_reads st slot <= 2 + len / 32.
Proof. exact vr_work_partial. Qed.
Print Assumptions C20_reference_journal_work_partial.

(** the value journal: one read, at most 32 bytes *)
Theorem C20_value_journal_bounded : forall w off size b, vv_slice w off size = Ok b -> blen b <= 32.
Proof. exact vv_output_bounded. Qed.
Print Assumptions C20_value_journal_bounded.

(** memory strings of the key journals: what is copied lies within the memory the frame already paid
    for; a length word beyond it is rejected before anything is allocated *)
Theorem C20_mem_string_bounded : forall ptr mem b, load_data_from_mem ptr mem = Ok b -> blen b <= blen mem.
Proof. exact ldm_bounded. Qed.
Print Assumptions C20_mem_string_bounded.

(** the context-write precompile returns sub-slices of its calldata *)
Theorem C20_abi_decode_bounded : forall p i b, blen p < two63 -> load_param_bytes p i = Ok b -> blen b <= blen p.
Proof. exact lpb_output_le_input. Qed.
Print Assumptions C20_abi_decode_bounded.

From Verif Require Import Model.ModExp Proofs.ModExp_proofs.
(** MODEXP (0x05, from Berlin: EIP-2565): Run allocates buffers as long as the three length words of the input say. The fee
    (vm/contracts.go bigModExp.RequiredGas, modelled with its 64-bit clamp) bounds them: unless it is the unpayable
    2^64-1, the declared lengths together are at most 51 x fee + 66 — for every input, every exponent head (when base and
    modulus length are both zero Run returns before allocating anything) ... *)
Theorem C20_modexp_lengths_bounded_by_fee : forall base_len exp_len mod_len head,
  (base_len <> 0 \/ mod_len <> 0) ->
  modexp_gas_of true base_len exp_len mod_len head < two64 - 1 ->
  base_len + exp_len + mod_len <= 51 * modexp_gas_of true base_len exp_len mod_len head + 66.
Proof. exact modexp_lengths_bounded_by_gas. Qed.
Print Assumptions C20_modexp_lengths_bounded_by_fee.

(** ... and it is never below the 200 gas minimum *)
Theorem C20_modexp_fee_at_least_200 : forall base_len exp_len mod_len head,
  200 <= modexp_gas_of true base_len exp_len mod_len head.
Proof. exact modexp_gas_2565_at_least_200. Qed.
Print Assumptions C20_modexp_fee_at_least_200.

Example C20_modexp_example :
  modexp_gas_of true 32 32 32 (2^255) = 1360 /\ modexp_gas_of true 1 1 1 1 = 200 /\
  modexp_gas_of true (2^40) 32 32 1 = two64 - 1 /\ modexp_gas_of true 64 (2^30) 1 0 = 183251932501 /\
  modexp_gas_of false 64 32 64 (2^255) = 52224.
Proof. exact ex_modexp. Qed.

From Verif Require Import Model.Mem Model.MemSize Model.MemGas Proofs.MemGas_proofs.
(** the frame's memory (the one retained allocation every instruction can grow): for every sequence of expansions the bytes held
    are at most 32/3 x the gas paid for them (and the number of words squared at most 512 x that gas + 511) ... *)
Theorem C20_memory_bytes_bounded_by_gas : forall sizes tot fin,
  all_word_sizes sizes -> mg_run mg_init sizes = Some (tot, fin) ->
  3 * fst fin <= 32 * tot /\ (fst fin / 32) * (fst fin / 32) <= 512 * tot + 511.
Proof. exact memory_bytes_bounded_by_gas. Qed.
Print Assumptions C20_memory_bytes_bounded_by_gas.

(** ... and a single instruction cannot grow it by more than 32/3 bytes per unit of gas it is charged *)
Theorem C20_step_growth_bounded_by_fee : forall st n fee st',
  mg_inv st -> n mod 32 = 0 -> mg_step st n = Ok (fee, st') -> 3 * (fst st' - fst st) <= 32 * fee.
Proof. exact step_growth_bounded_by_fee. Qed.
Print Assumptions C20_step_growth_bounded_by_fee.

(** ... stated for the instructions themselves: for every instruction that names a memory region and every stack, the length
    the next instruction of the frame sees (Model/MemSize.v) is the length the fee was computed for, the bookkeeping
    invariant is kept, and the growth is paid for *)
Theorem C20_instruction_growth_paid : forall op s st n fee st',
  mg_inv st -> rounded_size op s = Some n -> mg_step st n = Ok (fee, st') ->
  mem_after op s (fst st) = Some (fst st') /\ mg_inv st' /\ 3 * (fst st' - fst st) <= 32 * fee.
Proof. exact instruction_growth_paid. Qed.
Print Assumptions C20_instruction_growth_paid.

(** inherited copy / hash / log instructions (memoryCopierGas, gasKeccak256, makeGasLog as the code computes them, with their
    overflow checks): whenever the step is charged at all, the bytes it copies (CALLDATACOPY CODECOPY RETURNDATACOPY MCOPY),
    hashes (KECCAK256) or logs (LOG0-4) are bounded by a fixed multiple of that charge — for every operand word *)
Theorem C20_copied_bytes_bounded_by_cost : forall op s st g,
  (op = 0x37 \/ op = 0x39 \/ op = 0x3e \/ op = 0x5e) -> step_cost op s st = Some g ->
  back s 2 < two64 /\ 3 * back s 2 <= 32 * g.
Proof. exact copied_bytes_bounded_by_cost. Qed.
Print Assumptions C20_copied_bytes_bounded_by_cost.

Theorem C20_hashed_bytes_bounded_by_cost : forall s st g,
  step_cost 0x20 s st = Some g -> back s 1 < two64 /\ 6 * back s 1 <= 32 * g.
Proof. exact hashed_bytes_bounded_by_cost. Qed.
Print Assumptions C20_hashed_bytes_bounded_by_cost.

Theorem C20_logged_bytes_bounded_by_cost : forall op s st g,
  0xa0 <= op <= 0xa4 -> step_cost op s st = Some g -> 8 * back s 1 <= g /\ 375 * (1 + (op - 0xa0)) <= g.
Proof. exact logged_bytes_bounded_by_cost. Qed.
Print Assumptions C20_logged_bytes_bounded_by_cost.

(** CREATE2 hashes its whole init code: on every fork (gasCreate2 before Shanghai, gasCreate2Eip3860 after) the charge covers it *)
Theorem C20_create2_hashed_bytes_bounded_by_cost : forall shanghai s st g,
  create_cost shanghai 0xf5 s st = Some g -> back s 2 < two64 /\ 6 * back s 2 <= 32 * g.
Proof. exact create2_hashed_bytes_bounded_by_cost. Qed.
Print Assumptions C20_create2_hashed_bytes_bounded_by_cost.
