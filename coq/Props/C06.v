(* Props/C06.v — statements only; model: Model/Exec.v (vm/evm.go frame logic + vm/interpreter.go loop),
   generic in the instruction semantics [local_step], the host state operations, the precompiles, the
   Aspect behaviour [aspect] and the provider [bound]. Proofs: Proofs/Exec_proofs.v. *)
From Verif Require Import Base.Bytes Model.KeyTree Model.CallTree Model.Tracer Model.Exec
  Proofs.CallTree_proofs Proofs.Exec_proofs Gen.GenProps Gen.G06.
Open Scope N_scope.

Theorem C06_source_reviewed : group_ok 6 = true.
Proof. exact gen_group_6. Qed.
Print Assumptions C06_source_reviewed.

(** a join point that runs out of gas surfaces as the EVM's own out-of-gas error with no gas returned *)
Theorem C06_pre_oog : forall pret pgas, pre_fail pret pgas "out of gas" = mk pret 0 (Some VOog).
Proof. exact pre_oog_is_evm_oog. Qed.
Print Assumptions C06_pre_oog.
Theorem C06_post_oog : forall W w0 r qret qgas (s : xstate W),
  fst (tail W w0 (post_merge r qret qgas (Some "out of gas"%string)) s) = mk (r_ret r) 0 (Some VOog).
Proof. exact post_oog_is_evm_oog. Qed.
Print Assumptions C06_post_oog.

(** any other post-join-point failure (none can be the interpreter's own revert) forfeits the frame's
    gas like an exceptional halt, and the frame is rolled back *)
Theorem C06_post_failure_forfeits : forall W w0 r qret qgas e (s : xstate W),
  let p := tail W w0 (post_merge r qret qgas (Some e)) s in
  r_gas (fst p) = 0 /\ r_err (fst p) <> None /\ xw (snd p) = w0.
Proof. exact post_failure_forfeits. Qed.
Print Assumptions C06_post_failure_forfeits.

(** the caller gets back exactly what a succeeding post join point left *)
Theorem C06_post_success : forall r qret qgas, post_merge r qret qgas None = mk (r_ret r) qgas (r_err r).
Proof. exact post_success_gas. Qed.
Print Assumptions C06_post_success.

(** no CALL frame hands back more gas than it was given, provided no Aspect, precompile or interpreter
    run reports more gas left than it received (assumptions on aspect-runtime, the precompiles and the
    inherited instruction set: the last is proved for the recorded-script instance run against the code) *)
Theorem C06_frame_gas_le_supplied : forall W M HT can_transfer transfer balance_of exists_acct create_account code_of collides
    get_nonce set_nonce acl_add set_code touch is_homestead is_eip158 is_berlin is_london max_code_size is_precompile precompile
    local_step init_machine keccak artela jp_on debug asp_logger bound aspect
    fuel depth hint ps caller addr input gas value s r s',
  aspect_sane aspect ->
  (forall a c i g, r_gas (precompile a c i g) <= g) ->
  (forall f d h fc g st r0 st',
      run_frame W M HT can_transfer transfer balance_of exists_acct create_account code_of collides get_nonce set_nonce acl_add set_code touch
                is_homestead is_eip158 is_berlin is_london max_code_size is_precompile precompile local_step init_machine keccak
                artela jp_on debug asp_logger bound aspect f d h fc g st = Some (r0, st') -> r_gas r0 <= g) ->
  do_call W M HT can_transfer transfer balance_of exists_acct create_account code_of collides get_nonce set_nonce acl_add set_code touch
          is_homestead is_eip158 is_berlin is_london max_code_size is_precompile precompile local_step init_machine keccak
          artela jp_on debug asp_logger bound aspect fuel depth hint ps caller addr input gas value s = Some (r, s') ->
  r_gas r <= gas.
Proof. exact call_gas_le. Qed.
Print Assumptions C06_frame_gas_le_supplied.

From Verif Require Import Proofs.Exec_gas.
(** NO FRAME EVER RETURNS MORE GAS THAN IT WAS GIVEN — for every entry point (interpreter loop, CALL, CALLCODE,
    DELEGATECALL, STATICCALL, CREATE/CREATE2), every call tree, depth, Aspect behaviour and provider, from purely
    LOCAL assumptions: an instruction never increases the gas its frame holds ([mgas] of the machine state), the gas a
    sub-call hands back is credited at most once (resuming after a call that returned at most what it was given does not
    exceed the gas held before the call instruction), an Aspect reports no more leftover than it was given, a precompile
    returns no more than it was given.  [PG] (Proofs/Exec_gas.v) is the conjunction over the seven entry points; proved by
    mutual induction on fuel.  (This removes the assumption about nested interpreter runs that
    C06_frame_gas_le_supplied still carries.) *)
Theorem C06_no_frame_gains_gas : forall W M HT can_transfer transfer balance_of exists_acct create_account code_of collides get_nonce set_nonce acl_add set_code touch is_homestead is_eip158 is_berlin is_london max_code_size is_precompile precompile local_step init_machine keccak artela jp_on debug asp_logger bound aspect (mgas : M -> N),
  (forall fc g h, mgas (init_machine fc g h) <= g) ->
  (forall d fc m w,
    match local_step d fc m w with
    | SNext _ _ _ m' _ _ => mgas m' <= mgas m
    | SDone _ _ _ _ g _ _ _ => g <= mgas m
    | SCall _ _ _ _ _ _ gas _ _ _ _ resume => forall r, r_gas r <= gas -> mgas (resume r) <= mgas m
    | SCreate _ _ _ _ _ gas _ _ _ _ _ resume => forall r a, r_gas r <= gas -> mgas (resume r a) <= mgas m
    | SJournal _ _ _ _ _ resume => forall r, mgas (resume r) <= mgas m
    end) ->
  aspect_sane aspect ->
  (forall a c i g, r_gas (precompile a c i g) <= g) ->
  forall fuel, PG W M HT can_transfer transfer balance_of exists_acct create_account code_of collides get_nonce set_nonce acl_add set_code touch is_homestead is_eip158 is_berlin is_london max_code_size is_precompile precompile local_step init_machine keccak artela jp_on debug asp_logger bound aspect mgas fuel.
Proof. exact frames_never_gain_gas. Qed.
Print Assumptions C06_no_frame_gains_gas.

(** non-vacuity: the local assumptions are satisfiable, e.g. by the script instance's machine on a script whose steps
    charge no more than the frame holds (checked here on a one-instruction machine), by an Aspect that burns gas, and by
    the identity precompile *)
Example C06_local_assumptions_inhabited :
  (forall (fc : fctx) (g : N) (h : unit), (fun (m : N) => m) ((fun _ g _ => g) fc g h) <= g) /\
  aspect_sane (fun (_ : nat) (_ : bool) (_ : N) (g : N) (_ : jpin) => ([] : bytes, g - 10, None : option String.string)).
Proof. split; [intros; lia|]. intros n pre a g p. cbn. lia. Qed.

From Verif Require Import Model.ScriptInst Proofs.Exec_examples.
(** non-vacuity: a concrete, non-trivial execution meets the premises of the frame theorems above (a top-level CALL with
    value that stores, CALLs with value through a pre join point into a contract that stores and then halts exceptionally,
    and stops): it terminates within the fuel, records two nodes, and the failed inner frame leaves no trace in the world *)
Example C06_premises_met_by_a_concrete_run :
  exists r s', ex_call true true 50 0 ex_script_A ex_caller ex_A [] 100000 7 ex_state = Some (r, s') /\
    r_err r = None /\ length (calls (tc (xt s'))) = 2%nat /\
    s_balance (xw s') ex_A = 7 /\ s_balance (xw s') ex_B = 0 /\
    aget eq_nn (sw_stor (xw s')) (ex_A, 1) = Some 5 /\ aget eq_nn (sw_stor (xw s')) (ex_B, 2) = None /\
    (15 <= length (xe s'))%nat.
Proof. exact ex_top_run. Qed.

Example C06_premises_met_by_a_failing_frame :
  exists r s', ex_call true true 50 1 ex_script_B ex_A ex_B [1; 2] 20000 3
                       {| xw := s_transfer ex_world ex_caller ex_A 7; xt := tracer_empty; xe := []; xn := O |} = Some (r, s') /\
    r_err r <> None /\ r_gas r = 0.
Proof. exact ex_failing_frame. Qed.
