(* Props/C07.v — the call tree is a well-formed tree after every execution (operation level).
   Model: Model/CallTree.v.  The frame-level part (every entry point issues a balanced sequence
   of add/exit, whatever the outcome) is in Props/C07 via Model/Exec.v once that file is built. *)
From Verif Require Import Base.Bytes Model.CallTree Proofs.CallTree_proofs.
From Verif Require Import Gen.GenProps Gen.G07.
From Coq Require Import Sorted.

(** For EVERY finite sequence of add/exit operations — balanced or not — the tree is well formed:
    each node's children list is exactly the increasing list of the nodes whose parent it is, each
    parent has a smaller index than its child, the cursor points into the tree. (Indices are dense
    and in entry order by construction: a node's index is its position.) *)
Theorem C07_wf_reachable : forall ops, ct_wf (fold_left ct_step ops ct_empty).
Proof. exact ct_wf_reachable. Qed.
Print Assumptions C07_wf_reachable.

Theorem C07_children_increasing : forall t i c, ct_wf t -> nth_error (calls t) i = Some c ->
  StronglySorted lt (c_children c).
Proof. exact ct_children_increasing. Qed.
Print Assumptions C07_children_increasing.

Theorem C07_child_iff_parent : forall t i c k, ct_wf t -> nth_error (calls t) i = Some c ->
  (In k (c_children c) <-> exists ck, nth_error (calls t) k = Some ck /\ c_parent ck = Some i).
Proof. exact ct_child_iff_parent. Qed.
Print Assumptions C07_child_iff_parent.

Theorem C07_child_listed_once : forall t i c k, ct_wf t -> nth_error (calls t) i = Some c ->
  In k (c_children c) -> count_occ Nat.eq_dec (c_children c) k = 1%nat.
Proof. exact ct_child_once. Qed.
Print Assumptions C07_child_listed_once.

Theorem C07_parent_smaller : forall t i c p, ct_wf t -> nth_error (calls t) i = Some c ->
  c_parent c = Some p -> (p < i)%nat.
Proof. intros t i c p W. exact (wf_parent t W i c p). Qed.
Print Assumptions C07_parent_smaller.

(** No call is left open: a balanced run (each add eventually exited) returns the cursor to where
    it was, from any well-formed tree — in particular repeated top-level invocations on one EVM
    each start and end with no call open. *)
Theorem C07_balanced_closes : forall ops, balanced ops ->
  forall t, ct_wf t -> current (fold_left ct_step ops t) = current t.
Proof. exact balanced_restores_cursor. Qed.
Print Assumptions C07_balanced_closes.

Open Scope N_scope.
Example C07_example :
  let ops := [CAdd 1 (Some 2) [] 0 100; CAdd 2 (Some 3) [] 0 50; CExit 40 [] None; CAdd 2 None [1] 0 30;
              CExit 0 [] (Some "out of gas"%string); CExit 10 [] None; CAdd 1 (Some 2) [] 0 100; CExit 1 [] None] in
  balanced ops /\ map c_children (calls (fold_left ct_step ops ct_empty)) = [[1; 2]; []; []; []]%nat.
Proof.
  cbv zeta. split; [|vm_compute; reflexivity].
  apply (bal_call 1 (Some 2) [] 0 100 [CAdd 2 (Some 3) [] 0 50; CExit 40 [] None; CAdd 2 None [1] 0 30; CExit 0 [] (Some "out of gas"%string)] 10 [] None).
  - apply (bal_call 2 (Some 3) [] 0 50 [] 40 [] None); [constructor|].
    apply (bal_call 2 None [1] 0 30 [] 0 [] (Some "out of gas"%string)); constructor.
  - apply (bal_call 1 (Some 2) [] 0 100 [] 1 [] None); constructor.
Qed.

(** Tie to the source: every declaration this model mirrors (Gen/Pins.v, group 7) still has the digest
    of the version the model was written against (regenerated from /repo on every run). *)
Theorem C07_source_reviewed : group_ok 7 = true.
Proof. exact gen_group_7. Qed.
Print Assumptions C07_source_reviewed.

(** Frame level: every CALL and CREATE entry point — whatever the instruction semantics, the Aspects,
    the outcome — returns with a well-formed tree and the cursor where it was: no call is left open. *)
From Verif Require Import Model.KeyTree Model.Tracer Model.Exec Proofs.Exec_proofs.
Theorem C07_call_closes_tree : forall W M HT can_transfer transfer balance_of exists_acct create_account code_of collides
    get_nonce set_nonce acl_add set_code touch is_homestead is_eip158 is_berlin is_london max_code_size is_precompile precompile
    local_step init_machine keccak artela jp_on debug asp_logger bound aspect
    fuel depth hint ps caller addr input gas value s r s',
  do_call W M HT can_transfer transfer balance_of exists_acct create_account code_of collides get_nonce set_nonce acl_add set_code touch
          is_homestead is_eip158 is_berlin is_london max_code_size is_precompile precompile local_step init_machine keccak
          artela jp_on debug asp_logger bound aspect fuel depth hint ps caller addr input gas value s = Some (r, s') ->
  ct_wf (tc (xt s)) -> ct_wf (tc (xt s')) /\ current (tc (xt s')) = current (tc (xt s)).
Proof. exact call_closes_tree. Qed.
Print Assumptions C07_call_closes_tree.
Theorem C07_create_closes_tree : forall W M HT can_transfer transfer balance_of exists_acct create_account code_of collides
    get_nonce set_nonce acl_add set_code touch is_homestead is_eip158 is_berlin is_london max_code_size is_precompile precompile
    local_step init_machine keccak artela jp_on debug asp_logger bound aspect
    fuel depth hint caller code gas value address typ s r s',
  do_create W M HT can_transfer transfer balance_of exists_acct create_account code_of collides get_nonce set_nonce acl_add set_code touch
          is_homestead is_eip158 is_berlin is_london max_code_size is_precompile precompile local_step init_machine keccak
          artela jp_on debug asp_logger bound aspect fuel depth hint caller code gas value address typ s = Some (r, s') ->
  ct_wf (tc (xt s)) -> ct_wf (tc (xt s')) /\ current (tc (xt s')) = current (tc (xt s)).
Proof. exact create_closes_tree. Qed.
Print Assumptions C07_create_closes_tree.

From Verif Require Import Model.ScriptInst Proofs.Exec_examples.
(** non-vacuity: a concrete, non-trivial execution meets the premises of the frame theorems above (a top-level CALL with
    value that stores, CALLs with value through a pre join point into a contract that stores and then halts exceptionally,
    and stops): it terminates within the fuel, records two nodes, and the failed inner frame leaves no trace in the world *)
Example C07_premises_met_by_a_concrete_run :
  exists r s', ex_call true true 50 0 ex_script_A ex_caller ex_A [] 100000 7 ex_state = Some (r, s') /\
    r_err r = None /\ length (calls (tc (xt s'))) = 2%nat /\
    s_balance (xw s') ex_A = 7 /\ s_balance (xw s') ex_B = 0 /\
    aget eq_nn (sw_stor (xw s')) (ex_A, 1) = Some 5 /\ aget eq_nn (sw_stor (xw s')) (ex_B, 2) = None /\
    (15 <= length (xe s'))%nat.
Proof. exact ex_top_run. Qed.
