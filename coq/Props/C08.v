(* Props/C08.v — statements only; model: Model/Exec.v (vm/evm.go frame logic + vm/interpreter.go loop),
   generic in the instruction semantics [local_step], the host state operations, the precompiles, the
   Aspect behaviour [aspect] and the provider [bound]. Proofs: Proofs/Exec_proofs.v. *)
From Verif Require Import Base.Bytes Model.KeyTree Model.CallTree Model.Tracer Model.Exec
  Proofs.CallTree_proofs Proofs.Exec_proofs Gen.GenProps Gen.G08.
Open Scope N_scope.

Theorem C08_source_reviewed : group_ok 8 = true.
Proof. exact gen_group_8. Qed.
Print Assumptions C08_source_reviewed.

(** Every CALL the frame logic is asked to make — whether it runs, is refused up front or fails later —
    adds exactly one node, at the next index, under the node of the issuing frame (the cursor), with the
    caller, target, calldata, value and supplied gas exactly as passed, and — whatever ran inside — with
    the return data, leftover gas and error exactly as handed back to the caller. *)
Theorem C08_call_node_recorded : forall W M HT can_transfer transfer balance_of exists_acct create_account code_of collides
    get_nonce set_nonce acl_add set_code touch is_homestead is_eip158 is_berlin is_london max_code_size is_precompile precompile
    local_step init_machine keccak artela jp_on debug asp_logger bound aspect
    fuel depth hint ps caller addr input gas value s r s',
  artela = true -> ct_wf (tc (xt s)) ->
  do_call W M HT can_transfer transfer balance_of exists_acct create_account code_of collides get_nonce set_nonce acl_add set_code touch
          is_homestead is_eip158 is_berlin is_london max_code_size is_precompile precompile local_step init_machine keccak
          artela jp_on debug asp_logger bound aspect fuel depth hint ps caller addr input gas value s = Some (r, s') ->
  exists c, nth_error (calls (tc (xt s'))) (length (calls (tc (xt s)))) = Some c /\
    c_from c = caller /\ c_to c = Some addr /\ c_data c = input /\ c_value c = value /\ c_gas c = gas /\
    c_parent c = current (tc (xt s)) /\
    c_ret c = r_ret r /\ c_rgas c = r_gas r /\ c_err c = option_map verr_text (r_err r) /\ c_exited c = true.
Proof. exact call_node_recorded. Qed.
Print Assumptions C08_call_node_recorded.

Theorem C08_create_node_recorded : forall W M HT can_transfer transfer balance_of exists_acct create_account code_of collides
    get_nonce set_nonce acl_add set_code touch is_homestead is_eip158 is_berlin is_london max_code_size is_precompile precompile
    local_step init_machine keccak artela jp_on debug asp_logger bound aspect
    fuel depth hint caller code gas value address typ s r s',
  artela = true -> ct_wf (tc (xt s)) ->
  do_create W M HT can_transfer transfer balance_of exists_acct create_account code_of collides get_nonce set_nonce acl_add set_code touch
          is_homestead is_eip158 is_berlin is_london max_code_size is_precompile precompile local_step init_machine keccak
          artela jp_on debug asp_logger bound aspect fuel depth hint caller code gas value address typ s = Some (r, s') ->
  exists c, nth_error (calls (tc (xt s'))) (length (calls (tc (xt s)))) = Some c /\
    c_from c = caller /\ c_to c = None /\ c_data c = code /\ c_value c = value /\ c_gas c = gas /\
    c_parent c = current (tc (xt s)) /\
    c_ret c = r_ret r /\ c_rgas c = r_gas r /\ c_err c = option_map verr_text (r_err r) /\ c_exited c = true.
Proof. exact create_node_recorded. Qed.
Print Assumptions C08_create_node_recorded.

(** Nothing the program does afterwards alters a recorded call: a whole CALL — any nesting, any outcome —
    leaves every node that existed before identical in every field, except that the issuing frame's
    node gains children. (Calldata is stored by value; the aliasing of Go slices is outside the model
    and is what the correspondence and the independent instruction-stream log check.) *)
Theorem C08_recorded_nodes_immutable : forall W M HT can_transfer transfer balance_of exists_acct create_account code_of collides
    get_nonce set_nonce acl_add set_code touch is_homestead is_eip158 is_berlin is_london max_code_size is_precompile precompile
    local_step init_machine keccak artela jp_on debug asp_logger bound aspect
    fuel depth hint ps caller addr input gas value s r s',
  ct_wf (tc (xt s)) ->
  do_call W M HT can_transfer transfer balance_of exists_acct create_account code_of collides get_nonce set_nonce acl_add set_code touch
          is_homestead is_eip158 is_berlin is_london max_code_size is_precompile precompile local_step init_machine keccak
          artela jp_on debug asp_logger bound aspect fuel depth hint ps caller addr input gas value s = Some (r, s') ->
  preserved (tc (xt s)) (tc (xt s')).
Proof. exact call_preserves_nodes. Qed.
Print Assumptions C08_recorded_nodes_immutable.

From Verif Require Import Model.ScriptInst Proofs.Exec_examples.
(** non-vacuity: a concrete, non-trivial execution meets the premises of the frame theorems above (a top-level CALL with
    value that stores, CALLs with value through a pre join point into a contract that stores and then halts exceptionally,
    and stops): it terminates within the fuel, records two nodes, and the failed inner frame leaves no trace in the world *)
Example C08_premises_met_by_a_concrete_run :
  exists r s', ex_call true true 50 0 ex_script_A ex_caller ex_A [] 100000 7 ex_state = Some (r, s') /\
    r_err r = None /\ length (calls (tc (xt s'))) = 2%nat /\
    s_balance (xw s') ex_A = 7 /\ s_balance (xw s') ex_B = 0 /\
    aget eq_nn (sw_stor (xw s')) (ex_A, 1) = Some 5 /\ aget eq_nn (sw_stor (xw s')) (ex_B, 2) = None /\
    (15 <= length (xe s'))%nat.
Proof. exact ex_top_run. Qed.
