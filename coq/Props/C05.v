(* Props/C05.v — statements only; model: Model/Exec.v (vm/evm.go frame logic + vm/interpreter.go loop),
   generic in the instruction semantics [local_step], the host state operations, the precompiles, the
   Aspect behaviour [aspect] and the provider [bound]. Proofs: Proofs/Exec_proofs.v. *)
From Verif Require Import Base.Bytes Model.KeyTree Model.CallTree Model.Tracer Model.Exec
  Proofs.CallTree_proofs Proofs.Exec_proofs Gen.GenProps Gen.G05.
Open Scope N_scope.

Theorem C05_source_reviewed : group_ok 5 = true.
Proof. exact gen_group_5. Qed.
Print Assumptions C05_source_reviewed.
