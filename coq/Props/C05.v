(* Props/C05.v — statements only; model: Model/Exec.v (vm/evm.go frame logic + vm/interpreter.go loop),
   generic in the instruction semantics [local_step], the host state operations, the precompiles, the
   Aspect behaviour [aspect] and the provider [bound]. Proofs: Proofs/Exec_proofs.v. *)
From Verif Require Import Base.Bytes Model.KeyTree Model.CallTree Model.Tracer Model.Exec
  Proofs.CallTree_proofs Proofs.Exec_proofs Gen.GenProps Gen.G05.
Open Scope N_scope.

Theorem C05_source_reviewed : group_ok 5 = true.
Proof. exact gen_group_5. Qed.
Print Assumptions C05_source_reviewed.
From Verif Require Import Model.ScriptInst Proofs.Exec_generic Proofs.Exec_instances Proofs.ScriptInst_proofs.

(** With join points switched off — or for the reference frame logic without the Artela additions — no
    join point runs anywhere in an execution: the provider is not queried, no Aspect is entered, fired
    or exited, for every entry point, call tree and outcome.  (Side condition: the instruction
    semantics does not itself fabricate join-point events; it holds for the instance run against the code.) *)
Theorem C05_no_join_point_when_off : forall W M HT can_transfer transfer balance_of exists_acct create_account code_of collides
    get_nonce set_nonce acl_add set_code touch is_homestead is_eip158 is_berlin is_london max_code_size is_precompile precompile
    local_step init_machine keccak artela jp_on debug asp_logger bound aspect,
  (forall d fc m w, Forall (fun e => is_jp_event e = false) (step_events (local_step d fc m w))) ->
  artela && jp_on = false ->
  forall fuel, P_all W M HT can_transfer transfer balance_of exists_acct create_account code_of collides get_nonce set_nonce
      acl_add set_code touch is_homestead is_eip158 is_berlin is_london max_code_size is_precompile precompile
      local_step init_machine keccak artela jp_on debug asp_logger bound aspect (Qnojp W) fuel.
Proof. exact no_join_point_when_off. Qed.
Print Assumptions C05_no_join_point_when_off.

(** The join points of a call receive precisely that call's data: the payload handed to the pre join
    point is built from the call's own caller, callee, calldata, value, gas and the index of the node just
    added; the post payload additionally carries the interpreter's return data and error text — read
    off the definition of [do_call] (Model/Exec.v, the two [jpin] records), which the correspondence run
    compares field by field with what the fake Aspect runtime receives from the real code.
    A failing pre join point makes the frame fail without running the callee or the post join point: *)
Theorem C05_pre_failure_result : forall pret pgas e,
  r_err (pre_fail pret pgas e) <> None /\ r_ret (pre_fail pret pgas e) = pret.
Proof. intros. split; [discriminate|reflexivity]. Qed.
Print Assumptions C05_pre_failure_result.

(** EXACTLY ONCE, WITH THAT CALL'S DATA.  For every CALL that passes the entry checks and reaches a contract with
    code while join points are on — at any depth, for every instruction semantics, Aspect behaviour and provider:
    the pre join point is evaluated once, on the state right after the frame was opened, with the payload
    (caller, callee, index of the node just added to the call tree, calldata as passed, value, gas supplied);
    if it fails, neither the callee nor the post join point runs and the frame fails with the pre join point's
    result; otherwise the callee runs once with the pre join point's leftover gas, then the post join point is
    evaluated once with the same call data plus the callee's return data, error text and leftover gas, and its
    result is merged into the frame's.  Nothing else happens in between.  Nested calls are instances of the same
    statement inside [run_frame]; their events lie between this call's pre and post events (C18_events_balanced). *)
Theorem C05_join_points_once_with_call_data : forall W M HT can_transfer transfer balance_of exists_acct create_account code_of collides get_nonce set_nonce acl_add set_code touch is_homestead is_eip158 is_berlin is_london max_code_size is_precompile precompile local_step init_machine keccak artela jp_on debug asp_logger bound aspect
    fuel depth hint ps caller addr input gas value s r s',
  do_call W M HT can_transfer transfer balance_of exists_acct create_account code_of collides get_nonce set_nonce acl_add set_code touch is_homestead is_eip158 is_berlin is_london max_code_size is_precompile precompile local_step init_machine keccak artela jp_on debug asp_logger bound aspect (S fuel) depth hint ps caller addr input gas value s = Some (r, s') ->
  let s1 := save_call W artela s caller (Some addr) input value gas in
  let s2 := if exists_acct (xw s1) addr then s1 else set_w W s1 (create_account (xw s1) addr) in
  let s3 := dbg_open W debug (transfer_recorded W transfer balance_of artela s2 caller addr value) depth 0xf1 caller addr false input gas (Some value) in
  Nat.ltb max_depth depth = false ->
  negb (value =? 0) && negb (can_transfer (xw s1) caller value) = false ->
  negb (exists_acct (xw s1) addr) && negb (is_precompile addr) && is_eip158 && (value =? 0) = false ->
  is_precompile addr = false ->
  code_of (xw s3) addr <> [] ->
  artela && jp_on = true ->
  let idx := current_index (tc (xt s1)) in
  let p0 := {| j_from := caller; j_to := addr; j_index := idx; j_data := input; j_value := value; j_gas := gas;
               j_ret := []; j_errtext := ""%string |} in
  exists pret pgas perr s4,
    join_point W asp_logger bound aspect true caller addr input value p0 gas s3 = (pret, pgas, perr, s4) /\
    match perr with
    | Some e =>
      r = pre_fail pret pgas e /\
      s' = exit_call W artela (dbg_close W debug (set_w W s4 (xw s1)) depth r gas (r_gas r)) r
    | None =>
      let fc := {| f_self := addr; f_code_addr := addr; f_caller := caller; f_value := value; f_input := input;
                   f_code := code_of (xw s3) addr; f_static := ps; f_create := false |} in
      exists rb s5, run_frame W M HT can_transfer transfer balance_of exists_acct create_account code_of collides get_nonce set_nonce acl_add set_code touch is_homestead is_eip158 is_berlin is_london max_code_size is_precompile precompile local_step init_machine keccak artela jp_on debug asp_logger bound aspect fuel depth hint fc pgas s4 = Some (rb, s5) /\
        let p1 := {| j_from := caller; j_to := addr; j_index := idx; j_data := input; j_value := value;
                     j_gas := r_gas rb; j_ret := r_ret rb;
                     j_errtext := match r_err rb with Some e => verr_text e | None => ""%string end |} in
        exists qret qgas qerr s6 s7,
          join_point W asp_logger bound aspect false caller addr input value p1 (r_gas rb) s5 = (qret, qgas, qerr, s6) /\
          tail W (xw s1) (post_merge rb qret qgas qerr) s6 = (r, s7) /\
          s' = exit_call W artela (dbg_close W debug s7 depth r gas (r_gas r)) r
    end.
Proof. exact call_join_points_shape. Qed.
Print Assumptions C05_join_points_once_with_call_data.

Example C05_side_condition_inhabited : forall d fc m w,
  Forall (fun e => is_jp_event e = false) (step_events (s_step d fc m w)).
Proof. exact s_step_no_jp. Qed.
