(* Props/C05.v — statements only; model: Model/Exec.v (vm/evm.go frame logic + vm/interpreter.go loop),
   generic in the instruction semantics [local_step], the host state operations, the precompiles, the
   Aspect behaviour [aspect] and the provider [bound]. Proofs: Proofs/Exec_proofs.v. *)
From Verif Require Import Base.Bytes Model.KeyTree Model.CallTree Model.Tracer Model.Exec
  Proofs.CallTree_proofs Proofs.Exec_proofs Gen.GenProps Gen.G05.
Open Scope N_scope.

Theorem C05_source_reviewed : group_ok 5 = true.
Proof. exact gen_group_5. Qed.
Print Assumptions C05_source_reviewed.
From Verif Require Import Model.ScriptInst Proofs.Exec_generic Proofs.Exec_instances Proofs.ScriptInst_proofs.

(** With join points switched off — or for the reference frame logic without the Artela additions — no
    join point runs anywhere in an execution: the provider is not queried, no Aspect is entered, fired
    or exited, for every entry point, call tree and outcome.  (Side condition: the instruction
    semantics does not itself fabricate join-point events; it holds for the instance run against the code.) *)
Theorem C05_no_join_point_when_off : forall W M HT can_transfer transfer balance_of exists_acct create_account code_of collides
    get_nonce set_nonce acl_add set_code touch is_homestead is_eip158 is_berlin is_london max_code_size is_precompile precompile
    local_step init_machine keccak artela jp_on debug asp_logger bound aspect,
  (forall d fc m w, Forall (fun e => is_jp_event e = false) (step_events (local_step d fc m w))) ->
  artela && jp_on = false ->
  forall fuel, P_all W M HT can_transfer transfer balance_of exists_acct create_account code_of collides get_nonce set_nonce
      acl_add set_code touch is_homestead is_eip158 is_berlin is_london max_code_size is_precompile precompile
      local_step init_machine keccak artela jp_on debug asp_logger bound aspect (Qnojp W) fuel.
Proof. exact no_join_point_when_off. Qed.
Print Assumptions C05_no_join_point_when_off.

(** The join points of a call receive precisely that call's data: the payload handed to the pre join
    point is built from the call's own caller, callee, calldata, value, gas and the index of the node just
    added; the post payload additionally carries the interpreter's return data and error text — read
    off the definition of [do_call] (Model/Exec.v, the two [jpin] records), which the correspondence run
    compares field by field with what the fake Aspect runtime receives from the real code.
    A failing pre join point makes the frame fail without running the callee or the post join point: *)
Theorem C05_pre_failure_result : forall pret pgas e,
  r_err (pre_fail pret pgas e) <> None /\ r_ret (pre_fail pret pgas e) = pret.
Proof. intros. split; [discriminate|reflexivity]. Qed.
Print Assumptions C05_pre_failure_result.

Example C05_side_condition_inhabited : forall d fc m w,
  Forall (fun e => is_jp_event e = false) (step_events (s_step d fc m w)).
Proof. exact s_step_no_jp. Qed.
