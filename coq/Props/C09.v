(* Props/C09.v — journaled values equal the decoded storage content at the moment of journaling.
   Model: Model/Journal.v (+ Tracer.v jop); specification: Model/SolLayout.v. *)
From Verif Require Import Base.Bytes Model.Journal Model.SolLayout Model.KeyTree Model.Tracer
  Proofs.Journal_proofs Proofs.KeyTree_proofs.
From Verif Require Import Gen.GenProps Gen.G09.
Open Scope N_scope.

(** value journal: for every storage word and every (offset, width) inside the word, the recorded
    bytes are exactly the packed field Solidity assigns to that position *)
Theorem C09_value_exact : forall w off size,
  off <= 31 -> size <= 32 -> off + size <= 32 ->
  vv_slice w off size = Ok (sol_packed_field w off size).
Proof. exact vv_correct. Qed.
Print Assumptions C09_value_exact.

(** every other operand pair is rejected with an error (never a panic) *)
Theorem C09_value_rejects : forall w off size,
  ~ (off <= 31 /\ size <= 32 /\ off + size <= 32) -> exists e, vv_slice w off size = Err e.
Proof. exact vv_rejects. Qed.
Print Assumptions C09_value_rejects.

(** reference journal: for every content (any length: empty, leading zero bytes, 31/32 boundary,
    multi-slot), every slot number and every storage that holds the content in Solidity's layout,
    the recorded bytes are exactly the content.  Holds for any hash function. *)
Theorem C09_string_roundtrip : forall st keccak slot content,
  wf_bytes content -> blen content < two64 ->
  holds_string st keccak slot content -> vr_read st keccak slot = Ok content.
Proof. exact vr_roundtrip. Qed.
Print Assumptions C09_string_roundtrip.

(** a length word that is neither a valid short nor a valid long form is rejected *)
Theorem C09_string_rejects : forall st keccak slot,
  valid_len_word (st slot) = false -> exists e, vr_read st keccak slot = Err e.
Proof. exact vr_rejects_bad_encoding. Qed.
Print Assumptions C09_string_rejects.

(** rejected operands record nothing: a refused change leaves the journal state untouched *)
Theorem C09_refused_records_nothing : forall s a sl off ty call v e,
  snd (save_change s a sl off ty call v) = Err e -> fst (save_change s a sl off ty call v) = s.
Proof. exact save_change_refused. Qed.
Print Assumptions C09_refused_records_nothing.

(** and an instruction whose decoding fails does not reach the journal at all *)
Theorem C09_decode_error_records_nothing : forall st keccak self mem t w off size ty rest e,
  vv_slice (st w) off size = Err e ->
  jop st keccak 0xe6 self mem (w :: off :: size :: ty :: rest) t = (t, Err e).
Proof. intros. cbn. rewrite H. reflexivity. Qed.
Print Assumptions C09_decode_error_records_nothing.

(** memory strings (state-variable names, index keys): exact within memory, rejected otherwise *)
Theorem C09_mem_string_exact : forall ptr mem,
  blen mem < two63 -> ptr + 32 <= blen mem ->
  let dl := be_to_N (slice mem ptr (ptr + 32)) in
  ptr + 32 + dl <= blen mem ->
  load_data_from_mem ptr mem = Ok (slice mem (ptr + 32) (ptr + 32 + dl)).
Proof. exact ldm_correct. Qed.
Print Assumptions C09_mem_string_exact.

(** non-vacuity: a 33-byte string with a leading zero byte at slot 2 *)
Example C09_example :
  let content := 0 :: repeat 7 32 in
  let kk := fun _ : bytes => 1000 in
  let st := fun s => if s =? 2 then 67 else if s =? 1000 then be_to_N (firstn 32 content)
                     else if s =? 1001 then be_to_N (right_pad 32 [7]) else 0 in
  wf_bytes content /\ holds_string st kk 2 content /\ vr_read st kk 2 = Ok content.
Proof.
  cbv zeta. split; [repeat constructor; reflexivity|]. split.
  - unfold holds_string. cbn -[be_to_N chunks N.of_nat N_to_be u256]. split; [reflexivity|].
    intros i Hi. destruct i as [|[|i]]; [reflexivity|reflexivity|].
    exfalso. vm_compute in Hi. lia.
  - vm_compute. reflexivity.
Qed.

(** Tie to the source: every declaration this model mirrors (Gen/Pins.v, group 9) still has the digest
    of the version the model was written against (regenerated from /repo on every run). *)
Theorem C09_source_reviewed : group_ok 9 = true.
Proof. exact gen_group_9. Qed.
Print Assumptions C09_source_reviewed.
