(* Props/C16.v — equal executions produce byte-identical results and tracer views.
   The model is a function: equal inputs give equal outputs by construction.  What needs stating is that
   every list-valued answer has an order that is a function of WHAT was recorded, not of how the runtime
   happened to iterate (partial: Go's randomised map iteration itself cannot be exhibited by a Gallina
   model; the repetition run is what detects a leak of map order). *)
From Coq Require Import Sorted Permutation.
From Verif Require Import Base.Bytes Model.KeyTree Model.CallTree Proofs.KeyTree_proofs Proofs.CallTree_proofs Gen.GenProps Gen.Flow Gen.GFlow Gen.G16.
Open Scope N_scope.

Theorem C16_source_reviewed : group_ok 16 = true.
Proof. exact gen_group_16. Qed.
Print Assumptions C16_source_reviewed.

(** the child indices reported for a node (ChildrenIndices / IndicesOfChanges / Children) come in
    bytewise order of the index key ... *)
Theorem C16_children_indices_sorted : forall s k, StronglySorted bleq (children_indices s k).
Proof. intros. unfold children_indices. apply sort_bytes_sorted. Qed.
Print Assumptions C16_children_indices_sorted.

(** ... and therefore depend only on WHICH keys are registered under the node: two states (two replicas,
    two histories registering the same keys in any order) report identical lists *)
Theorem C16_children_indices_canonical : forall s1 k1 s2 k2,
  Permutation (map (fun e => snd (fst e)) (filter (fun e => Nat.eqb (fst (fst e)) k1) (cindex s1)))
              (map (fun e => snd (fst e)) (filter (fun e => Nat.eqb (fst (fst e)) k2) (cindex s2))) ->
  children_indices s1 k1 = children_indices s2 k2.
Proof. exact children_indices_canonical. Qed.
Print Assumptions C16_children_indices_canonical.

(** the children of a call are reported in increasing index order, i.e. in order of entry *)
Theorem C16_call_children_ordered : forall t i c, ct_wf t -> nth_error (calls t) i = Some c ->
  StronglySorted lt (c_children c).
Proof. exact ct_children_increasing. Qed.
Print Assumptions C16_call_children_ordered.

Example C16_example_order_independent :
  let a := fold_left kstep [KReg 1 None 5 None 10 [1]; KReg 1 (Some (5, 10)) 7 None 11 [9]; KReg 1 (Some (5, 10)) 8 None 11 [3]] kt_empty in
  let b := fold_left kstep [KReg 1 None 5 None 10 [1]; KReg 1 (Some (5, 10)) 8 None 11 [3]; KReg 1 (Some (5, 10)) 7 None 11 [9]] kt_empty in
  indices_of_changes a 1 [1] [] = Some [[3]; [9]] /\ indices_of_changes b 1 [1] [] = Some [[3]; [9]].
Proof. split; vm_compute; reflexivity. Qed.

(** shared mutable package-level values: the 256-bit constants of vm/constants.go are pointers and uint256 arithmetic works in
    place on its receiver; read from the syntax trees on every run: no function uses one of them as the receiver of a
    modifying method, assigns it or takes its address (the journal helpers copy them first: `new(uint256.Int).Add(c, zero)`),
    so one execution cannot change what the next one in the same process computes with them *)
Theorem C16_shared_constants_never_written : const_writes = [].
Proof. exact shared_constants_never_written. Qed.
Print Assumptions C16_shared_constants_never_written.
