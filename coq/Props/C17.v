(* Props/C17.v — concurrent EVM instances do not interfere; cancellation is safe.
   PARTIAL by nature: data races, the Go memory model and the scheduler are not expressible in an
   executable Gallina model; they are validated (race detector + repeated randomised schedules), not
   proved.  What is proved is the logic the property rests on. *)
From Coq Require Import String List Bool.
From Verif Require Import Base.Bytes Model.KeyTree Model.CallTree Model.Tracer Model.Exec Proofs.CallTree_proofs Proofs.Exec_proofs
  Model.Cancel Proofs.Cancel_proofs Gen.GenProps Gen.GCow Gen.Flow Gen.GFlow Gen.G17.
Import ListNotations.

Theorem C17_source_reviewed : group_ok 17 = true.
Proof. exact gen_group_17. Qed.
Print Assumptions C17_source_reviewed.

(** copy-on-write of the instruction tables: after interpreters with every activatable extra EIP have been
    constructed (on Frontier, Istanbul and London rules) the package-level table of every fork is, entry by
    entry, what it was before *)
Theorem C17_tables_copy_on_write : tables_copy_on_write = true.
Proof. exact gen_cow. Qed.
Print Assumptions C17_tables_copy_on_write.

(** a cancelled execution is an execution: the abort flag only makes jump instructions stop their frame
    (inherited instruction code, identical to go-ethereum v1.12.0 by C01).  For EVERY instruction semantics —
    in particular one in which, from some moment on, every jump ends its frame — each CALL/CREATE entry point
    returns with the call tree well formed and no call left open; the call depth is restored by construction. *)
Theorem C17_cancelled_run_closes_bookkeeping : forall W M HT can_transfer transfer balance_of exists_acct create_account code_of collides
    get_nonce set_nonce acl_add set_code touch is_homestead is_eip158 is_berlin is_london max_code_size is_precompile precompile
    local_step init_machine keccak artela jp_on debug asp_logger bound aspect
    fuel depth hint ps caller addr input gas value s r s',
  do_call W M HT can_transfer transfer balance_of exists_acct create_account code_of collides get_nonce set_nonce acl_add set_code touch
          is_homestead is_eip158 is_berlin is_london max_code_size is_precompile precompile local_step init_machine keccak
          artela jp_on debug asp_logger bound aspect fuel depth hint ps caller addr input gas value s = Some (r, s') ->
  ct_wf (tc (xt s)) -> ct_wf (tc (xt s')) /\ current (tc (xt s')) = current (tc (xt s)).
Proof. exact call_closes_tree. Qed.
Print Assumptions C17_cancelled_run_closes_bookkeeping.

(** CANCELLATION STOPS PROMPTLY.  The control skeleton of the interpreter loop (Model/Cancel.v): which functions assign the
    program counter and which read or write the abort flag is read from the syntax trees on every run ... *)
Theorem C17_only_jumps_assign_pc_and_only_cancel_sets_abort :
  pc_writers = pc_writers_reviewed /\ abort_users = abort_users_reviewed.
Proof. exact flow_ok. Qed.
Print Assumptions C17_only_jumps_assign_pc_and_only_cancel_sets_abort.

(** ... as is where these functions sit in the live instruction tables (every fork, every extra-EIP variant): opJump at 0x56
    only, opJumpi at 0x57 only, the PUSH functions exactly at 0x60..0x7f — what [is_jump_op] and [push_len] say of a byte *)
Theorem C17_jump_and_push_entries_where_the_model_says : control_tables_ok = true.
Proof. exact gen_control_tables. Qed.
Print Assumptions C17_jump_and_push_entries_where_the_model_says.

(** ... and under exactly these premises — only JUMP/JUMPI move the program counter other than forwards, STOP (also the
    implicit one behind the code) ends the frame, the flag is never cleared — for EVERY instruction semantics, state and
    moment k at which another goroutine's Cancel becomes visible: from that iteration on the frame visits a prefix of the
    straight-line path through its code (no jump is taken any more), so it makes at most length(code) - pc + 1 further
    iterations, and it does stop (the model's fuel is never what ends it). *)
Theorem C17_cancelled_frame_stops_within_code_length :
  forall (St : Type) (code : bytes) (exec : N -> nat -> St -> eff St) (abort_at : nat -> bool),
  (forall op pc s d s', exec op pc s = JumpTo d s' -> is_jump_op op = true) ->
  (forall pc s, exists s', exec 0%N pc s = End s') ->
  (forall k, abort_at k = true -> abort_at (S k) = true) ->
  forall k pc s, abort_at k = true ->
  (forall fuel t r, loop St code exec abort_at fuel k pc s = Some (t, r) ->
     is_prefix t (straight_from code pc) = true /\ (length t <= (length code - pc) + 1)%nat) /\
  (forall fuel, (length code - pc < fuel)%nat -> loop St code exec abort_at fuel k pc s <> None).
Proof.
  intros St code exec abort_at H1 H2 H3 k pc s Hab. split.
  - intros fuel t r L. split.
    + eapply cancelled_frame_walks_straight; eauto.
    + eapply cancelled_frame_stops_within_code_length; eauto.
  - intros fuel Hf. eapply cancelled_frame_terminates; eauto.
Qed.
Print Assumptions C17_cancelled_frame_stops_within_code_length.

(** the whole frame: if the flag is visible by iteration k0, the loop makes at most k0 + length(code) + 1 iterations *)
Theorem C17_frame_iterations_bounded_after_cancel :
  forall (St : Type) (code : bytes) (exec : N -> nat -> St -> eff St) (abort_at : nat -> bool),
  (forall op pc s d s', exec op pc s = JumpTo d s' -> is_jump_op op = true) ->
  (forall pc s, exists s', exec 0%N pc s = End s') ->
  (forall k, abort_at k = true -> abort_at (S k) = true) ->
  forall fuel k0 pc s t r, abort_at k0 = true -> loop St code exec abort_at fuel 0 pc s = Some (t, r) ->
  (length t <= k0 + length code + 1)%nat.
Proof.
  intros St code exec abort_at H1 H2 H3 fuel k0 pc s t r H0 L.
  pose proof (frame_iterations_after_cancel St code exec abort_at H1 H2 H3 fuel k0 0 pc s t r H0 L). lia.
Qed.
Print Assumptions C17_frame_iterations_bounded_after_cancel.

(** the premises are met by a concrete endless loop, which a Cancel stops at its next JUMP; without Cancel it never ends *)
Example C17_cancel_premises_met : 
  loop unit ex_code ex_exec ex_abort 100 0 0 tt = Some ([0; 2; 3; 5; 2; 3; 5]%nat, tt) /\
  loop unit ex_code ex_exec (fun _ => false) 100 0 0 tt = None.
Proof. exact ex_cancelled_loop. Qed.
