(* Props/C17.v — concurrent EVM instances do not interfere; cancellation is safe.
   PARTIAL by nature: data races, the Go memory model and the scheduler are not expressible in an
   executable Gallina model; they are validated (race detector + repeated randomised schedules), not
   proved.  What is proved is the logic the property rests on. *)
From Coq Require Import String List Bool.
From Verif Require Import Base.Bytes Model.KeyTree Model.CallTree Model.Tracer Model.Exec Proofs.CallTree_proofs Proofs.Exec_proofs
  Gen.GenProps Gen.GCow Gen.G17.
Import ListNotations.

Theorem C17_source_reviewed : group_ok 17 = true.
Proof. exact gen_group_17. Qed.
Print Assumptions C17_source_reviewed.

(** copy-on-write of the instruction tables: after interpreters with every activatable extra EIP have been
    constructed (on Frontier, Istanbul and London rules) the package-level table of every fork is, entry by
    entry, what it was before *)
Theorem C17_tables_copy_on_write : tables_copy_on_write = true.
Proof. exact gen_cow. Qed.
Print Assumptions C17_tables_copy_on_write.

(** a cancelled execution is an execution: the abort flag only makes jump instructions stop their frame
    (inherited instruction code, identical to go-ethereum v1.12.0 by C01).  For EVERY instruction semantics —
    in particular one in which, from some moment on, every jump ends its frame — each CALL/CREATE entry point
    returns with the call tree well formed and no call left open; the call depth is restored by construction. *)
Theorem C17_cancelled_run_closes_bookkeeping : forall W M HT can_transfer transfer balance_of exists_acct create_account code_of collides
    get_nonce set_nonce acl_add set_code touch is_homestead is_eip158 is_berlin is_london max_code_size is_precompile precompile
    local_step init_machine keccak artela jp_on debug asp_logger bound aspect
    fuel depth hint ps caller addr input gas value s r s',
  do_call W M HT can_transfer transfer balance_of exists_acct create_account code_of collides get_nonce set_nonce acl_add set_code touch
          is_homestead is_eip158 is_berlin is_london max_code_size is_precompile precompile local_step init_machine keccak
          artela jp_on debug asp_logger bound aspect fuel depth hint ps caller addr input gas value s = Some (r, s') ->
  ct_wf (tc (xt s)) -> ct_wf (tc (xt s')) /\ current (tc (xt s')) = current (tc (xt s)).
Proof. exact call_closes_tree. Qed.
Print Assumptions C17_cancelled_run_closes_bookkeeping.
