(* Props/C10.v — statements only; model: Model/Exec.v (vm/evm.go frame logic + vm/interpreter.go loop),
   generic in the instruction semantics [local_step], the host state operations, the precompiles, the
   Aspect behaviour [aspect] and the provider [bound]. Proofs: Proofs/Exec_proofs.v. *)
From Verif Require Import Base.Bytes Model.KeyTree Model.CallTree Model.Tracer Model.Exec
  Proofs.CallTree_proofs Proofs.Exec_proofs Gen.GenProps Gen.G10.
Open Scope N_scope.

Theorem C10_source_reviewed : group_ok 10 = true.
Proof. exact gen_group_10. Qed.
Print Assumptions C10_source_reviewed.
