(* Props/C10.v — statements only; model: Model/Exec.v (vm/evm.go frame logic + vm/interpreter.go loop),
   generic in the instruction semantics [local_step], the host state operations, the precompiles, the
   Aspect behaviour [aspect] and the provider [bound]. Proofs: Proofs/Exec_proofs.v. *)
From Verif Require Import Base.Bytes Model.KeyTree Model.CallTree Model.Tracer Model.Exec
  Proofs.CallTree_proofs Proofs.Exec_proofs Gen.GenProps Gen.G10.
Open Scope N_scope.

Theorem C10_source_reviewed : group_ok 10 = true.
Proof. exact gen_group_10. Qed.
Print Assumptions C10_source_reviewed.
From Verif Require Import Model.ScriptInst Proofs.Exec_generic Proofs.Exec_instances Proofs.ScriptInst_proofs.

(** Every journal instruction a frame executes itself is filed under that frame's storage address
    ([f_self]: the callee for CALL/STATICCALL, the caller's address under DELEGATECALL/CALLCODE, the new
    contract during creation — see the [fctx] each entry point builds) and under the call index of the
    innermost CALL/CREATE node: the index the cursor had when the frame started, no matter how many calls
    of whatever kind, failing or not, the frame makes between its journal instructions.  Journal events of
    callees carry strictly deeper depth tags, so entries of different frames never mix. *)
Theorem C10_attribution : forall W M HT can_transfer transfer balance_of exists_acct create_account code_of collides
    get_nonce set_nonce acl_add set_code touch is_homestead is_eip158 is_berlin is_london max_code_size is_precompile precompile
    local_step init_machine keccak artela jp_on debug asp_logger bound aspect,
  (forall d fc m w, Forall plain_event (step_events (local_step d fc m w))) ->
  (forall d fc m w, Forall no_journal_event (step_events (local_step d fc m w))) ->
  (forall d fc m w, Forall (fun e => is_jp_event e = false) (step_events (local_step d fc m w))) ->
  forall fuel d fc m s r s',
  ct_wf (tc (xt s)) ->
  run W M HT can_transfer transfer balance_of exists_acct create_account code_of collides get_nonce set_nonce
      acl_add set_code touch is_homestead is_eip158 is_berlin is_london max_code_size is_precompile precompile
      local_step init_machine keccak artela jp_on debug asp_logger bound aspect fuel (S d) fc m s = Some (r, s') ->
  exists evs, xe s' = xe s ++ evs /\
              Forall (attributed (S d) (f_self fc) (current_index (tc (xt s)))) evs /\
              ct_wf (tc (xt s')) /\ current (tc (xt s')) = current (tc (xt s)).
Proof. exact run_attribution. Qed.
Print Assumptions C10_attribution.

Theorem C10_callee_entries_tagged_deeper : forall W M HT can_transfer transfer balance_of exists_acct create_account code_of collides
    get_nonce set_nonce acl_add set_code touch is_homestead is_eip158 is_berlin is_london max_code_size is_precompile precompile
    local_step init_machine keccak artela jp_on debug asp_logger bound aspect,
  (forall d fc m w, Forall plain_event (step_events (local_step d fc m w))) ->
  (forall d fc m w, Forall no_journal_event (step_events (local_step d fc m w))) ->
  (forall d fc m w, Forall (fun e => is_jp_event e = false) (step_events (local_step d fc m w))) ->
  forall fuel, P_all W M HT can_transfer transfer balance_of exists_acct create_account code_of collides get_nonce set_nonce
      acl_add set_code touch is_homestead is_eip158 is_berlin is_london max_code_size is_precompile precompile
      local_step init_machine keccak artela jp_on debug asp_logger bound aspect (Qtag W) fuel.
Proof. exact journal_tags. Qed.
Print Assumptions C10_callee_entries_tagged_deeper.

(** The recorded list per (account, key, call) is the chronological sequence with immediate repeats
    collapsed (C11_last_value / Model/KeyTree.v append_change); entries of frames that later fail stay:
    the tracer is not part of the world state the revert restores (Model/Exec.v: [tail] resets [xw] only). *)
Theorem C10_failed_frames_keep_entries : forall W w0 r (s : xstate W) r' s',
  tail W w0 r s = (r', s') -> xt s' = xt s.
Proof. intros W w0 r s r' s'. unfold tail. destruct (r_err r); intros H; inversion H; reflexivity. Qed.
Print Assumptions C10_failed_frames_keep_entries.

Example C10_side_condition_inhabited : forall d fc m w,
  Forall plain_event (step_events (s_step d fc m w)) /\ Forall no_journal_event (step_events (s_step d fc m w)) /\
  Forall (fun e => is_jp_event e = false) (step_events (s_step d fc m w)).
Proof. intros. split; [apply s_step_plain|split; [apply s_step_no_journal|apply s_step_no_jp]]. Qed.

From Verif Require Import Model.ScriptInst Proofs.Exec_examples.
(** non-vacuity: a concrete, non-trivial execution meets the premises of the frame theorems above (a top-level CALL with
    value that stores, CALLs with value through a pre join point into a contract that stores and then halts exceptionally,
    and stops): it terminates within the fuel, records two nodes, and the failed inner frame leaves no trace in the world *)
Example C10_premises_met_by_a_concrete_run :
  exists r s', ex_call true true 50 0 ex_script_A ex_caller ex_A [] 100000 7 ex_state = Some (r, s') /\
    r_err r = None /\ length (calls (tc (xt s'))) = 2%nat /\
    s_balance (xw s') ex_A = 7 /\ s_balance (xw s') ex_B = 0 /\
    aget eq_nn (sw_stor (xw s')) (ex_A, 1) = Some 5 /\ aget eq_nn (sw_stor (xw s')) (ex_B, 2) = None /\
    (15 <= length (xe s'))%nat.
Proof. exact ex_top_run. Qed.
