(* Props/C13.v — statements only; model: Model/Exec.v (vm/evm.go frame logic + vm/interpreter.go loop),
   generic in the instruction semantics [local_step], the host state operations, the precompiles, the
   Aspect behaviour [aspect] and the provider [bound]. Proofs: Proofs/Exec_proofs.v. *)
From Verif Require Import Base.Bytes Model.KeyTree Model.CallTree Model.Tracer Model.Exec
  Proofs.CallTree_proofs Proofs.Exec_proofs Gen.GenProps Gen.G13.
Open Scope N_scope.

Theorem C13_source_reviewed : group_ok 13 = true.
Proof. exact gen_group_13. Qed.
Print Assumptions C13_source_reviewed.

(** The value transfer made on entering a CALL or CREATE frame is recorded as the balances of sender and
    recipient read from the state immediately before, and immediately after, the host's transfer function
    — whatever that function does, also for zero value, self-transfers and new accounts. *)
Theorem C13_transfer_bracketed : forall W transfer balance_of artela (s : xstate W) from to value,
  artela = true ->
  let w := xw s in let w' := transfer w from to value in
  xw (transfer_recorded W transfer balance_of artela s from to value) = w' /\
  xt (transfer_recorded W transfer balance_of artela s from to value) =
    t_transfer_record (xt s) from to (balance_of w from) (balance_of w to) (balance_of w' from) (balance_of w' to).
Proof. exact transfer_recorded_spec. Qed.
Print Assumptions C13_transfer_bracketed.

(** ... filed under the index of the frame's own node: the transfer follows SaveCall, whose cursor is
    the node just added; the four values go to the journal in the order before-sender, before-recipient,
    after-sender, after-recipient (Model/Tracer.v t_transfer_record), an immediately repeated equal value
    being recorded once (C11_last_value / append_change) *)
Theorem C13_filed_under_own_frame : forall W artela (s : xstate W) from to data value gas,
  artela = true ->
  current_index (tc (xt (save_call W artela s from to data value gas))) = N.of_nat (length (calls (tc (xt s)))).
Proof. exact save_call_cursor. Qed.
Print Assumptions C13_filed_under_own_frame.

(** no other frame-logic step writes to the journal: entering and leaving a call moves only the call tree *)
Theorem C13_no_other_balance_entries : forall W artela (s : xstate W) from to data value gas r,
  tk (xt (save_call W artela s from to data value gas)) = tk (xt s) /\ tk (xt (exit_call W artela s r)) = tk (xt s).
Proof. exact save_exit_keep_keytree. Qed.
Print Assumptions C13_no_other_balance_entries.

From Verif Require Import Model.ScriptInst Proofs.Exec_examples.
(** non-vacuity: a concrete, non-trivial execution meets the premises of the frame theorems above (a top-level CALL with
    value that stores, CALLs with value through a pre join point into a contract that stores and then halts exceptionally,
    and stops): it terminates within the fuel, records two nodes, and the failed inner frame leaves no trace in the world *)
Example C13_premises_met_by_a_concrete_run :
  exists r s', ex_call true true 50 0 ex_script_A ex_caller ex_A [] 100000 7 ex_state = Some (r, s') /\
    r_err r = None /\ length (calls (tc (xt s'))) = 2%nat /\
    s_balance (xw s') ex_A = 7 /\ s_balance (xw s') ex_B = 0 /\
    aget eq_nn (sw_stor (xw s')) (ex_A, 1) = Some 5 /\ aget eq_nn (sw_stor (xw s')) (ex_B, 2) = None /\
    (15 <= length (xe s'))%nat.
Proof. exact ex_top_run. Qed.
