(* Props/C11.v — key-tree lookups by name/index path and by (slot, offset, type) agree with the
   registrations.  Model: Model/KeyTree.v; proofs: Proofs/KeyTree_proofs.v. *)
From Verif Require Import Base.Bytes Model.KeyTree Proofs.KeyTree_proofs.
From Verif Require Import Gen.GenProps Gen.G11.
Open Scope N_scope.

(** The invariant [Inv] holds in every state reachable from the empty journal by any finite
    history of registrations (top-level / nested), change journals (under any call index, so any
    enter/exit pattern) and balance journals, as long as each registration is consistent with the
    state it meets (op_compatible: the name is not already bound under that parent to another
    location, the location is not already registered under another parent or name). *)
Theorem C11_inv_reachable : forall ops, hist_ok kt_empty ops -> Inv (fold_left kstep ops kt_empty).
Proof. intros ops H. apply inv_reachable; [apply inv_empty|exact H]. Qed.
Print Assumptions C11_inv_reachable.

(** In such a state, whatever a lookup by name and index path finds is exactly what the lookup by
    that record's (slot, offset, type) finds: the two lookups reach the same record. *)
Theorem C11_lookup_agreement : forall s acct name idxs k,
  Inv s -> find_key_indices s acct name idxs = Some k ->
  exists n, node_at s k n /\ n_acct n = acct /\ find_key s acct (n_slot n) (n_off n) (n_type n) = Some k.
Proof. exact lookup_agreement. Qed.
Print Assumptions C11_lookup_agreement.

(** A change journaled for a registered key succeeds and is returned by both lookups. *)
Theorem C11_change_visible_both_ways : forall s acct name idxs k n off call v,
  Inv s -> find_key_indices s acct name idxs = Some k -> node_at s k n -> offset_u8 off = Ok (n_off n) ->
  let r := save_change s acct (n_slot n) off (n_type n) call v in
  snd r = Ok tt /\
  variable (fst r) acct name idxs = changes_of (fst r) k /\
  slot_lookup (fst r) acct (n_slot n) off (n_type n) = Ok (changes_of (fst r) k) /\
  changes_of (fst r) k = Some (append_change (match changes_of s k with Some c => c | None => [] end) call v).
Proof. exact change_visible_both_ways. Qed.
Print Assumptions C11_change_visible_both_ways.

(** ... and the value just journaled is the last one of its call's list (immediate repeats collapse). *)
Theorem C11_last_value : forall c call v,
  exists l, aget N.eqb (append_change c call v) call = Some l /\ last l [] = v /\ l <> [].
Proof. exact aget_append_change. Qed.
Print Assumptions C11_last_value.

(** A change for an unregistered key, an unknown account or an out-of-range offset is refused
    without modifying anything; likewise a registration under an unknown parent. *)
Theorem C11_change_refused : forall s a sl off ty call v e,
  snd (save_change s a sl off ty call v) = Err e -> fst (save_change s a sl off ty call v) = s.
Proof. exact save_change_refused. Qed.
Print Assumptions C11_change_refused.
Theorem C11_registration_refused : forall s a parent sl off ty data e,
  snd (save_key s a parent sl off ty data) = Err e -> fst (save_key s a parent sl off ty data) = s.
Proof. exact save_key_refused. Qed.
Print Assumptions C11_registration_refused.

(** A registered name stays bound to the same record for ever (first registration wins), and a
    successful registration always leaves its name bound. *)
Theorem C11_binding_stable : forall s acct p sl o ty key p' key' c,
  cidx s p' key' = Some c -> cidx (register s acct p sl o ty key) p' key' = Some c.
Proof. exact cidx_mono_register. Qed.
Print Assumptions C11_binding_stable.
Theorem C11_registration_binds : forall s acct p sl o ty key,
  cidx (register s acct p sl o ty key) p key <> None.
Proof. exact register_binds. Qed.
Print Assumptions C11_registration_binds.

(** The child indices reported for a node are exactly those registered under it. *)
Theorem C11_children_indices_exact : forall s k key,
  In key (children_indices s k) <-> cidx s k key <> None.
Proof. exact children_indices_exact. Qed.
Print Assumptions C11_children_indices_exact.

(** Non-vacuity: the shared-slot histories named by the property are consistent histories —
    two top-level keys sharing slot 5 and offset 0 with distinct types, then one sharing the slot
    at another offset, a nested key, and changes. *)
Example C11_example :
  let ops := [KReg 1 None 5 (Some 0) 10 [97]; KReg 1 None 5 (Some 0) 11 [98]; KReg 1 None 5 (Some 16) 10 [99];
              KReg 1 (Some (5, 10)) 7 None 12 [1; 2]; KChange 1 5 (Some 0) 11 0 [42]; KChange 1 7 None 12 3 [43]] in
  hist_ok kt_empty ops /\
  variable (fold_left kstep ops kt_empty) 1 [98] [] = Some [(0, [[42]])] /\
  variable (fold_left kstep ops kt_empty) 1 [97] [[1; 2]] = Some [(3, [[43]])].
Proof.
  cbv zeta. split; [|split; vm_compute; reflexivity].
  cbn [hist_ok]. repeat split; cbn -[compatible]; unfold compatible, cidx, find_key; cbn;
    try (intros e H; discriminate); try tauto.
Qed.

(** Tie to the source: every declaration this model mirrors (Gen/Pins.v, group 11) still has the digest
    of the version the model was written against (regenerated from /repo on every run). *)
Theorem C11_source_reviewed : group_ok 11 = true.
Proof. exact gen_group_11. Qed.
Print Assumptions C11_source_reviewed.
