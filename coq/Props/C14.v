(* Props/C14.v — Artela precompiles decode payloads exactly and attribute writes to the caller.
   Only statements, each closed by [exact] and followed by Print Assumptions.
   Model: Model/Precompile.v (tied to vm/contracts.go + vm/evm.go by the `abi` correspondence). *)
From Verif Require Import Base.Bytes Model.Precompile Proofs.Precompile_proofs.
From Verif Require Import Gen.GenProps Gen.G14.
Open Scope N_scope.

(** ABI decoding is exact for every payload and parameter index: the uint64 arithmetic of the
    decoder, wrap-around included, returns what the unbounded-integer ABI specification says, and an
    error (never a panic) when that specification says the payload does not contain the parameter. *)
Theorem C14_decoder_exact : forall (p : bytes) (i : N),
  blen p < two63 ->
  match abi_bytes_at p i with
  | Some b => load_param_bytes p i = Ok b
  | None => exists e, load_param_bytes p i = Err e
  end.
Proof. exact lpb_refines_abi. Qed.
Print Assumptions C14_decoder_exact.

(** A well-formed context write reaches the host with exactly (caller context, key, value) and
    returns the host's verdict. *)
Theorem C14_ctxwriter_exact : forall host from input k v,
  blen input < two63 -> 128 <= blen input -> decodes input = Some (k, v) ->
  run_ctxwriter host (Some from) input = (lift_unit (host (HSet from k v)), [HSet from k v]).
Proof. exact ctxwriter_exact. Qed.
Print Assumptions C14_ctxwriter_exact.

(** Malformed or overflowing payloads of at least the minimum size are rejected, host untouched. *)
Theorem C14_malformed_rejected : forall host ctx input,
  blen input < two63 -> 128 <= blen input -> decodes input = None ->
  exists e, run_ctxwriter host ctx input = (Err e, []).
Proof. exact ctxwriter_malformed_rejected. Qed.
Print Assumptions C14_malformed_rejected.

(** For every call kind, caller, payload and gas: a write that reaches the host is filed under the
    address of the contract whose CALL reached the precompile — never another address. *)
Theorem C14_write_attribution : forall host k caller addr input gas c,
  In c (snd (call_artela host k caller addr input gas)) ->
  match c with
  | HSet from _ _ => from = caller /\ k = KCall /\ addr = 0x66
  | HGet _ _ => addr = 0x64
  | HJit _ => addr = 0x65
  end.
Proof. exact write_attribution. Qed.
Print Assumptions C14_write_attribution.

(** ... and never by crashing. *)
Theorem C14_no_panic : forall host k caller addr input gas,
  blen input < two63 -> (forall c, is_panic (host c) = false) ->
  is_panic (fst (fst (call_artela host k caller addr input gas))) = false.
Proof. exact artela_precompiles_no_panic. Qed.
Print Assumptions C14_no_panic.

Theorem C14_aspcontext_exact : forall host input, 20 <= blen input ->
  run_aspcontext host input =
    (host (HGet (firstn 20 input) (skipn 20 input)), [HGet (firstn 20 input) (skipn 20 input)]).
Proof. exact aspcontext_exact. Qed.
Print Assumptions C14_aspcontext_exact.

Theorem C14_userop_exact : forall host input, blen input = 32 ->
  run_userop host input =
    (match host (HJit input) with Ok a => Ok (left_pad 32 (last_n 20 a)) | Err e => Err e | Panic w => Panic w end,
     [HJit input]).
Proof. exact userop_exact. Qed.
Print Assumptions C14_userop_exact.

(** Fixed fee, charged up front; a failed call hands back no gas. *)
Theorem C14_fee_fixed : forall host k caller addr input gas r g calls,
  call_artela host k caller addr input gas = (r, g, calls) ->
  (is_ok r = true -> gas >= precompile_fee /\ g = gas - precompile_fee) /\ (is_ok r = false -> g = 0).
Proof. exact fee_fixed. Qed.
Print Assumptions C14_fee_fixed.

(** NOT provable — the code accepts truncated payloads (known finding F11): kept visible. *)
Theorem C14_truncated_rejected_refuted :
  exists host from input, decodes input = None /\ run_ctxwriter host (Some from) input = (Ok [], []).
Proof. exact ctxwriter_truncated_rejected_refuted. Qed.
Print Assumptions C14_truncated_rejected_refuted.

(** Non-vacuity: a concrete canonical payload meets the hypotheses of C14_ctxwriter_exact. *)
Example C14_example :
  let input := N_to_be 32 64 ++ N_to_be 32 128 ++ N_to_be 32 3 ++ right_pad 32 [107;101;121]
               ++ N_to_be 32 2 ++ right_pad 32 [1;2] in
  blen input < two63 /\ 128 <= blen input /\ decodes input = Some ([107;101;121], [1;2]).
Proof. vm_compute. repeat split; congruence. Qed.

(** Tie to the source: every declaration this model mirrors (Gen/Pins.v, group 14) still has the digest
    of the version the model was written against (regenerated from /repo on every run). *)
Theorem C14_source_reviewed : group_ok 14 = true.
Proof. exact gen_group_14. Qed.
Print Assumptions C14_source_reviewed.

(** present from the Berlin rules on, absent before; the standard precompile sets are upstream's *)
From Verif Require Import Gen.GPrecompiles.
Theorem C14_precompile_sets : precompile_sets_ok = true.
Proof. exact gen_precompile_sets. Qed.
Print Assumptions C14_precompile_sets.
