(* Props/C01.v — EVM execution matches go-ethereum v1.12.0 for every standard program.
   Part 1 (this file, generated-data theorems): the code that executes standard programs IS upstream's code,
   declaration by declaration and table entry by table entry, except the reviewed Artela changes.
   Part 2 (frame logic Artela changed): Props/C01 imports the refinement theorem of the Exec model. *)
From Coq Require Import String NArith List Bool.
From Verif Require Import Gen.GenProps Gen.GInheritedVm Gen.GStdTables Gen.GPrecompiles Gen.G01.
Import ListNotations.

(** every declaration of packages vm and core that is not a reviewed Artela change is structurally
    identical (modulo the context parameter) to the go-ethereum v1.12.0 declaration of the same name;
    no reviewed entry is stale; nothing upstream has was deleted *)
Theorem C01_inherited_identical : inherited_ok ["vm"; "core"]%string && pins_live && nothing_deleted = true.
Proof. exact gen_inherited_vm. Qed.
Print Assumptions C01_inherited_identical.

(** for each fork Frontier..Shanghai and each activatable EIP (on Frontier, Istanbul, London) the
    instruction table NewEVMInterpreter selects equals upstream's outside 0xe0..0xe7 — constant gas,
    stack bounds, execute / dynamic-gas / memory-size functions — and upstream leaves 0xe0..0xe7 undefined
    (EIP-1153 sits at 0x5c/0x5d instead of 0xb3/0xb4, with identical entries) *)
Theorem C01_tables_equal : std_tables_equal && eip_tables_equal && journal_undefined_upstream = true.
Proof. exact gen_std_tables. Qed.
Print Assumptions C01_tables_equal.

Theorem C01_precompile_sets : precompile_sets_ok = true.
Proof. exact gen_precompile_sets. Qed.
Print Assumptions C01_precompile_sets.

(** the reviewed Artela changes on the execution path still have their reviewed digests *)
Theorem C01_source_reviewed : group_ok 1 = true.
Proof. exact gen_group_1. Qed.
Print Assumptions C01_source_reviewed.

From Verif Require Import Base.Bytes Model.Exec Proofs.Exec_generic Proofs.Exec_refine.
(** PART 2 — the frame logic Artela changed (EVM.Call / create / the other entry points), as modelled in Model/Exec.v.
    With NOTHING BOUND to any join point, running any standard program (its instructions emit no join-point events and
    none is a journal instruction; standard precompiles ignore the execution context) through the frame logic WITH the
    Artela additions switched on — call tree, balance journal, join points (on or off), context-carrying precompile
    calls — gives, for every entry point (interpreter loop, frame start, CALL, CALLCODE, DELEGATECALL, STATICCALL,
    CREATE/CREATE2), every call tree, gas amount and depth, exactly the result (return data, leftover gas, error), the
    world state and the debug-tracer event list that the frame logic WITHOUT the additions gives; the only differences
    are the Artela tracer's own state (erased by [erase]) and the provider queries (filtered from the event list).
    [PR] (Proofs/Exec_refine.v) is the conjunction of these seven statements. *)
Theorem C01_artela_additions_invisible : forall W M HT can_transfer transfer balance_of exists_acct create_account code_of collides get_nonce set_nonce acl_add set_code touch is_homestead is_eip158 is_berlin is_london max_code_size is_precompile precompile local_step init_machine keccak debug jpA alA aspA jpR alR bR aspR t0,
  (forall d fc m w, Forall (fun e => is_jp_event e = false) (step_events (local_step d fc m w))) ->
  (forall d fc m w, match local_step d fc m w with SJournal _ _ _ _ _ _ => False | _ => True end) ->
  (forall a c i g, precompile a (Some c) i g = precompile a None i g) ->
  forall fuel, PR W M HT can_transfer transfer balance_of exists_acct create_account code_of collides get_nonce set_nonce acl_add set_code touch is_homestead is_eip158 is_berlin is_london max_code_size is_precompile precompile local_step init_machine keccak debug jpA alA aspA jpR alR bR aspR t0 fuel.
Proof. exact additions_invisible. Qed.
Print Assumptions C01_artela_additions_invisible.

(** non-vacuity: the side conditions are satisfiable (an instruction semantics that just stops, precompiles that ignore
    the context), and the script instance run against the code emits no join-point events of its own *)
Example C01_side_conditions_inhabited :
  (forall (d : nat) (fc : fctx) (m : unit) (w : nat), Forall (fun e => is_jp_event e = false)
      (step_events ((fun _ _ _ w => SDone nat unit unit [] 0%N None w []) d fc m w))) /\
  (forall (a c : N) (i : bytes) (g : N), (fun (_ : N) (_ : option N) (_ : bytes) g => mk [] g None) a (Some c) i g =
                                          (fun (_ : N) (_ : option N) (_ : bytes) g => mk [] g None) a None i g).
Proof. split; intros; [constructor|reflexivity]. Qed.

From Verif Require Import Model.JumpDest Proofs.JumpDest_proofs.
(** WHERE A PROGRAM MAY JUMP.  The jump-destination analysis (vm/analysis.go: a bit vector filled with set1/setN/set8/set16,
    some of which ASSIGN whole bytes instead of or-ing into them) is modelled byte by byte; for EVERY code — any length, any
    bytes, PUSH data running past the end — it never indexes outside the vector and marks exactly the immediate bytes of
    PUSH instructions, so JUMP/JUMPI accept exactly the JUMPDEST bytes that are instructions *)
Theorem C01_jump_destination_analysis_exact : forall code,
  (exists b, code_bitmap code = Ok b /\ forall i, (i < length code)%nat -> bv_get b i = is_data code i) /\
  (forall d, valid_jumpdest code d = Ok (valid_jumpdest_spec code d)).
Proof. intro code. split; [apply code_bitmap_correct|intro d; apply valid_jumpdest_correct]. Qed.
Print Assumptions C01_jump_destination_analysis_exact.

Example C01_jumpdest_example :
  let code := [0x60; 0x5b; 0x5b; 0x7f; 0x5b; 0x5b]%N in
  valid_jumpdest code 1 = Ok false /\ valid_jumpdest code 2 = Ok true /\ valid_jumpdest code 4 = Ok false /\ valid_jumpdest code 9 = Ok false.
Proof. exact ex_jumpdest. Qed.

From Verif Require Import Model.Mem Model.MemSize Proofs.MemSize_proofs.
Open Scope N_scope.
(** HOW FAR MEMORY GROWS.  Which operands of an instruction denote a memory region (vm/memory_table.go), calcMemSize64 and the
    rounding to words are modelled (Model/MemSize.v): a frame's memory only grows, stays a whole number of words, covers the
    region the instruction names with less than a word to spare, and a zero-length region is free wherever it lies *)
Theorem C01_memory_expansion : forall op s before after,
  mem_after op s before = Some after ->
  before <= after /\ (before mod 32 = 0 -> after mod 32 = 0) /\
  (forall size, mem_needed op s = Some (size, false) -> size <= after /\ (before < after -> after < size + 32)).
Proof.
  intros op s before after H. split; [eapply mem_after_grows; eauto|]. split.
  - intro Hb. eapply mem_after_word_aligned; eauto.
  - intros size Hn. eapply mem_after_covers; eauto.
Qed.
Print Assumptions C01_memory_expansion.

Theorem C01_zero_length_region_is_free : forall off, calc_mem_size off 0 = (0, false).
Proof. exact zero_length_region_is_free. Qed.
Print Assumptions C01_zero_length_region_is_free.
