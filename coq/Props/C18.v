(* Props/C18.v — debug-tracer event stream and inherited tracers match the reference. *)
From Coq Require Import String List Bool.
From Verif Require Import Base.Bytes Model.KeyTree Model.CallTree Model.Tracer Model.Exec Model.ScriptInst
  Proofs.Exec_generic Proofs.Exec_instances Proofs.ScriptInst_proofs
  Gen.GenProps Gen.GInheritedVm Gen.GInheritedTracers Gen.GStdTables Gen.G18.
Import ListNotations.

Theorem C18_source_reviewed : group_ok 18 = true.
Proof. exact gen_group_18. Qed.
Print Assumptions C18_source_reviewed.

(** every declaration of tracers, tracers/logger and tracers/native that is not a reviewed Aspect addition
    is structurally identical to go-ethereum v1.12.0's eth/tracers declaration of the same name *)
Theorem C18_tracer_packages_identical : inherited_ok ["tracers"; "tracers/logger"; "tracers/native"]%string && pins_live && nothing_deleted = true.
Proof. exact gen_inherited_tracers. Qed.
Print Assumptions C18_tracer_packages_identical.

(** the code that emits the callbacks (interpreter loop, instruction set) is upstream's except for the
    reviewed frame logic, whose event emission is modelled in Model/Exec.v *)
Theorem C18_emitting_code_identical : inherited_ok ["vm"; "core"]%string && pins_live && nothing_deleted = true.
Proof. exact gen_inherited_vm. Qed.
Print Assumptions C18_emitting_code_identical.

(** start/end and enter/exit stay balanced in every execution: whatever the Aspects do (succeed, fail at
    the pre or post join point, run out of gas), whatever the callees do, for all entry points: the events
    added by any entry point form a well-nested word in which every start is closed by an end and every
    enter by an exit.  (Side condition: the instruction semantics emits no frame brackets of its own.) *)
Theorem C18_events_balanced : forall W M HT can_transfer transfer balance_of exists_acct create_account code_of collides
    get_nonce set_nonce acl_add set_code touch is_homestead is_eip158 is_berlin is_london max_code_size is_precompile precompile
    local_step init_machine keccak artela jp_on debug asp_logger bound aspect,
  (forall d fc m w, Forall plain_event (step_events (local_step d fc m w))) ->
  forall fuel, P_all W M HT can_transfer transfer balance_of exists_acct create_account code_of collides get_nonce set_nonce
      acl_add set_code touch is_homestead is_eip158 is_berlin is_london max_code_size is_precompile precompile
      local_step init_machine keccak artela jp_on debug asp_logger bound aspect (Qev W) fuel.
Proof. exact events_balanced. Qed.
Print Assumptions C18_events_balanced.

Example C18_side_condition_inhabited : forall d fc m w, Forall plain_event (step_events (s_step d fc m w)).
Proof. exact s_step_plain. Qed.

From Verif Require Import Base.Bytes Model.Exec Proofs.Exec_generic Proofs.Exec_refine.
(** the same theorem read for the debug-tracer stream: the event list of the run with the Artela additions, minus provider
    queries, IS the event list of the run without them — every CaptureStart/End/Enter/Exit/State/Fault with its arguments *)
Theorem C18_events_identical_with_additions : forall W M HT can_transfer transfer balance_of exists_acct create_account code_of collides get_nonce set_nonce acl_add set_code touch is_homestead is_eip158 is_berlin is_london max_code_size is_precompile precompile local_step init_machine keccak debug jpA alA aspA jpR alR bR aspR t0,
  (forall d fc m w, Forall (fun e => is_jp_event e = false) (step_events (local_step d fc m w))) ->
  (forall d fc m w, match local_step d fc m w with SJournal _ _ _ _ _ _ => False | _ => True end) ->
  (forall a c i g, precompile a (Some c) i g = precompile a None i g) ->
  forall fuel, PR W M HT can_transfer transfer balance_of exists_acct create_account code_of collides get_nonce set_nonce acl_add set_code touch is_homestead is_eip158 is_berlin is_london max_code_size is_precompile precompile local_step init_machine keccak debug jpA alA aspA jpR alR bR aspR t0 fuel.
Proof. exact additions_invisible. Qed.
Print Assumptions C18_events_identical_with_additions.

From Verif Require Import Gen.Tables Gen.GOpNames.
(** the opcode NAMES every tracer prints (struct logger, markdown logger, error texts) are go-ethereum's for all 256 bytes but the
    thirteen Artela renumbered or added, which carry the reviewed names; and StringToOp inverts String on every defined opcode
    — read from the live name tables of both code bases on every run *)
Theorem C18_opcode_names : op_names_ok = true.
Proof. exact gen_op_names. Qed.
Print Assumptions C18_opcode_names.
