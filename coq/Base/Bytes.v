(* Base/Bytes.v — byte strings, big-endian words, Go-like results.  Stdlib only. *)
From Coq Require Export String Ascii.
From Coq Require Export List NArith ZArith Lia Bool.
From Coq Require Import ZifyN ZifyNat ZifyBool.
Export ListNotations.
Open Scope N_scope.

(** Outcome of a Go function that may return an error or panic.  [Panic] is a
    first-class outcome so that "never panics" is a theorem, not an assumption. *)
Inductive res (A : Type) : Type :=
| Ok (a : A)
| Err (e : string)
| Panic (why : string).
Arguments Ok {A} a.
Arguments Err {A} e.
Arguments Panic {A} why.

Definition is_panic {A} (r : res A) : bool := match r with Panic _ => true | _ => false end.
Definition is_ok {A} (r : res A) : bool := match r with Ok _ => true | _ => false end.
Definition is_err {A} (r : res A) : bool := match r with Err _ => true | _ => false end.

Definition bind {A B} (r : res A) (f : A -> res B) : res B :=
  match r with Ok a => f a | Err e => Err e | Panic w => Panic w end.
Notation "'let?' x ':=' r 'in' k" := (bind r (fun x => k))
  (at level 200, x pattern, r at level 100, k at level 200, right associativity).

(** Bytes are numbers below 256 in a list. *)
Definition bytes := list N.
Definition wf_bytes (b : bytes) : Prop := Forall (fun x => x < 256) b.
Definition wf_bytesb (b : bytes) : bool := forallb (fun x => x <? 256) b.

Definition blen (b : bytes) : N := N.of_nat (length b).

(** Big-endian decoding (uint256.SetBytes for <= 32 bytes; big.Int.SetBytes). *)
Fixpoint be_acc (acc : N) (b : bytes) : N :=
  match b with [] => acc | x :: t => be_acc (acc * 256 + x) t end.
Definition be_to_N (b : bytes) : N := be_acc 0 b.

(** Big-endian encoding on exactly [n] bytes, dropping higher digits
    (uint256.Bytes32 for n = 32, Bytes20 for n = 20). *)
Fixpoint N_to_be (n : nat) (v : N) : bytes :=
  match n with O => [] | S k => N_to_be k (v / 256) ++ [v mod 256] end.

(** Minimal big-endian encoding: uint256.Int.Bytes(), big.Int.Bytes() — no leading zeros. *)
Fixpoint strip0 (b : bytes) : bytes :=
  match b with 0 :: t => strip0 t | _ => b end.
Definition N_to_be_min (n : nat) (v : N) : bytes := strip0 (N_to_be n v).

Definition zeros (n : nat) : bytes := repeat 0 n.

(** Go slice expression l[i:j] on a slice whose capacity equals its length. *)
Definition slice {A} (l : list A) (i j : N) : list A :=
  firstn (N.to_nat (j - i)) (skipn (N.to_nat i) l).

Definition go_slice {A} (l : list A) (i j : N) : res (list A) :=
  if (i <=? j) && (j <=? N.of_nat (length l)) then Ok (slice l i j)
  else Panic "slice bounds out of range".

(** common.LeftPadBytes / RightPadBytes *)
Definition left_pad (n : nat) (b : bytes) : bytes :=
  if Nat.leb n (length b) then b else zeros (n - length b) ++ b.
Definition right_pad (n : nat) (b : bytes) : bytes :=
  if Nat.leb n (length b) then b else b ++ zeros (n - length b).

(** uint256.SetBytes: more than 32 bytes -> the last 32. *)
Definition last_n {A} (n : nat) (l : list A) : list A := skipn (length l - n) l.
Definition u256_set_bytes (b : bytes) : N := be_to_N (last_n 32 b).

Definition two64 : N := 0x10000000000000000.
Definition two256 : N := 0x10000000000000000000000000000000000000000000000000000000000000000.
Definition two63 : N := 0x8000000000000000.
Definition u64 (x : N) : N := x mod two64.
Definition u256 (x : N) : N := x mod two256.

(** int64(uint64 x) as Z *)
Definition i64 (x : N) : Z :=
  let y := u64 x in if y <? two63 then Z.of_N y else (Z.of_N y - Z.of_N two64)%Z.

(** ** hex literals for generated cases *)
Definition hexdigit (c : ascii) : N :=
  let n := N_of_ascii c in
  if (48 <=? n) && (n <=? 57) then n - 48
  else if (97 <=? n) && (n <=? 102) then n - 87
  else if (65 <=? n) && (n <=? 70) then n - 55 else 0.
Fixpoint hex (s : string) : bytes :=
  match s with
  | String a (String b t) => (hexdigit a * 16 + hexdigit b) :: hex t
  | _ => []
  end.

Fixpoint bytes_eqb (a b : bytes) : bool :=
  match a, b with
  | [], [] => true
  | x :: s, y :: t => (x =? y) && bytes_eqb s t
  | _, _ => false
  end.

Definition res_eqb {A} (eq : A -> A -> bool) (x y : res A) : bool :=
  match x, y with
  | Ok a, Ok b => eq a b
  | Err e, Err f => String.eqb e f
  | Panic _, Panic _ => true
  | _, _ => false
  end.
