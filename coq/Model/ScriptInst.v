(* Model/ScriptInst.v — an executable instance of Model/Exec.v used by the correspondence check.
   The behaviour of each frame's instructions is a recorded script (what the implementation's own
   interpreter did inside that frame, read off its debug trace); the frame logic — everything
   vm/evm.go does around those instructions — is computed by the generic model and compared with the
   implementation: events, call tree, journals, world state after reverts, gas handed over. *)
From Verif Require Import Base.Bytes Model.KeyTree Model.CallTree Model.Tracer Model.Precompile Model.Exec.
Open Scope N_scope.

(** ** world *)
Record sworld := {
  sw_bal : list (N * N);
  sw_nonce : list (N * N);
  sw_stor : list ((N * N) * N);
  sw_tstor : list ((N * N) * N);
  sw_code : list (N * bytes);
  sw_exist : list N;
  sw_logs : list (N * N);       (* (address, number of topics) *)
  sw_suicide : list N;
  sw_acl : list N
}.

Definition eq_nn (a b : N * N) : bool := (fst a =? fst b) && (snd a =? snd b).
Definition getN (l : list (N * N)) (k : N) : N := match aget N.eqb l k with Some v => v | None => 0 end.
Definition mem_addr (a : N) (l : list N) : bool := existsb (N.eqb a) l.
Definition add_addr (a : N) (l : list N) : list N := if mem_addr a l then l else l ++ [a].

Definition sw_set_bal (w : sworld) (b : list (N * N)) (ex : list N) : sworld :=
  {| sw_bal := b; sw_nonce := sw_nonce w; sw_stor := sw_stor w; sw_tstor := sw_tstor w; sw_code := sw_code w;
     sw_exist := ex; sw_logs := sw_logs w; sw_suicide := sw_suicide w; sw_acl := sw_acl w |}.

Definition s_balance (w : sworld) (a : N) : N := getN (sw_bal w) a.
Definition s_can_transfer (w : sworld) (a v : N) : bool := v <=? s_balance w a.
(** core.Transfer: SubBalance(sender), AddBalance(recipient); both create the state object *)
Definition s_transfer (w : sworld) (f t v : N) : sworld :=
  let b1 := aset N.eqb (sw_bal w) f (s_balance w f - v) in
  let b2 := aset N.eqb b1 t (getN b1 t + v) in
  sw_set_bal w b2 (add_addr t (add_addr f (sw_exist w))).
Definition s_exists (w : sworld) (a : N) : bool := mem_addr a (sw_exist w).
(** StateDB.CreateAccount: fresh object (nonce 0, no code, empty storage) that keeps the balance *)
Definition s_create_account (w : sworld) (a : N) : sworld :=
  {| sw_bal := sw_bal w; sw_nonce := aset N.eqb (sw_nonce w) a 0;
     sw_stor := filter (fun e => negb (fst (fst e) =? a)) (sw_stor w); sw_tstor := sw_tstor w;
     sw_code := aset N.eqb (sw_code w) a []; sw_exist := add_addr a (sw_exist w); sw_logs := sw_logs w;
     sw_suicide := filter (fun x => negb (x =? a)) (sw_suicide w); sw_acl := sw_acl w |}.
Definition s_code_of (w : sworld) (a : N) : bytes := match aget N.eqb (sw_code w) a with Some c => c | None => [] end.
Definition s_get_nonce (w : sworld) (a : N) : N := getN (sw_nonce w) a.
Definition s_collides (w : sworld) (a : N) : bool :=
  negb (s_get_nonce w a =? 0) || match s_code_of w a with [] => false | _ => true end.
Definition s_set_nonce (w : sworld) (a n : N) : sworld :=
  {| sw_bal := sw_bal w; sw_nonce := aset N.eqb (sw_nonce w) a n; sw_stor := sw_stor w; sw_tstor := sw_tstor w;
     sw_code := sw_code w; sw_exist := add_addr a (sw_exist w); sw_logs := sw_logs w; sw_suicide := sw_suicide w; sw_acl := sw_acl w |}.
Definition s_acl_add (w : sworld) (a : N) : sworld :=
  {| sw_bal := sw_bal w; sw_nonce := sw_nonce w; sw_stor := sw_stor w; sw_tstor := sw_tstor w; sw_code := sw_code w;
     sw_exist := sw_exist w; sw_logs := sw_logs w; sw_suicide := sw_suicide w; sw_acl := add_addr a (sw_acl w) |}.
Definition s_set_code (w : sworld) (a : N) (c : bytes) : sworld :=
  {| sw_bal := sw_bal w; sw_nonce := sw_nonce w; sw_stor := sw_stor w; sw_tstor := sw_tstor w;
     sw_code := aset N.eqb (sw_code w) a c; sw_exist := add_addr a (sw_exist w); sw_logs := sw_logs w;
     sw_suicide := sw_suicide w; sw_acl := sw_acl w |}.
Definition s_touch (w : sworld) (a : N) : sworld := sw_set_bal w (sw_bal w) (add_addr a (sw_exist w)).

(** ** scripts *)
Inductive effect :=
| ESStore (key val : N)
| ETStore (key val : N)
| ELog (topics : N)
| ESuicide (beneficiary : N).

Definition apply_effect (self : N) (w : sworld) (e : effect) : sworld :=
  match e with
  | ESStore k v =>
    {| sw_bal := sw_bal w; sw_nonce := sw_nonce w; sw_stor := aset eq_nn (sw_stor w) (self, k) v; sw_tstor := sw_tstor w;
       sw_code := sw_code w; sw_exist := sw_exist w; sw_logs := sw_logs w; sw_suicide := sw_suicide w; sw_acl := sw_acl w |}
  | ETStore k v =>
    {| sw_bal := sw_bal w; sw_nonce := sw_nonce w; sw_stor := sw_stor w; sw_tstor := aset eq_nn (sw_tstor w) (self, k) v;
       sw_code := sw_code w; sw_exist := sw_exist w; sw_logs := sw_logs w; sw_suicide := sw_suicide w; sw_acl := sw_acl w |}
  | ELog n =>
    {| sw_bal := sw_bal w; sw_nonce := sw_nonce w; sw_stor := sw_stor w; sw_tstor := sw_tstor w; sw_code := sw_code w;
       sw_exist := sw_exist w; sw_logs := sw_logs w ++ [(self, n)]; sw_suicide := sw_suicide w; sw_acl := sw_acl w |}
  | ESuicide b =>
    (* AddBalance(beneficiary, balance); Suicide(self): balance := 0 *)
    let bal := s_balance w self in
    let b1 := aset N.eqb (sw_bal w) b (s_balance w b + bal) in
    let b2 := aset N.eqb b1 self 0 in
    {| sw_bal := b2; sw_nonce := sw_nonce w; sw_stor := sw_stor w; sw_tstor := sw_tstor w; sw_code := sw_code w;
       sw_exist := add_addr b (sw_exist w); sw_logs := sw_logs w; sw_suicide := add_addr self (sw_suicide w); sw_acl := sw_acl w |}
  end.

Inductive action :=
| AOp (pc op cost : N) (eff : list effect)
| ACall (pc op cost : N) (k : callkind) (to : N) (input : bytes) (gas value : N) (sub : list action)
| ACreate (pc op cost : N) (typ : N) (code : bytes) (gas value addr : N) (sub : list action)
| AJournal (pc op cost : N) (stack : list N) (mem : bytes) (stor : list (N * N))
| AHalt (pc op cost : N) (ret : bytes) (err : option verr) (eff : list effect).

Definition script := list action.
Record smachine := { m_gas : N; m_acts : script }.

(** payload of a step event: pc, opcode, gas before (as the MODEL computes it), cost *)
Definition step_info (pc op gas cost : N) : bytes := N_to_be 4 pc ++ [op] ++ N_to_be 8 gas ++ N_to_be 8 cost.

Definition s_step (depth : nat) (fc : fctx) (m : smachine) (w : sworld) : step_out sworld smachine script :=
  let g := m_gas m in
  match m_acts m with
  | [] => SDone _ _ _ [] g None w []
  | AOp pc op cost eff :: rest =>
    SNext _ _ _ {| m_gas := g - cost; m_acts := rest |} (fold_left (apply_effect (f_self fc)) eff w) [EvStep depth (step_info pc op g cost)]
  | ACall pc op cost k to input cg value sub :: rest =>
    SCall _ _ _ k to input cg value w [EvStep depth (step_info pc op g cost)] sub
          (fun r => {| m_gas := g - cost + r_gas r; m_acts := rest |})
  | ACreate pc op cost typ code cg value addr sub :: rest =>
    SCreate _ _ _ typ code cg value addr w [EvStep depth (step_info pc op g cost)] sub
            (fun r _ => {| m_gas := g - cost - cg + r_gas r; m_acts := rest |})
  | AJournal pc op cost stack mem stor :: rest =>
    SJournal _ _ _ {| jr_op := op; jr_stack := stack; jr_mem := mem; jr_storage := fun k => getN stor k |}
             [EvStep depth (step_info pc op g cost)]
             (fun r => match r with
                       | Ok _ => {| m_gas := g - cost; m_acts := rest |}
                       | Err e => {| m_gas := g - cost; m_acts := [AHalt pc op 0 [] (Some (VOther e)) []] |}
                       | Panic e => {| m_gas := g - cost; m_acts := [AHalt pc op 0 [] (Some (VOther e)) []] |}
                       end)
  | AHalt pc op cost ret err eff :: _ =>
    SDone _ _ _ ret (g - cost) err (fold_left (apply_effect (f_self fc)) eff w)
          (match err with
           | None | Some VRevert => [EvStep depth (step_info pc op g cost)]   (* STOP/RETURN/REVERT/SELFDESTRUCT are logged steps *)
           | Some _ => []   (* a step that failed before being logged: reported by the deferred fault handler only *)
           end)
  end.

Definition s_init (fc : fctx) (gas : N) (h : script) : smachine := {| m_gas := gas; m_acts := h |}.

(** precompiles the scenarios use: identity (0x04) and the Artela ones under a deterministic host *)
Definition ceil_div32 (n : N) : N := (n + 31) / 32.
Definition s_is_precompile (berlin : bool) (a : N) : bool :=
  ((1 <=? a) && (a <=? 9)) || (berlin && (0x64 <=? a) && (a <=? 0x66)).

Section Inst.
  Variable host : hostcall -> res bytes.
  Variable berlin : bool.

  Definition s_precompile (a : N) (ctx : option N) (input : bytes) (gas : N) : cres :=
    if a =? 4 then
      let cost := 15 + 3 * ceil_div32 (blen input) in
      if gas <? cost then mk [] 0 (Some VOog) else mk input (gas - cost) None
    else if berlin && (0x64 <=? a) && (a <=? 0x66) then
      if gas <? precompile_fee then mk [] 0 (Some VOog) else
      let '(r, _) := run_artela host a (option_map (N_to_be 20) ctx) input in
      match r with
      | Ok out => mk out (gas - precompile_fee) None
      | Err e => mk [] (gas - precompile_fee) (Some (VOther e))
      | Panic e => mk [] (gas - precompile_fee) (Some (VOther e))
      end
    else mk [] gas (Some (VOther "precompile not modelled")).
End Inst.
