(* Model/Precompile.v — Artela precompiles 0x64 (context read), 0x65 (user-op sender),
   0x66 (context write) and their ABI decoding.
   Mirrors vm/contracts.go:1080-1189, RunPrecompiledContract, and the context attachment of
   vm/evm.go:265-273 (CALL only). *)
From Verif Require Import Base.Bytes.
Open Scope N_scope.

(** Calls made to the host (aspect-core callbacks installed by the embedding chain). *)
Inductive hostcall :=
| HGet (addr key : bytes)          (* types.GetAspectContext(ctx, addr, key) *)
| HSet (from key value : bytes)    (* types.SetAspectContext(ctx, from, key, value) *)
| HJit (hash : bytes).             (* types.JITSenderAspectByContext(ctx, hash) *)

Definition hostcall_eqb (a b : hostcall) : bool :=
  match a, b with
  | HGet x y, HGet x' y' => bytes_eqb x x' && bytes_eqb y y'
  | HSet x y z, HSet x' y' z' => bytes_eqb x x' && bytes_eqb y y' && bytes_eqb z z'
  | HJit x, HJit x' => bytes_eqb x x'
  | _, _ => false
  end.

(** contracts.go loadParamBytes: uint64 arithmetic written out with its wrap-around. *)
Definition load_param_bytes (input : bytes) (index : N) : res bytes :=
  let len := blen input in
  let lo := index * 32 in
  let hi := lo + 32 in
  if len <? hi then Err "invalid input data length" else
  let w := be_to_N (slice input lo hi) in
  if two64 <=? w then Err "invalid offset" else
  let start := u64 (w + 32) in
  if (start <? w) || (len <? start) then Err "invalid param length" else
  let? hd := go_slice input w start in
  if blen hd <? 32 then Panic "SetBytes32: index out of range" else
  let dl := be_to_N (firstn 32 hd) in
  if two64 <=? dl then Err "invalid length" else
  let e := u64 (start + dl) in
  if (e <? start) || (len <? e) then Err "invalid param length" else
  go_slice input start e.

(** Specification: standard ABI `bytes` parameter number [i] of a head/tail encoding, over
    unbounded integers. *)
Definition abi_bytes_at (p : bytes) (i : N) : option bytes :=
  let len := blen p in
  if len <? 32 * i + 32 then None else
  let off := be_to_N (slice p (32 * i) (32 * i + 32)) in
  if len <? off + 32 then None else
  let dl := be_to_N (slice p off (off + 32)) in
  if len <? off + 32 + dl then None else Some (slice p (off + 32) (off + 32 + dl)).

Definition precompile_fee : N := 5000.

Section Host.
  (** The host's answers.  [Ok v] is (v, nil); [Err e] an error; the model does not assume the
      host cannot panic: a host panic is propagated. *)
  Variable host : hostcall -> res bytes.

  Definition run_aspcontext (input : bytes) : res bytes * list hostcall :=
    if blen input <? 20 then (Ok [], []) else
    let c := HGet (firstn 20 input) (skipn 20 input) in
    (host c, [c]).

  Definition run_userop (input : bytes) : res bytes * list hostcall :=
    if blen input =? 0 then (Ok [], []) else
    let c := HJit (left_pad 32 (last_n 32 input)) in
    (match host c with Ok a => Ok (left_pad 32 (last_n 20 a)) | Err e => Err e | Panic w => Panic w end, [c]).

  (** [ctx] is the address the execution context names as `from` (None: no context attached). *)
  Definition run_ctxwriter (ctx : option bytes) (input : bytes) : res bytes * list hostcall :=
    if blen input <? 128 then (Ok [], []) else
    match load_param_bytes input 0 with
    | Err e => (Err e, []) | Panic w => (Panic w, [])
    | Ok key =>
      match load_param_bytes input 1 with
      | Err e => (Err e, []) | Panic w => (Panic w, [])
      | Ok value =>
        match ctx with
        | None => (Err "context write requires a call context", [])
        | Some from =>
          let c := HSet from key value in
          (match host c with Ok _ => Ok [] | Err e => Err e | Panic w => Panic w end, [c])
        end
      end
    end.

  Inductive callkind := KCall | KCallCode | KDelegateCall | KStaticCall.

  (** evm.go: only EVM.Call clones the contextful precompile with {from := caller}. *)
  Definition ctx_for_kind (k : callkind) (caller : bytes) : option bytes :=
    match k with KCall => Some caller | _ => None end.

  Definition run_artela (addr : N) (ctx : option bytes) (input : bytes) : res bytes * list hostcall :=
    if addr =? 0x64 then run_aspcontext input
    else if addr =? 0x65 then run_userop input
    else if addr =? 0x66 then run_ctxwriter ctx input
    else (Err "not an artela precompile", []).

  (** RunPrecompiledContract followed by the frame's "error forfeits gas" rule:
      result, gas handed back, host calls. *)
  Definition call_artela (k : callkind) (caller : bytes) (addr : N) (input : bytes) (gas : N)
    : res bytes * N * list hostcall :=
    if gas <? precompile_fee then (Err "out of gas", 0, []) else
    let '(r, calls) := run_artela addr (ctx_for_kind k caller) input in
    (r, if is_ok r then gas - precompile_fee else 0, calls).
End Host.
