(* Model/Mem.v — MCOPY (EIP-5656) as Artela implements it: vm/memory.go Memory.Copy, vm/memory_table.go
   memoryMcopy, vm/common.go calcMemSize64 / toWordSize, vm/gas_table.go memoryGasCost / memoryCopierGas,
   vm/eips.go opMcopy, and the interpreter's memory expansion. uint64 arithmetic with its overflow flags. *)
From Verif Require Import Base.Bytes.
Open Scope N_scope.

(** Memory.Copy(dst, src, len): Go's copy is overlap safe (memmove).  Precondition (established by the
    expansion): both ranges lie inside the memory. *)
Definition mem_copy (m : bytes) (dst src len : N) : bytes :=
  if len =? 0 then m
  else firstn (N.to_nat dst) m ++ slice m src (src + len) ++ skipn (N.to_nat (dst + len)) m.

(** SPECIFICATION: byte i of memmove's result *)
Definition memmove_byte (m : bytes) (dst src len : N) (i : N) : N :=
  if (dst <=? i) && (i <? dst + len) then nth (N.to_nat (src + (i - dst))) m 0 else nth (N.to_nat i) m 0.

(** calcMemSize64(off, len) on 256-bit operands: (size, overflow) *)
Definition calc_mem_size (off len : N) : N * bool :=
  if two64 <=? len then (0, true)
  else if len =? 0 then (0, false)
  else if two64 <=? off then (0, true)
  else let v := u64 (off + len) in (v, v <? off).

(** memoryMcopy: max(dst, src) + len *)
Definition mcopy_mem_size (dst src len : N) : N * bool := calc_mem_size (N.max dst src) len.

Definition to_words (n : N) : N := if 0xffffffffffffffe0 <? n then 0x7ffffffffffffff + 1 else (n + 31) / 32.
Definition mem_fee (words : N) : N := words * 3 + words * words / 512.

(** memoryGasCost(mem, newMemSize) with mem.lastGasCost = mem_fee of the current size *)
Definition memory_gas_cost (memlen newsize : N) : res N :=
  if newsize =? 0 then Ok 0
  else if 0x1FFFFFFFE0 <? newsize then Err "gas uint64 overflow"
  else let w := to_words newsize in
       if memlen <? w * 32 then Ok (mem_fee w - mem_fee (memlen / 32)) else Ok 0.

(** what one MCOPY step does: (gas charged incl. the constant 3, memory afterwards) or the error the
    interpreter reports (both failures surface as errors of the step; the loop maps a dynamic-gas error to
    out of gas, an overflowing size to gas uint64 overflow) *)
Definition mcopy_step (m : bytes) (dst src len : N) : res (N * bytes) :=
  let '(size, ovf) := mcopy_mem_size dst src len in
  if ovf then Err "gas uint64 overflow" else
  let w := to_words size in
  if two64 <=? w * 32 then Err "gas uint64 overflow" else
  let newsize := w * 32 in
  match memory_gas_cost (blen m) newsize with
  | Err e => Err "out of gas"
  | Panic p => Panic p
  | Ok expansion =>
    let copy_words := to_words len in
    let gas := 3 + expansion + copy_words * 3 in
    let m' := if blen m <? newsize then m ++ zeros (N.to_nat (newsize - blen m)) else m in
    Ok (gas, mem_copy m' dst src len)
  end.

(** the charge alone (what the interpreter computes BEFORE it touches memory: a frame that cannot pay never expands) *)
Definition mcopy_gas (mlen dst src len : N) : res N :=
  let '(size, ovf) := mcopy_mem_size dst src len in
  if ovf then Err "gas uint64 overflow" else
  let w := to_words size in
  if two64 <=? w * 32 then Err "gas uint64 overflow" else
  match memory_gas_cost mlen (w * 32) with
  | Err e => Err "out of gas"
  | Panic p => Panic p
  | Ok expansion => Ok (3 + expansion + to_words len * 3)
  end.
