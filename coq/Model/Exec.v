(* Model/Exec.v — the frame logic of vm/evm.go (Call, CallCode, DelegateCall, StaticCall, create) and
   the interpreter loop of vm/interpreter.go (Run), generic in what one instruction does.

   - [W] is the world state (geth StateDB); a snapshot is the value itself, RevertToSnapshot is
     "continue with the saved value".  The Artela tracer is NOT part of it (as in the code).
   - [M] is the machine state of one frame (pc, stack, memory, gas, return-data buffer).
   - [local_step] is everything an instruction does that is not frame logic; a CALL/CREATE-family or a
     journal instruction shows up as a request the loop serves.  The theorems hold for every [local_step].
   - [artela] switches the Artela additions on (call tree, balance journal, join points, contextful
     precompiles); with [artela = false] the definitions are upstream go-ethereum v1.12.0's frame logic.
   Line references: vm/evm.go after the "fix:" commits. *)
From Verif Require Import Base.Bytes Model.KeyTree Model.CallTree Model.Tracer.
Open Scope N_scope.

(** errors the frame logic distinguishes: the interpreter's own revert (pointer identity in Go),
    out of gas (also recognised by its text when it comes from an Aspect), anything else *)
Inductive verr := VRevert | VOog | VOther (text : string).
Definition verr_text (e : verr) : string :=
  match e with VRevert => "execution reverted" | VOog => "out of gas" | VOther s => s end.
Definition is_revert (e : verr) : bool := match e with VRevert => true | _ => false end.

Inductive callkind := KCall | KCallCode | KDelegateCall | KStaticCall.

Record fctx := {
  f_self : N;          (* address whose storage and balance the frame operates on (Contract.Address()) *)
  f_code_addr : N;     (* where the code comes from *)
  f_caller : N;        (* CALLER *)
  f_value : N;
  f_input : bytes;
  f_code : bytes;
  f_static : bool;     (* read-only, sticky downwards *)
  f_create : bool
}.

(** the three values every entry point returns *)
Record cres := { r_ret : bytes; r_gas : N; r_err : option verr }.

(** join-point payload as handed to the Aspect (PreExecMessageInput / PostExecMessageInput) *)
Record jpin := { j_from : N; j_to : N; j_index : N; j_data : bytes; j_value : N; j_gas : N;
                 j_ret : bytes; j_errtext : string }.

Inductive event :=
| EvStart (from to : N) (create : bool) (input : bytes) (gas value : N)
| EvEnd (out : bytes) (used : N) (err : option verr)
| EvEnter (kind : N) (from to : N) (input : bytes) (gas : N) (value : option N)
| EvExit (out : bytes) (used : N) (err : option verr)
| EvStep (depth : nat) (info : bytes)                 (* CaptureState / CaptureFault, opaque payload *)
| EvJournal (depth : nat) (self callidx op : N) (ok : bool)
| EvProvider (pre : bool) (contract : N)              (* AspectProvider.GetTxBondAspects *)
| EvAspEnter (pre : bool) (from to aspect : N) (input : bytes) (gas value : N)   (* AspectLogger *)
| EvFire (pre : bool) (aspect : N) (p : jpin)          (* the Aspect runtime is called *)
| EvAspExit (pre : bool) (gas : N) (ret : bytes) (err : option string).

Record journal_req := { jr_op : N; jr_stack : list N; jr_mem : bytes; jr_storage : N -> N }.

Section Exec.
  Variable W : Type.
  Variable M : Type.
  (** [H]: an uninterpreted hint a call request may carry to the machine of the frame it creates.  The
      real semantics has none (H = unit); the correspondence instance uses it to hand the callee's
      recorded behaviour to [init_machine].  The frame logic only passes it on. *)
  Variable H : Type.

  (** ** host (StateDB + BlockContext) *)
  Variable can_transfer : W -> N -> N -> bool.
  Variable transfer : W -> N -> N -> N -> W.           (* BlockContext.Transfer *)
  Variable balance_of : W -> N -> N.
  Variable exists_acct : W -> N -> bool.
  Variable create_account : W -> N -> W.
  Variable code_of : W -> N -> bytes.
  Variable collides : W -> N -> bool.                  (* nonce != 0 or non-empty code hash *)
  Variable get_nonce : W -> N -> N.
  Variable set_nonce : W -> N -> N -> W.
  Variable acl_add : W -> N -> W.
  Variable set_code : W -> N -> bytes -> W.
  Variable touch : W -> N -> W.                        (* AddBalance(addr, 0) *)

  (** ** chain rules *)
  Variable is_homestead is_eip158 is_berlin is_london : bool.
  Variable max_code_size : N.
  Variable is_precompile : N -> bool.
  (** RunPrecompiledContract: (output, remaining gas, error); [ctx] = the `from` of the execution
      context attached by EVM.Call to a contextful precompile *)
  Variable precompile : N -> option N -> bytes -> N -> cres.

  (** ** one instruction *)
  Inductive step_out :=
  | SNext (m : M) (w : W) (ev : list event)
  | SDone (ret : bytes) (gas_left : N) (err : option verr) (w : W) (ev : list event)
  | SCall (k : callkind) (to : N) (input : bytes) (gas value : N) (w : W) (ev : list event)
          (hint : H) (resume : cres -> M)
  | SCreate (typ : N) (code : bytes) (gas value : N) (addr : N) (w : W) (ev : list event)
            (hint : H) (resume : cres -> N -> M)
  | SJournal (j : journal_req) (ev : list event) (resume : res unit -> M).

  Variable local_step : nat -> fctx -> M -> W -> step_out.   (* depth, frame, machine, world *)
  Variable init_machine : fctx -> N -> H -> M.             (* fresh stack/memory, pc 0, the given gas *)
  Variable keccak : bytes -> N.

  (** ** Aspects *)
  Variable artela : bool.      (* Artela additions on; false = upstream frame logic *)
  Variable jp_on : bool.       (* EVM.IsExecuteJP *)
  Variable debug : bool.       (* Config.Tracer != nil *)
  Variable asp_logger : bool.  (* the debug tracer also implements types.AspectLogger *)
  Variable bound : bool -> N -> res (list N).                  (* provider: pre?, contract -> aspect ids *)
  Variable aspect : nat -> bool -> N -> N -> jpin -> bytes * N * option string.  (* n-th firing, pre?, aspect, gas available, payload: ret, leftover, error text *)

  Record xstate := { xw : W; xt : tracer; xe : list event; xn : nat }.

  Definition emit (s : xstate) (ev : list event) : xstate :=
    {| xw := xw s; xt := xt s; xe := xe s ++ ev; xn := xn s |}.
  Definition set_w (s : xstate) (w : W) : xstate := {| xw := w; xt := xt s; xe := xe s; xn := xn s |}.
  Definition set_t (s : xstate) (t : tracer) : xstate := {| xw := xw s; xt := t; xe := xe s; xn := xn s |}.

  Definition bump (s : xstate) : xstate := {| xw := xw s; xt := xt s; xe := xe s; xn := S (xn s) |}.

  Definition verr_of_text (s : string) : verr := if String.eqb s "out of gas" then VOog else VOther s.

  (** djpm.Aspect.transactionAdvice + runAspect: returns (ret, gas, error text) *)
  Fixpoint run_aspects (pre : bool) (from contract : N) (input : bytes) (value : N) (p : jpin) (ids : list N)
           (gas : N) (ret : bytes) (s : xstate) : bytes * N * option string * xstate :=
    match ids with
    | [] => (ret, gas, None, s)
    | a :: rest =>
      let s := if asp_logger then emit s [EvAspEnter pre from contract a input gas value] else s in
      let p' := {| j_from := j_from p; j_to := j_to p; j_index := j_index p; j_data := j_data p; j_value := j_value p;
                   j_gas := j_gas p; j_ret := j_ret p; j_errtext := j_errtext p |} in
      let '(r, g, e) := aspect (xn s) pre a gas p' in
      let s := emit (bump s) [EvFire pre a p'] in
      let s := if asp_logger then emit s [EvAspExit pre g r e] else s in
      match e with
      | Some _ => (r, g, e, s)
      | None => run_aspects pre from contract input value p rest g r s
      end
    end.

  Definition join_point (pre : bool) (from contract : N) (input : bytes) (value : N) (p : jpin) (gas : N) (s : xstate)
    : bytes * N * option string * xstate :=
    let s := emit s [EvProvider pre contract] in
    match bound pre contract with
    | Err e => ([], gas, Some e, s)
    | Panic w => ([], gas, Some w, s)
    | Ok ids => run_aspects pre from contract input value p ids gas [] s
    end.

  (** Tracer.TransferWithRecord around the host transfer *)
  Definition transfer_recorded (s : xstate) (from to value : N) : xstate :=
    let w := xw s in
    let w' := transfer w from to value in
    if artela then
      {| xw := w'; xe := xe s; xn := xn s;
         xt := t_transfer_record (xt s) from to (balance_of w from) (balance_of w to) (balance_of w' from) (balance_of w' to) |}
    else set_w s w'.

  Definition save_call (s : xstate) (from : N) (to : option N) (data : bytes) (value gas : N) : xstate :=
    if artela then set_t s (t_save_call (xt s) from to data value gas) else s.
  Definition exit_call (s : xstate) (r : cres) : xstate :=
    if artela then set_t s (t_exit_call (xt s) (r_gas r) (r_ret r) (option_map verr_text (r_err r))) else s.

  Definition mk (ret : bytes) (gas : N) (err : option verr) : cres := {| r_ret := ret; r_gas := gas; r_err := err |}.

  (** the common tail of every entry point: on error revert to the snapshot, forfeit gas unless revert *)
  Definition tail (w0 : W) (r : cres) (s : xstate) : cres * xstate :=
    match r_err r with
    | None => (r, s)
    | Some e => (mk (r_ret r) (if is_revert e then r_gas r else 0) (Some e), set_w s w0)
    end.

  Definition dbg_open (s : xstate) (depth : nat) (kind : N) (from to : N) (create : bool) (input : bytes) (gas : N) (value : option N) : xstate :=
    if debug then
      emit s [match depth with O => EvStart from to create input gas (match value with Some v => v | None => 0 end)
              | _ => EvEnter kind from to input gas value end]
    else s.
  (** `startGas - gas` on uint64 operands in the deferred CaptureEnd/CaptureExit: wraps around if the frame's gas variable ended
      above what the frame was given (only an Aspect reporting more gas than it received can cause that: Exec_gas.v) *)
  Definition used64 (start_gas gas_var : N) : N :=
    if gas_var <=? start_gas then start_gas - gas_var else u64 (start_gas + two64 - gas_var).
  Definition dbg_close (s : xstate) (depth : nat) (r : cres) (start_gas gas_var : N) : xstate :=
    if debug then emit s [match depth with O => EvEnd (r_ret r) (used64 start_gas gas_var) (r_err r)
                          | _ => EvExit (r_ret r) (used64 start_gas gas_var) (r_err r) end]
    else s.


  (** what EVM.create does with the result of running the init code (evm.go:621-655): size and 0xEF
      checks, code deposit, the revert rule (Homestead: also on code-store out of gas) *)
  Definition code_store_oog : string := "contract creation code storage out of gas".
  Definition create_checks (ret : bytes) (err : option verr) : option verr :=
    match err with
    | Some e => Some e
    | None =>
      if is_eip158 && (max_code_size <? blen ret) then Some (VOther "max code size exceeded")
      else if is_london && (match ret with 0xEF :: _ => true | _ => false end)
           then Some (VOther "invalid code: must not begin with 0xef")
           else None
    end.
  Definition create_finish (w0 : W) (address : N) (r : cres) (s : xstate) : cres * xstate :=
    let ret := r_ret r in
    match create_checks ret (r_err r) with
    | None =>
      let cost := blen ret * 200 in
      if cost <=? r_gas r then (mk ret (r_gas r - cost) None, set_w s (set_code (xw s) address ret))
      else if is_homestead then (mk ret 0 (Some (VOther code_store_oog)), set_w s w0)
           else (mk ret (r_gas r) (Some (VOther code_store_oog)), s)
    | Some e => (mk ret (if is_revert e then r_gas r else 0) (Some e), set_w s w0)
    end.

  (** evm.go:334-346: a failed pre join point fails the frame; its leftover gas is handed back unless
      the failure is (textually) out of gas *)
  Definition pre_fail (pret : bytes) (pgas : N) (e : string) : cres :=
    let err := verr_of_text e in
    mk pret (match err with VOog => 0 | _ => pgas end) (Some err).
  (** evm.go:371-386: the post join point's leftover always replaces the frame's gas; its failure
      overrides the frame's error (and return data, unless it is out of gas) *)
  Definition post_merge (r : cres) (qret : bytes) (qgas : N) (qerr : option string) : cres :=
    match qerr with
    | Some e => match verr_of_text e with
                | VOog => mk (r_ret r) qgas (Some VOog)
                | e' => mk qret qgas (Some e') end
    | None => mk (r_ret r) qgas (r_err r)
    end.

  Definition max_depth : nat := 1024.

  Definition opcode_of_kind (k : callkind) : N :=
    match k with KCall => 0xf1 | KCallCode => 0xf2 | KDelegateCall => 0xf4 | KStaticCall => 0xfa end.

  (** ** the interpreter loop and the entry points, mutually recursive on fuel.
      [None] = out of fuel (excluded by every statement). [depth] = EVM.depth on entry. *)
  Fixpoint run (fuel : nat) (depth : nat) (fc : fctx) (m : M) (s : xstate) {struct fuel} : option (cres * xstate) :=
    match fuel with
    | O => None
    | S fuel' =>
      match local_step depth fc m (xw s) with
      | SNext m' w' ev => run fuel' depth fc m' (emit (set_w s w') ev)
      | SDone ret g err w' ev => Some (mk ret g err, emit (set_w s w') ev)
      | SCall k to input gas value w' ev hint resume =>
        let s1 := emit (set_w s w') ev in
        match (match k with
               | KCall => do_call fuel' depth hint (f_static fc) (f_self fc) to input gas value s1
               | KCallCode => do_callcode fuel' depth hint fc to input gas value s1
               | KDelegateCall => do_delegatecall fuel' depth hint fc to input gas s1
               | KStaticCall => do_staticcall fuel' depth hint fc to input gas s1
               end) with
        | None => None
        | Some (r, s2) => run fuel' depth fc (resume r) s2
        end
      | SCreate typ code gas value addr w' ev hint resume =>
        let s1 := emit (set_w s w') ev in
        match do_create fuel' depth hint (f_self fc) code gas value addr typ s1 with
        | None => None
        | Some (r, s2) => run fuel' depth fc (resume r addr) s2
        end
      | SJournal j ev resume =>
        let s1 := emit s ev in
        let '(t', r) := jop (jr_storage j) keccak (jr_op j) (f_self fc) (jr_mem j) (jr_stack j) (xt s1) in
        let s2 := emit (set_t s1 t') [EvJournal depth (f_self fc) (current_index (tc (xt s1))) (jr_op j) (is_ok r)] in
        run fuel' depth fc (resume r) s2
      end
    end

  (** EVMInterpreter.Run on a fresh frame: depth+1 for the duration; empty code returns at once *)
  with run_frame (fuel : nat) (depth : nat) (hint : H) (fc : fctx) (gas : N) (s : xstate) {struct fuel} : option (cres * xstate) :=
    match fuel with
    | O => None
    | S fuel' =>
      match f_code fc with
      | [] => Some (mk [] gas None, s)
      | _ => run fuel' (S depth) fc (init_machine fc gas hint) s
      end
    end

  (** EVM.Call, evm.go:238-402 *)
  with do_call (fuel : nat) (depth : nat) (hint : H) (pstatic : bool) (caller addr : N) (input : bytes) (gas value : N) (s : xstate) {struct fuel}
    : option (cres * xstate) :=
    match fuel with
    | O => None
    | S fuel' =>
      let s := save_call s caller (Some addr) input value gas in           (* 240 SaveCall; exit deferred *)
      let idx := current_index (tc (xt s)) in
      let finish := fun (p : cres * xstate) => Some (fst p, exit_call (snd p) (fst p)) in
      if Nat.ltb max_depth depth then finish (mk [] gas (Some (VOther "max call depth exceeded")), s)
      else if negb (value =? 0) && negb (can_transfer (xw s) caller value)
      then finish (mk [] gas (Some (VOther "insufficient balance for transfer")), s)
      else
        let w0 := xw s in                                                     (* 264 snapshot *)
        let isp := is_precompile addr in
        if negb (exists_acct w0 addr) && negb isp && is_eip158 && (value =? 0) then
          (* calling a non-existing account: ping the tracer, nothing else *)
          let s := dbg_open s depth 0xf1 caller addr false input gas (Some value) in
          let s := dbg_close s depth (mk [] gas None) gas gas in
          finish (mk [] gas None, s)
        else
          let s := if exists_acct w0 addr then s else set_w s (create_account w0 addr) in
          let s := transfer_recorded s caller addr value in                   (* 295 *)
          let s := dbg_open s depth 0xf1 caller addr false input gas (Some value) in
          (* everything below returns through [close]: deferred CaptureEnd/CaptureExit with the local gas variable *)
          let close := fun (r : cres) (gas_var : N) (s : xstate) => finish (r, dbg_close s depth r gas gas_var) in
          if isp then
            let r := precompile addr (if artela then Some caller else None) input gas in
            let '(r', s') := tail w0 r s in close r' (r_gas r') s'
          else
            let code := code_of (xw s) addr in
            match code with
            | [] => close (mk [] gas None) gas s
            | _ =>
              let jp := artela && jp_on in
              let p0 := {| j_from := caller; j_to := addr; j_index := idx; j_data := input; j_value := value; j_gas := gas;
                           j_ret := []; j_errtext := ""%string |} in
              let '(pret, pgas, perr, s) :=
                  if jp then join_point true caller addr input value p0 gas s else ([], gas, None, s) in
              match perr with
              | Some e =>
                (* 334-346 (after the fix): revert, keep the leftover unless out of gas *)
                let r := pre_fail pret pgas e in
                close r (r_gas r) (set_w s w0)
              | None =>
                let fc := {| f_self := addr; f_code_addr := addr; f_caller := caller; f_value := value; f_input := input;
                             f_code := code; f_static := pstatic; f_create := false |} in
                match run_frame fuel' depth hint fc pgas s with
                | None => None
                | Some (r, s) =>
                  let '(r, s) :=
                      if jp then
                        let p1 := {| j_from := caller; j_to := addr; j_index := idx; j_data := input; j_value := value;
                                     j_gas := r_gas r; j_ret := r_ret r;
                                     j_errtext := match r_err r with Some e => verr_text e | None => ""%string end |} in
                        let '(qret, qgas, qerr, s) := join_point false caller addr input value p1 (r_gas r) s in
                        (post_merge r qret qgas qerr, s)
                      else (r, s) in
                  let '(r', s') := tail w0 r s in close r' (r_gas r') s'
                end
              end
            end
    end

  (** EVM.CallCode, evm.go:411-452 *)
  with do_callcode (fuel : nat) (depth : nat) (hint : H) (pf : fctx) (addr : N) (input : bytes) (gas value : N) (s : xstate) {struct fuel}
    : option (cres * xstate) :=
    match fuel with
    | O => None
    | S fuel' =>
      let caller := f_self pf in
      if Nat.ltb max_depth depth then Some (mk [] gas (Some (VOther "max call depth exceeded")), s)
      else if negb (can_transfer (xw s) caller value) then Some (mk [] gas (Some (VOther "insufficient balance for transfer")), s)
      else
        let w0 := xw s in
        let s := if debug then emit s [EvEnter 0xf2 caller addr input gas (Some value)] else s in
        let close := fun (r : cres) (s : xstate) => Some (r, if debug then emit s [EvExit (r_ret r) (gas - r_gas r) (r_err r)] else s) in
        if is_precompile addr then
          let '(r', s') := tail w0 (precompile addr None input gas) s in close r' s'
        else
          let fc := {| f_self := caller; f_code_addr := addr; f_caller := caller; f_value := value; f_input := input;
                       f_code := code_of (xw s) addr; f_static := f_static pf; f_create := false |} in
          match run_frame fuel' depth hint fc gas s with
          | None => None
          | Some (r, s) => let '(r', s') := tail w0 r s in close r' s'
          end
    end

  (** EVM.DelegateCall, evm.go:459-496 *)
  with do_delegatecall (fuel : nat) (depth : nat) (hint : H) (pf : fctx) (addr : N) (input : bytes) (gas : N) (s : xstate) {struct fuel}
    : option (cres * xstate) :=
    match fuel with
    | O => None
    | S fuel' =>
      let caller := f_self pf in
      if Nat.ltb max_depth depth then Some (mk [] gas (Some (VOther "max call depth exceeded")), s)
      else
        let w0 := xw s in
        let s := if debug then emit s [EvEnter 0xf4 caller addr input gas (Some (f_value pf))] else s in
        let close := fun (r : cres) (s : xstate) => Some (r, if debug then emit s [EvExit (r_ret r) (gas - r_gas r) (r_err r)] else s) in
        if is_precompile addr then
          let '(r', s') := tail w0 (precompile addr None input gas) s in close r' s'
        else
          let fc := {| f_self := caller; f_code_addr := addr; f_caller := f_caller pf; f_value := f_value pf; f_input := input;
                       f_code := code_of (xw s) addr; f_static := f_static pf; f_create := false |} in
          match run_frame fuel' depth hint fc gas s with
          | None => None
          | Some (r, s) => let '(r', s') := tail w0 r s in close r' s'
          end
    end

  (** EVM.StaticCall, evm.go:502-552 *)
  with do_staticcall (fuel : nat) (depth : nat) (hint : H) (pf : fctx) (addr : N) (input : bytes) (gas : N) (s : xstate) {struct fuel}
    : option (cres * xstate) :=
    match fuel with
    | O => None
    | S fuel' =>
      let caller := f_self pf in
      if Nat.ltb max_depth depth then Some (mk [] gas (Some (VOther "max call depth exceeded")), s)
      else
        let w0 := xw s in
        let s := set_w s (touch w0 addr) in
        let s := if debug then emit s [EvEnter 0xfa caller addr input gas None] else s in
        let close := fun (r : cres) (s : xstate) => Some (r, if debug then emit s [EvExit (r_ret r) (gas - r_gas r) (r_err r)] else s) in
        if is_precompile addr then
          let '(r', s') := tail w0 (precompile addr None input gas) s in close r' s'
        else
          let fc := {| f_self := addr; f_code_addr := addr; f_caller := caller; f_value := 0; f_input := input;
                       f_code := code_of (xw s) addr; f_static := true; f_create := false |} in
          match run_frame fuel' depth hint fc gas s with
          | None => None
          | Some (r, s) => let '(r', s') := tail w0 r s in close r' s'
          end
    end

  (** EVM.create, evm.go:567-664.  Returns the results handed to the caller (ret, contract.Gas, err). *)
  with do_create (fuel : nat) (depth : nat) (hint : H) (caller : N) (code : bytes) (gas value : N) (address : N) (typ : N) (s : xstate) {struct fuel}
    : option (cres * xstate) :=
    match fuel with
    | O => None
    | S fuel' =>
      let s := save_call s caller None code value gas in
      let finish := fun (p : cres * xstate) => Some (fst p, exit_call (snd p) (fst p)) in
      if Nat.ltb max_depth depth then finish (mk [] gas (Some (VOther "max call depth exceeded")), s)
      else if negb (can_transfer (xw s) caller value) then finish (mk [] gas (Some (VOther "insufficient balance for transfer")), s)
      else
        let nonce := get_nonce (xw s) caller in
        if two64 <=? nonce + 1 then finish (mk [] gas (Some (VOther "nonce uint64 overflow")), s)
        else
          let s := set_w s (set_nonce (xw s) caller (nonce + 1)) in
          let s := if is_berlin then set_w s (acl_add (xw s) address) else s in
          if collides (xw s) address then finish (mk [] 0 (Some (VOther "contract address collision")), s)
          else
            let w0 := xw s in                                                  (* snapshot *)
            let s := set_w s (create_account w0 address) in
            let s := if is_eip158 then set_w s (set_nonce (xw s) address 1) else s in
            let s := transfer_recorded s caller address value in
            let s := dbg_open s depth typ caller address true code gas (Some value) in
            let fc := {| f_self := address; f_code_addr := address; f_caller := caller; f_value := value; f_input := [];
                         f_code := code; f_static := false; f_create := true |} in
            match run_frame fuel' depth hint fc gas s with
            | None => None
            | Some (r, s) =>
              let '(r', s) := create_finish w0 address r s in
              finish (r', dbg_close s depth r' gas (r_gas r'))
            end
    end.
End Exec.

Arguments xw {W} _.
Arguments xt {W} _.
Arguments xe {W} _.
Arguments xn {W} _.
