(* Model/MemGas.v — the memory-expansion fee as the code computes it: vm/gas_table.go memoryGasCost with the Memory
   object's own bookkeeping (store length and lastGasCost, vm/memory.go), in 64-bit arithmetic with every wrap written
   out, followed by the interpreter's Resize (vm/interpreter.go: `if memorySize > 0 { mem.Resize(memorySize) }`).
   Model/Mem.v's [memory_gas_cost] ASSUMES lastGasCost = mem_fee (length/32); here that is a field of the state and the
   assumption becomes the invariant proved in Proofs/MemGas_proofs.v.  Also the dynamic-gas functions that are
   "memory fee + something per word": pureMemoryGascost, memoryCopierGas, gasKeccak256, makeGasLog.  Inherited code. *)
From Verif Require Import Base.Bytes Model.Mem Model.MemSize.
Open Scope N_scope.

(** Memory bookkeeping: (len(m.store), m.lastGasCost) *)
Definition mstate : Type := N * N.
Definition mg_init : mstate := (0, 0).

(** toWordSize on uint64 (vm/common.go): the guard against size+31 wrapping, then a division *)
Definition to_word_size (size : N) : N := if two64 - 1 - 31 <? size then (two64 - 1) / 32 + 1 else (size + 31) / 32.

(** wrapping uint64 subtraction *)
Definition sub64 (a b : N) : N := u64 (a + two64 - u64 b).

(** memoryGasCost(mem, newMemSize): (fee, lastGasCost afterwards) *)
Definition memory_gas_cost64 (st : mstate) (new_mem_size : N) : res (N * N) :=
  let '(len, last) := st in
  if new_mem_size =? 0 then Ok (0, last)
  else if 0x1FFFFFFFE0 <? new_mem_size then Err "gas uint64 overflow"
  else
    let words := to_word_size new_mem_size in
    let new_mem_size := u64 (words * 32) in
    if len <? new_mem_size then
      let square := u64 (words * words) in
      let lin_coef := u64 (words * 3) in
      let quad_coef := square / 512 in
      let new_total_fee := u64 (lin_coef + quad_coef) in
      Ok (sub64 new_total_fee last, new_total_fee)
    else Ok (0, last).

(** Memory.Resize(size): grows only *)
Definition mem_resize (len size : N) : N := if len <? size then size else len.

(** one successful step of the interpreter that names [memory_size] (already rounded up to words by the interpreter):
    the fee is computed (and lastGasCost updated) by the dynamic-gas function, then the memory is resized *)
Definition mg_step (st : mstate) (memory_size : N) : res (N * mstate) :=
  match memory_gas_cost64 st memory_size with
  | Ok (fee, last') => Ok (fee, (if 0 <? memory_size then mem_resize (fst st) memory_size else fst st, last'))
  | Err e => Err e
  | Panic p => Panic p
  end.

(** a frame's history of successful steps: total fee charged and final bookkeeping ([None]: some step failed — the
    frame ends there and its memory is discarded) *)
Fixpoint mg_run (st : mstate) (sizes : list N) : option (N * mstate) :=
  match sizes with
  | [] => Some (0, st)
  | n :: t =>
    match mg_step st n with
    | Ok (fee, st') => match mg_run st' t with Some (tot, fin) => Some (fee + tot, fin) | None => None end
    | _ => None
    end
  end.

(** the word-rounded size the interpreter passes on: memorySize = toWordSize(memSize) * 32, refused when that overflows *)
Definition rounded_size (op : N) (s : list N) : option N :=
  match mem_needed op s with
  | Some (size, false) => if 0xffffffffffffffe0 <? size then None else Some (32 * to_words size)
  | _ => None
  end.

(** math.SafeMul / SafeAdd *)
Definition safe_mul (a b : N) : option N := if a * b <? two64 then Some (a * b) else None.
Definition safe_add (a b : N) : option N := if a + b <? two64 then Some (a + b) else None.

(** constant + dynamic gas of the instructions whose dynamic part is the memory fee plus a per-word or per-byte amount
    (the same on every fork): what the debug tracer is told as [cost].  [None]: not one of these, or the step errs. *)
Definition step_cost (op : N) (s : list N) (st : mstate) : option N :=
  match rounded_size op s with
  | None => None
  | Some msize =>
    match memory_gas_cost64 st msize with
    | Ok (fee, _) =>
      let per_word (static i k : N) :=
        let n := back s (N.to_nat i) in
        if two64 <=? n then None else
        match safe_mul (to_word_size n) k with
        | Some w => match safe_add fee w with Some g => Some (static + g) | None => None end
        | None => None
        end in
      if (op =? 0x51) || (op =? 0x52) || (op =? 0x53) then Some (3 + fee)            (* pureMemoryGascost *)
      else if (op =? 0xf3) || (op =? 0xfd) then Some fee
      else if op =? 0x20 then per_word 30 1 6                                        (* gasKeccak256 *)
      else if (op =? 0x37) || (op =? 0x39) || (op =? 0x3e) || (op =? 0x5e) then per_word 3 2 3   (* memoryCopierGas(2) *)
      else if (0xa0 <=? op) && (op <=? 0xa4) then                                    (* makeGasLog(n) *)
        let n := back s 1 in
        if two64 <=? n then None else
        match safe_add fee 375 with
        | Some g1 => match safe_add g1 ((op - 0xa0) * 375) with
          | Some g2 => match safe_mul n 8 with
            | Some d => safe_add g2 d
            | None => None end
          | None => None end
        | None => None end
      else None
    | _ => None
    end
  end.

(** CREATE / CREATE2: constant 32000 + gasCreate (= pureMemoryGascost) / gasCreate2 (hash: 6 per word of init code) before
    Shanghai; gasCreateEip3860 / gasCreate2Eip3860 (init code at most 49152 bytes, 2 resp. 2 + 6 per word) from Shanghai *)
Definition create_cost (shanghai : bool) (op : N) (s : list N) (st : mstate) : option N :=
  match rounded_size op s with
  | None => None
  | Some msize =>
    match memory_gas_cost64 st msize with
    | Ok (fee, _) =>
      let size := back s 2 in
      if two64 <=? size then None
      else if shanghai then
        if 49152 <? size then None
        else match safe_add fee ((if op =? 0xf0 then 2 else 2 + 6) * ((size + 31) / 32)) with
             | Some g => Some (32000 + g)
             | None => None
             end
      else if op =? 0xf0 then Some (32000 + fee)
      else match safe_mul (to_word_size size) 6 with
           | Some w => match safe_add fee w with Some g => Some (32000 + g) | None => None end
           | None => None
           end
    | _ => None
    end
  end.
