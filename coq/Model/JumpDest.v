(* Model/JumpDest.v — jump-destination analysis (vm/analysis.go codeBitmap / bitvec, vm/contract.go validJumpdest).
   Inherited from go-ethereum v1.12.0 (identical by the digest theorems).  The bit vector is modelled byte by byte with the
   very operations of the Go code — including the places where it ASSIGNS a byte instead of or-ing into it — and
   Proofs/JumpDest_proofs.v shows it equal to the obvious specification for every code. *)
From Verif Require Import Base.Bytes.
Open Scope nat_scope.

(** specification: position i of the code is PUSH data *)
Definition push_width (op : N) : nat := if ((0x60 <=? op) && (op <=? 0x7f))%N then N.to_nat (op - 0x5f) else 0.
Fixpoint mark (code : bytes) (skip : nat) : list bool :=
  match code with
  | [] => []
  | op :: t => match skip with
               | S k => true :: mark t k
               | O => false :: mark t (push_width op)
               end
  end.
Definition is_data (code : bytes) (i : nat) : bool := nth i (mark code 0) false.
(** Contract.validJumpdest for a destination that fits 64 bits *)
Definition valid_jumpdest_spec (code : bytes) (d : nat) : bool :=
  (d <? length code) && (nth d code 0%N =? 0x5b)%N && negb (is_data code d).

(** the bit vector: a list of bytes; Go index expressions panic out of range *)
Definition bitvec := list N.
Definition upd (b : bitvec) (k : nat) (v : N) : res bitvec :=
  if k <? length b then Ok (firstn k b ++ v :: skipn (S k) b) else Panic "index out of range".
Definition byte_at (b : bitvec) (k : nat) : N := nth k b 0%N.
Definition byte_of (a : N) : N := (a mod 256)%N.          (* byte(a) *)

(** bits[pos/8] |= 1 << (pos % 8) *)
Definition set1 (b : bitvec) (pos : nat) : res bitvec :=
  upd b (pos / 8) (N.lor (byte_at b (pos / 8)) (N.shiftl 1 (N.of_nat (pos mod 8)))).

(** a := flag << (pos % 8); bits[pos/8] |= byte(a); if b := byte(a >> 8); b != 0 { bits[pos/8+1] = b } *)
Definition setN (flag : N) (b : bitvec) (pos : nat) : res bitvec :=
  let a := N.shiftl flag (N.of_nat (pos mod 8)) in
  let? b1 := upd b (pos / 8) (N.lor (byte_at b (pos / 8)) (byte_of a)) in
  let hi := byte_of (N.shiftr a 8) in
  if (hi =? 0)%N then Ok b1 else upd b1 (pos / 8 + 1) hi.

(** a := byte(0xFF << (pos % 8)); bits[pos/8] |= a; bits[pos/8+1] = ^a *)
Definition set8 (b : bitvec) (pos : nat) : res bitvec :=
  let a := byte_of (N.shiftl 255 (N.of_nat (pos mod 8))) in
  let? b1 := upd b (pos / 8) (N.lor (byte_at b (pos / 8)) a) in
  upd b1 (pos / 8 + 1) (N.lxor a 255).

(** ... bits[pos/8+1] = 0xFF; bits[pos/8+2] = ^a *)
Definition set16 (b : bitvec) (pos : nat) : res bitvec :=
  let a := byte_of (N.shiftl 255 (N.of_nat (pos mod 8))) in
  let? b1 := upd b (pos / 8) (N.lor (byte_at b (pos / 8)) a) in
  let? b2 := upd b1 (pos / 8 + 1) 255%N in
  upd b2 (pos / 8 + 2) (N.lxor a 255).

(** codeSegment: bit clear = code *)
Definition bv_get (b : bitvec) (i : nat) : bool := N.testbit (byte_at b (i / 8)) (N.of_nat (i mod 8)).

(** the body for one PUSH with [n] data bytes starting at [pc]: 16 at a time, then 8 at a time, then the switch *)
Fixpoint set16s (k : nat) (b : bitvec) (pc : nat) : res bitvec :=
  match k with O => Ok b | S k' => let? b' := set16 b pc in set16s k' b' (pc + 16) end.
Definition set_rest (n : nat) (b : bitvec) (pc : nat) : res bitvec :=
  match n with
  | 0 => Ok b
  | 1 => set1 b pc
  | _ => setN (N.ones (N.of_nat n)) b pc            (* set2BitsMask .. set7BitsMask *)
  end.
Definition set_push (n : nat) (b : bitvec) (pc : nat) : res bitvec :=
  let k16 := n / 16 in
  let? b1 := set16s k16 b pc in
  let pc1 := pc + 16 * k16 in
  let n1 := n mod 16 in
  if 8 <=? n1 then (let? b2 := set8 b1 pc1 in set_rest (n1 - 8) b2 (pc1 + 8)) else set_rest n1 b1 pc1.

(** codeBitmapInternal: [pc] runs over the code; fuel = number of bytes left to look at *)
Fixpoint bitmap_loop (fuel : nat) (code : bytes) (b : bitvec) (pc : nat) : res bitvec :=
  match fuel with
  | O => Ok b
  | S f =>
    if length code <=? pc then Ok b else
    let op := nth pc code 0%N in
    let n := push_width op in
    if n =? 0 then bitmap_loop f code b (pc + 1)
    else let? b' := set_push n b (pc + 1) in bitmap_loop f code b' (pc + 1 + n)
  end.
(** codeBitmap: make(bitvec, len(code)/8+1+4) *)
Definition code_bitmap (code : bytes) : res bitvec :=
  bitmap_loop (length code) code (repeat 0%N (length code / 8 + 1 + 4)) 0.

Definition valid_jumpdest (code : bytes) (d : nat) : res bool :=
  if (d <? length code) && (nth d code 0%N =? 0x5b)%N
  then (let? b := code_bitmap code in Ok (negb (bv_get b d)))
  else Ok false.
