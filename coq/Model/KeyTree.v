(* Model/KeyTree.v — the state-change journal of vm/tracer.go:19-371 (StorageChanges, StorageKey,
   StateChanges).  Go pointers are node ids; every Go map is an association list with
   "first registration wins" exactly where the code only inserts when absent. *)
From Verif Require Import Base.Bytes.
Open Scope N_scope.

(** ** association lists *)
Section AList.
  Context {K V : Type}.
  Variable eqb : K -> K -> bool.
  Fixpoint aget (l : list (K * V)) (k : K) : option V :=
    match l with
    | [] => None
    | (k', v) :: t => if eqb k k' then Some v else aget t k
    end.
  (** insert only when the key is absent (Go: `if m[k] == nil { m[k] = v }`) *)
  Definition aput_absent (l : list (K * V)) (k : K) (v : V) : list (K * V) :=
    match aget l k with Some _ => l | None => l ++ [(k, v)] end.
  (** overwrite (Go: `m[k] = v`) *)
  Fixpoint aset (l : list (K * V)) (k : K) (v : V) : list (K * V) :=
    match l with
    | [] => [(k, v)]
    | (k', v') :: t => if eqb k k' then (k, v) :: t else (k', v') :: aset t k v
    end.
End AList.

Definition id := nat.

Record node := {
  n_acct : N;          (* account the node belongs to *)
  n_root : bool;       (* RootNode: the account's root, slot/offset/type meaningless *)
  n_slot : N;
  n_off : N;           (* 0..31 *)
  n_type : N;          (* type id (32-byte hash as a number) *)
  n_data : bytes       (* index key: state variable name / mapping key / array index *)
}.

Definition changes := list (N * list bytes).   (* call index -> chronological values *)

Record kt := {
  nodes : list node;                              (* id -> node; new id = length *)
  roots : list (N * id);                          (* account -> root node *)
  cindex : list ((id * bytes) * id);              (* (parent, index key) -> child : childrenIndex *)
  children : list ((id * N * N) * id);            (* (parent, slot, offset) -> child : children *)
  index : list ((N * N * N * N) * id);            (* (account, slot, offset, type) -> node : StateChanges.index *)
  chg : list (id * changes);                      (* node -> its StorageChanges (absent = nil pointer) *)
  raw : list ((N * N * N) * N)                    (* (account, slot, callIdx) -> word *)
}.

Definition kt_empty : kt :=
  {| nodes := []; roots := []; cindex := []; children := []; index := []; chg := []; raw := [] |}.

Definition eq_ib (a b : id * bytes) : bool := Nat.eqb (fst a) (fst b) && bytes_eqb (snd a) (snd b).
Definition eq_inn (a b : id * N * N) : bool :=
  let '(i, s, o) := a in let '(i', s', o') := b in Nat.eqb i i' && (s =? s') && (o =? o').
Definition eq_n4 (a b : N * N * N * N) : bool :=
  let '(x, s, o, t) := a in let '(x', s', o', t') := b in (x =? x') && (s =? s') && (o =? o') && (t =? t').
Definition eq_n3 (a b : N * N * N) : bool :=
  let '(x, s, o) := a in let '(x', s', o') := b in (x =? x') && (s =? s') && (o =? o').

(** uint8 offset from an optional 256-bit operand (saveKey/saveChange/Slot) *)
Definition offset_u8 (off : option N) : res N :=
  match off with
  | None => Ok 0
  | Some o => if 31 <? o then Err "offset overflow" else Ok o
  end.

Definition find_key (s : kt) (acct slot off ty : N) : option id := aget eq_n4 (index s) (acct, slot, off, ty).

Definition root_of (s : kt) (acct : N) : option id := aget N.eqb (roots s) acct.

(** make sure the account has a root; returns the state and the root id *)
Definition ensure_root (s : kt) (acct : N) : kt * id :=
  match root_of s acct with
  | Some r => (s, r)
  | None =>
    let r := length (nodes s) in
    ({| nodes := nodes s ++ [{| n_acct := acct; n_root := true; n_slot := 0; n_off := 0; n_type := 0; n_data := [] |}];
        roots := roots s ++ [(acct, r)]; cindex := cindex s; children := children s; index := index s;
        chg := chg s; raw := raw s |}, r)
  end.

(** StorageKey.AddChild on parent [p] with a freshly built branch key; returns the node saveKey
    goes on with.  The fresh node is allocated in any case (it may end up unreferenced). *)
Definition add_child (s : kt) (p : id) (acct slot off ty : N) (data : bytes) : kt * id :=
  let c := length (nodes s) in
  let nodes' := nodes s ++ [{| n_acct := acct; n_root := false; n_slot := slot; n_off := off; n_type := ty; n_data := data |}] in
  let cindex' := aput_absent eq_ib (cindex s) (p, data) c in
  match aget eq_inn (children s) (p, slot, off) with
  | None =>
    ({| nodes := nodes'; roots := roots s; cindex := cindex'; children := children s ++ [((p, slot, off), c)];
        index := index s; chg := chg s; raw := raw s |}, c)
  | Some e =>
    let same_type := match nth_error (nodes s) e with Some ne => n_type ne =? ty | None => false end in
    ({| nodes := nodes'; roots := roots s; cindex := cindex'; children := children s;
        index := index s; chg := chg s; raw := raw s |}, if same_type then e else c)
  end.

Definition add_key (s : kt) (acct : N) (k : id) : kt :=
  match nth_error (nodes s) k with
  | None => s
  | Some nk =>
    {| nodes := nodes s; roots := roots s; cindex := cindex s; children := children s;
       index := aput_absent eq_n4 (index s) (acct, n_slot nk, n_off nk, n_type nk) k; chg := chg s; raw := raw s |}
  end.

(** StateChanges.saveKey.  [parent] = Some (parent slot, parent type id) for nested variables. *)
Definition save_key (s : kt) (acct : N) (parent : option (N * N)) (slot : N) (off : option N) (ty : N) (data : bytes)
  : kt * res unit :=
  match offset_u8 off with
  | Err e => (s, Err e) | Panic w => (s, Panic w)
  | Ok o =>
    match parent with
    | None =>
      let '(s1, r) := ensure_root s acct in
      let '(s2, c) := add_child s1 r acct slot o ty data in
      (add_key s2 acct c, Ok tt)
    | Some (pslot, pty) =>
      match find_key s acct pslot 0 pty with
      | None => (s, Err "parent key not found")
      | Some p =>
        let '(s2, c) := add_child s p acct slot o ty data in
        (add_key s2 acct c, Ok tt)
      end
    end
  end.

(** StorageChanges.append: collapse an immediately repeated value within one call *)
Definition append_change (c : changes) (call : N) (v : bytes) : changes :=
  match aget N.eqb c call with
  | None => c ++ [(call, [v])]
  | Some l =>
    match rev l with
    | last :: _ => if bytes_eqb last v then c else aset N.eqb c call (l ++ [v])
    | [] => aset N.eqb c call (l ++ [v])
    end
  end.

Definition journal (s : kt) (k : id) (call : N) (v : bytes) : kt :=
  let old := match aget Nat.eqb (chg s) k with Some c => c | None => [] end in
  {| nodes := nodes s; roots := roots s; cindex := cindex s; children := children s; index := index s;
     chg := aset Nat.eqb (chg s) k (append_change old call v); raw := raw s |}.

(** StateChanges.saveChange *)
Definition save_change (s : kt) (acct slot : N) (off : option N) (ty call : N) (v : bytes) : kt * res unit :=
  match offset_u8 off with
  | Err e => (s, Err e) | Panic w => (s, Panic w)
  | Ok o =>
    match root_of s acct with
    | None => (s, Err "unknown account")
    | Some _ =>
      match find_key s acct slot o ty with
      | None => (s, Err "storage key node not found")
      | Some k => (journal s k call v, Ok tt)
      end
    end
  end.

(** StateChanges.saveBalance (the caller passes uint256.Bytes(): minimal big-endian) *)
Definition save_balance (s : kt) (acct : N) (bal : bytes) (call : N) : kt :=
  let '(s1, r) := ensure_root s acct in journal s1 r call bal.

Definition save_raw (s : kt) (acct slot call w : N) : kt :=
  {| nodes := nodes s; roots := roots s; cindex := cindex s; children := children s; index := index s;
     chg := chg s; raw := aset eq_n3 (raw s) (acct, slot, call) w |}.

(** ** queries *)
Fixpoint walk (s : kt) (cur : id) (path : list bytes) : option id :=
  match path with
  | [] => Some cur
  | k :: t => match aget eq_ib (cindex s) (cur, k) with Some c => walk s c t | None => None end
  end.

(** StateChanges.FindKeyIndices(account, name, indices...) *)
Definition find_key_indices (s : kt) (acct : N) (name : bytes) (idxs : list bytes) : option id :=
  match root_of s acct with
  | None => None
  | Some r => walk s r (name :: idxs)
  end.

Definition changes_of (s : kt) (k : id) : option changes := aget Nat.eqb (chg s) k.

(** StateChanges.Variable *)
Definition variable (s : kt) (acct : N) (name : bytes) (idxs : list bytes) : option changes :=
  match find_key_indices s acct name idxs with Some k => changes_of s k | None => None end.

(** StateChanges.Slot: (changes, error) *)
Definition slot_lookup (s : kt) (acct slot : N) (off : option N) (ty : N) : res (option changes) :=
  match offset_u8 off with
  | Err e => Err e | Panic w => Panic w
  | Ok o => match find_key s acct slot o ty with Some k => Ok (changes_of s k) | None => Ok None end
  end.

Definition balance (s : kt) (acct : N) : option changes :=
  match root_of s acct with Some r => changes_of s r | None => None end.

(** bytewise order on index keys *)
Fixpoint bytes_leb (a b : bytes) : bool :=
  match a, b with
  | [], _ => true
  | _ :: _, [] => false
  | x :: s, y :: t => if x <? y then true else if y <? x then false else bytes_leb s t
  end.
Fixpoint insert_sorted (x : bytes) (l : list bytes) : list bytes :=
  match l with
  | [] => [x]
  | y :: t => if bytes_leb x y then x :: l else y :: insert_sorted x t
  end.
Definition sort_bytes (l : list bytes) : list bytes := fold_right insert_sorted [] l.

(** StorageKey.ChildrenIndices / StateChanges.IndicesOfChanges: the index keys registered under
    the node, in bytewise order *)
Definition children_indices (s : kt) (k : id) : list bytes :=
  sort_bytes (map (fun e => snd (fst e)) (filter (fun e => Nat.eqb (fst (fst e)) k) (cindex s))).

Definition indices_of_changes (s : kt) (acct : N) (name : bytes) (idxs : list bytes) : option (list bytes) :=
  match find_key_indices s acct name idxs with Some k => Some (children_indices s k) | None => None end.

(** NodeType: 0 root, 1 branch, 2 data (a branch becomes a data node with its first change) *)
Definition node_type (s : kt) (k : id) : N :=
  match nth_error (nodes s) k with
  | Some n => if n_root n then 0 else match changes_of s k with Some _ => 2 | None => 1 end
  | None => 1
  end.
