(* Model/SStore.v — what SSTORE charges and refunds under the five schedules of the code base: gasSStore (legacy and the
   Constantinople-only EIP-1283), gasSStoreEIP2200 (Istanbul), makeGasSStoreFunc (EIP-2929 with the EIP-2200 refund, Berlin;
   with the EIP-3529 refund, London and later) — vm/gas_table.go, vm/operations_acl.go.  Inherited from go-ethereum v1.12.0.
   Modelled because StateDB.SubRefund PANICS when the counter would go below zero ("Refund counter below zero"): that it
   cannot is a property of these functions over whole sequences of writes (Proofs/SStore_proofs.v). *)
From Verif Require Import Base.Bytes.
From Coq Require Import ZArith.
Open Scope N_scope.

Inductive schedule := SLegacy | S1283 | S2200 | S2929 (clears : N).   (* clears = 15000 (Berlin) or 4800 (London+) *)

(** (gas, refund added, refund subtracted); the error is the re-entrancy sentry of EIP-2200 *)
Definition sstore (sch : schedule) (original current value gas_left : N) (cold : bool) : res (N * N * N) :=
  match sch with
  | SLegacy =>
    if (current =? 0) && negb (value =? 0) then Ok (20000, 0, 0)
    else if negb (current =? 0) && (value =? 0) then Ok (5000, 15000, 0)
    else Ok (5000, 0, 0)
  | S1283 =>
    if current =? value then Ok (200, 0, 0)
    else if original =? current then
      (if original =? 0 then Ok (20000, 0, 0) else Ok (5000, (if value =? 0 then 15000 else 0), 0))
    else
      let sub := if negb (original =? 0) && (current =? 0) then 15000 else 0 in
      let add1 := if negb (original =? 0) && negb (current =? 0) && (value =? 0) then 15000 else 0 in
      let add2 := if original =? value then (if original =? 0 then 19800 else 4800) else 0 in
      Ok (200, add1 + add2, sub)
  | S2200 =>
    if gas_left <=? 2300 then Err "not enough gas for reentrancy sentry"
    else if current =? value then Ok (800, 0, 0)
    else if original =? current then
      (if original =? 0 then Ok (20000, 0, 0) else Ok (5000, (if value =? 0 then 15000 else 0), 0))
    else
      let sub := if negb (original =? 0) && (current =? 0) then 15000 else 0 in
      let add1 := if negb (original =? 0) && negb (current =? 0) && (value =? 0) then 15000 else 0 in
      let add2 := if original =? value then (if original =? 0 then 19200 else 4200) else 0 in
      Ok (800, add1 + add2, sub)
  | S2929 clears =>
    if gas_left <=? 2300 then Err "not enough gas for reentrancy sentry"
    else
      let c := if cold then 2100 else 0 in
      if current =? value then Ok (c + 100, 0, 0)
      else if original =? current then
        (if original =? 0 then Ok (c + 20000, 0, 0) else Ok (c + 2900, (if value =? 0 then clears else 0), 0))
      else
        let sub := if negb (original =? 0) && (current =? 0) then clears else 0 in
        let add1 := if negb (original =? 0) && negb (current =? 0) && (value =? 0) then clears else 0 in
        let add2 := if original =? value then (if original =? 0 then 19900 else 2800) else 0 in
        Ok (c + 100, add1 + add2, sub)
  end.

(** the refund counter of the state database: in the dirty-slot branch SubRefund — which panics below zero — comes BEFORE
    the AddRefund of the reset clause (the two clears-schedule clauses exclude each other) *)
Definition apply_refund (counter add sub : N) : res N :=
  if counter <? sub then Panic "Refund counter below zero" else Ok (counter - sub + add).

(** a transaction's writes: slot and new value, against storage [cur] with the committed values [orig] *)
Definition upd_slot (cur : N -> N) (s v : N) : N -> N := fun k => if k =? s then v else cur k.
Fixpoint run_writes (sch : schedule) (orig : N -> N) (ws : list (N * N)) (cur : N -> N) (counter : N) : res (N * (N -> N)) :=
  match ws with
  | [] => Ok (counter, cur)
  | (s, v) :: t =>
    match sstore sch (orig s) (cur s) v 100000 false with    (* gas and warmth do not influence the refund *)
    | Ok (_, add, sub) => match apply_refund counter add sub with
                          | Ok c' => run_writes sch orig t (upd_slot cur s v) c'
                          | Err e => Err e | Panic w => Panic w end
    | Err e => Err e
    | Panic w => Panic w
    end
  end.
