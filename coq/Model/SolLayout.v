(* Model/SolLayout.v — SPECIFICATION: Solidity's storage layout for packed value fields and for
   bytes/string (docs "Layout of State Variables in Storage").  Nothing here mirrors the Go code. *)
From Verif Require Import Base.Bytes.
Open Scope N_scope.

(** The [size]-byte field stored [off] bytes from the low-order end of word [w], big-endian. *)
Definition sol_packed_field (w off size : N) : bytes :=
  N_to_be (N.to_nat size) ((w / 256 ^ off) mod 256 ^ size).

(** 32-byte right-padded chunks of a byte string *)
Fixpoint chunk32 (fuel : nat) (b : bytes) : list bytes :=
  match fuel with
  | O => []
  | S f => match b with [] => [] | _ => right_pad 32 (firstn 32 b) :: chunk32 f (skipn 32 b) end
  end.
Definition chunks (b : bytes) : list bytes := chunk32 (length b) b.

(** A storage reader [st] holds the string [content] at [slot]:
    - length <= 31: one word = content, zero padding, last byte 2*length;
    - otherwise: word 2*length+1 at [slot] and chunk i at keccak(pad32 slot)+i (mod 2^256). *)
Definition holds_string (st : N -> N) (keccak : bytes -> N) (slot : N) (content : bytes) : Prop :=
  let len := blen content in
  if len <? 32 then
    st slot = be_to_N (right_pad 31 content ++ [2 * len])
  else
    st slot = 2 * len + 1 /\
    forall i, (i < length (chunks content))%nat ->
      st (u256 (keccak (N_to_be 32 slot) + N.of_nat i)) = be_to_N (nth i (chunks content) []).

(** A valid length word: short form (even, length byte/2 <= 31) or long form (odd, length >= 32). *)
Definition valid_len_word (w : N) : bool :=
  if w mod 2 =? 0 then (w mod 256) / 2 <? 32 else 32 <=? w / 2.
