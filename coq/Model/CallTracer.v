(* Model/CallTracer.v — tracers/native/call.go (callTracer) and call_flat.go (flatCallTracer) with the
   Aspect extensions, as state machines over the callbacks they receive, and the SPECIFICATION: well-nested
   event streams given as trees, with the frame each tree must produce. *)
From Verif Require Import Base.Bytes.
Open Scope N_scope.

(** ** callbacks *)
Inductive tev :=
| TTxStart (gaslimit : N)
| TTxEnd (rest : N)
| TStart (from to : N) (create : bool) (input : bytes) (gas value : N)
| TEnd (out : bytes) (used : N) (err : option string)
| TEnter (typ from to : N) (input : bytes) (gas : N) (value : option N)
| TExit (out : bytes) (used : N) (err : option string)
| TAspEnter (jp from to aspect : N) (input : bytes) (gas : N) (value : option N)
| TAspExit (jp : N) (gas : N) (ret : bytes) (err : option string)
| TLog (addr : N) (topics : list N) (data : bytes)     (* CaptureState of a LOGn instruction, with withLog and not onlyTopCall *)
| TClearLogs.                                            (* CaptureTxEnd with withLog: clearFailedLogs *)

(** ** result frames (callFrame / aspectCallFrame; revertReason and logs are not modelled) *)
(** an event log captured with withLog: (emitting address, topics, data) *)
Definition clog : Type := N * list N * bytes.

Inductive cframe :=
  CF (typ from : N) (to : option N) (input : bytes) (gas used : N) (output : bytes) (err : string)
     (calls : list cframe) (jps : list aframe) (value : option N) (logs : list clog)
with aframe :=
  AF (jp aspect from to : N) (input : bytes) (gas used : N) (output : bytes) (err : string)
     (calls : list cframe) (value : N) (exited : bool).

Definition op_create : N := 0xf0.
Definition op_create2 : N := 0xf5.
Definition op_call : N := 0xf1.
Definition op_staticcall : N := 0xfa.
Definition revert_text : string := "execution reverted".

(** an open frame on the tracer's call stack: the frame so far + the marker of the running Aspect *)
Record oframe := { o_frame : cframe; o_marker : N }.

Definition empty_frame : cframe := CF 0 0 None [] 0 0 [] ""%string [] [] None [].

(** callFrame.processOutput *)
Definition process_output (f : cframe) (output : bytes) (err : option string) : cframe :=
  match f with
  | CF typ from to input gas used _ e calls jps value lg =>
    match err with
    | None => CF typ from to input gas used output e calls jps value lg
    | Some t =>
      let to' := if (typ =? op_create) || (typ =? op_create2) then None else to in
      if String.eqb t revert_text && negb (match output with [] => true | _ => false end)
      then CF typ from to' input gas used output t calls jps value lg
      else CF typ from to' input gas used [] t calls jps value lg
    end
  end.

(** aspectCallFrame.processOutput *)
Definition process_output_a (a : aframe) (output : bytes) (err : option string) : aframe :=
  match a with
  | AF jp asp from to input gas used _ e calls value dn =>
    match err with
    | None => AF jp asp from to input gas used output e calls value dn
    | Some t => AF jp asp from to input gas used output t calls value dn
    end
  end.

(** uint64 subtraction (Gas - result.Gas, gasLimit - restGas wrap like Go's) *)
Definition sub64 (a b : N) : N := (a + two64 - b mod two64) mod two64.

Definition af_jp (a : aframe) : N := match a with AF jp _ _ _ _ _ _ _ _ _ _ _ => jp end.
Definition af_exited (a : aframe) : bool := match a with AF _ _ _ _ _ _ _ _ _ _ _ dn => dn end.
Definition af_add_call (a : aframe) (c : cframe) : aframe :=
  match a with AF jp asp from to input gas used out e calls value dn => AF jp asp from to input gas used out e (calls ++ [c]) value dn end.
Definition af_finish (a : aframe) (gleft : N) (ret : bytes) (err : option string) : aframe :=
  match a with AF jp asp from to input gas _ out e calls value _ =>
    process_output_a (AF jp asp from to input gas (sub64 gas gleft) out e calls value true) ret err end.

Definition cf_add_call (f : cframe) (c : cframe) : cframe :=
  match f with CF typ from to input gas used out e calls jps value lg => CF typ from to input gas used out e (calls ++ [c]) jps value lg end.
Definition cf_add_jp (f : cframe) (a : aframe) : cframe :=
  match f with CF typ from to input gas used out e calls jps value lg => CF typ from to input gas used out e calls (jps ++ [a]) value lg end.
Definition cf_jps (f : cframe) : list aframe := match f with CF _ _ _ _ _ _ _ _ _ jps _ _ => jps end.
Definition cf_calls (f : cframe) : list cframe := match f with CF _ _ _ _ _ _ _ _ calls _ _ _ => calls end.
Definition cf_set_jps (f : cframe) (j : list aframe) : cframe :=
  match f with CF typ from to input gas used out e calls _ value lg => CF typ from to input gas used out e calls j value lg end.
Definition cf_set_used (f : cframe) (u : N) : cframe :=
  match f with CF typ from to input gas _ out e calls jps value lg => CF typ from to input gas u out e calls jps value lg end.

Definition cf_add_log (f : cframe) (l : clog) : cframe :=
  match f with CF typ from to input gas used out e calls jps value lg => CF typ from to input gas used out e calls jps value (lg ++ [l]) end.
Definition cf_logs (f : cframe) : list clog := match f with CF _ _ _ _ _ _ _ _ _ _ _ lg => lg end.
Definition cf_err (f : cframe) : string := match f with CF _ _ _ _ _ _ _ e _ _ _ _ => e end.

(** clearFailedLogs: the logs of a failed frame, of everything it called and of the calls its Aspects made are dropped *)
Fixpoint clear_c (f : cframe) (parent_failed : bool) : cframe :=
  match f with
  | CF typ from to input gas used out e calls jps value lg =>
    let failed := negb (String.eqb e "") || parent_failed in
    CF typ from to input gas used out e (map (fun c => clear_c c failed) calls) (map (fun a => clear_a a failed) jps) value
       (if failed then [] else lg)
  end
with clear_a (a : aframe) (failed : bool) : aframe :=
  match a with
  | AF jp asp from to input gas used out e calls value dn => AF jp asp from to input gas used out e (map (fun c => clear_c c failed) calls) value dn
  end.

(** update the LAST Aspect frame of the given join point that has not exited yet (CaptureAspectExit, after the fixes) *)
Fixpoint update_last_jp (jps : list aframe) (jp : N) (f : aframe -> aframe) : list aframe * bool :=
  match jps with
  | [] => ([], false)
  | a :: rest =>
    let '(rest', found) := update_last_jp rest jp f in
    if found then (a :: rest', true)
    else if (af_jp a =? jp) && negb (af_exited a) then (f a :: rest, true) else (a :: rest, false)
  end.

(** append a finished call to the last Aspect frame (CaptureExit under a marker) *)
Definition add_call_to_last_jp (jps : list aframe) (c : cframe) : res (list aframe) :=
  match rev jps with
  | [] => Panic "index out of range [-1]"
  | a :: r => Ok (rev r ++ [af_add_call a c])
  end.

Record tstate := { t_stack : list oframe;   (* head = innermost open frame; the last element is callstack[0] *)
                   t_gaslimit : N;
                   t_started : bool }.   (* CaptureStart seen: flatCallTracer knows the active precompiles only from then on *)

Definition t_init : tstate := {| t_stack := [{| o_frame := empty_frame; o_marker := 0 |}]; t_gaslimit := 0; t_started := false |}.

Definition upd_bottom (st : list oframe) (f : cframe -> cframe) : list oframe :=
  match rev st with
  | [] => []
  | b :: r => rev r ++ [{| o_frame := f (o_frame b); o_marker := o_marker b |}]
  end.

(** CaptureExit: the finished call goes under the running Aspect if the parent's marker is set, else among the parent's calls *)
Definition attach_call (parent : oframe) (call : cframe) : res oframe :=
  if o_marker parent =? 0 then Ok {| o_frame := cf_add_call (o_frame parent) call; o_marker := 0 |}
  else match add_call_to_last_jp (cf_jps (o_frame parent)) call with
       | Ok j => Ok {| o_frame := cf_set_jps (o_frame parent) j; o_marker := o_marker parent |}
       | Err x => Err x | Panic x => Panic x
       end.

Section Config.
  Variable only_top : bool.

  Definition ct_step (s : tstate) (e : tev) : res tstate :=
    match e with
    | TTxStart g => Ok {| t_stack := t_stack s; t_gaslimit := g; t_started := t_started s |}
    | TTxEnd rest =>
      Ok {| t_stack := upd_bottom (t_stack s) (fun f => cf_set_used f (sub64 (t_gaslimit s) rest)); t_gaslimit := t_gaslimit s; t_started := t_started s |}
    | TStart from to create input gas value =>
      Ok {| t_stack := upd_bottom (t_stack s) (fun f =>
              match f with CF _ _ _ _ _ used out e calls jps _ lg =>
                CF (if create then op_create else op_call) from (Some to) input (t_gaslimit s) used out e calls jps (Some value) lg end);
            t_gaslimit := t_gaslimit s; t_started := true |}
    | TEnd out used err =>
      Ok {| t_stack := upd_bottom (t_stack s) (fun f => process_output f out err); t_gaslimit := t_gaslimit s; t_started := t_started s |}
    | TEnter typ from to input gas value =>
      if only_top then Ok s else
      Ok {| t_stack := {| o_frame := CF typ from (Some to) input gas 0 [] ""%string [] [] value []; o_marker := 0 |} :: t_stack s;
            t_gaslimit := t_gaslimit s; t_started := t_started s |}
    | TExit out used err =>
      if only_top then Ok s else
      match t_stack s with
      | top :: parent :: rest =>
        match attach_call parent (process_output (cf_set_used (o_frame top) used) out err) with
        | Ok p => Ok {| t_stack := p :: rest; t_gaslimit := t_gaslimit s; t_started := t_started s |}
        | Err x => Err x | Panic x => Panic x
        end
      | _ => Ok s      (* size <= 1: nothing to pop *)
      end
    | TAspEnter jp from to aspect input gas value =>
      match t_stack s with
      | top :: rest =>
        let a := AF jp aspect from to input gas 0 [] ""%string [] (match value with Some v => v | None => 0 end) false in
        Ok {| t_stack := {| o_frame := cf_add_jp (o_frame top) a; o_marker := jp |} :: rest; t_gaslimit := t_gaslimit s; t_started := t_started s |}
      | [] => Panic "index out of range [-1]"
      end
    | TAspExit jp gleft ret err =>
      match t_stack s with
      | top :: rest =>
        let '(j, _) := update_last_jp (cf_jps (o_frame top)) jp (fun a => af_finish a gleft ret err) in
        Ok {| t_stack := {| o_frame := cf_set_jps (o_frame top) j; o_marker := 0 |} :: rest; t_gaslimit := t_gaslimit s; t_started := t_started s |}
      | [] => Panic "index out of range [-1]"
      end
    | TLog addr topics data =>
      (* CaptureState: with onlyTopCall the guard `depth > 0` holds in every frame, so nothing is ever collected *)
      if only_top then Ok s else
      match t_stack s with
      | top :: rest =>
        Ok {| t_stack := {| o_frame := cf_add_log (o_frame top) (addr, topics, data); o_marker := o_marker top |} :: rest;
              t_gaslimit := t_gaslimit s; t_started := t_started s |}
      | [] => Panic "index out of range [-1]"
      end
    | TClearLogs =>
      Ok {| t_stack := upd_bottom (t_stack s) (fun f => clear_c f false); t_gaslimit := t_gaslimit s; t_started := t_started s |}
    end.

  Fixpoint ct_run (s : tstate) (es : list tev) : res tstate :=
    match es with
    | [] => Ok s
    | e :: r => match ct_step s e with Ok s' => ct_run s' r | Err x => Err x | Panic x => Panic x end
    end.

  (** GetResult *)
  Definition ct_result (s : tstate) : res cframe :=
    match t_stack s with
    | [b] => Ok (o_frame b)
    | _ => Err "incorrect number of top-level calls"
    end.
End Config.

(** ** SPECIFICATION: well-nested streams as trees *)
Record callinfo := { ci_typ : N; ci_from : N; ci_to : N; ci_input : bytes; ci_gas : N; ci_value : option N;
                     ci_out : bytes; ci_used : N; ci_err : option string }.
Record aspinfo := { ai_jp : N; ai_from : N; ai_to : N; ai_aspect : N; ai_input : bytes; ai_gas : N; ai_value : option N;
                    ai_left : N; ai_ret : bytes; ai_err : option string }.

(** a call: Aspects of its pre join point (each possibly making calls), the calls its code makes, Aspects of
    its post join point *)
Inductive ctree := CT (i : callinfo) (pre : list atree) (body : list ctree) (post : list atree)
with atree := AT (i : aspinfo) (calls : list ctree).

Fixpoint events_c (t : ctree) : list tev :=
  match t with
  | CT i pre body post =>
    TEnter (ci_typ i) (ci_from i) (ci_to i) (ci_input i) (ci_gas i) (ci_value i)
    :: flat_map events_a pre ++ flat_map events_c body ++ flat_map events_a post
    ++ [TExit (ci_out i) (ci_used i) (ci_err i)]
  end
with events_a (t : atree) : list tev :=
  match t with
  | AT i calls =>
    TAspEnter (ai_jp i) (ai_from i) (ai_to i) (ai_aspect i) (ai_input i) (ai_gas i) (ai_value i)
    :: flat_map events_c calls ++ [TAspExit (ai_jp i) (ai_left i) (ai_ret i) (ai_err i)]
  end.

(** the frame a tree must produce *)
Fixpoint frame_c (t : ctree) : cframe :=
  match t with
  | CT i pre body post =>
    process_output (CF (ci_typ i) (ci_from i) (Some (ci_to i)) (ci_input i) (ci_gas i) (ci_used i) [] ""%string
                       (map frame_c body) (map frame_a pre ++ map frame_a post) (ci_value i) [])
                   (ci_out i) (ci_err i)
  end
with frame_a (t : atree) : aframe :=
  match t with
  | AT i calls =>
    process_output_a (AF (ai_jp i) (ai_aspect i) (ai_from i) (ai_to i) (ai_input i) (ai_gas i) (sub64 (ai_gas i) (ai_left i)) [] ""%string
                         (map frame_c calls) (match ai_value i with Some v => v | None => 0 end) true)
                     (ai_ret i) (ai_err i)
  end.

(** well-formed: every Aspect runs under a real join point (0 is "no Aspect running") *)
Fixpoint wf_c (t : ctree) : bool :=
  match t with CT _ pre body post => forallb wf_a pre && forallb wf_c body && forallb wf_a post end
with wf_a (t : atree) : bool :=
  match t with AT i calls => negb (ai_jp i =? 0) && forallb wf_c calls end.

(** with onlyTopCall no inner frame exists: every Aspect execution, at any depth, is reported under the top
    frame in the order the Aspects were entered, without calls *)
Fixpoint aspects_c (t : ctree) : list aframe :=
  match t with CT _ pre body post => flat_map aspects_a pre ++ flat_map aspects_c body ++ flat_map aspects_a post end
with aspects_a (t : atree) : list aframe :=
  match t with
  | AT i calls =>
    process_output_a (AF (ai_jp i) (ai_aspect i) (ai_from i) (ai_to i) (ai_input i) (ai_gas i) (sub64 (ai_gas i) (ai_left i)) [] ""%string
                         [] (match ai_value i with Some v => v | None => 0 end) true) (ai_ret i) (ai_err i)
    :: flat_map aspects_c calls
  end.

(** a whole transaction: pre-tx Aspects, the top-level frame (its own pre/post call join points and body),
    post-tx Aspects *)
Record txtree := { x_gaslimit : N; x_rest : N; x_pretx : list atree; x_from : N; x_to : N; x_create : bool; x_input : bytes; x_gas : N; x_value : N;
                   x_pre : list atree; x_body : list ctree; x_post : list atree; x_out : bytes; x_used : N; x_err : option string;
                   x_posttx : list atree }.

Definition events_tx (x : txtree) : list tev :=
  TTxStart (x_gaslimit x) :: flat_map events_a (x_pretx x)
  ++ TStart (x_from x) (x_to x) (x_create x) (x_input x) (x_gas x) (x_value x)
  :: flat_map events_a (x_pre x) ++ flat_map events_c (x_body x) ++ flat_map events_a (x_post x)
  ++ TEnd (x_out x) (x_used x) (x_err x) :: flat_map events_a (x_posttx x) ++ [TTxEnd (x_rest x)].

Definition frame_tx (x : txtree) : cframe :=
  process_output
    (CF (if x_create x then op_create else op_call) (x_from x) (Some (x_to x)) (x_input x) (x_gaslimit x) (sub64 (x_gaslimit x) (x_rest x)) [] ""%string
        (map frame_c (x_body x))
        (map frame_a (x_pretx x) ++ map frame_a (x_pre x) ++ map frame_a (x_post x) ++ map frame_a (x_posttx x))
        (Some (x_value x)) [])
    (x_out x) (x_err x).

Definition wf_tx (x : txtree) : bool :=
  forallb wf_a (x_pretx x) && forallb wf_a (x_pre x) && forallb wf_c (x_body x) && forallb wf_a (x_post x) && forallb wf_a (x_posttx x).

Definition frame_tx_top (x : txtree) : cframe :=
  process_output
    (CF (if x_create x then op_create else op_call) (x_from x) (Some (x_to x)) (x_input x) (x_gaslimit x) (sub64 (x_gaslimit x) (x_rest x)) [] ""%string
        []
        (flat_map aspects_a (x_pretx x) ++ flat_map aspects_a (x_pre x) ++ flat_map aspects_c (x_body x) ++ flat_map aspects_a (x_post x)
         ++ flat_map aspects_a (x_posttx x))
        (Some (x_value x)) [])
    (x_out x) (x_err x).

(** ** flatCallTracer: the wrapped callTracer + the precompile filter + flatFromNested *)
Definition af_calls (a : aframe) : list cframe := match a with AF _ _ _ _ _ _ _ _ _ calls _ _ => calls end.
Definition af_set_calls (a : aframe) (c : list cframe) : aframe :=
  match a with AF jp asp from to input gas used out e _ value dn => AF jp asp from to input gas used out e c value dn end.
Definition cf_set_calls (f : cframe) (c : list cframe) : cframe :=
  match f with CF typ from to input gas used out e _ jps value lg => CF typ from to input gas used out e c jps value lg end.

Section Flat.
  Variable include_pre : bool.
  Variable is_precompile : N -> bool.

  Definition is_dropped (started : bool) (c : cframe) : bool :=
    started &&
    match c with
    | CF typ _ (Some to) _ _ _ _ _ _ _ _ _ => ((typ =? op_call) || (typ =? op_staticcall)) && is_precompile to
    | _ => false
    end.
  Definition drop_last (started : bool) (calls : list cframe) : list cframe :=
    match rev calls with
    | c :: _ => if is_dropped started c then removelast calls else calls
    | [] => calls
    end.
  (** flatCallTracer.CaptureExit after the inner tracer ran: look at the last call of the running Aspect if
      there is one, else at the last call of the top frame, and drop it if it is a CALL/STATICCALL to a precompile *)
  Definition flat_fixup (s : tstate) : res tstate :=
    match t_stack s with
    | top :: rest =>
      let f := o_frame top in
      let f' :=
        if negb (o_marker top =? 0) then
          match rev (cf_jps f) with
          | a :: r => cf_set_jps f (rev r ++ [af_set_calls a (drop_last (t_started s) (af_calls a))])
          | [] => cf_set_calls f (drop_last (t_started s) (cf_calls f))
          end
        else cf_set_calls f (drop_last (t_started s) (cf_calls f)) in
      Ok {| t_stack := {| o_frame := f'; o_marker := o_marker top |} :: rest; t_gaslimit := t_gaslimit s; t_started := t_started s |}
    | [] => Panic "index out of range [-1]"
    end.

  Definition ctf_step (s : tstate) (e : tev) : res tstate :=
    match e with
    | TEnter typ from to input gas value =>
      ct_step false s (TEnter typ from to input gas (Some (match value with Some v => v | None => 0 end)))
    | TExit _ _ _ =>
      match ct_step false s e with
      | Ok s' => if include_pre then Ok s' else flat_fixup s'
      | Err x => Err x | Panic x => Panic x
      end
    | TLog _ _ _ | TClearLogs => Ok s          (* the wrapped callTracer is created without withLog *)
    | _ => ct_step false s e
    end.
  Fixpoint ctf_run (s : tstate) (es : list tev) : res tstate :=
    match es with
    | [] => Ok s
    | e :: r => match ctf_step s e with Ok s' => ctf_run s' r | Err x => Err x | Panic x => Panic x end
    end.
End Flat.

Record flat := { fl_addr : list nat; fl_subtraces : nat; fl_is_aspect : bool; fl_typ : N; fl_from : N; fl_to : option N;
                 fl_err : string; fl_gas : N; fl_input : bytes; fl_value : option N;
                 fl_has_result : bool; fl_used : N; fl_output : bytes }.

Definition is_pre_jp (jp : N) : bool := (jp =? 2) || (jp =? 4).   (* PreTxExecute, PreContractCall *)
Definition op_selfdestruct : N := 0xff.
Definition op_callcode : N := 0xf2.
Definition op_delegatecall : N := 0xf4.
Definition flat_type_ok (typ : N) : bool :=
  (typ =? op_create) || (typ =? op_create2) || (typ =? op_selfdestruct) || (typ =? op_call) || (typ =? op_staticcall) ||
  (typ =? op_callcode) || (typ =? op_delegatecall).

(** convertErrorToParity *)
Definition prefix_of (p s : string) : bool := String.prefix p s.
Definition parity_error (e : string) : string :=
  if String.eqb e "" then e else
  if String.eqb e "contract creation code storage out of gas" then "Out of gas" else
  if String.eqb e "out of gas" then "Out of gas" else
  if String.eqb e "gas uint64 overflow" then "Out of gas" else
  if String.eqb e "max code size exceeded" then "Out of gas" else
  if String.eqb e "invalid jump destination" then "Bad jump destination" else
  if String.eqb e "execution reverted" then "Reverted" else
  if String.eqb e "return data out of bounds" then "Out of bounds" else
  if String.eqb e "stack limit reached 1024 (1023)" then "Out of stack" else
  if String.eqb e "precompiled failed" then "Built-in failed" else
  if String.eqb e "invalid input length" then "Built-in failed" else
  if prefix_of "invalid opcode:" e then "Bad instruction" else
  if prefix_of "stack underflow" e then "Stack underflow" else e.

(** helpers: map with the element's index, and "all succeed" *)
Definition imap {A B} (g : nat -> A -> B) (start : nat) (l : list A) : list B :=
  map (fun p => g (fst p) (snd p)) (combine (seq start (length l)) l).
Fixpoint oseq {B} (l : list (option B)) : option (list B) :=
  match l with
  | [] => Some []
  | None :: _ => None
  | Some x :: r => match oseq r with Some y => Some (x :: y) | None => None end
  end.

Section Flatten.
  Variable convert : bool.
  Definition conv (e : string) : string := if convert then parity_error e else e.
  Definition keeps_result (e : string) : bool := String.eqb e "" || String.eqb e revert_text.

  Definition flat_self (f : cframe) (addr : list nat) : flat :=
    match f with
    | CF typ from to input gas used out err calls jps value _ =>
      let suicide := typ =? op_selfdestruct in
      let create := (typ =? op_create) || (typ =? op_create2) in
      let has := keeps_result err && negb suicide in
      {| fl_addr := addr; fl_subtraces := length calls + length jps; fl_is_aspect := false; fl_typ := (if create then op_create else typ); fl_from := from;
         fl_to := if create && negb has then None else to;
         fl_err := conv err; fl_gas := if suicide then 0 else gas; fl_input := if suicide then [] else input; fl_value := value;
         fl_has_result := has; fl_used := if has then used else 0; fl_output := if has then out else [] |}
    end.
  Definition flat_self_a (a : aframe) (addr : list nat) : flat :=
    match a with
    | AF jp asp from to input gas used out err calls value _ =>
      let has := keeps_result err in
      {| fl_addr := addr; fl_subtraces := length calls; fl_is_aspect := true; fl_typ := jp; fl_from := from; fl_to := Some to;
         fl_err := conv err; fl_gas := gas; fl_input := input; fl_value := Some value;
         fl_has_result := has; fl_used := if has then used else 0; fl_output := if has then out else [] |}
    end.
  Definition cf_typ (f : cframe) : N := match f with CF typ _ _ _ _ _ _ _ _ _ _ _ => typ end.
  Definition pre_a (a : aframe) : bool := is_pre_jp (af_jp a).

  (** flatFromNested / flatAspectNested; [None] = "unrecognized call frame type" (or the model's fuel ran out).
      Children: the pre-call Aspects at their position in the join-point list, the calls after the number of
      pre-call Aspects, the other Aspects at their position in the join-point list + the number of calls *)
  Fixpoint flat_c (fuel : nat) (f : cframe) (addr : list nat) : option (list flat) :=
    match fuel with
    | O => None
    | S k =>
      if negb (flat_type_ok (cf_typ f)) then None else
      let jps := cf_jps f in
      let calls := cf_calls f in
      let npre := length (filter pre_a jps) in
      match oseq (imap (fun i a => if pre_a a then flat_a k a (addr ++ [i]) else Some []) 0 jps),
            oseq (imap (fun i c => flat_c k c (addr ++ [i + npre])%nat) 0 calls),
            oseq (imap (fun i a => if pre_a a then Some [] else flat_a k a (addr ++ [i + length calls])%nat) 0 jps) with
      | Some a, Some b, Some c => Some (flat_self f addr :: concat a ++ concat b ++ concat c)
      | _, _, _ => None
      end
    end
  with flat_a (fuel : nat) (a : aframe) (addr : list nat) : option (list flat) :=
    match fuel with
    | O => None
    | S k =>
      match oseq (imap (fun i c => flat_c k c (addr ++ [i])) 0 (af_calls a)) with
      | Some b => Some (flat_self_a a addr :: concat b)
      | None => None
      end
    end.

  (** flatCallTracer.GetResult: flatten callstack[0]; the model's recursion is fuelled well beyond the EVM's
      call depth limit of 1024 (a deeper frame tree is reported as an error by the model, never silently cut) *)
  Definition flat_fuel : nat := N.to_nat 8192.
  Definition ctf_result (fuel : nat) (s : tstate) : res (list flat) :=
    match rev (t_stack s) with
    | b :: _ => match flat_c fuel (o_frame b) [] with Some l => Ok l | None => Err "unrecognized call frame type" end
    | [] => Err "invalid number of calls"
    end.
End Flatten.
