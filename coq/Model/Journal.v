(* Model/Journal.v — decoding done by the storage-journal instructions
   (vm/instructions.go: opReferenceChangeJournal 0xe0.., opValueChangeJournal, loadDataFromMem).
   Pure functions over a storage reader [st : N -> N] (slot -> 32-byte word as a number) and a
   hash [keccak : bytes -> N]; both are parameters, no theorem depends on what they compute. *)
From Verif Require Import Base.Bytes.
Open Scope N_scope.

Definition word_bytes (w : N) : bytes := N_to_be 32 w.

(** extractStorageLen: Solidity bytes/string length word.  short form: lowest bit 0, length in
    bits 1..7 of the lowest byte, must be < 32; long form: lowest bit 1, length = word/2 >= 32. *)
Definition extract_storage_len (w : N) : res N :=
  let oop := w mod 2 in
  let len := if oop =? 0 then N.land (w / 2) 0x7f else w / 2 in
  let is_less := if len <? 32 then 1 else 0 in
  if oop =? is_less then Err "storage encoding error"
  else if two64 <=? len then Err "storage too large to load"
  else Ok len.

(** unmask + cut (short form): clear the length byte, keep the 32-byte form, take [len] bytes. *)
Definition unmask_short (w len : N) : bytes :=
  firstn (N.to_nat len) (word_bytes (w - w mod 256)).

Definition ceil32 (n : N) : N := (n + 31) / 32.

(** u64Ceiling(nom, 32) as the code computes it on uint64 operands: quotient, plus one when there is a remainder — no
    intermediate value can exceed 2^64.  (Before fix F17 it was (nom + 31) / 32 in uint64 arithmetic, which wraps for
    nom within 31 of 2^64: Findings/PreFix_Ceil.v.)  [u64_ceiling32_is_ceil32] shows it is the mathematical ceiling. *)
Definition u64_ceiling32 (n : N) : N := n / 32 + (if n mod 32 =? 0 then 0 else 1).

Section Reader.
  Variable st : N -> N.            (* storage of the executing contract *)
  Variable keccak : bytes -> N.

  (** data slots of a long string: keccak(pad32 slot) + i, i = 0 .. ceil(len/32)-1 *)
  Definition long_words (slot cnt : N) : list N :=
    let base := keccak (word_bytes slot) in
    map (fun i => st (u256 (base + N.of_nat i))) (seq 0 (N.to_nat cnt)).

  (** the bytes recorded by the reference journal for [slot]; [count] = how many data slots are read for a length.
      `stateBytes = stateBytes[:length]` is a Go slice expression: it panics when [length] exceeds what was appended
      (capacity beyond the appended bytes is not relied upon). *)
  Definition vr_read_with (count : N -> N) (slot : N) : res bytes :=
    let w := st slot in
    let? len := extract_storage_len w in
    if len <? 32 then Ok (unmask_short w len)
    else go_slice (flat_map word_bytes (long_words slot (count len))) 0 len.
  Definition vr_read (slot : N) : res bytes := vr_read_with u64_ceiling32 slot.

  (** number of storage reads performed (C20): one for the length word + one per data slot *)
  Definition vr_reads (slot : N) : N :=
    match extract_storage_len (st slot) with
    | Ok len => if len <? 32 then 1 else 1 + u64_ceiling32 len
    | _ => 1
    end.
End Reader.

(** opValueChangeJournal: operands are 256-bit words *)
Definition vv_slice (w off size : N) : res bytes :=
  if (two64 <=? off) || (31 <? off) then Err "offset out of range"
  else if (two64 <=? size) || (32 <? size) then Err "type size out of range"
  else if 32 <? off + size then Err "type size out of range"
  else go_slice (word_bytes w) (32 - off - size) (32 - off).

(** loadDataFromMem: [ptr] is a 256-bit operand, [mem] the frame's memory.  Returns the bytes of
    the length-prefixed string at [ptr]. *)
Definition load_data_from_mem (ptr : N) (mem : bytes) : res bytes :=
  if two64 <=? ptr then Err "mem data too long" else
  let mlen := blen mem in
  if (mlen <? ptr) || (mlen - ptr <? 32) then Err "mem data out of bounds" else
  let dl := be_to_N (slice mem ptr (ptr + 32)) in
  if (two64 <=? dl) || (mlen - ptr - 32 <? dl) then Err "mem data too long"
  else Ok (slice mem (ptr + 32) (ptr + 32 + dl)).
