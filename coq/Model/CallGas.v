(* Model/CallGas.v — how much gas a CALL-family instruction forwards (vm/gas.go callGas, EIP-150) and what the callee frame
   starts with (vm/instructions.go opCall/opCallCode: the 2300 stipend of a value-bearing call).  Inherited from
   go-ethereum v1.12.0 (identical by the digest theorems); modelled because C02/C06 speak about exactly these numbers:
   what a frame is given is what its parent forwarded. *)
From Verif Require Import Base.Bytes.
Open Scope N_scope.

(** callGas(isEip150, availableGas, base, callCost): [available] = the frame's gas after the constant charge, [base] = the
    instruction's other dynamic costs, [requested] = the 256-bit gas operand.  `availableGas - base` is a uint64
    subtraction (it wraps if the frame cannot even pay the base cost; the instruction then fails out of gas afterwards). *)
Definition call_gas (eip150 : bool) (available base requested : N) : res N :=
  let fits := requested <? two64 in
  if eip150 then
    let a := u64 (available + two64 - base) in
    let g := a - a / 64 in
    if negb fits || (g <? requested) then Ok g else Ok requested
  else if fits then Ok requested else Err "gas uint64 overflow".

Definition call_stipend : N := 2300.
(** kind: 0 CALL, 1 CALLCODE, 2 DELEGATECALL, 3 STATICCALL *)
Definition callee_gas (kind : N) (value_nonzero : bool) (forwarded : N) : N :=
  if value_nonzero && ((kind =? 0) || (kind =? 1)) then forwarded + call_stipend else forwarded.
