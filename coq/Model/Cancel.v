(* Model/Cancel.v — control skeleton of the interpreter loop and the abort flag.
   Go code: vm/interpreter.go Run (the `for` loop: fetch `contract.GetOp(pc)`, execute, `pc++`),
   vm/instructions.go opJump / opJumpi (the ONLY readers of evm.abort besides Cancelled(), and the only instructions
   that assign the program counter), makePush / opPush1 (`*pc += size`), vm/evm.go Cancel (`abort.Store(true)`).
   Which functions write the program counter and which read the abort flag is not asserted here: it is read from the
   source by `vh gen` (Gen/Flow.v) and compared by the Gen theorem `flow_ok`.

   Everything an instruction does besides moving the program counter (stack, memory, gas, world state, nested calls
   with their own loops) is a Section variable: the theorems hold for every instruction semantics. *)
From Verif Require Import Base.Bytes.
Open Scope nat_scope.

(** Contract.GetOp: the byte at pc, STOP (0) beyond the end of the code *)
Definition op_at (code : bytes) (pc : nat) : N := nth pc code 0%N.
Definition is_jump_op (op : N) : bool := ((op =? 0x56) || (op =? 0x57))%N.
(** PUSH1..PUSH32 carry 1..32 immediate bytes that the instruction itself skips *)
Definition push_len (op : N) : nat := if ((0x60 <=? op) && (op <=? 0x7f))%N then N.to_nat (op - 0x5f) else 0.
Definition next_pc (code : bytes) (pc : nat) : nat := pc + 1 + push_len (op_at code pc).

(** the program counters a frame visits when no jump is taken any more, starting at [pc]: up to and including the first
    JUMP/JUMPI or the implicit STOP behind the code *)
Fixpoint straight (code : bytes) (fuel pc : nat) : list nat :=
  match fuel with
  | O => []
  | S f => if length code <=? pc then [pc]
           else if is_jump_op (op_at code pc) then [pc]
           else pc :: straight code f (next_pc code pc)
  end.
Definition straight_from (code : bytes) (pc : nat) : list nat := straight code (S (length code)) pc.

Fixpoint is_prefix (a b : list nat) : bool :=
  match a, b with
  | [], _ => true
  | x :: a', y :: b' => (x =? y) && is_prefix a' b'
  | _ :: _, [] => false
  end.

(** the same, checked along an observed list of program counters without building the whole path (a frame whose code is
    60000 zero bytes has a path of 60000 entries, the frame itself one step): every entry but the last is an instruction
    inside the code that is no jump, and the next entry is where it leads *)
Fixpoint follows (code : bytes) (t : list nat) : bool :=
  match t with
  | [] => true
  | p :: rest =>
    match rest with
    | [] => true
    | q :: _ => (p <? length code) && negb (is_jump_op (op_at code p)) && (q =? next_pc code p) && follows code rest
    end
  end.

Section Loop.
  Variable St : Type.                       (* everything but the program counter *)
  Variable code : bytes.
  (** what executing [op] at [pc] does when the abort flag is not set (or the instruction does not look at it) *)
  Inductive eff := Go (s : St) | JumpTo (dest : nat) (s : St) | End (s : St).
  Variable exec : N -> nat -> St -> eff.
  (** the value of evm.abort read by the k-th iteration of this frame's loop (set by another goroutine at any moment) *)
  Variable abort_at : nat -> bool.

  (** returns the program counters of the iterations performed, in order, and the final state *)
  Fixpoint loop (fuel k pc : nat) (s : St) : option (list nat * St) :=
    match fuel with
    | O => None
    | S f =>
      let op := op_at code pc in
      if is_jump_op op && abort_at k then Some ([pc], s)          (* errStopToken: the frame stops like STOP *)
      else match exec op pc s with
           | End s' => Some ([pc], s')
           | Go s' => match loop f (S k) (next_pc code pc) s' with
                      | Some (t, r) => Some (pc :: t, r) | None => None end
           | JumpTo d s' => match loop f (S k) d s' with
                            | Some (t, r) => Some (pc :: t, r) | None => None end
           end
    end.
End Loop.
Arguments Go {St} s.
Arguments JumpTo {St} dest s.
Arguments End {St} s.
