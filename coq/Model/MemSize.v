(* Model/MemSize.v — how far an instruction expands the frame's memory: the memorySize functions of vm/memory_table.go
   (which operands denote the region), calcMemSize64 (Model/Mem.v) and the interpreter's rounding to words.  Inherited from
   go-ethereum v1.12.0 except memoryMcopy. *)
From Verif Require Import Base.Bytes Model.Mem.
Open Scope N_scope.

(** [s] = the stack, top first (stack.Back(i) = i-th element) *)
Definition back (s : list N) (i : nat) : N := nth i s 0.
Definition max_region (a b : N * bool) : N * bool :=
  match a, b with (x, false), (y, false) => (N.max x y, false) | _, _ => (0, true) end.

Definition mem_needed (op : N) (s : list N) : option (N * bool) :=
  let cs i j := calc_mem_size (back s i) (back s j) in
  let cu i l := calc_mem_size (back s i) l in
  if op =? 0x20 then Some (cs 0 1)%nat                                   (* KECCAK256 *)
  else if (op =? 0x37) || (op =? 0x39) || (op =? 0x3e) then Some (cs 0 2)%nat   (* CALLDATACOPY CODECOPY RETURNDATACOPY *)
  else if op =? 0x3c then Some (cs 1 3)%nat                               (* EXTCODECOPY *)
  else if (op =? 0x51) || (op =? 0x52) then Some (cu 0%nat 32)             (* MLOAD MSTORE *)
  else if op =? 0x53 then Some (cu 0%nat 1)                                (* MSTORE8 *)
  else if op =? 0x5e then Some (mcopy_mem_size (back s 0) (back s 1) (back s 2))   (* MCOPY (Cancun) *)
  else if (0xa0 <=? op) && (op <=? 0xa4) then Some (cs 0 1)%nat           (* LOG0..LOG4 *)
  else if (op =? 0xf0) || (op =? 0xf5) then Some (cs 1 2)%nat             (* CREATE CREATE2 *)
  else if (op =? 0xf1) || (op =? 0xf2) then Some (max_region (cs 5 6)%nat (cs 3 4)%nat)   (* CALL CALLCODE: out, in *)
  else if (op =? 0xf4) || (op =? 0xfa) then Some (max_region (cs 4 5)%nat (cs 2 3)%nat)   (* DELEGATECALL STATICCALL *)
  else if (op =? 0xf3) || (op =? 0xfd) then Some (cs 0 1)%nat             (* RETURN REVERT *)
  else None.

(** memory length after a successful step: expanded to whole words, never shrunk; [None] = the step cannot succeed *)
Definition mem_after (op : N) (s : list N) (before : N) : option N :=
  match mem_needed op s with
  | None => Some before
  | Some (_, true) => None
  | Some (size, false) =>
    if 0xffffffffffffffe0 <? size then None          (* toWordSize(size) * 32 overflows *)
    else Some (N.max before (32 * to_words size))
  end.
