(* Model/Tracer.v — vm/tracer.go:500-566 (Tracer) and the eight journal instructions
   vm/instructions.go:926-1121 at operand level. *)
From Verif Require Import Base.Bytes Model.KeyTree Model.CallTree Model.Journal.
Open Scope N_scope.

Record tracer := { tk : kt; tc : ct }.
Definition tracer_empty : tracer := {| tk := kt_empty; tc := ct_empty |}.

Definition t_save_key (t : tracer) acct parent slot off ty data : tracer * res unit :=
  let '(k, r) := save_key (tk t) acct parent slot off ty data in ({| tk := k; tc := tc t |}, r).
Definition t_save_change (t : tracer) acct slot off ty v : tracer * res unit :=
  let '(k, r) := save_change (tk t) acct slot off ty (current_index (tc t)) v in ({| tk := k; tc := tc t |}, r).
Definition t_save_raw (t : tracer) acct slot w : tracer :=
  {| tk := save_raw (tk t) acct slot (current_index (tc t)) w; tc := tc t |}.
Definition t_save_call (t : tracer) from to data value gas : tracer :=
  {| tk := tk t; tc := ct_add (tc t) from to data value gas |}.
Definition t_exit_call (t : tracer) rgas ret err : tracer :=
  {| tk := tk t; tc := ct_exit (tc t) rgas ret err |}.

(** uint256.Bytes(): minimal big-endian *)
Definition u256_min_bytes (v : N) : bytes := N_to_be_min 32 v.

(** Tracer.TransferWithRecord: balances of both parties before and after the host transfer,
    under the current call index.  [b0f b0t] are the balances read before, [b1f b1t] after. *)
Definition t_transfer_record (t : tracer) (from to b0f b0t b1f b1t : N) : tracer :=
  let i := current_index (tc t) in
  let k := save_balance (tk t) from (u256_min_bytes b0f) i in
  let k := save_balance k to (u256_min_bytes b0t) i in
  let k := save_balance k from (u256_min_bytes b1f) i in
  let k := save_balance k to (u256_min_bytes b1t) i in
  {| tk := k; tc := tc t |}.

(** ** journal instructions.  [self] is the address whose storage the frame operates on
    (scope.Contract.Address()), [stack] the operand words top first. *)
Section Ops.
  Variable st : N -> N.           (* storage of [self] *)
  Variable keccak : bytes -> N.

  Definition pops (op : N) : nat :=
    if op =? 0xe0 then 3 else if op =? 0xe1 then 4 else if op =? 0xe2 then 6 else if op =? 0xe3 then 5
    else if op =? 0xe4 then 6 else if op =? 0xe5 then 5 else if op =? 0xe6 then 4 else if op =? 0xe7 then 2 else 0%nat.

  Definition with_mem_string (t : tracer) (ptr : N) (mem : bytes) (k : bytes -> tracer * res unit) : tracer * res unit :=
    match load_data_from_mem ptr mem with
    | Ok s => k s
    | Err e => (t, Err e)
    | Panic w => (t, Panic w)
    end.

  (** operands are the stack words, top first: [a 0] is popped first *)
  Definition jop (op : N) (self : N) (mem : bytes) (stack : list N) (t : tracer) : tracer * res unit :=
    let a := fun i => nth i stack 0 in
    if Nat.ltb (length stack) (pops op) then (t, Err "stack underflow")
    else if op =? 0xe0 then                       (* RSVJNAL opReferenceStateVarJournal: namePtr slot typeId *)
      with_mem_string t (a 0%nat) mem (fun name => t_save_key t self None (a 1%nat) None (a 2%nat) name)
    else if op =? 0xe1 then                       (* VSVJNAL opValueStateVarJournal: namePtr slot offset typeId *)
      with_mem_string t (a 0%nat) mem (fun name => t_save_key t self None (a 1%nat) (Some (a 2%nat)) (a 3%nat) name)
    else if op =? 0xe2 then                       (* IRVVJNAL: base slot keyPtr offset typeId parentTypeId *)
      with_mem_string t (a 2%nat) mem (fun key => t_save_key t self (Some (a 0%nat, a 5%nat)) (a 1%nat) (Some (a 3%nat)) (a 4%nat) key)
    else if op =? 0xe3 then                       (* IRVRJNAL: base slot keyPtr typeId parentTypeId *)
      with_mem_string t (a 2%nat) mem (fun key => t_save_key t self (Some (a 0%nat, a 4%nat)) (a 1%nat) None (a 3%nat) key)
    else if op =? 0xe4 then                       (* IVVVJNAL: base slot keyValue offset typeId parentTypeId *)
      t_save_key t self (Some (a 0%nat, a 5%nat)) (a 1%nat) (Some (a 3%nat)) (a 4%nat) (word_bytes (a 2%nat))
    else if op =? 0xe5 then                       (* IVVRJNAL: base slot keyValue typeId parentTypeId *)
      t_save_key t self (Some (a 0%nat, a 4%nat)) (a 1%nat) None (a 3%nat) (word_bytes (a 2%nat))
    else if op =? 0xe6 then                       (* VVJNAL opValueChangeJournal: slot offset typeSize typeId *)
      match vv_slice (st (a 0%nat)) (a 1%nat) (a 2%nat) with
      | Ok v => t_save_change t self (a 0%nat) (Some (a 1%nat)) (a 3%nat) v
      | Err e => (t, Err e) | Panic w => (t, Panic w) end
    else if op =? 0xe7 then                       (* VRJNAL opReferenceChangeJournal: slot typeId *)
      match vr_read st keccak (a 0%nat) with
      | Ok v => t_save_change t self (a 0%nat) None (a 1%nat) v
      | Err e => (t, Err e) | Panic w => (t, Panic w) end
    else (t, Err "not a journal instruction").
End Ops.
