(* Model/Tracer.v — vm/tracer.go:500-566 (Tracer) and the eight journal instructions
   vm/instructions.go:926-1121 at operand level. *)
From Verif Require Import Base.Bytes Model.KeyTree Model.CallTree Model.Journal.
Open Scope N_scope.

Record tracer := { tk : kt; tc : ct }.
Definition tracer_empty : tracer := {| tk := kt_empty; tc := ct_empty |}.

Definition t_save_key (t : tracer) acct parent slot off ty data : tracer * res unit :=
  let '(k, r) := save_key (tk t) acct parent slot off ty data in ({| tk := k; tc := tc t |}, r).
Definition t_save_change (t : tracer) acct slot off ty v : tracer * res unit :=
  let '(k, r) := save_change (tk t) acct slot off ty (current_index (tc t)) v in ({| tk := k; tc := tc t |}, r).
Definition t_save_raw (t : tracer) acct slot w : tracer :=
  {| tk := save_raw (tk t) acct slot (current_index (tc t)) w; tc := tc t |}.
Definition t_save_call (t : tracer) from to data value gas : tracer :=
  {| tk := tk t; tc := ct_add (tc t) from to data value gas |}.
Definition t_exit_call (t : tracer) rgas ret err : tracer :=
  {| tk := tk t; tc := ct_exit (tc t) rgas ret err |}.

(** uint256.Bytes(): minimal big-endian *)
Definition u256_min_bytes (v : N) : bytes := N_to_be_min 32 v.

(** Tracer.TransferWithRecord: balances of both parties before and after the host transfer,
    under the current call index.  [b0f b0t] are the balances read before, [b1f b1t] after. *)
Definition t_transfer_record (t : tracer) (from to b0f b0t b1f b1t : N) : tracer :=
  let i := current_index (tc t) in
  let k := save_balance (tk t) from (u256_min_bytes b0f) i in
  let k := save_balance k to (u256_min_bytes b0t) i in
  let k := save_balance k from (u256_min_bytes b1f) i in
  let k := save_balance k to (u256_min_bytes b1t) i in
  {| tk := k; tc := tc t |}.

(** ** journal instructions.  [self] is the address whose storage the frame operates on
    (scope.Contract.Address()), [stack] the operand words top first. *)
Section Ops.
  Variable st : N -> N.           (* storage of [self] *)
  Variable keccak : bytes -> N.

  Definition pops (op : N) : nat :=
    match op with
    | 0xe0 => 3%nat | 0xe1 => 4%nat | 0xe2 => 6%nat | 0xe3 => 5%nat | 0xe4 => 6%nat | 0xe5 => 5%nat
    | 0xe6 => 4%nat | 0xe7 => 2%nat
    | _ => 0%nat
    end.

  Definition jop (op : N) (self : N) (mem : bytes) (stack : list N) (t : tracer) : tracer * res unit :=
    match op, stack with
    | 0xe0, namep :: slot :: ty :: _ =>            (* RSVJNAL opReferenceStateVarJournal *)
      match load_data_from_mem namep mem with
      | Ok name => t_save_key t self None slot None ty name
      | Err e => (t, Err e) | Panic w => (t, Panic w) end
    | 0xe1, namep :: slot :: off :: ty :: _ =>     (* VSVJNAL opValueStateVarJournal *)
      match load_data_from_mem namep mem with
      | Ok name => t_save_key t self None slot (Some off) ty name
      | Err e => (t, Err e) | Panic w => (t, Panic w) end
    | 0xe2, base :: slot :: keyp :: off :: ty :: pty :: _ =>   (* IRVVJNAL *)
      match load_data_from_mem keyp mem with
      | Ok key => t_save_key t self (Some (base, pty)) slot (Some off) ty key
      | Err e => (t, Err e) | Panic w => (t, Panic w) end
    | 0xe3, base :: slot :: keyp :: ty :: pty :: _ =>          (* IRVRJNAL *)
      match load_data_from_mem keyp mem with
      | Ok key => t_save_key t self (Some (base, pty)) slot None ty key
      | Err e => (t, Err e) | Panic w => (t, Panic w) end
    | 0xe4, base :: slot :: keyv :: off :: ty :: pty :: _ =>   (* IVVVJNAL *)
      t_save_key t self (Some (base, pty)) slot (Some off) ty (word_bytes keyv)
    | 0xe5, base :: slot :: keyv :: ty :: pty :: _ =>          (* IVVRJNAL *)
      t_save_key t self (Some (base, pty)) slot None ty (word_bytes keyv)
    | 0xe6, slot :: off :: size :: ty :: _ =>                  (* VVJNAL opValueChangeJournal *)
      match vv_slice (st slot) off size with
      | Ok v => t_save_change t self slot (Some off) ty v
      | Err e => (t, Err e) | Panic w => (t, Panic w) end
    | 0xe7, slot :: ty :: _ =>                                 (* VRJNAL opReferenceChangeJournal *)
      match vr_read st keccak slot with
      | Ok v => t_save_change t self slot None ty v
      | Err e => (t, Err e) | Panic w => (t, Panic w) end
    | _, _ => (t, Err "stack underflow")
    end.
End Ops.
