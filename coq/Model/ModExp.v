(* Model/ModExp.v — what the MODEXP precompile (0x05) charges: bigModExp.RequiredGas (vm/contracts.go), both the original
   (EIP-198) and the EIP-2565 schedule.  Inherited from go-ethereum v1.12.0.  Modelled because C20 speaks about exactly
   this: the buffers MODEXP allocates are as long as the three length words its input declares, and only the fee
   stands between an attacker and lengths of 2^64. *)
From Verif Require Import Base.Bytes.
Open Scope N_scope.

(** common.getData: data[start:start+size] clamped to the data, right-padded with zeros to [size] *)
Definition get_data (data : bytes) (start size : N) : bytes :=
  let len := blen data in
  let s := N.min start len in
  let e := N.min (s + size) len in
  right_pad (N.to_nat size) (slice data s e).

Definition modexp_lens (input : bytes) : N * N * N :=
  (be_to_N (get_data input 0 32), be_to_N (get_data input 32 32), be_to_N (get_data input 64 32)).

(** the head (at most 32 bytes) of the exponent, 0 when the input ends before the exponent starts *)
Definition exp_head (input : bytes) : N :=
  let '(base_len, exp_len, _) := modexp_lens input in
  let body := skipn 96 input in
  if blen body <=? base_len then 0
  else if 32 <? exp_len then be_to_N (get_data body base_len 32)
  else be_to_N (get_data body base_len exp_len).

Definition adj_exp_len (exp_len head : N) : N :=
  (if 32 <? exp_len then 8 * (exp_len - 32) else 0) + (if head =? 0 then 0 else N.log2 head).

Definition mult_complexity_198 (x : N) : N :=
  if x <=? 64 then x * x
  else if x <=? 1024 then x * x / 4 + (96 * x - 3072)
  else x * x / 16 + (480 * x - 199680).

Definition clamp64 (g : N) : N := if two64 <=? g then two64 - 1 else g.

(** gas as a function of the three declared lengths and the exponent head *)
Definition modexp_gas_of (eip2565 : bool) (base_len exp_len mod_len head : N) : N :=
  let x := N.max mod_len base_len in
  let adj := N.max (adj_exp_len exp_len head) 1 in
  if eip2565 then
    let w := (x + 7) / 8 in
    let g := w * w * adj / 3 in
    if two64 <=? g then two64 - 1 else if g <? 200 then 200 else g
  else clamp64 (mult_complexity_198 x * adj / 20).

Definition modexp_required_gas (eip2565 : bool) (input : bytes) : N :=
  let '(base_len, exp_len, mod_len) := modexp_lens input in
  modexp_gas_of eip2565 base_len exp_len mod_len (exp_head input).
