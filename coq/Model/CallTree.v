(* Model/CallTree.v — vm/tracer.go:373-498 (Call, CallTree).  Pointers are positions in [calls]
   (a node's Index field equals its position: count is only ever incremented by add). *)
From Verif Require Import Base.Bytes.
Open Scope N_scope.

Record call := {
  c_from : N;
  c_to : option N;            (* nil for creations *)
  c_data : bytes;
  c_value : N;
  c_gas : N;
  c_parent : option nat;
  c_children : list nat;
  c_ret : bytes;
  c_rgas : N;                 (* RemainingGas *)
  c_err : option string;      (* Err (text) *)
  c_exited : bool             (* model-only: exit has been applied to this node *)
}.

Record ct := { calls : list call; current : option nat }.

Definition ct_empty : ct := {| calls := []; current := None |}.

Definition upd_nth {A} (l : list A) (i : nat) (f : A -> A) : list A :=
  match nth_error l i with
  | Some x => firstn i l ++ [f x] ++ skipn (S i) l
  | None => l
  end.

Definition add_child_link (c : call) (k : nat) : call :=
  {| c_from := c_from c; c_to := c_to c; c_data := c_data c; c_value := c_value c; c_gas := c_gas c;
     c_parent := c_parent c; c_children := c_children c ++ [k]; c_ret := c_ret c; c_rgas := c_rgas c;
     c_err := c_err c; c_exited := c_exited c |}.

(** CallTree.add *)
Definition ct_add (t : ct) (from : N) (to : option N) (data : bytes) (value gas : N) : ct :=
  let k := length (calls t) in
  let n := {| c_from := from; c_to := to; c_data := data; c_value := value; c_gas := gas;
              c_parent := current t; c_children := []; c_ret := []; c_rgas := 0; c_err := None; c_exited := false |} in
  let cs := match current t with Some p => upd_nth (calls t) p (fun c => add_child_link c k) | None => calls t end in
  {| calls := cs ++ [n]; current := Some k |}.

Definition set_result (c : call) (rgas : N) (ret : bytes) (err : option string) : call :=
  {| c_from := c_from c; c_to := c_to c; c_data := c_data c; c_value := c_value c; c_gas := c_gas c;
     c_parent := c_parent c; c_children := c_children c; c_ret := ret; c_rgas := rgas;
     c_err := err; c_exited := true |}.

(** CallTree.exit *)
Definition ct_exit (t : ct) (rgas : N) (ret : bytes) (err : option string) : ct :=
  match current t with
  | None => t
  | Some k =>
    {| calls := upd_nth (calls t) k (fun c => set_result c rgas ret err);
       current := match nth_error (calls t) k with Some c => c_parent c | None => None end |}
  end.

Definition ct_find (t : ct) (i : nat) : option call := nth_error (calls t) i.
Definition ct_parent_of (t : ct) (i : nat) : option nat :=
  match nth_error (calls t) i with Some c => c_parent c | None => None end.
Definition ct_children_of (t : ct) (i : nat) : list nat :=
  match nth_error (calls t) i with Some c => c_children c | None => [] end.
Definition ct_root (t : ct) : option nat := match calls t with [] => None | _ => Some 0%nat end.

(** Tracer.CurrentCallIndex: 0 when no call is open (shared with the first call, as in the code) *)
Definition current_index (t : ct) : N := match current t with Some k => N.of_nat k | None => 0 end.

Inductive ctop := CAdd (from : N) (to : option N) (data : bytes) (value gas : N) | CExit (rgas : N) (ret : bytes) (err : option string).
Definition ct_step (t : ct) (o : ctop) : ct :=
  match o with
  | CAdd f to d v g => ct_add t f to d v g
  | CExit g r e => ct_exit t g r e
  end.
