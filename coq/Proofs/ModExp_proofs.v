(* Proofs/ModExp_proofs.v — the EIP-2565 fee of MODEXP bounds the lengths its input declares (and hence the buffers Run
   allocates): unless the fee is the unpayable 2^64-1, base + exponent + modulus length <= 51 * fee + 66. *)
From Verif Require Import Base.Bytes Model.ModExp.
From Coq Require Import ZifyN ZifyBool.
Ltac Zify.zify_post_hook ::= Z.div_mod_to_equations.
Open Scope N_scope.

Theorem modexp_gas_2565_at_least_200 base_len exp_len mod_len head :
  200 <= modexp_gas_of true base_len exp_len mod_len head.
Proof.
  unfold modexp_gas_of. cbv zeta. destruct (two64 <=? _); [unfold two64; lia|].
  destruct (_ <? 200) eqn:E; lia.
Qed.

Lemma adj_bounds_exp_len exp_len head : exp_len <= 32 + adj_exp_len exp_len head / 8.
Proof. unfold adj_exp_len. destruct (32 <? exp_len) eqn:E; lia. Qed.

Theorem modexp_lengths_bounded_by_gas base_len exp_len mod_len head :
  (base_len <> 0 \/ mod_len <> 0) ->
  modexp_gas_of true base_len exp_len mod_len head < two64 - 1 ->
  base_len + exp_len + mod_len <= 51 * modexp_gas_of true base_len exp_len mod_len head + 66.
Proof.
  intros Hnz Hg. unfold modexp_gas_of in *. cbv zeta in *.
  set (x := N.max mod_len base_len) in *.
  set (adj0 := adj_exp_len exp_len head) in *.
  set (adj := N.max adj0 1) in *.
  set (w := (x + 7) / 8) in *.
  assert (Hx : 1 <= x) by (unfold x; lia).
  assert (Hw : 1 <= w) by (unfold w; lia).
  assert (Hxw : x <= 8 * w) by (unfold w; lia).
  assert (Ha : 1 <= adj) by (unfold adj; lia).
  assert (Ha0 : adj0 <= adj) by (unfold adj; lia).
  pose proof (adj_bounds_exp_len exp_len head) as He. fold adj0 in He.
  set (p := w * w * adj) in *.
  assert (Hp1 : w <= p). { unfold p. rewrite <- (N.mul_1_r w) at 1. rewrite <- N.mul_assoc. apply N.mul_le_mono_l. nia. }
  assert (Hp2 : adj <= p). { unfold p. rewrite <- (N.mul_1_l adj) at 1. apply N.mul_le_mono_r. nia. }
  assert (Hg0 : p <= 3 * (p / 3) + 2) by lia.
  destruct (two64 <=? p / 3) eqn:C; [unfold two64 in *; lia|].
  assert (B : base_len + exp_len + mod_len <= 2 * x + 32 + adj0 / 8) by (unfold x; lia).
  destruct (p / 3 <? 200) eqn:M; lia.
Qed.

(** the premise is not vacuous, and the clamp matters: lengths of 2^40 cost the unpayable maximum *)
Example ex_modexp :
  modexp_gas_of true 32 32 32 (2^255) = 1360 /\ modexp_gas_of true 1 1 1 1 = 200 /\
  modexp_gas_of true (2^40) 32 32 1 = two64 - 1 /\ modexp_gas_of true 64 (2^30) 1 0 = 183251932501 /\
  modexp_gas_of false 64 32 64 (2^255) = 52224.
Proof. vm_compute. repeat split; reflexivity. Qed.
