(* Proofs/Cancel_proofs.v — once the abort flag is set, a frame's loop walks straight down its code and stops at the
   first JUMP/JUMPI (or the end of the code): at most length(code) - pc + 1 further iterations, for every instruction
   semantics, every state, every moment at which the flag is set. *)
From Verif Require Import Base.Bytes Model.Cancel.
Open Scope nat_scope.

Lemma is_prefix_length a b : is_prefix a b = true -> length a <= length b.
Proof.
  revert b; induction a as [|x a IH]; intros b H; [cbn; lia|].
  destruct b as [|y b]; [discriminate|]. cbn in H. apply andb_true_iff in H as [_ H]. cbn. apply IH in H. lia.
Qed.

Lemma is_prefix_refl a : is_prefix a a = true.
Proof. induction a as [|x a IH]; [reflexivity|]. cbn. now rewrite Nat.eqb_refl, IH. Qed.

Lemma straight_length code n pc : length (straight code n pc) <= (length code - pc) + 1.
Proof.
  revert pc; induction n as [|n IH]; intro pc; cbn [straight]; [cbn; lia|].
  destruct (length code <=? pc) eqn:E; [cbn; lia|].
  apply Nat.leb_gt in E.
  destruct (is_jump_op (op_at code pc)); [cbn; lia|].
  cbn [length]. specialize (IH (next_pc code pc)). unfold next_pc in *. lia.
Qed.

Lemma straight_head code n pc : exists t, straight code (S n) pc = pc :: t.
Proof.
  cbn [straight]. destruct (length code <=? pc); [eauto|]. destruct (is_jump_op (op_at code pc)); eauto.
Qed.

(** a prefix of the straight-line path satisfies the step-by-step check the correspondence evaluates *)
Lemma prefix_follows code : forall n pc t, is_prefix t (straight code n pc) = true -> follows code t = true.
Proof.
  induction n as [|n IH]; intros pc t H.
  - destruct t; [reflexivity|discriminate].
  - destruct t as [|x t']; [reflexivity|]. cbn [straight] in H.
    destruct (length code <=? pc) eqn:B.
    { cbn [is_prefix] in H. apply andb_true_iff in H as [_ H]. destruct t'; [reflexivity|discriminate]. }
    destruct (is_jump_op (op_at code pc)) eqn:J.
    { cbn [is_prefix] in H. apply andb_true_iff in H as [_ H]. destruct t'; [reflexivity|discriminate]. }
    cbn [is_prefix] in H. apply andb_true_iff in H as [Hx H]. apply Nat.eqb_eq in Hx. subst x.
    destruct t' as [|q t'']; [reflexivity|].
    pose proof (IH _ _ H) as F. cbn [follows]. cbn [follows] in F.
    assert (Q : q = next_pc code pc).
    { destruct n as [|n']; [discriminate|]. destruct (straight_head code n' (next_pc code pc)) as (tl & E). rewrite E in H.
      cbn [is_prefix] in H. apply andb_true_iff in H as [Hq _]. now apply Nat.eqb_eq in Hq. }
    apply Nat.leb_gt in B. rewrite J, Q, Nat.eqb_refl. replace (pc <? length code) with true by (symmetry; apply Nat.ltb_lt; exact B).
    cbn [negb andb]. subst q. exact F.
Qed.

Lemma op_beyond code pc : length code <= pc -> op_at code pc = 0%N.
Proof. intro H. unfold op_at. now apply nth_overflow. Qed.

Section Loop.
  Variable St : Type.
  Variable code : bytes.
  Variable exec : N -> nat -> St -> eff St.
  Variable abort_at : nat -> bool.
  (** only JUMP and JUMPI assign the program counter (Gen theorem flow_ok: the functions that assign `*pc`) *)
  Hypothesis only_jumps_jump : forall op pc s d s', exec op pc s = JumpTo d s' -> is_jump_op op = true.
  (** STOP — also the implicit one behind the code — ends the frame *)
  Hypothesis stop_ends : forall pc s, exists s', exec 0%N pc s = End s'.
  (** the flag is never cleared while the EVM runs (Cancel stores true; nothing stores false) *)
  Hypothesis abort_stays : forall k, abort_at k = true -> abort_at (S k) = true.

  Lemma abort_later k k' : k <= k' -> abort_at k = true -> abort_at k' = true.
  Proof. induction 1 as [|m _ IH]; intro H; [exact H|]. apply abort_stays, IH, H. Qed.

  (** after the flag is set the loop visits a prefix of the straight-line path *)
  Lemma cancelled_is_straight fuel : forall n k pc s t r,
    abort_at k = true -> length code - pc < n ->
    loop St code exec abort_at fuel k pc s = Some (t, r) ->
    is_prefix t (straight code n pc) = true.
  Proof.
    induction fuel as [|f IH]; intros n k pc s t r Hab Hn L; [discriminate|].
    destruct n as [|n]; [lia|].
    cbn [loop] in L. rewrite Hab, andb_true_r in L.
    destruct (is_jump_op (op_at code pc)) eqn:J.
    { inversion L; subst. destruct (straight_head code n pc) as (t' & ->). cbn. now rewrite Nat.eqb_refl. }
    destruct (exec (op_at code pc) pc s) as [s1|d s1|s1] eqn:E.
    - (* Go *)
      destruct (length code <=? pc) eqn:B.
      { apply Nat.leb_le in B. rewrite (op_beyond code pc B) in E. destruct (stop_ends pc s) as (s' & E'). congruence. }
      apply Nat.leb_gt in B.
      destruct (loop St code exec abort_at f (S k) (next_pc code pc) s1) as [[t' r']|] eqn:L'; [|discriminate].
      inversion L; subst. cbn [straight]. replace (length code <=? pc) with false by (symmetry; now apply Nat.leb_gt).
      rewrite J. cbn [is_prefix]. rewrite Nat.eqb_refl. cbn.
      eapply IH; [apply abort_stays, Hab| |exact L']. unfold next_pc. lia.
    - (* JumpTo: impossible for a non-jump instruction *)
      apply only_jumps_jump in E. congruence.
    - inversion L; subst. destruct (straight_head code n pc) as (t' & ->). cbn. now rewrite Nat.eqb_refl.
  Qed.

  Theorem cancelled_frame_walks_straight fuel k pc s t r :
    abort_at k = true -> loop St code exec abort_at fuel k pc s = Some (t, r) ->
    is_prefix t (straight_from code pc) = true.
  Proof. intros Hab L. eapply cancelled_is_straight; [exact Hab| |exact L]. lia. Qed.

  Theorem cancelled_frame_follows fuel k pc s t r :
    abort_at k = true -> loop St code exec abort_at fuel k pc s = Some (t, r) -> follows code t = true.
  Proof. intros Hab L. eapply prefix_follows. eapply cancelled_frame_walks_straight; eauto. Qed.

  Theorem cancelled_frame_stops_within_code_length fuel k pc s t r :
    abort_at k = true -> loop St code exec abort_at fuel k pc s = Some (t, r) ->
    length t <= (length code - pc) + 1.
  Proof.
    intros Hab L. pose proof (cancelled_frame_walks_straight _ _ _ _ _ _ Hab L) as P.
    apply is_prefix_length in P. unfold straight_from in P. pose proof (straight_length code (S (length code)) pc). lia.
  Qed.

  (** ... and the loop does stop: the fuel of the model is never what ends a cancelled frame *)
  Theorem cancelled_frame_terminates fuel : forall k pc s,
    abort_at k = true -> length code - pc < fuel -> loop St code exec abort_at fuel k pc s <> None.
  Proof.
    induction fuel as [|f IH]; intros k pc s Hab Hf; [lia|].
    cbn [loop]. rewrite Hab, andb_true_r.
    destruct (is_jump_op (op_at code pc)) eqn:J; [discriminate|].
    destruct (exec (op_at code pc) pc s) as [s1|d s1|s1] eqn:E; [| |discriminate].
    - destruct (length code <=? pc) eqn:B.
      { apply Nat.leb_le in B. rewrite (op_beyond code pc B) in E. destruct (stop_ends pc s) as (s' & E'). congruence. }
      apply Nat.leb_gt in B.
      specialize (IH (S k) (next_pc code pc) s1 (abort_stays _ Hab)).
      destruct (loop St code exec abort_at f (S k) (next_pc code pc) s1) as [[t' r']|]; [discriminate|].
      exfalso. apply IH; [|reflexivity]. unfold next_pc. lia.
    - apply only_jumps_jump in E. congruence.
  Qed.

  (** the whole frame, from any start: if the flag is set by iteration k0, the loop makes at most k0 + length(code) + 1
      iterations in total *)
  Theorem frame_iterations_after_cancel fuel : forall k0 k pc s t r,
    abort_at k0 = true -> loop St code exec abort_at fuel k pc s = Some (t, r) ->
    length t <= (k0 - k) + length code + 1.
  Proof.
    induction fuel as [|f IH]; intros k0 k pc s t r H0 L; [discriminate|].
    destruct (Nat.le_gt_cases k0 k) as [Hk|Hk].
    { pose proof (cancelled_frame_stops_within_code_length _ _ _ _ _ _ (abort_later _ _ Hk H0) L). lia. }
    cbn [loop] in L.
    destruct (is_jump_op (op_at code pc) && abort_at k); [inversion L; subst; cbn; lia|].
    destruct (exec (op_at code pc) pc s) as [s1|d s1|s1].
    - destruct (loop St code exec abort_at f (S k) (next_pc code pc) s1) as [[t' r']|] eqn:L'; [|discriminate].
      inversion L; subst. cbn [length]. specialize (IH k0 _ _ _ _ _ H0 L'). lia.
    - destruct (loop St code exec abort_at f (S k) d s1) as [[t' r']|] eqn:L'; [|discriminate].
      inversion L; subst. cbn [length]. specialize (IH k0 _ _ _ _ _ H0 L'). lia.
    - inversion L; subst. cbn; lia.
  Qed.
End Loop.

(** the premises are satisfiable and the bound is attained: PUSH1 1, JUMPDEST, PUSH1 2, JUMP (an endless loop) cancelled
    at its fourth iteration stops at the JUMP *)
Definition ex_code : bytes := [0x60; 0x01; 0x5b; 0x60; 0x02; 0x56]%N.
Definition ex_exec (op : N) (pc : nat) (s : unit) : eff unit :=
  if (op =? 0)%N then End s else if (op =? 0x56)%N then JumpTo 2 s else Go s.
Definition ex_abort (k : nat) : bool := 6 <=? k.
Example ex_cancelled_loop :
  loop unit ex_code ex_exec ex_abort 100 0 0 tt = Some ([0; 2; 3; 5; 2; 3; 5], tt) /\
  loop unit ex_code ex_exec (fun _ => false) 100 0 0 tt = None.
Proof. split; vm_compute; reflexivity. Qed.
