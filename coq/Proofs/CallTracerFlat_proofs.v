(* Proofs/CallTracerFlat_proofs.v — flatFromNested: trace addresses are unique and prefix-closed, sub-trace
   counts equal the number of emitted children, and every frame of the nested result is emitted exactly once. *)
From Verif Require Import Base.Bytes Model.CallTracer Proofs.CallTracer_proofs.
From Coq Require Import Lia.
Open Scope nat_scope.

(** ** the shape a flat trace must have: a frame, followed by its children's traces at consecutive indices *)
Inductive flat_tree : list nat -> list flat -> Prop :=
| FT self addr rest : fl_addr self = addr -> flat_forest addr 0 (fl_subtraces self) rest -> flat_tree addr (self :: rest)
with flat_forest : list nat -> nat -> nat -> list flat -> Prop :=
| FF_nil addr s : flat_forest addr s 0 []
| FF_cons addr s n B rest : flat_tree (addr ++ [s]) B -> flat_forest addr (S s) n rest -> flat_forest addr s (S n) (B ++ rest).

Scheme flat_tree_mind := Minimality for flat_tree Sort Prop
  with flat_forest_mind := Minimality for flat_forest Sort Prop.
Combined Scheme flat_mutind from flat_tree_mind, flat_forest_mind.

Lemma forest_app addr s n1 l1 : flat_forest addr s n1 l1 ->
  forall n2 l2, flat_forest addr (s + n1) n2 l2 -> flat_forest addr s (n1 + n2) (l1 ++ l2).
Proof.
  induction 1 as [addr s|addr s n B rest HB _ IH]; intros n2 l2 H2.
  - rewrite Nat.add_0_r in H2. exact H2.
  - rewrite <- app_assoc. cbn [Nat.add]. constructor; [exact HB|]. apply IH.
    replace (S s + n) with (s + S n) by lia. exact H2.
Qed.

(** ** consequences of the shape *)
Definition extends (addr a : list nat) : Prop := exists suf, a = addr ++ suf.

Lemma shape_prefix :
  (forall addr l, flat_tree addr l -> forall e, In e l -> extends addr (fl_addr e)) /\
  (forall addr s n l, flat_forest addr s n l -> forall e, In e l -> exists i suf, s <= i < s + n /\ fl_addr e = addr ++ i :: suf).
Proof.
  apply flat_mutind.
  - intros self addr rest Ha _ IH e [<-|He].
    + exists []. rewrite app_nil_r. exact Ha.
    + destruct (IH e He) as (i & suf & _ & E). exists (i :: suf). exact E.
  - intros addr s e [].
  - intros addr s n B rest _ IHB _ IHr e He. apply in_app_or in He as [He|He].
    + destruct (IHB e He) as (suf & E). exists s, suf. split; [lia|]. rewrite E, <- app_assoc. reflexivity.
    + destruct (IHr e He) as (i & suf & Hi & E). exists i, suf. split; [lia|exact E].
Qed.

Lemma app_inj_head (a : list nat) x y : a ++ x = a ++ y -> x = y.
Proof. apply app_inv_head. Qed.

Lemma shape_nodup :
  (forall addr l, flat_tree addr l -> NoDup (map fl_addr l)) /\
  (forall addr s n l, flat_forest addr s n l -> NoDup (map fl_addr l)).
Proof.
  apply flat_mutind.
  - intros self addr rest Ha HF IH. cbn [map]. constructor; [|exact IH].
    intros Hin. apply in_map_iff in Hin as (e & E & He).
    destruct (proj2 shape_prefix _ _ _ _ HF e He) as (i & suf & _ & E2).
    rewrite E2, Ha in E. rewrite <- (app_nil_r addr) in E at 2. apply app_inv_head in E. discriminate.
  - intros. constructor.
  - intros addr s n B rest HB IHB HF IHr. rewrite map_app.
    assert (D : forall a, In a (map fl_addr B) -> In a (map fl_addr rest) -> False).
    { intros a H1 H2. apply in_map_iff in H1 as (e1 & E1 & He1). apply in_map_iff in H2 as (e2 & E2 & He2).
      destruct (proj1 shape_prefix _ _ HB e1 He1) as (suf1 & P1).
      destruct (proj2 shape_prefix _ _ _ _ HF e2 He2) as (i & suf2 & Hi & P2).
      rewrite <- E2 in E1. rewrite P1, P2, <- app_assoc in E1. apply app_inv_head in E1. cbn in E1. inversion E1. lia. }
    clear -IHB IHr D. induction (map fl_addr B) as [|a l IH]; [exact IHr|].
    cbn [app]. inversion IHB; subst. constructor.
    + intros Hin. apply in_app_or in Hin as [Hin|Hin]; [contradiction|]. apply (D a); [left; reflexivity|exact Hin].
    + apply IH; [assumption|]. intros b Hb1 Hb2. apply (D b); [right; exact Hb1|exact Hb2].
Qed.

(** the children of an emitted frame [p] are exactly the entries at [fl_addr p ++ [j]] for j < fl_subtraces p *)
Lemma tree_head addr l : flat_tree addr l -> exists e, In e l /\ fl_addr e = addr.
Proof. intros H. inversion H; subst. eexists. split; [left; reflexivity|reflexivity]. Qed.

Lemma forest_child addr s n l : flat_forest addr s n l -> forall j, s <= j < s + n -> exists e, In e l /\ fl_addr e = addr ++ [j].
Proof.
  induction 1 as [|addr s n B rest HB HF IH]; intros j Hj; [lia|].
  destruct (Nat.eq_dec j s) as [->|Hne].
  - destruct (tree_head _ _ HB) as (e & He & E). exists e. split; [apply in_or_app; left; exact He|exact E].
  - destruct (IH j ltac:(lia)) as (e & He & E). exists e. split; [apply in_or_app; right; exact He|exact E].
Qed.

Lemma snoc_inj (a b : list nat) x y : a ++ [x] = b ++ [y] -> a = b /\ x = y.
Proof. intros H. apply app_inj_tail in H. exact H. Qed.

Lemma shape_children :
  (forall addr l, flat_tree addr l ->
     forall p, In p l -> forall j, (exists e, In e l /\ fl_addr e = fl_addr p ++ [j]) <-> j < fl_subtraces p) /\
  (forall addr s n l, flat_forest addr s n l ->
     forall p, In p l -> forall j, (exists e, In e l /\ fl_addr e = fl_addr p ++ [j]) <-> j < fl_subtraces p).
Proof.
  apply flat_mutind.
  - intros self addr rest Ha HF IH p Hp j. destruct Hp as [<-|Hp].
    + split.
      * intros (e & [<-|He] & E).
        { rewrite <- (app_nil_r (fl_addr self)) in E at 1. apply app_inv_head in E. discriminate. }
        destruct (proj2 shape_prefix _ _ _ _ HF e He) as (i & suf & Hi & E2).
        rewrite E2, Ha in E. apply app_inv_head in E. inversion E; subst. lia.
      * intros Hj. destruct (forest_child _ _ _ _ HF j ltac:(lia)) as (e & He & E).
        exists e. split; [right; exact He|rewrite Ha; exact E].
    + rewrite <- (IH p Hp j). split.
      * intros (e & [<-|He] & E); [|exists e; split; assumption].
        destruct (proj2 shape_prefix _ _ _ _ HF p Hp) as (i & suf & _ & E2).
        rewrite E2, Ha in E. rewrite <- (app_nil_r addr) in E at 1. rewrite <- app_assoc in E. apply app_inv_head in E. discriminate.
      * intros (e & He & E). exists e. split; [right; exact He|exact E].
  - intros addr s p [].
  - intros addr s n B rest HB IHB HF IHr p Hp j. apply in_app_or in Hp as [Hp|Hp].
    + rewrite <- (IHB p Hp j). split.
      * intros (e & He & E). apply in_app_or in He as [He|He]; [exists e; split; assumption|].
        destruct (proj1 shape_prefix _ _ HB p Hp) as (suf1 & P1).
        destruct (proj2 shape_prefix _ _ _ _ HF e He) as (i & suf2 & Hi & P2).
        rewrite P1, P2, <- !app_assoc in E. apply app_inv_head in E. cbn in E. inversion E. lia.
      * intros (e & He & E). exists e. split; [apply in_or_app; left; exact He|exact E].
    + rewrite <- (IHr p Hp j). split.
      * intros (e & He & E). apply in_app_or in He as [He|He]; [|exists e; split; assumption].
        destruct (proj1 shape_prefix _ _ HB e He) as (suf1 & P1).
        destruct (proj2 shape_prefix _ _ _ _ HF p Hp) as (i & suf2 & Hi & P2).
        rewrite P1, P2, <- !app_assoc in E. apply app_inv_head in E. cbn in E. inversion E. lia.
      * intros (e & He & E). exists e. split; [apply in_or_app; right; exact He|exact E].
Qed.

(** prefix-closed: every emitted address except the root's is a child address of an emitted frame *)
Lemma shape_prefix_closed :
  (forall addr l, flat_tree addr l ->
     forall e, In e l -> fl_addr e = addr \/ exists p j, In p l /\ fl_addr e = fl_addr p ++ [j]) /\
  (forall addr s n l, flat_forest addr s n l ->
     forall e, In e l -> (exists j, fl_addr e = addr ++ [j]) \/ exists p j, In p l /\ fl_addr e = fl_addr p ++ [j]).
Proof.
  apply flat_mutind.
  - intros self addr rest Ha HF IH e [<-|He]; [left; exact Ha|]. right.
    destruct (IH e He) as [(j & E)|(p & j & Hp & E)].
    + exists self, j. split; [left; reflexivity|rewrite Ha; exact E].
    + exists p, j. split; [right; exact Hp|exact E].
  - intros addr s e [].
  - intros addr s n B rest HB IHB HF IHr e He. apply in_app_or in He as [He|He].
    + destruct (IHB e He) as [E|(p & j & Hp & E)]; [left; exists s; exact E|].
      right. exists p, j. split; [apply in_or_app; left; exact Hp|exact E].
    + destruct (IHr e He) as [E|(p & j & Hp & E)]; [left; exact E|].
      right. exists p, j. split; [apply in_or_app; right; exact Hp|exact E].
Qed.

(** ** flat_c produces that shape when, on every frame, the pre-call Aspects precede the other Aspects *)
Lemma imap_cons {A B} (g : nat -> A -> B) s x l : imap g s (x :: l) = g s x :: imap g (S s) l.
Proof. reflexivity. Qed.
Lemma imap_app {A B} (g : nat -> A -> B) s a b : imap g s (a ++ b) = imap g s a ++ imap g (s + length a) b.
Proof.
  revert s. induction a as [|x a IH]; intros s; [cbn [app length]; rewrite Nat.add_0_r; reflexivity|].
  cbn [app length]. rewrite !imap_cons, IH. cbn [app]. replace (S s + length a) with (s + S (length a)) by lia. reflexivity.
Qed.
Lemma imap_length {A B} (g : nat -> A -> B) s l : length (imap g s l) = length l.
Proof. revert s. induction l as [|x l IH]; intros s; [reflexivity|]. rewrite imap_cons. cbn. rewrite IH. reflexivity. Qed.

Lemma oseq_cons {B} (x : option B) r l : oseq (x :: r) = Some l -> exists y t, x = Some y /\ oseq r = Some t /\ l = y :: t.
Proof.
  cbn. destruct x as [y|]; [|discriminate]. destruct (oseq r) as [t|]; [|discriminate]. intros E; inversion E. eauto.
Qed.
Lemma oseq_app {B} (a b : list (option B)) l : oseq (a ++ b) = Some l -> exists la lb, oseq a = Some la /\ oseq b = Some lb /\ l = la ++ lb.
Proof.
  revert l. induction a as [|x a IH]; intros l H; [exists [], l; auto|].
  cbn [app] in H. apply oseq_cons in H as (y & t & -> & Ht & ->). destruct (IH t Ht) as (la & lb & Ea & Eb & ->).
  exists (y :: la), lb. cbn. rewrite Ea. auto.
Qed.

Lemma blocks_forest {A} addr (g : nat -> A -> option (list flat)) off l :
  forall s bl, oseq (imap g s l) = Some bl ->
    (forall i x B, In x l -> g i x = Some B -> flat_tree (addr ++ [i + off]) B) ->
    flat_forest addr (s + off) (length l) (concat bl).
Proof.
  induction l as [|x l IH]; intros s bl H Hg.
  - cbn in H. inversion H. constructor.
  - rewrite imap_cons in H. apply oseq_cons in H as (y & t & Ey & Et & ->). cbn [concat length].
    constructor; [apply (Hg s x y (or_introl eq_refl) Ey)|].
    change (S (s + off)) with (S s + off). apply IH; [exact Et|]. intros i x' B Hx. apply Hg. right. exact Hx.
Qed.
Lemma blocks_empty {A} (g : nat -> A -> option (list flat)) l :
  forall s bl, oseq (imap g s l) = Some bl -> (forall i x, In x l -> g i x = Some []) -> concat bl = [].
Proof.
  induction l as [|x l IH]; intros s bl H Hg.
  - cbn in H. inversion H. reflexivity.
  - rewrite imap_cons in H. apply oseq_cons in H as (y & t & Ey & Et & ->). rewrite (Hg s x (or_introl eq_refl)) in Ey.
    inversion Ey. cbn. apply (IH (S s) t Et). intros i x' Hx. apply Hg. right. exact Hx.
Qed.

Fixpoint jps_ordered (jps : list aframe) : bool :=
  match jps with
  | [] => true
  | a :: r => if pre_a a then jps_ordered r else forallb (fun a => negb (pre_a a)) r
  end.
Lemma jps_ordered_split jps : jps_ordered jps = true ->
  exists P Q, jps = P ++ Q /\ forallb pre_a P = true /\ forallb (fun a => negb (pre_a a)) Q = true.
Proof.
  induction jps as [|a r IH]; intros H; [exists [], []; auto|].
  cbn in H. destruct (pre_a a) eqn:E.
  - destruct (IH H) as (P & Q & -> & HP & HQ). exists (a :: P), Q. cbn. rewrite E. auto.
  - exists [], (a :: r). cbn. rewrite E. auto.
Qed.

Fixpoint ordered_c (f : cframe) : bool :=
  match f with CF _ _ _ _ _ _ _ _ calls jps _ _ => jps_ordered jps && forallb ordered_c calls && forallb ordered_a jps end
with ordered_a (a : aframe) : bool :=
  match a with AF _ _ _ _ _ _ _ _ _ calls _ _ => forallb ordered_c calls end.

Lemma filter_all {A} (p : A -> bool) l : forallb p l = true -> filter p l = l.
Proof. induction l as [|x l IH]; [reflexivity|]. cbn. intros H. apply andb_prop in H as [-> H]. rewrite IH by exact H. reflexivity. Qed.
Lemma filter_none {A} (p : A -> bool) l : forallb (fun x => negb (p x)) l = true -> filter p l = [].
Proof.
  induction l as [|x l IH]; [reflexivity|]. cbn. intros H. apply andb_prop in H as [Hx H].
  apply Bool.negb_true_iff in Hx. rewrite Hx. apply IH. exact H.
Qed.

Section Flat.
  Variable convert : bool.

  Lemma flat_self_addr f addr : fl_addr (flat_self convert f addr) = addr.
  Proof. destruct f; reflexivity. Qed.
  Lemma flat_self_sub f addr : fl_subtraces (flat_self convert f addr) = length (cf_calls f) + length (cf_jps f).
  Proof. destruct f; reflexivity. Qed.
  Lemma flat_self_a_addr a addr : fl_addr (flat_self_a convert a addr) = addr.
  Proof. destruct a; reflexivity. Qed.
  Lemma flat_self_a_sub a addr : fl_subtraces (flat_self_a convert a addr) = length (af_calls a).
  Proof. destruct a; reflexivity. Qed.

  Lemma flat_c_S k f addr :
    flat_c convert (S k) f addr =
    if negb (flat_type_ok (cf_typ f)) then None else
    match oseq (imap (fun i a => if pre_a a then flat_a convert k a (addr ++ [i]) else Some []) 0 (cf_jps f)),
          oseq (imap (fun i c => flat_c convert k c (addr ++ [i + length (filter pre_a (cf_jps f))])) 0 (cf_calls f)),
          oseq (imap (fun i a => if pre_a a then Some [] else flat_a convert k a (addr ++ [i + length (cf_calls f)])) 0 (cf_jps f)) with
    | Some a, Some b, Some c => Some (flat_self convert f addr :: concat a ++ concat b ++ concat c)
    | _, _, _ => None
    end.
  Proof. reflexivity. Qed.
  Lemma flat_a_S k a addr :
    flat_a convert (S k) a addr =
    match oseq (imap (fun i c => flat_c convert k c (addr ++ [i])) 0 (af_calls a)) with
    | Some b => Some (flat_self_a convert a addr :: concat b)
    | None => None
    end.
  Proof. reflexivity. Qed.

  Lemma flat_shape fuel :
    (forall f addr l, ordered_c f = true -> flat_c convert fuel f addr = Some l -> flat_tree addr l) /\
    (forall a addr l, ordered_a a = true -> flat_a convert fuel a addr = Some l -> flat_tree addr l).
  Proof.
    induction fuel as [|k [IHc IHa]]; [split; intros; discriminate|]. split.
    - intros f addr l Ho H. rewrite flat_c_S in H.
      destruct (negb (flat_type_ok (cf_typ f))); [discriminate|].
      destruct (oseq (imap (fun i a => if pre_a a then flat_a convert k a (addr ++ [i]) else Some []) 0 (cf_jps f))) as [a|] eqn:Ea; [|cbv iota beta in H; discriminate H].
      destruct (oseq (imap (fun i c => flat_c convert k c (addr ++ [i + length (filter pre_a (cf_jps f))])) 0 (cf_calls f))) as [b|] eqn:Eb; [|cbv iota beta in H; discriminate H].
      destruct (oseq (imap (fun i a => if pre_a a then Some [] else flat_a convert k a (addr ++ [i + length (cf_calls f)])) 0 (cf_jps f))) as [c|] eqn:Ec; [|cbv iota beta in H; discriminate H].
      inversion H; subst l; clear H.
      assert (Ho' : jps_ordered (cf_jps f) = true /\ forallb ordered_c (cf_calls f) = true /\ forallb ordered_a (cf_jps f) = true).
      { destruct f. cbn in Ho |- *. apply andb_prop in Ho as [Ho O3]. apply andb_prop in Ho as [O1 O2]. auto. }
      destruct Ho' as (O1 & O2 & O3).
      destruct (jps_ordered_split _ O1) as (P & Q & EJ & HP & HQ).
      rewrite EJ in Ea, Eb, Ec, O3. rewrite forallb_app in O3. apply andb_prop in O3 as [O3P O3Q].
      rewrite filter_app, (filter_all _ _ HP), (filter_none _ _ HQ), app_nil_r in Eb.
      rewrite imap_app in Ea, Ec.
      apply oseq_app in Ea as (aP & aQ & EaP & EaQ & ->). apply oseq_app in Ec as (cP & cQ & EcP & EcQ & ->).
      rewrite !concat_app.
      rewrite forallb_forall in HP, HQ, O2, O3P, O3Q.
      rewrite (blocks_empty _ _ _ _ EaQ) by (intros i x Hx; pose proof (HQ x Hx) as Hn; cbn beta in Hn; apply Bool.negb_true_iff in Hn; rewrite Hn; reflexivity).
      rewrite (blocks_empty _ _ _ _ EcP) by (intros i x Hx; rewrite (HP x Hx); reflexivity).
      rewrite app_nil_r. cbn [app].
      constructor; [apply flat_self_addr|]. rewrite flat_self_sub, EJ, app_length.
      replace (length (cf_calls f) + (length P + length Q)) with (length P + (length (cf_calls f) + length Q)) by lia.
      apply forest_app.
      { change 0 with (0 + 0) at 1. apply (blocks_forest addr _ 0 P 0 aP EaP).
        intros i x B Hx E. rewrite (HP x Hx) in E. rewrite Nat.add_0_r. apply (IHa x _ _ (O3P x Hx) E). }
      apply forest_app.
      { apply (blocks_forest addr _ (length P) (cf_calls f) 0 b Eb).
        intros i x B Hx E. apply (IHc x _ _ (O2 x Hx) E). }
      { replace (0 + length P + length (cf_calls f)) with ((0 + length P) + length (cf_calls f)) by lia.
        apply (blocks_forest addr _ (length (cf_calls f)) Q (0 + length P) cQ EcQ).
        intros i x B Hx E. pose proof (HQ x Hx) as Hn. cbn beta in Hn. apply Bool.negb_true_iff in Hn. rewrite Hn in E.
        apply (IHa x _ _ (O3Q x Hx) E). }
    - intros a addr l Ho H. rewrite flat_a_S in H.
      destruct (oseq (imap (fun i c => flat_c convert k c (addr ++ [i])) 0 (af_calls a))) as [b|] eqn:Eb; [|cbv iota beta in H; discriminate H].
      inversion H; subst l; clear H.
      assert (O : forallb ordered_c (af_calls a) = true) by (destruct a; exact Ho).
      rewrite forallb_forall in O.
      constructor; [apply flat_self_a_addr|]. rewrite flat_self_a_sub.
      change 0 with (0 + 0) at 1. apply (blocks_forest addr _ 0 (af_calls a) 0 b Eb).
      intros i x B Hx E. rewrite Nat.add_0_r. apply (IHc x _ _ (O x Hx) E).
  Qed.

  (** every frame of the nested result is emitted exactly once *)
  Fixpoint size_c (f : cframe) : nat :=
    match f with CF _ _ _ _ _ _ _ _ calls jps _ _ => S (list_sum (map size_c calls) + list_sum (map size_a jps)) end
  with size_a (a : aframe) : nat :=
    match a with AF _ _ _ _ _ _ _ _ _ calls _ _ => S (list_sum (map size_c calls)) end.

  Lemma blocks_length {A} (g : nat -> A -> option (list flat)) (sz : A -> nat) l :
    forall s bl, oseq (imap g s l) = Some bl -> (forall i x B, In x l -> g i x = Some B -> length B = sz x) ->
    length (concat bl) = list_sum (map sz l).
  Proof.
    induction l as [|x l IH]; intros s bl H Hg.
    - cbn in H. inversion H. reflexivity.
    - rewrite imap_cons in H. apply oseq_cons in H as (y & t & Ey & Et & ->). cbn [concat map list_sum].
      rewrite app_length. rewrite (Hg s x y (or_introl eq_refl) Ey).
      change (list_sum (sz x :: map sz l)) with (sz x + list_sum (map sz l)). f_equal.
      apply (IH (S s) t Et). intros i x' B Hx. apply Hg. right. exact Hx.
  Qed.

  Lemma list_sum_split {A} (p : A -> bool) (sz : A -> nat) l :
    list_sum (map (fun x => if p x then sz x else 0) l) + list_sum (map (fun x => if p x then 0 else sz x) l) = list_sum (map sz l).
  Proof.
    induction l as [|x l IH]; [reflexivity|]. cbn [map].
    change (list_sum (?a :: ?r)) with (a + list_sum r). destruct (p x); lia.
  Qed.

  Lemma flat_size fuel :
    (forall f addr l, flat_c convert fuel f addr = Some l -> length l = size_c f) /\
    (forall a addr l, flat_a convert fuel a addr = Some l -> length l = size_a a).
  Proof.
    induction fuel as [|k [IHc IHa]]; [split; intros; discriminate|]. split.
    - intros f addr l H. rewrite flat_c_S in H.
      destruct (negb (flat_type_ok (cf_typ f))); [discriminate|].
      destruct (oseq (imap (fun i a => if pre_a a then flat_a convert k a (addr ++ [i]) else Some []) 0 (cf_jps f))) as [a|] eqn:Ea; [|cbv iota beta in H; discriminate H].
      destruct (oseq (imap (fun i c => flat_c convert k c (addr ++ [i + length (filter pre_a (cf_jps f))])) 0 (cf_calls f))) as [b|] eqn:Eb; [|cbv iota beta in H; discriminate H].
      destruct (oseq (imap (fun i a => if pre_a a then Some [] else flat_a convert k a (addr ++ [i + length (cf_calls f)])) 0 (cf_jps f))) as [c|] eqn:Ec; [|cbv iota beta in H; discriminate H].
      inversion H; subst l; clear H. cbn [length]. rewrite !app_length.
      rewrite (blocks_length _ (fun x => if pre_a x then size_a x else 0) _ _ _ Ea)
        by (intros i x B _ E; destruct (pre_a x); [apply (IHa _ _ _ E)|inversion E; reflexivity]).
      rewrite (blocks_length _ size_c _ _ _ Eb) by (intros i x B _ E; apply (IHc _ _ _ E)).
      rewrite (blocks_length _ (fun x => if pre_a x then 0 else size_a x) _ _ _ Ec)
        by (intros i x B _ E; destruct (pre_a x); [inversion E; reflexivity|apply (IHa _ _ _ E)]).
      destruct f. cbn [cf_jps cf_calls size_c]. pose proof (list_sum_split pre_a size_a jps). lia.
    - intros a addr l H. rewrite flat_a_S in H.
      destruct (oseq (imap (fun i c => flat_c convert k c (addr ++ [i])) 0 (af_calls a))) as [b|] eqn:Eb; [|cbv iota beta in H; discriminate H].
      inversion H; subst l; clear H. cbn [length].
      rewrite (blocks_length _ size_c _ _ _ Eb) by (intros i x B _ E; apply (IHc _ _ _ E)).
      destruct a; reflexivity.
  Qed.
End Flat.

(** ** flattening succeeds: with frame types the flat tracer knows and fuel beyond the nesting depth, [flat_c] returns a
    trace (so the hypotheses "flat_c ... = Some l" of the theorems above are met by every such frame) *)
Fixpoint depth_c (f : cframe) : nat :=
  match f with CF _ _ _ _ _ _ _ _ calls jps _ _ => S (Nat.max (list_max (map depth_c calls)) (list_max (map depth_a jps))) end
with depth_a (a : aframe) : nat :=
  match a with AF _ _ _ _ _ _ _ _ _ calls _ _ => S (list_max (map depth_c calls)) end.

Fixpoint types_ok_c (f : cframe) : bool :=
  match f with CF typ _ _ _ _ _ _ _ calls jps _ _ => flat_type_ok typ && forallb types_ok_c calls && forallb types_ok_a jps end
with types_ok_a (a : aframe) : bool :=
  match a with AF _ _ _ _ _ _ _ _ _ calls _ _ => forallb types_ok_c calls end.

Lemma list_max_in l x : In x l -> x <= list_max l.
Proof.
  induction l as [|y l IH]; [intros []|]. change (list_max (y :: l)) with (Nat.max y (list_max l)).
  intros [->|H]; [apply Nat.le_max_l|]. specialize (IH H). etransitivity; [exact IH|apply Nat.le_max_r].
Qed.

Lemma oseq_imap_some {A} (g : nat -> A -> option (list flat)) l :
  forall s, (forall i x, In x l -> exists B, g i x = Some B) -> exists bl, oseq (imap g s l) = Some bl.
Proof.
  induction l as [|x l IH]; intros s H; [exists []; reflexivity|].
  rewrite imap_cons. destruct (H s x (or_introl eq_refl)) as [B EB].
  destruct (IH (S s)) as [bl Ebl]; [intros i y Hy; apply H; right; exact Hy|].
  exists (B :: bl). cbn. rewrite EB, Ebl. reflexivity.
Qed.

Section FlatTotal.
  Variable convert : bool.
  Lemma flat_total fuel :
    (forall f addr, types_ok_c f = true -> depth_c f <= fuel -> exists l, flat_c convert fuel f addr = Some l) /\
    (forall a addr, types_ok_a a = true -> depth_a a <= fuel -> exists l, flat_a convert fuel a addr = Some l).
  Proof.
    induction fuel as [|k [IHc IHa]].
    { split; [intros f|intros f]; intros addr _ H; exfalso; destruct f; simpl in H; inversion H. }
    split.
    - intros f addr Ht Hd. rewrite flat_c_S.
      assert (Hf : flat_type_ok (cf_typ f) = true /\ forallb types_ok_c (cf_calls f) = true /\ forallb types_ok_a (cf_jps f) = true).
      { destruct f. cbn in Ht |- *. apply andb_prop in Ht as [Ht T3]. apply andb_prop in Ht as [T1 T2]. auto. }
      destruct Hf as (T1 & T2 & T3). rewrite T1. cbn [negb].
      assert (Dc : forall c, In c (cf_calls f) -> depth_c c <= k).
      { intros c Hc. destruct f. cbn in Hd, Hc. pose proof (list_max_in (map depth_c calls) (depth_c c) (in_map _ _ _ Hc)). lia. }
      assert (Da : forall a, In a (cf_jps f) -> depth_a a <= k).
      { intros a Ha. destruct f. cbn in Hd, Ha. pose proof (list_max_in (map depth_a jps) (depth_a a) (in_map _ _ _ Ha)). lia. }
      rewrite forallb_forall in T2, T3.
      destruct (oseq_imap_some (fun i a => if pre_a a then flat_a convert k a (addr ++ [i]) else Some []) (cf_jps f) 0) as [a Ea].
      { intros i x Hx. destruct (pre_a x); [apply IHa; [apply T3; exact Hx|apply Da; exact Hx]|eexists; reflexivity]. }
      destruct (oseq_imap_some (fun i c => flat_c convert k c (addr ++ [i + length (filter pre_a (cf_jps f))])) (cf_calls f) 0) as [b Eb].
      { intros i x Hx. apply IHc; [apply T2; exact Hx|apply Dc; exact Hx]. }
      destruct (oseq_imap_some (fun i a => if pre_a a then Some [] else flat_a convert k a (addr ++ [i + length (cf_calls f)])) (cf_jps f) 0) as [c Ec].
      { intros i x Hx. destruct (pre_a x); [eexists; reflexivity|apply IHa; [apply T3; exact Hx|apply Da; exact Hx]]. }
      rewrite Ea, Eb, Ec. eexists. reflexivity.
    - intros a addr Ht Hd. rewrite flat_a_S.
      assert (T : forallb types_ok_c (af_calls a) = true) by (destruct a; exact Ht).
      assert (Dc : forall c, In c (af_calls a) -> depth_c c <= k).
      { intros c Hc. destruct a. cbn in Hd, Hc. pose proof (list_max_in (map depth_c calls) (depth_c c) (in_map _ _ _ Hc)). lia. }
      rewrite forallb_forall in T.
      destruct (oseq_imap_some (fun i c => flat_c convert k c (addr ++ [i])) (af_calls a) 0) as [b Eb].
      { intros i x Hx. apply IHc; [apply T; exact Hx|apply Dc; exact Hx]. }
      rewrite Eb. eexists. reflexivity.
  Qed.
End FlatTotal.
