From Verif Require Import Base.Bytes Proofs.Bytes_proofs Model.KeyTree.
From Coq Require Import ZifyN ZifyNat ZifyBool Permutation Sorted.
Open Scope N_scope.

(** * association lists *)
Section AListLemmas.
  Context {K V : Type}.
  Variable eqb : K -> K -> bool.
  Hypothesis eqb_spec : forall a b, eqb a b = true <-> a = b.

  Lemma eqb_refl' a : eqb a a = true.
  Proof. apply eqb_spec. reflexivity. Qed.
  Lemma eqb_neq a b : a <> b -> eqb a b = false.
  Proof. intros H. destruct (eqb a b) eqn:E; [apply eqb_spec in E; contradiction|reflexivity]. Qed.

  Lemma aget_app (l1 l2 : list (K * V)) k :
    aget eqb (l1 ++ l2) k = match aget eqb l1 k with Some v => Some v | None => aget eqb l2 k end.
  Proof. induction l1 as [|[k' v'] l1 IH]; cbn; [reflexivity|]. destruct (eqb k k'); [reflexivity|apply IH]. Qed.

  Lemma aput_absent_present (l : list (K * V)) k v v0 : aget eqb l k = Some v0 -> aput_absent eqb l k v = l.
  Proof. intros H. unfold aput_absent. rewrite H. reflexivity. Qed.

  Lemma aget_aput_absent (l : list (K * V)) k v k' :
    aget eqb (aput_absent eqb l k v) k' =
      match aget eqb l k' with Some x => Some x | None => if eqb k' k then Some v else None end.
  Proof.
    unfold aput_absent. destruct (aget eqb l k) as [v0|] eqn:E.
    - destruct (aget eqb l k') eqn:E'; [reflexivity|].
      destruct (eqb k' k) eqn:Ek; [|reflexivity]. apply eqb_spec in Ek. subst. congruence.
    - rewrite aget_app. cbn. destruct (aget eqb l k'); [reflexivity|]. destruct (eqb k' k); reflexivity.
  Qed.

  (** first registration wins: an entry, once present, never changes *)
  Lemma aget_aput_absent_mono (l : list (K * V)) k v k' x :
    aget eqb l k' = Some x -> aget eqb (aput_absent eqb l k v) k' = Some x.
  Proof. intros H. rewrite aget_aput_absent, H. reflexivity. Qed.

  Lemma aget_aset (l : list (K * V)) k v k' :
    aget eqb (aset eqb l k v) k' = if eqb k' k then Some v else aget eqb l k'.
  Proof.
    induction l as [|[k0 v0] l IH]; cbn.
    - destruct (eqb k' k); reflexivity.
    - destruct (eqb k k0) eqn:E0; cbn.
      + apply eqb_spec in E0. subst k0. destruct (eqb k' k); reflexivity.
      + destruct (eqb k' k0) eqn:E1.
        * destruct (eqb k' k) eqn:E2; [|reflexivity].
          apply eqb_spec in E1, E2. subst. rewrite eqb_refl' in E0. discriminate.
        * apply IH.
  Qed.

  Lemma aget_In (l : list (K * V)) k v : aget eqb l k = Some v -> In (k, v) l.
  Proof.
    induction l as [|[k0 v0] l IH]; cbn; [discriminate|].
    destruct (eqb k k0) eqn:E.
    - apply eqb_spec in E. subst. intros H; inversion H. left. reflexivity.
    - intros H. right. apply IH. exact H.
  Qed.

  Lemma In_aget (l : list (K * V)) k v : In (k, v) l -> exists v', aget eqb l k = Some v'.
  Proof.
    induction l as [|[k0 v0] l IH]; cbn; [tauto|].
    intros [H|H].
    - inversion H; subst. rewrite eqb_refl'. eexists; reflexivity.
    - destruct (eqb k k0); [eexists; reflexivity|apply IH; exact H].
  Qed.
End AListLemmas.

Lemma eq_ib_spec a b : eq_ib a b = true <-> a = b.
Proof.
  destruct a as [i x], b as [j y]. unfold eq_ib. cbn. rewrite andb_true_iff, Nat.eqb_eq, bytes_eqb_eq.
  split; [intros [-> ->]; reflexivity|intros H; inversion H; auto].
Qed.
Lemma eq_inn_spec a b : eq_inn a b = true <-> a = b.
Proof.
  destruct a as [[i s] o], b as [[j s'] o']. unfold eq_inn. rewrite !andb_true_iff, Nat.eqb_eq, !N.eqb_eq.
  split; [intros [[-> ->] ->]; reflexivity|intros H; inversion H; auto].
Qed.
Lemma eq_n4_spec a b : eq_n4 a b = true <-> a = b.
Proof.
  destruct a as [[[x s] o] t], b as [[[x' s'] o'] t']. unfold eq_n4. rewrite !andb_true_iff, !N.eqb_eq.
  split; [intros [[[-> ->] ->] ->]; reflexivity|intros H; inversion H; auto].
Qed.
Lemma N_eqb_spec a b : N.eqb a b = true <-> a = b.
Proof. apply N.eqb_eq. Qed.
Lemma nat_eqb_spec a b : Nat.eqb a b = true <-> a = b.
Proof. apply Nat.eqb_eq. Qed.

(** * the invariant *)

Definition cidx (s : kt) (p : id) (key : bytes) : option id := aget eq_ib (cindex s) (p, key).
Definition kids (s : kt) (p : id) (sl o : N) : option id := aget eq_inn (children s) (p, sl, o).
Definition node_at (s : kt) (k : id) (n : node) : Prop := nth_error (nodes s) k = Some n.

Record Inv (s : kt) : Prop := {
  (* a name lookup lands on the node that the flat index holds for that node's own location *)
  i_cidx : forall p key c, cidx s p key = Some c ->
      exists n np, node_at s c n /\ node_at s p np /\ n_acct n = n_acct np /\
                   find_key s (n_acct n) (n_slot n) (n_off n) (n_type n) = Some c /\
                   kids s p (n_slot n) (n_off n) <> None;
  (* children entries are located where they say and are indexed *)
  i_kids : forall p sl o e, kids s p sl o = Some e ->
      exists n np, node_at s e n /\ node_at s p np /\ n_acct n = n_acct np /\ n_slot n = sl /\ n_off n = o /\
                   find_key s (n_acct n) sl o (n_type n) = Some e;
  (* the flat index is accurate *)
  i_index : forall a sl o ty k, find_key s a sl o ty = Some k ->
      exists n, node_at s k n /\ n_acct n = a /\ n_slot n = sl /\ n_off n = o /\ n_type n = ty;
  i_roots : forall a r, root_of s a = Some r -> exists n, node_at s r n /\ n_acct n = a
}.

Lemma inv_empty : Inv kt_empty.
Proof. split; unfold cidx, kids, find_key, root_of; cbn; intros; discriminate. Qed.

Lemma node_at_app s k n extra (s' : kt) :
  nodes s' = nodes s ++ extra -> node_at s k n -> node_at s' k n.
Proof.
  unfold node_at. intros -> H. rewrite nth_error_app1; [exact H|]. apply nth_error_Some. congruence.
Qed.

(** states that differ only by extra (unreferenced) nodes and by [chg]/[raw] satisfy the same invariant *)
Lemma inv_same_maps s s' extra :
  nodes s' = nodes s ++ extra -> roots s' = roots s -> cindex s' = cindex s -> children s' = children s ->
  index s' = index s -> Inv s -> Inv s'.
Proof.
  intros Hn Hr Hc Hk Hi [I1 I2 I3 I4].
  split; unfold cidx, kids, find_key, root_of in *; rewrite ?Hr, ?Hc, ?Hk, ?Hi.
  - intros p key c H. destruct (I1 _ _ _ H) as [n [np [A [B [C [D E]]]]]].
    exists n, np. repeat split; eauto using node_at_app.
  - intros p sl o e H. destruct (I2 _ _ _ _ H) as [n [np [A [B [C [D [E F]]]]]]].
    exists n, np. repeat split; eauto using node_at_app.
  - intros a sl o ty k H. destruct (I3 _ _ _ _ _ H) as [n [A B]]. exists n. split; eauto using node_at_app.
  - intros a r H. destruct (I4 _ _ H) as [n [A B]]. exists n. split; eauto using node_at_app.
Qed.

(** ** journaling never touches the lookup structures *)
Lemma journal_inv s k call v : Inv s -> Inv (journal s k call v).
Proof. apply (inv_same_maps s _ []); cbn; try reflexivity. rewrite app_nil_r. reflexivity. Qed.

Lemma ensure_root_inv s a : Inv s -> Inv (fst (ensure_root s a)) /\
  exists nr, node_at (fst (ensure_root s a)) (snd (ensure_root s a)) nr /\ n_acct nr = a.
Proof.
  intros I. unfold ensure_root. destruct (root_of s a) as [r|] eqn:E; cbn [fst snd].
  - split; [exact I|]. exact (i_roots s I _ _ E).
  - set (nr := {| n_acct := a; n_root := true; n_slot := 0; n_off := 0; n_type := 0; n_data := [] |}).
    split.
    + destruct I as [I1 I2 I3 I4]. split; unfold cidx, kids, find_key, root_of in *; cbn [cindex children index roots nodes].
      * intros p key c H. destruct (I1 _ _ _ H) as [n [np [A [B [C [D F]]]]]].
        exists n, np. repeat split; eauto using node_at_app.
        all: eapply node_at_app; [cbn; reflexivity|assumption].
      * intros p sl o e H. destruct (I2 _ _ _ _ H) as [n [np [A [B [C [D [F G]]]]]]].
        exists n, np. repeat split; eauto.
        all: eapply node_at_app; [cbn; reflexivity|assumption].
      * intros a' sl o ty k H. destruct (I3 _ _ _ _ _ H) as [n [A B]]. exists n. split; [|exact B].
        eapply node_at_app; [cbn; reflexivity|assumption].
      * intros a' r H. rewrite (aget_app N.eqb) in H. destruct (aget N.eqb (roots s) a') as [r'|] eqn:E'.
        -- inversion H; subst. destruct (I4 _ _ E') as [n [A B]]. exists n. split; [|exact B].
           eapply node_at_app; [cbn; reflexivity|assumption].
        -- cbn in H. destruct (N.eqb_spec a' a); [|discriminate]. inversion H; subst.
           exists nr. split; [|reflexivity]. unfold node_at. cbn. rewrite nth_error_app2 by lia.
           rewrite Nat.sub_diag. reflexivity.
    + exists nr. split; [|reflexivity]. unfold node_at. cbn. rewrite nth_error_app2 by lia.
      rewrite Nat.sub_diag. reflexivity.
Qed.

Lemma save_balance_inv s a bal call : Inv s -> Inv (save_balance s a bal call).
Proof.
  intros I. unfold save_balance. destruct (ensure_root s a) as [s1 r] eqn:E.
  apply journal_inv. pose proof (ensure_root_inv s a I) as [H _]. rewrite E in H. exact H.
Qed.

Lemma save_change_inv s a sl off ty call v : Inv s -> Inv (fst (save_change s a sl off ty call v)).
Proof.
  intros I. unfold save_change. destruct (offset_u8 off); [|exact I|exact I].
  destruct (root_of s a); [|exact I]. destruct (find_key s a sl a0 ty); [|exact I].
  cbn. apply journal_inv. exact I.
Qed.

(** refused operations change nothing at all *)
Theorem save_change_refused s a sl off ty call v e :
  snd (save_change s a sl off ty call v) = Err e -> fst (save_change s a sl off ty call v) = s.
Proof.
  unfold save_change. destruct (offset_u8 off); [|reflexivity|reflexivity].
  destruct (root_of s a); [|reflexivity]. destruct (find_key s a sl a0 ty); [|reflexivity].
  cbn. discriminate.
Qed.

Theorem save_key_refused s a parent sl off ty data e :
  snd (save_key s a parent sl off ty data) = Err e -> fst (save_key s a parent sl off ty data) = s.
Proof.
  unfold save_key. destruct (offset_u8 off); [|reflexivity|reflexivity].
  destruct parent as [[ps pt]|].
  - destruct (find_key s a ps 0 pt); [|reflexivity].
    destruct (add_child s i a sl a0 ty data). cbn. discriminate.
  - destruct (ensure_root s a). destruct (add_child k i a sl a0 ty data). cbn. discriminate.
Qed.

(** ** registration *)

(** The registration (under resolved parent [p]) is consistent with what is already registered:
    (a) the name is not already bound, under this parent, to a different location;
    (b) the location is not already registered under a different parent or name. *)
Definition compatible (s : kt) (acct : N) (p : id) (sl o ty : N) (key : bytes) : Prop :=
  (forall e, cidx s p key = Some e ->
     exists n, node_at s e n /\ n_slot n = sl /\ n_off n = o /\ n_type n = ty) /\
  (forall e, find_key s acct sl o ty = Some e -> cidx s p key = Some e).

Definition register (s : kt) (acct : N) (p : id) (sl o ty : N) (key : bytes) : kt :=
  let '(s2, c) := add_child s p acct sl o ty key in add_key s2 acct c.

Lemma nth_error_snoc {A} (l : list A) x : nth_error (l ++ [x]) (length l) = Some x.
Proof. rewrite nth_error_app2 by lia. rewrite Nat.sub_diag. reflexivity. Qed.

Lemma register_inv s acct p np sl o ty key :
  Inv s -> node_at s p np -> n_acct np = acct -> compatible s acct p sl o ty key ->
  Inv (register s acct p sl o ty key).
Proof.
  intros I Hp Hacct [Ca Cb]. pose proof I as [I1 I2 I3 I4].
  unfold register, add_child.
  set (c := length (nodes s)).
  set (nc := {| n_acct := acct; n_root := false; n_slot := sl; n_off := o; n_type := ty; n_data := key |}).
  destruct (aget eq_inn (children s) (p, sl, o)) as [e0|] eqn:Ek.
  - (* the parent already has a child at this slot and offset *)
    fold (kids s p sl o) in Ek.
    destruct (I2 _ _ _ _ Ek) as [n0 [np0 [A0 [B0 [C0 [D0 [E0 F0]]]]]]].
    unfold node_at in A0. rewrite A0.
    assert (np0 = np) by (unfold node_at in *; congruence). subst np0.
    destruct (n_type n0 =? ty) eqn:Ety.
    + (* same type: the existing key is returned; nothing but an unreferenced node is added *)
      apply N.eqb_eq in Ety.
      assert (Hidx : find_key s acct sl o ty = Some e0) by (rewrite <- Ety, <- Hacct, <- C0; exact F0).
      pose proof (Cb _ Hidx) as Hc.
      unfold add_key. cbn [nodes]. rewrite nth_error_app1 by (apply nth_error_Some; congruence).
      rewrite A0. cbn [roots cindex children index chg raw].
      apply (inv_same_maps s _ [nc]); cbn; try reflexivity.
      * unfold cidx in Hc. rewrite (aput_absent_present eq_ib _ _ _ _ Hc). reflexivity.
      * rewrite D0, E0, Ety. unfold find_key in Hidx.
        rewrite (aput_absent_present eq_n4 _ _ _ _ Hidx). reflexivity.
      * exact I.
    + (* different type: a distinct key *)
      apply N.eqb_neq in Ety.
      unfold add_key. cbn [nodes]. unfold c. rewrite nth_error_snoc. fold c. cbn [roots cindex children index chg raw n_slot n_off n_type nc].
      destruct (cidx s p key) as [e|] eqn:Ec.
      * (* the name is already bound (to this very location, by (a)): nothing changes *)
        destruct (Ca _ eq_refl) as [ne [Ae [Se [Oe Te]]]].
        destruct (I1 _ _ _ Ec) as [n [np' [A [B [C [D E]]]]]].
        assert (n = ne) by (unfold node_at in *; congruence). subst n.
        assert (np' = np) by (unfold node_at in *; congruence). subst np'.
        rewrite Se, Oe, Te, C, Hacct in D.
        apply (inv_same_maps s _ [nc]); cbn; try reflexivity.
        -- unfold cidx in Ec. rewrite (aput_absent_present eq_ib _ _ _ _ Ec). reflexivity.
        -- unfold find_key in D. rewrite (aput_absent_present eq_n4 _ _ _ _ D). reflexivity.
        -- exact I.
      * (* fresh name: by (b) the location is not indexed yet *)
        assert (Hnone : find_key s acct sl o ty = None).
        { destruct (find_key s acct sl o ty) as [e|] eqn:E; [|reflexivity].
          specialize (Cb _ eq_refl). congruence. }
        split; unfold cidx, kids, find_key, root_of, node_at in *; cbn [nodes roots cindex children index].
        -- intros p' key' c' H. rewrite (aget_aput_absent eq_ib eq_ib_spec) in H.
           destruct (aget eq_ib (cindex s) (p', key')) as [c0|] eqn:E0'.
           ++ inversion H; subst c0. destruct (I1 _ _ _ E0') as [n [np' [A [B [C [D E]]]]]].
              exists n, np'. repeat split; eauto.
              ** rewrite nth_error_app1; [exact A|apply nth_error_Some; congruence].
              ** rewrite nth_error_app1; [exact B|apply nth_error_Some; congruence].
              ** apply (aget_aput_absent_mono eq_n4 eq_n4_spec). exact D.
           ++ destruct (eq_ib (p', key') (p, key)) eqn:Eq; [|discriminate].
              apply eq_ib_spec in Eq. inversion Eq; subst p' key'. inversion H; subst c'.
              exists nc, np. repeat split.
              ** apply nth_error_snoc.
              ** rewrite nth_error_app1; [exact Hp|apply nth_error_Some; congruence].
              ** cbn. congruence.
              ** cbn [nc n_acct n_slot n_off n_type]. rewrite (aget_aput_absent eq_n4 eq_n4_spec), Hnone.
                 rewrite (eqb_refl' eq_n4 eq_n4_spec). reflexivity.
              ** cbn [nc n_slot n_off]. rewrite Ek. discriminate.
        -- intros p' sl' o' e H. destruct (I2 _ _ _ _ H) as [n [np' [A [B [C [D [E F]]]]]]].
           exists n, np'. repeat split; eauto.
           ** rewrite nth_error_app1; [exact A|apply nth_error_Some; congruence].
           ** rewrite nth_error_app1; [exact B|apply nth_error_Some; congruence].
           ** apply (aget_aput_absent_mono eq_n4 eq_n4_spec). exact F.
        -- intros a' sl' o' ty' k H. rewrite (aget_aput_absent eq_n4 eq_n4_spec) in H.
           destruct (aget eq_n4 (index s) (a', sl', o', ty')) as [k0|] eqn:E0'.
           ++ inversion H; subst k0. destruct (I3 _ _ _ _ _ E0') as [n [A B]]. exists n. split; [|exact B].
              rewrite nth_error_app1; [exact A|apply nth_error_Some; congruence].
           ++ destruct (eq_n4 (a', sl', o', ty') (acct, sl, o, ty)) eqn:Eq; [|discriminate].
              apply eq_n4_spec in Eq. inversion Eq; subst. inversion H; subst k.
              exists nc. split; [apply nth_error_snoc|repeat split].
        -- intros a' r H. destruct (I4 _ _ H) as [n [A B]]. exists n. split; [|exact B].
           rewrite nth_error_app1; [exact A|apply nth_error_Some; congruence].
  - (* first child of this parent at this slot and offset *)
    fold (kids s p sl o) in Ek.
    assert (Hcn : cidx s p key = None).
    { destruct (cidx s p key) as [e|] eqn:Ec; [|reflexivity].
      destruct (Ca _ eq_refl) as [ne [Ae [Se [Oe Te]]]].
      destruct (I1 _ _ _ Ec) as [n [np' [A [B [C [D E]]]]]].
      assert (n = ne) by (unfold node_at in *; congruence). subst n.
      rewrite Se, Oe in E. contradiction. }
    assert (Hnone : find_key s acct sl o ty = None).
    { destruct (find_key s acct sl o ty) as [e|] eqn:E; [|reflexivity].
      specialize (Cb _ eq_refl). congruence. }
    unfold add_key. cbn [nodes]. unfold c. rewrite nth_error_snoc. fold c.
    cbn [roots cindex children index chg raw n_slot n_off n_type nc].
    split; unfold cidx, kids, find_key, root_of, node_at in *; cbn [nodes roots cindex children index].
    + intros p' key' c' H. rewrite (aget_aput_absent eq_ib eq_ib_spec) in H.
      destruct (aget eq_ib (cindex s) (p', key')) as [c0|] eqn:E0'.
      * inversion H; subst c0. destruct (I1 _ _ _ E0') as [n [np' [A [B [C [D E]]]]]].
        exists n, np'. repeat split; eauto.
        -- rewrite nth_error_app1; [exact A|apply nth_error_Some; congruence].
        -- rewrite nth_error_app1; [exact B|apply nth_error_Some; congruence].
        -- apply (aget_aput_absent_mono eq_n4 eq_n4_spec). exact D.
        -- rewrite (aget_app eq_inn). destruct (aget eq_inn (children s) (p', n_slot n, n_off n)); [discriminate|contradiction].
      * destruct (eq_ib (p', key') (p, key)) eqn:Eq; [|discriminate].
        apply eq_ib_spec in Eq. inversion Eq; subst p' key'. inversion H; subst c'.
        exists nc, np. repeat split.
        -- apply nth_error_snoc.
        -- rewrite nth_error_app1; [exact Hp|apply nth_error_Some; congruence].
        -- cbn. congruence.
        -- cbn [nc n_acct n_slot n_off n_type]. rewrite (aget_aput_absent eq_n4 eq_n4_spec), Hnone.
           rewrite (eqb_refl' eq_n4 eq_n4_spec). reflexivity.
        -- cbn [nc n_slot n_off]. rewrite (aget_app eq_inn), Ek. cbn [aget].
           rewrite (eqb_refl' eq_inn eq_inn_spec). discriminate.
    + intros p' sl' o' e H. rewrite (aget_app eq_inn) in H.
      destruct (aget eq_inn (children s) (p', sl', o')) as [e1|] eqn:E1.
      * inversion H; subst e1. destruct (I2 _ _ _ _ E1) as [n [np' [A [B [C [D [E F]]]]]]].
        exists n, np'. repeat split; eauto.
        -- rewrite nth_error_app1; [exact A|apply nth_error_Some; congruence].
        -- rewrite nth_error_app1; [exact B|apply nth_error_Some; congruence].
        -- apply (aget_aput_absent_mono eq_n4 eq_n4_spec). exact F.
      * cbn [aget] in H. destruct (eq_inn (p', sl', o') (p, sl, o)) eqn:Eq; [|discriminate].
        apply eq_inn_spec in Eq. inversion Eq; subst p' sl' o'. inversion H; subst e.
        exists nc, np. repeat split.
        -- apply nth_error_snoc.
        -- rewrite nth_error_app1; [exact Hp|apply nth_error_Some; congruence].
        -- cbn. congruence.
        -- cbn [nc n_acct n_type]. rewrite (aget_aput_absent eq_n4 eq_n4_spec), Hnone.
           rewrite (eqb_refl' eq_n4 eq_n4_spec). reflexivity.
    + intros a' sl' o' ty' k H. rewrite (aget_aput_absent eq_n4 eq_n4_spec) in H.
      destruct (aget eq_n4 (index s) (a', sl', o', ty')) as [k0|] eqn:E0'.
      * inversion H; subst k0. destruct (I3 _ _ _ _ _ E0') as [n [A B]]. exists n. split; [|exact B].
        rewrite nth_error_app1; [exact A|apply nth_error_Some; congruence].
      * destruct (eq_n4 (a', sl', o', ty') (acct, sl, o, ty)) eqn:Eq; [|discriminate].
        apply eq_n4_spec in Eq. inversion Eq; subst. inversion H; subst k.
        exists nc. split; [apply nth_error_snoc|repeat split].
    + intros a' r H. destruct (I4 _ _ H) as [n [A B]]. exists n. split; [|exact B].
      rewrite nth_error_app1; [exact A|apply nth_error_Some; congruence].
Qed.

(** ** histories *)

Inductive kop :=
| KReg (acct : N) (parent : option (N * N)) (slot : N) (off : option N) (ty : N) (data : bytes)
| KChange (acct slot : N) (off : option N) (ty call : N) (v : bytes)
| KBalance (acct : N) (bal : bytes) (call : N).

Definition kstep (s : kt) (o : kop) : kt :=
  match o with
  | KReg a p sl off ty d => fst (save_key s a p sl off ty d)
  | KChange a sl off ty call v => fst (save_change s a sl off ty call v)
  | KBalance a bal call => save_balance s a bal call
  end.

(** consistency of one operation with the state it is applied to (only registrations that are not
    refused carry a condition) *)
Definition op_compatible (s : kt) (op : kop) : Prop :=
  match op with
  | KReg a parent sl off ty d =>
    match offset_u8 off with
    | Ok o =>
      match parent with
      | None => let '(s1, r) := ensure_root s a in compatible s1 a r sl o ty d
      | Some (ps, pt) =>
        match find_key s a ps 0 pt with
        | Some p => compatible s a p sl o ty d
        | None => True
        end
      end
    | _ => True
    end
  | _ => True
  end.

Fixpoint hist_ok (s : kt) (ops : list kop) : Prop :=
  match ops with
  | [] => True
  | o :: r => op_compatible s o /\ hist_ok (kstep s o) r
  end.

Lemma kstep_inv s o : Inv s -> op_compatible s o -> Inv (kstep s o).
Proof.
  intros I C. destruct o as [a parent sl off ty d|a sl off ty call v|a bal call]; cbn [kstep].
  - unfold save_key. cbn [op_compatible] in C. destruct (offset_u8 off) as [o| |]; [|exact I|exact I].
    destruct parent as [[ps pt]|].
    + destruct (find_key s a ps 0 pt) as [p|] eqn:Ep; [|exact I].
      destruct (i_index s I _ _ _ _ _ Ep) as [np [A [B _]]].
      pose proof (register_inv s a p np sl o ty d I A B C) as R. unfold register in R.
      destruct (add_child s p a sl o ty d) as [s2 c]. exact R.
    + pose proof (ensure_root_inv s a I) as [I1 [nr [A B]]].
      destruct (ensure_root s a) as [s1 r]. cbn [fst snd] in *.
      pose proof (register_inv s1 a r nr sl o ty d I1 A B C) as R. unfold register in R.
      destruct (add_child s1 r a sl o ty d) as [s2 c]. exact R.
  - apply save_change_inv. exact I.
  - apply save_balance_inv. exact I.
Qed.

Theorem inv_reachable ops : forall s, Inv s -> hist_ok s ops -> Inv (fold_left kstep ops s).
Proof.
  induction ops as [|o r IH]; intros s I H; [exact I|].
  destruct H as [C H]. cbn [fold_left]. apply IH; [apply kstep_inv; assumption|exact H].
Qed.

(** ** lookup agreement *)

Lemma walk_agree s : Inv s -> forall path cur ncur k,
  node_at s cur ncur -> path <> [] -> walk s cur path = Some k ->
  exists n, node_at s k n /\ n_acct n = n_acct ncur /\
            find_key s (n_acct n) (n_slot n) (n_off n) (n_type n) = Some k.
Proof.
  intros I. induction path as [|key t IH]; intros cur ncur k Hc Hne H; [congruence|].
  cbn [walk] in H. destruct (aget eq_ib (cindex s) (cur, key)) as [c|] eqn:E; [|discriminate].
  fold (cidx s cur key) in E. destruct (i_cidx s I _ _ _ E) as [n [np [A [B [C [D _]]]]]].
  assert (np = ncur) by (unfold node_at in *; congruence). subst np.
  destruct t as [|key2 t'].
  - cbn in H. inversion H; subst k. exists n. repeat split; assumption.
  - destruct (IH c n k A ltac:(discriminate) H) as [n' [A' [B' C']]].
    exists n'. repeat split; [assumption|congruence|assumption].
Qed.

(** Looking a variable up by name and index path and looking it up by (slot, offset, type) reach
    the same record — in every state reachable by a consistent history. *)
Theorem lookup_agreement s acct name idxs k :
  Inv s -> find_key_indices s acct name idxs = Some k ->
  exists n, node_at s k n /\ n_acct n = acct /\ find_key s acct (n_slot n) (n_off n) (n_type n) = Some k.
Proof.
  intros I H. unfold find_key_indices in H. destruct (root_of s acct) as [r|] eqn:Er; [|discriminate].
  destruct (i_roots s I _ _ Er) as [nr [A B]].
  destruct (walk_agree s I (name :: idxs) r nr k A ltac:(discriminate) H) as [n [A' [B' C']]].
  exists n. repeat split; [assumption|congruence|]. rewrite <- B, <- B'. exact C'.
Qed.

(** a successful registration is reachable by its name under its parent, for ever after *)
Lemma register_binds s acct p sl o ty key :
  cidx (register s acct p sl o ty key) p key <> None.
Proof.
  unfold register, add_child.
  destruct (aget eq_inn (children s) (p, sl, o)) as [e0|].
  - destruct (match nth_error (nodes s) e0 with Some ne => n_type ne =? ty | None => false end);
      unfold add_key; cbn [nodes];
      match goal with |- context [nth_error ?l ?i] => destruct (nth_error l i) end;
      unfold cidx; cbn [cindex]; rewrite (aget_aput_absent eq_ib eq_ib_spec);
      destruct (aget eq_ib (cindex s) (p, key)); try discriminate;
      rewrite (eqb_refl' eq_ib eq_ib_spec); discriminate.
  - unfold add_key; cbn [nodes];
      match goal with |- context [nth_error ?l ?i] => destruct (nth_error l i) end;
      unfold cidx; cbn [cindex]; rewrite (aget_aput_absent eq_ib eq_ib_spec);
      destruct (aget eq_ib (cindex s) (p, key)); try discriminate;
      rewrite (eqb_refl' eq_ib eq_ib_spec); discriminate.
Qed.

(** first-wins monotonicity of name bindings and index entries under every operation *)
Lemma cidx_mono_register s acct p sl o ty key p' key' c :
  cidx s p' key' = Some c -> cidx (register s acct p sl o ty key) p' key' = Some c.
Proof.
  intros H. unfold register, add_child.
  destruct (aget eq_inn (children s) (p, sl, o)) as [e0|].
  - destruct (match nth_error (nodes s) e0 with Some ne => n_type ne =? ty | None => false end);
      unfold add_key; cbn [nodes];
      match goal with |- context [nth_error ?l ?i] => destruct (nth_error l i) end;
      unfold cidx in *; cbn [cindex]; apply (aget_aput_absent_mono eq_ib eq_ib_spec); exact H.
  - unfold add_key; cbn [nodes];
      match goal with |- context [nth_error ?l ?i] => destruct (nth_error l i) end;
      unfold cidx in *; cbn [cindex]; apply (aget_aput_absent_mono eq_ib eq_ib_spec); exact H.
Qed.

(** ** a journaled change is seen through both lookups *)

Lemma journal_changes_of s k call v :
  changes_of (journal s k call v) k =
    Some (append_change (match changes_of s k with Some c => c | None => [] end) call v).
Proof.
  unfold changes_of, journal. cbn [chg]. rewrite (aget_aset Nat.eqb nat_eqb_spec), Nat.eqb_refl. reflexivity.
Qed.

Theorem change_visible_both_ways s acct name idxs k n off call v :
  Inv s -> find_key_indices s acct name idxs = Some k -> node_at s k n -> offset_u8 off = Ok (n_off n) ->
  let r := save_change s acct (n_slot n) off (n_type n) call v in
  snd r = Ok tt /\
  variable (fst r) acct name idxs = changes_of (fst r) k /\
  slot_lookup (fst r) acct (n_slot n) off (n_type n) = Ok (changes_of (fst r) k) /\
  changes_of (fst r) k = Some (append_change (match changes_of s k with Some c => c | None => [] end) call v).
Proof.
  intros I H A Ho. destruct (lookup_agreement s acct name idxs k I H) as [n' [A' [B' C']]].
  assert (n' = n) by (unfold node_at in *; congruence). subst n'.
  cbn zeta. unfold save_change. rewrite Ho.
  assert (Hr : root_of s acct <> None).
  { unfold find_key_indices in H. destruct (root_of s acct); [discriminate|discriminate]. }
  destruct (root_of s acct) as [r|] eqn:Er; [|contradiction]. rewrite C'. cbn [fst snd].
  split; [reflexivity|]. split; [|split].
  - unfold variable, find_key_indices, root_of in *. cbn [journal roots cindex].
    assert (W : forall cur path, walk (journal s k call v) cur path = walk s cur path).
    { intros cur path. revert cur. induction path as [|x t IH]; intros cur; [reflexivity|]. cbn [walk journal cindex].
      destruct (aget eq_ib (cindex s) (cur, x)); [apply IH|reflexivity]. }
    rewrite Er in *. rewrite W, H. reflexivity.
  - unfold slot_lookup. rewrite Ho. unfold find_key in *. cbn [journal index]. rewrite C'. reflexivity.
  - apply journal_changes_of.
Qed.

(** the value just journaled is the last one recorded for that call *)
Lemma aget_append_change c call v :
  exists l, aget N.eqb (append_change c call v) call = Some l /\ last l [] = v /\ l <> [].
Proof.
  unfold append_change. destruct (aget N.eqb c call) as [l|] eqn:E.
  - destruct (rev l) as [|x t] eqn:Er.
    + rewrite (aget_aset N.eqb N_eqb_spec), N.eqb_refl. exists (l ++ [v]). split; [reflexivity|].
      split; [apply last_last|destruct l; discriminate].
    + destruct (bytes_eqb x v) eqn:Eb.
      * apply bytes_eqb_eq in Eb. subst x. exists l. split; [exact E|].
        assert (l = rev (v :: t)) by (rewrite <- Er, rev_involutive; reflexivity). subst l. cbn.
        split; [apply last_last|destruct (rev t); discriminate].
      * rewrite (aget_aset N.eqb N_eqb_spec), N.eqb_refl. exists (l ++ [v]). split; [reflexivity|].
        split; [apply last_last|destruct l; discriminate].
  - rewrite (aget_app N.eqb), E. cbn. rewrite N.eqb_refl. exists [v]. repeat split. discriminate.
Qed.

(** ** the child indices reported for a node are exactly those registered under it *)

Lemma insert_sorted_perm x l : Permutation (insert_sorted x l) (x :: l).
Proof.
  induction l as [|y t IH]; cbn; [reflexivity|]. destruct (bytes_leb x y); [reflexivity|].
  rewrite IH. apply perm_swap.
Qed.
Lemma sort_bytes_perm l : Permutation (sort_bytes l) l.
Proof.
  induction l as [|x l IH]; cbn; [reflexivity|]. rewrite insert_sorted_perm. constructor. exact IH.
Qed.

Theorem children_indices_exact s k key :
  In key (children_indices s k) <-> cidx s k key <> None.
Proof.
  unfold children_indices, cidx.
  rewrite (Permutation_in' (eq_refl key) (sort_bytes_perm _)), in_map_iff.
  split.
  - intros [[[p key'] c] [E H]]. cbn in E. subst key'. apply filter_In in H as [H Hp].
    cbn in Hp. apply Nat.eqb_eq in Hp. subst p.
    destruct (In_aget eq_ib eq_ib_spec _ _ _ H) as [v Hv]. intros Hn.
    change (aget eq_ib (cindex s) (k, key) = Some v) in Hv. congruence.
  - intros H. destruct (aget eq_ib (cindex s) (k, key)) as [c|] eqn:E; [|contradiction].
    exists ((k, key), c). split; [reflexivity|]. apply filter_In. split; [|apply Nat.eqb_refl].
    apply (aget_In eq_ib eq_ib_spec). exact E.
Qed.

(** ** canonical order of the reported child indices (C16) *)

Lemma bytes_leb_refl a : bytes_leb a a = true.
Proof. induction a as [|x a IH]; cbn; [reflexivity|]. rewrite N.ltb_irrefl. exact IH. Qed.

Lemma bytes_leb_total a b : bytes_leb a b = true \/ bytes_leb b a = true.
Proof.
  revert b. induction a as [|x a IH]; intros [|y b]; cbn; auto.
  destruct (x <? y) eqn:E1; [auto|]. destruct (y <? x) eqn:E2; [auto|]. apply IH.
Qed.

Lemma bytes_leb_antisym a b : bytes_leb a b = true -> bytes_leb b a = true -> a = b.
Proof.
  revert b. induction a as [|x a IH]; intros [|y b]; cbn; try discriminate; [reflexivity|].
  destruct (x <? y) eqn:E1; destruct (y <? x) eqn:E2; try discriminate; try lia.
  intros H1 H2. f_equal; [lia|apply IH; assumption].
Qed.

Lemma bytes_leb_trans a b c : bytes_leb a b = true -> bytes_leb b c = true -> bytes_leb a c = true.
Proof.
  revert b c. induction a as [|x a IH]; intros [|y b] [|z c]; cbn; try discriminate; try reflexivity.
  destruct (x <? y) eqn:E1; destruct (y <? x) eqn:E2; destruct (y <? z) eqn:E3; destruct (z <? y) eqn:E4;
    destruct (x <? z) eqn:E5; destruct (z <? x) eqn:E6; try discriminate; try reflexivity; try lia.
  intros H1 H2. assert (x = y) by lia. assert (y = z) by lia. subst. eapply IH; eassumption.
Qed.

Definition bleq (a b : bytes) : Prop := bytes_leb a b = true.

Lemma insert_sorted_sorted x l : StronglySorted bleq l -> StronglySorted bleq (insert_sorted x l).
Proof.
  induction 1 as [|y t S IH Hy]; cbn; [repeat constructor|].
  destruct (bytes_leb x y) eqn:E.
  - constructor; [constructor; assumption|]. constructor; [exact E|].
    rewrite Forall_forall in *. intros z Hz. eapply bytes_leb_trans; [exact E|apply Hy; exact Hz].
  - constructor; [exact IH|]. rewrite Forall_forall in *. intros z Hz.
    apply (Permutation_in _ (insert_sorted_perm x t)) in Hz. destruct Hz as [<-|Hz]; [|apply Hy; exact Hz].
    destruct (bytes_leb_total x y) as [H|H]; [congruence|exact H].
Qed.

Theorem sort_bytes_sorted l : StronglySorted bleq (sort_bytes l).
Proof. induction l as [|x l IH]; cbn; [constructor|apply insert_sorted_sorted; exact IH]. Qed.

Lemma sorted_perm_eq l1 : forall l2, StronglySorted bleq l1 -> StronglySorted bleq l2 -> Permutation l1 l2 -> l1 = l2.
Proof.
  induction l1 as [|x l1 IH]; intros l2 S1 S2 P.
  - apply Permutation_nil in P. congruence.
  - destruct l2 as [|y l2]; [apply Permutation_sym, Permutation_nil in P; discriminate|].
    inversion S1 as [|? ? S1' F1]; subst. inversion S2 as [|? ? S2' F2]; subst.
    rewrite Forall_forall in F1, F2.
    assert (x = y).
    { assert (Hy : In y (x :: l1)) by (apply (Permutation_in _ (Permutation_sym P)); left; reflexivity).
      assert (Hx : In x (y :: l2)) by (apply (Permutation_in _ P); left; reflexivity).
      destruct Hy as [->|Hy]; [reflexivity|]. destruct Hx as [->|Hx]; [reflexivity|].
      apply bytes_leb_antisym; [apply F1; exact Hy|apply F2; exact Hx]. }
    subst y. f_equal. apply IH; try assumption. eapply Permutation_cons_inv. exact P.
Qed.

(** The reported list depends only on WHICH keys are registered under the node, not on the order
    in which they were registered nor on anything else in the history. *)
Theorem children_indices_canonical s1 k1 s2 k2 :
  Permutation (map (fun e => snd (fst e)) (filter (fun e => Nat.eqb (fst (fst e)) k1) (cindex s1)))
              (map (fun e => snd (fst e)) (filter (fun e => Nat.eqb (fst (fst e)) k2) (cindex s2))) ->
  children_indices s1 k1 = children_indices s2 k2.
Proof.
  intros P. unfold children_indices. apply sorted_perm_eq; try apply sort_bytes_sorted.
  rewrite !sort_bytes_perm. exact P.
Qed.
