(* Proofs/CallTracerPrune_proofs.v — flatCallTracer's callbacks build the frame of the tree with (unless
   includePrecompiles) the CALL/STATICCALLs to precompiles removed together with everything below them, and
   its result has the shape of Proofs/CallTracerFlat_proofs.v. *)
From Verif Require Import Base.Bytes Model.CallTracer Proofs.CallTracer_proofs Proofs.CallTracerFlat_proofs.
From Coq Require Import Lia.
Open Scope N_scope.

Section Prune.
  Variables (include_pre : bool) (is_pre : N -> bool).

  Definition norm_ci (i : callinfo) : callinfo :=
    {| ci_typ := ci_typ i; ci_from := ci_from i; ci_to := ci_to i; ci_input := ci_input i; ci_gas := ci_gas i;
       ci_value := Some (match ci_value i with Some v => v | None => 0 end);
       ci_out := ci_out i; ci_used := ci_used i; ci_err := ci_err i |}.
  Definition ci_of (t : ctree) : callinfo := match t with CT i _ _ _ => i end.
  (** dropped: a CALL/STATICCALL to an active precompile, once the tracer knows the precompiles (after CaptureStart) *)
  Definition dropped (started : bool) (i : callinfo) : bool :=
    negb include_pre && (started && (((ci_typ i =? op_call) || (ci_typ i =? op_staticcall)) && is_pre (ci_to i))).

  Fixpoint prune_c (started : bool) (t : ctree) : ctree :=
    match t with
    | CT i pre body post =>
      CT (norm_ci i) (map (prune_a started) pre)
         (flat_map (fun c => if dropped started (ci_of c) then [] else [prune_c started c]) body)
         (map (prune_a started) post)
    end
  with prune_a (started : bool) (a : atree) : atree :=
    match a with
    | AT i calls => AT i (flat_map (fun c => if dropped started (ci_of c) then [] else [prune_c started c]) calls)
    end.
  Definition prune_list (started : bool) (l : list ctree) : list ctree :=
    flat_map (fun c => if dropped started (ci_of c) then [] else [prune_c started c]) l.

  Definition prune_tx (x : txtree) : txtree :=
    {| x_gaslimit := x_gaslimit x; x_rest := x_rest x; x_pretx := map (prune_a false) (x_pretx x);
       x_from := x_from x; x_to := x_to x; x_create := x_create x; x_input := x_input x; x_gas := x_gas x; x_value := x_value x;
       x_pre := map (prune_a true) (x_pre x); x_body := prune_list true (x_body x); x_post := map (prune_a true) (x_post x);
       x_out := x_out x; x_used := x_used x; x_err := x_err x; x_posttx := map (prune_a true) (x_posttx x) |}.

  Notation frun := (ctf_run include_pre is_pre).

  Lemma frun_app s a b :
    frun s (a ++ b) = match frun s a with Ok s' => frun s' b | Err x => Err x | Panic x => Panic x end.
  Proof.
    revert s. induction a as [|e a IH]; intros s; [reflexivity|].
    cbn [app ctf_run]. destruct (ctf_step include_pre is_pre s e); try reflexivity. apply IH.
  Qed.

  Lemma removelast_snoc {A} (l : list A) x : removelast (l ++ [x]) = l.
  Proof. apply removelast_last. Qed.

  Lemma is_dropped_frame b t :
    (if include_pre then false else is_dropped is_pre b (frame_c (prune_c b t))) = dropped b (ci_of t).
  Proof.
    destruct t as [i pre body post]. unfold dropped. destruct include_pre; [reflexivity|]. cbn [negb andb].
    destruct i as [typ from to input gas value out used err].
    cbn [prune_c frame_c norm_ci ci_typ ci_to ci_of ci_err ci_from ci_input ci_gas ci_value ci_out ci_used]. unfold process_output, is_dropped.
    destruct err as [e|]; [|reflexivity].
    destruct ((typ =? op_create) || (typ =? op_create2)) eqn:Ec.
    - assert (Hn : (typ =? op_call) || (typ =? op_staticcall) = false).
      { apply Bool.orb_true_iff in Ec as [Ec|Ec]; apply N.eqb_eq in Ec; rewrite Ec; reflexivity. }
      rewrite Hn. destruct (String.eqb e revert_text && _); destruct b; reflexivity.
    - destruct (String.eqb e revert_text && _); reflexivity.
  Qed.

  (* the precompile filter right after a successful attach *)
  Lemma fixup_after_attach top c p rest g b :
    attach_call top c = Ok p ->
    flat_fixup is_pre (st (p :: rest) g b) = Ok (st ((if is_dropped is_pre b c then top else p) :: rest) g b).
  Proof.
    unfold attach_call, flat_fixup. cbn [st t_stack t_gaslimit t_started]. destruct top as [f m]. cbn [o_marker o_frame].
    destruct (m =? 0) eqn:Em.
    - apply N.eqb_eq in Em. subst m. intros E. inversion E; subst p; clear E. cbn [o_marker o_frame N.eqb negb].
      unfold drop_last. destruct f; cbn [cf_add_call cf_calls cf_set_calls]. rewrite rev_snoc.
      destruct (is_dropped is_pre b c); [rewrite removelast_snoc|]; reflexivity.
    - unfold add_call_to_last_jp. destruct (rev (cf_jps f)) as [|a r] eqn:Er; [discriminate|].
      intros E. inversion E; subst p; clear E. cbn [o_marker o_frame]. rewrite Em. cbn [negb].
      assert (Ej : cf_jps (cf_set_jps f (rev r ++ [af_add_call a c])) = rev r ++ [af_add_call a c]) by (destruct f; reflexivity).
      rewrite Ej, rev_snoc, rev_involutive.
      unfold drop_last. destruct a; cbn [af_add_call af_calls af_set_calls]. rewrite rev_snoc.
      assert (Ef : cf_jps f = rev r ++ [AF jp aspect from to input gas used output err calls value exited]).
      { rewrite <- (rev_involutive (cf_jps f)), Er. reflexivity. }
      destruct (is_dropped is_pre b c).
      + rewrite removelast_snoc. destruct f; cbn in *. rewrite Ef. reflexivity.
      + destruct f; reflexivity.
  Qed.

  Definition fruns_c (t : ctree) : Prop :=
    forall top rest g b k,
      frun (st (top :: rest) g b) (events_c t ++ k) =
      match attach_call top (frame_c (prune_c b t)) with
      | Ok p => frun (st ((if dropped b (ci_of t) then top else p) :: rest) g b) k
      | Err x => Err x | Panic x => Panic x
      end.
  Definition fruns_a (a : atree) : Prop :=
    forall f m rest g b k,
      frun (st (of f m :: rest) g b) (events_a a ++ k) =
      frun (st (of (cf_add_jp f (frame_a (prune_a b a))) 0 :: rest) g b) k.

  Lemma fruns_aspects l : Forall fruns_a l -> forall f m rest g b k,
    frun (st (of f m :: rest) g b) (flat_map events_a l ++ k) =
    frun (st (of (cf_set_jps f (cf_jps f ++ map frame_a (map (prune_a b) l))) (match l with [] => m | _ => 0 end) :: rest) g b) k.
  Proof.
    induction 1 as [|a l Ha _ IH]; intros f m rest g b k.
    - cbn. rewrite app_nil_r. destruct f; reflexivity.
    - cbn [flat_map]. rewrite <- app_assoc. rewrite Ha. rewrite IH.
      replace (match l with [] => 0 | _ :: _ => 0 end) with 0 by (destruct l; reflexivity).
      replace (cf_set_jps (cf_add_jp f (frame_a (prune_a b a))) (cf_jps (cf_add_jp f (frame_a (prune_a b a))) ++ map frame_a (map (prune_a b) l)))
        with (cf_set_jps f (cf_jps f ++ map frame_a (map (prune_a b) (a :: l)))); [reflexivity|].
      destruct f; cbn. rewrite <- app_assoc. reflexivity.
  Qed.

  Lemma fruns_calls l : Forall fruns_c l -> forall f rest g b k,
    frun (st (of f 0 :: rest) g b) (flat_map events_c l ++ k) =
    frun (st (of (cf_set_calls f (cf_calls f ++ map frame_c (prune_list b l))) 0 :: rest) g b) k.
  Proof.
    induction 1 as [|c l Hc _ IH]; intros f rest g b k.
    - cbn. rewrite app_nil_r. destruct f; reflexivity.
    - cbn [flat_map]. rewrite <- app_assoc. rewrite Hc. unfold attach_call. cbn [of o_marker o_frame N.eqb].
      unfold prune_list. cbn [flat_map]. fold (prune_list b l).
      destruct (dropped b (ci_of c)).
      + change ({| o_frame := f; o_marker := 0 |}) with (of f 0). rewrite IH. reflexivity.
      + change ({| o_frame := cf_add_call f (frame_c (prune_c b c)); o_marker := 0 |}) with (of (cf_add_call f (frame_c (prune_c b c))) 0).
        rewrite IH.
        replace (cf_set_calls (cf_add_call f (frame_c (prune_c b c))) (cf_calls (cf_add_call f (frame_c (prune_c b c))) ++ map frame_c (prune_list b l)))
          with (cf_set_calls f (cf_calls f ++ map frame_c ([prune_c b c] ++ prune_list b l))); [reflexivity|].
        destruct f; cbn. rewrite <- app_assoc. reflexivity.
  Qed.

  Lemma fruns_calls_in_aspect l : Forall fruns_c l -> forall f J a m rest g b k,
    m <> 0 -> cf_jps f = J ++ [a] ->
    frun (st (of f m :: rest) g b) (flat_map events_c l ++ k) =
    frun (st (of (cf_set_jps f (J ++ [af_set_calls a (af_calls a ++ map frame_c (prune_list b l))])) m :: rest) g b) k.
  Proof.
    induction 1 as [|c l Hc _ IH]; intros f J a m rest g b k Hm HJ.
    - cbn. rewrite app_nil_r. destruct a, f; cbn in *; subst; reflexivity.
    - cbn [flat_map]. rewrite <- app_assoc. rewrite Hc. unfold attach_call. cbn [of o_marker o_frame].
      apply N.eqb_neq in Hm. rewrite Hm. rewrite HJ, add_call_last.
      unfold prune_list. cbn [flat_map]. fold (prune_list b l).
      destruct (dropped b (ci_of c)).
      + change ({| o_frame := f; o_marker := m |}) with (of f m).
        rewrite (IH f J a m rest g b k); [reflexivity|apply N.eqb_neq; exact Hm|exact HJ].
      + change ({| o_frame := ?x; o_marker := m |}) with (of x m).
        rewrite (IH _ J (af_add_call a (frame_c (prune_c b c))) m rest g b k); [|apply N.eqb_neq; exact Hm|destruct f; reflexivity].
        f_equal. f_equal. f_equal. destruct f, a; cbn. rewrite <- app_assoc. reflexivity.
  Qed.

  Lemma ftree_runs : (forall t, wf_c t = true -> fruns_c t) /\ (forall a, wf_a a = true -> fruns_a a).
  Proof.
    apply (tree_ind2 (fun t => wf_c t = true -> fruns_c t) (fun a => wf_a a = true -> fruns_a a)).
    - intros i pre body post Hpre Hbody Hpost Hwf. cbn [wf_c] in Hwf.
      apply andb_prop in Hwf as [Hwf W3]. apply andb_prop in Hwf as [W1 W2].
      assert (Fpre : Forall fruns_a pre).
      { rewrite forallb_forall in W1. rewrite Forall_forall in *. intros a Ha. apply Hpre; [exact Ha|apply W1; exact Ha]. }
      assert (Fbody : Forall fruns_c body).
      { rewrite forallb_forall in W2. rewrite Forall_forall in *. intros a Ha. apply Hbody; [exact Ha|apply W2; exact Ha]. }
      assert (Fpost : Forall fruns_a post).
      { rewrite forallb_forall in W3. rewrite Forall_forall in *. intros a Ha. apply Hpost; [exact Ha|apply W3; exact Ha]. }
      intros top rest g b k. cbn [events_c]. cbn [app ctf_run ctf_step ct_step].
      cbn [t_stack t_gaslimit t_started st].
      set (new := CF (ci_typ i) (ci_from i) (Some (ci_to i)) (ci_input i) (ci_gas i) 0 [] ""%string [] []
                     (Some (match ci_value i with Some v => v | None => 0 end)) []).
      change ({| o_frame := new; o_marker := 0 |}) with (of new 0).
      change ({| t_stack := of new 0 :: top :: rest; t_gaslimit := g; t_started := b |}) with (st (of new 0 :: top :: rest) g b).
      rewrite <- !app_assoc. rewrite (fruns_aspects pre Fpre).
      assert (M0 : forall (l : list atree), match l with [] => 0 | _ :: _ => 0 end = 0) by (intros []; reflexivity).
      rewrite M0. rewrite (fruns_calls body Fbody). rewrite (fruns_aspects post Fpost). rewrite M0.
      cbn [app ctf_run ctf_step ct_step st t_stack t_gaslimit t_started of o_frame].
      subst new. cbn [cf_jps cf_set_jps cf_calls cf_set_calls cf_set_used app].
      change (process_output _ (ci_out i) (ci_err i)) with (frame_c (prune_c b (CT i pre body post))).
      destruct (attach_call top (frame_c (prune_c b (CT i pre body post)))) as [p| |] eqn:Ea; try reflexivity.
      change ({| t_stack := p :: rest; t_gaslimit := g; t_started := b |}) with (st (p :: rest) g b).
      pose proof (is_dropped_frame b (CT i pre body post)) as Hd.
      destruct include_pre.
      + rewrite <- Hd. reflexivity.
      + rewrite (fixup_after_attach _ _ _ _ _ _ Ea). rewrite Hd. reflexivity.
    - intros i calls Hcalls Hwf. cbn [wf_a] in Hwf. apply andb_prop in Hwf as [Wj Wc].
      assert (Fc : Forall fruns_c calls).
      { rewrite forallb_forall in Wc. rewrite Forall_forall in *. intros a Ha. apply Hcalls; [exact Ha|apply Wc; exact Ha]. }
      apply Bool.negb_true_iff in Wj. apply N.eqb_neq in Wj.
      intros f m rest g b k. cbn [events_a app ctf_run ctf_step ct_step st t_stack t_gaslimit t_started].
      set (a0 := AF (ai_jp i) (ai_aspect i) (ai_from i) (ai_to i) (ai_input i) (ai_gas i) 0 [] ""%string []
                    (match ai_value i with Some v => v | None => 0 end) false).
      cbn [of o_frame].
      change ({| t_stack := ?x; t_gaslimit := ?y; t_started := ?z |}) with (st x y z).
      change ({| o_frame := ?x; o_marker := ?y |}) with (of x y).
      rewrite <- app_assoc.
      rewrite (fruns_calls_in_aspect calls Fc (cf_add_jp f a0) (cf_jps f) a0 (ai_jp i) rest g b _ Wj) by (destruct f; reflexivity).
      cbn [app ctf_run ctf_step ct_step st t_stack t_gaslimit t_started of o_frame].
      assert (E : cf_jps (cf_set_jps (cf_add_jp f a0) (cf_jps f ++ [af_set_calls a0 (af_calls a0 ++ map frame_c (prune_list b calls))])) =
                  cf_jps f ++ af_set_calls a0 (map frame_c (prune_list b calls)) :: []) by (destruct f; reflexivity).
      rewrite E. rewrite update_last_jp_open by reflexivity.
      change ({| t_stack := ?x; t_gaslimit := ?y; t_started := ?z |}) with (st x y z).
      change ({| o_frame := ?x; o_marker := ?y |}) with (of x y).
      f_equal. f_equal. f_equal. destruct f; reflexivity.
  Qed.

  Lemma forall_fruns_c l : forallb wf_c l = true -> Forall fruns_c l.
  Proof. intros H. rewrite forallb_forall in H. apply Forall_forall. intros t Ht. apply (proj1 ftree_runs). apply H. exact Ht. Qed.
  Lemma forall_fruns_a l : forallb wf_a l = true -> Forall fruns_a l.
  Proof. intros H. rewrite forallb_forall in H. apply Forall_forall. intros t Ht. apply (proj2 ftree_runs). apply H. exact Ht. Qed.

  (** flatCallTracer's callbacks leave exactly the frame of the pruned tree on the wrapped callTracer's stack *)
  Theorem ctf_tree_exact x :
    wf_tx x = true ->
    frun t_init (events_tx x) = Ok (st [of (frame_tx (prune_tx x)) 0] (x_gaslimit x) true).
  Proof.
    intros Hwf. unfold wf_tx in Hwf.
    apply andb_prop in Hwf as [Hwf W5]. apply andb_prop in Hwf as [Hwf W4]. apply andb_prop in Hwf as [Hwf W3].
    apply andb_prop in Hwf as [W1 W2].
    apply forall_fruns_a in W1, W2, W4, W5. apply forall_fruns_c in W3.
    unfold events_tx, t_init. cbn [ctf_run ctf_step ct_step t_stack t_gaslimit t_started].
    change ({| t_stack := ?x; t_gaslimit := ?y; t_started := ?z |}) with (st x y z).
    change ({| o_frame := ?x; o_marker := ?y |}) with (of x y).
    rewrite (fruns_aspects _ W1).
    assert (M0 : forall (l : list atree), match l with [] => 0 | _ :: _ => 0 end = 0) by (intros []; reflexivity).
    rewrite M0. cbn [ctf_run ctf_step ct_step st t_stack t_gaslimit t_started upd_bottom rev app of o_frame o_marker].
    cbn [empty_frame cf_jps cf_set_jps app].
    change ({| t_stack := ?x; t_gaslimit := ?y; t_started := ?z |}) with (st x y z).
    change ({| o_frame := ?x; o_marker := ?y |}) with (of x y).
    rewrite (fruns_aspects _ W2). rewrite M0. rewrite (fruns_calls _ W3). rewrite (fruns_aspects _ W4). rewrite M0.
    cbn [ctf_run ctf_step ct_step st t_stack t_gaslimit t_started upd_bottom rev app of o_frame o_marker].
    change ({| t_stack := ?x; t_gaslimit := ?y; t_started := ?z |}) with (st x y z).
    change ({| o_frame := ?x; o_marker := ?y |}) with (of x y).
    rewrite (fruns_aspects _ W5). rewrite M0.
    cbn [ctf_run ctf_step ct_step st t_stack t_gaslimit t_started upd_bottom rev app of o_frame o_marker].
    unfold st, of. f_equal. f_equal. f_equal. f_equal.
    rewrite process_output_add_jps. rewrite process_output_set_used.
    unfold frame_tx, prune_tx. cbn [cf_jps cf_set_jps cf_calls cf_set_calls cf_set_used app x_gaslimit x_rest x_pretx x_from x_to x_create x_input
                                   x_value x_pre x_body x_post x_out x_err x_posttx].
    rewrite <- !app_assoc. reflexivity.
  Qed.
End Prune.
