(* Proofs/MemSize_proofs.v — memory only grows, in whole words, exactly to cover the region an instruction names. *)
From Verif Require Import Base.Bytes Model.Mem Model.MemSize.
From Coq Require Import ZifyN ZifyBool.
Ltac Zify.zify_post_hook ::= Z.div_mod_to_equations.
Open Scope N_scope.

Theorem mem_after_grows op s before after : mem_after op s before = Some after -> before <= after.
Proof.
  unfold mem_after. destruct (mem_needed op s) as [[size [|]]|]; try discriminate.
  - destruct (_ <? size); [discriminate|]. intro H. inversion H. lia.
  - intro H. inversion H. lia.
Qed.

Theorem mem_after_word_aligned op s before after :
  before mod 32 = 0 -> mem_after op s before = Some after -> after mod 32 = 0.
Proof.
  unfold mem_after. intro Hb. destruct (mem_needed op s) as [[size [|]]|]; try discriminate.
  - destruct (_ <? size); [discriminate|]. intro H. assert (A : after = N.max before (32 * to_words size)) by congruence.
    rewrite A. destruct (N.max_spec before (32 * to_words size)) as [[_ E]|[_ E]]; rewrite E; lia.
  - intro H. inversion H. subst. exact Hb.
Qed.

(** the region is covered, with less than one word to spare beyond what was there before *)
Theorem mem_after_covers op s before after size :
  mem_needed op s = Some (size, false) -> mem_after op s before = Some after ->
  size <= after /\ (before < after -> after < size + 32).
Proof.
  unfold mem_after. intros -> H. destruct (0xffffffffffffffe0 <? size) eqn:E; [discriminate|].
  assert (A : after = N.max before (32 * to_words size)) by congruence. rewrite A. clear H A. unfold to_words. rewrite E. clear E.
  set (w := (size + 31) / 32). assert (W1 : size <= 32 * w) by (unfold w; lia). assert (W2 : 32 * w < size + 32) by (unfold w; lia).
  destruct (N.max_spec before (32 * w)) as [[L M]|[L M]]; rewrite M; lia.
Qed.

(** a zero-length region never expands memory, wherever it is *)
Theorem zero_length_region_is_free off : calc_mem_size off 0 = (0, false).
Proof. unfold calc_mem_size. replace (two64 <=? 0) with false by (unfold two64; lia). reflexivity. Qed.

Example ex_mem_after :
  mem_after 0x52 [100; 7] 64 = Some 160 /\ mem_after 0x52 [10; 7] 64 = Some 64 /\
  mem_after 0xf1 [1000; 2; 0; 0; 10; 300; 40] 0 = Some 352 /\ mem_after 0x37 [two64; 0; 0] 32 = Some 32 /\
  mem_after 0x37 [two64; 0; 1] 32 = None /\ mem_after 0x01 [1; 2] 96 = Some 96.
Proof. vm_compute. repeat split; reflexivity. Qed.
