(* Proofs/SStore_proofs.v — "We can prove that refund counter will never go below 0" (comment in gas_table.go): proved, for
   every schedule, every committed storage and every sequence of writes of a transaction: SubRefund never panics. *)
From Verif Require Import Base.Bytes Model.SStore.
From Coq Require Import ZifyN ZifyBool.
Open Scope N_scope.

Definition clears_of (sch : schedule) : N := match sch with S2929 c => c | SLegacy => 0 | _ => 15000 end.
(** what the counter holds at least on behalf of one slot: the clearing refund of an originally non-zero slot that is
    zero right now *)
Definition L (sch : schedule) (o c : N) : N := if negb (o =? 0) && (c =? 0) then clears_of sch else 0.

Lemma sstore_step sch o c v g cold gas add sub :
  sstore sch o c v g cold = Ok (gas, add, sub) ->
  sub <= L sch o c /\ L sch o v + sub <= L sch o c + add.
Proof.
  unfold sstore, L, clears_of. intro H.
  destruct sch as [| | |cl];
    repeat match type of H with
           | context [if ?b then _ else _] => destruct b eqn:?; cbn [negb andb] in H
           end;
    try discriminate; inversion H; subst; clear H;
    repeat match goal with
           | |- context [if ?b then _ else _] => destruct b eqn:?; cbn [negb andb]
           end; lia.
Qed.

Section Tx.
  Variable sch : schedule.
  Variable orig : N -> N.

  Fixpoint sumL (dom : list N) (cur : N -> N) : N :=
    match dom with [] => 0 | s :: t => L sch (orig s) (cur s) + sumL t cur end.

  Lemma sumL_other dom cur s v : ~ In s dom -> sumL dom (upd_slot cur s v) = sumL dom cur.
  Proof.
    induction dom as [|x t IH]; intro H; [reflexivity|]. cbn [sumL]. unfold upd_slot at 1.
    replace (x =? s) with false by (assert (x <> s) by (intro; subst; apply H; left; reflexivity); lia).
    rewrite IH; [reflexivity|]. intro; apply H; right; assumption.
  Qed.

  Lemma sumL_upd dom cur s v : NoDup dom -> In s dom ->
    sumL dom (upd_slot cur s v) + L sch (orig s) (cur s) = sumL dom cur + L sch (orig s) v.
  Proof.
    induction dom as [|x t IH]; intros ND Hin; [destruct Hin|].
    inversion ND as [|? ? Hx ND']; subst. cbn [sumL]. destruct (N.eq_dec x s) as [->|Ne].
    - rewrite (sumL_other t cur s v Hx). unfold upd_slot at 1. rewrite N.eqb_refl. lia.
    - destruct Hin as [->|Hin]; [congruence|]. specialize (IH ND' Hin). unfold upd_slot at 1.
      replace (x =? s) with false by lia. lia.
  Qed.

  Lemma sumL_ge dom cur s : In s dom -> L sch (orig s) (cur s) <= sumL dom cur.
  Proof. induction dom as [|x t IH]; intro H; [destruct H|]. cbn [sumL]. destruct H as [->|H]; [lia|]. specialize (IH H). lia. Qed.

  (** the invariant: the counter covers what is held on behalf of every slot *)
  Theorem run_writes_never_panics dom : NoDup dom -> forall ws cur counter,
    Forall (fun w => In (fst w) dom) ws -> sumL dom cur <= counter ->
    is_panic (run_writes sch orig ws cur counter) = false.
  Proof.
    intros ND ws. induction ws as [|[s v] t IH]; intros cur counter Hd Hc; [reflexivity|].
    inversion Hd as [|? ? Hs Ht]; subst. cbn [fst] in Hs. cbn [run_writes].
    destruct (sstore sch (orig s) (cur s) v 100000 false) as [[[gas add] sub]|e|w] eqn:E; [|reflexivity|].
    - destruct (sstore_step _ _ _ _ _ _ _ _ _ E) as (S1 & S2).
      pose proof (sumL_ge dom cur s Hs) as G. pose proof (sumL_upd dom cur s v ND Hs) as U.
      unfold apply_refund. replace (counter <? sub) with false by lia.
      apply IH; [exact Ht|]. lia.
    - exfalso. unfold sstore in E. destruct sch;
        repeat match type of E with context [if ?b then _ else _] => destruct b; try discriminate end; discriminate.
  Qed.
End Tx.

(** from the start of a transaction (storage = committed storage, counter 0), whatever is written in whatever order *)
Theorem refund_counter_never_below_zero sch orig ws : is_panic (run_writes sch orig ws orig 0) = false.
Proof.
  apply (run_writes_never_panics sch orig (nodup N.eq_dec (map fst ws))).
  - apply NoDup_nodup.
  - apply Forall_forall. intros w Hw. apply nodup_In. apply in_map. exact Hw.
  - assert (Z : forall dom, sumL sch orig dom orig = 0).
    { induction dom as [|x t IH]; [reflexivity|]. cbn [sumL]. rewrite IH. unfold L. destruct (orig x =? 0); reflexivity. }
    rewrite Z. lia.
Qed.

(** the sentry: with 2300 gas or less the EIP-2200 family refuses *)
Theorem sstore_sentry o c v g cold cl : g <= 2300 ->
  is_err (sstore S2200 o c v g cold) = true /\ is_err (sstore (S2929 cl) o c v g cold) = true.
Proof. intro H. unfold sstore. replace (g <=? 2300) with true by lia. split; reflexivity. Qed.

Definition counter_after (r : res (N * (N -> N))) : option N := match r with Ok (c, _) => Some c | _ => None end.
Example ex_sstore :
  sstore (S2929 4800) 5 5 0 50000 true = Ok (5000, 4800, 0) /\ sstore (S2929 4800) 5 0 5 50000 false = Ok (100, 2800, 4800) /\
  sstore S2200 0 0 7 50000 false = Ok (20000, 0, 0) /\ sstore S1283 0 7 0 50000 false = Ok (200, 19800, 0) /\
  counter_after (run_writes (S2929 4800) (fun _ => 5) [(1, 0); (1, 5); (1, 0); (2, 0)] (fun _ => 5) 0) = Some 12400.
Proof. vm_compute. repeat split; reflexivity. Qed.
