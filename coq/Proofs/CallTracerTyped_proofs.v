(* Proofs/CallTracerTyped_proofs.v — trees whose Aspects carry the join-point type of the place they run in
   (pre-call types before the body, the others after it) give frames on which flatFromNested's addressing is
   injective; pruning keeps that; the number of emitted frames is the number of nodes of the tree. *)
From Verif Require Import Base.Bytes Model.CallTracer Proofs.CallTracer_proofs Proofs.CallTracerFlat_proofs Proofs.CallTracerPrune_proofs.
From Coq Require Import Lia.
Open Scope N_scope.

Fixpoint typed_c (t : ctree) : bool :=
  match t with CT _ pre body post => forallb (typed_a true) pre && forallb typed_c body && forallb (typed_a false) post end
with typed_a (want_pre : bool) (a : atree) : bool :=
  match a with AT i calls => Bool.eqb (is_pre_jp (ai_jp i)) want_pre && negb (ai_jp i =? 0) && forallb typed_c calls end.

Definition typed_tx (x : txtree) : bool :=
  forallb (typed_a true) (x_pretx x) && forallb (typed_a true) (x_pre x) && forallb typed_c (x_body x) &&
  forallb (typed_a false) (x_post x) && forallb (typed_a false) (x_posttx x).

Lemma forallb_impl {A} (p q : A -> bool) l : (forall x, In x l -> p x = true -> q x = true) -> forallb p l = true -> forallb q l = true.
Proof. intros H Hp. rewrite forallb_forall in *. intros x Hx. apply H; [exact Hx|apply Hp; exact Hx]. Qed.

Lemma typed_wf : (forall t, typed_c t = true -> wf_c t = true) /\ (forall a, (exists w, typed_a w a = true) -> wf_a a = true).
Proof.
  apply tree_ind2.
  - intros i pre body post Hpre Hbody Hpost H. cbn in H |- *.
    apply andb_prop in H as [H T3]. apply andb_prop in H as [T1 T2]. rewrite Forall_forall in *.
    rewrite (forallb_impl _ _ _ (fun x Hx Ht => Hpre x Hx (ex_intro _ true Ht)) T1).
    rewrite (forallb_impl _ _ _ (fun x Hx Ht => Hbody x Hx Ht) T2).
    rewrite (forallb_impl _ _ _ (fun x Hx Ht => Hpost x Hx (ex_intro _ false Ht)) T3). reflexivity.
  - intros i calls Hcalls [w H]. cbn in H |- *. apply andb_prop in H as [H T2]. apply andb_prop in H as [_ T1].
    rewrite T1. rewrite Forall_forall in Hcalls. rewrite (forallb_impl _ _ _ (fun x Hx Ht => Hcalls x Hx Ht) T2). reflexivity.
Qed.

Lemma typed_tx_wf x : typed_tx x = true -> wf_tx x = true.
Proof.
  unfold typed_tx, wf_tx. intros H.
  apply andb_prop in H as [H T5]. apply andb_prop in H as [H T4]. apply andb_prop in H as [H T3]. apply andb_prop in H as [T1 T2].
  rewrite (forallb_impl _ _ _ (fun a _ Ht => proj2 typed_wf a (ex_intro _ true Ht)) T1).
  rewrite (forallb_impl _ _ _ (fun a _ Ht => proj2 typed_wf a (ex_intro _ true Ht)) T2).
  rewrite (forallb_impl _ _ _ (fun a _ Ht => proj1 typed_wf a Ht) T3).
  rewrite (forallb_impl _ _ _ (fun a _ Ht => proj2 typed_wf a (ex_intro _ false Ht)) T4).
  rewrite (forallb_impl _ _ _ (fun a _ Ht => proj2 typed_wf a (ex_intro _ false Ht)) T5). reflexivity.
Qed.

(** frames of typed trees are ordered *)
Lemma ordered_process_output f out err : ordered_c (process_output f out err) = ordered_c f.
Proof. destruct f; cbn. destruct err; [|reflexivity]. destruct (_ && _); reflexivity. Qed.
Lemma ordered_process_output_a a out err : ordered_a (process_output_a a out err) = ordered_a a.
Proof. destruct a; cbn. destruct err; reflexivity. Qed.

Lemma jps_ordered_app P Q : forallb pre_a P = true -> forallb (fun a => negb (pre_a a)) Q = true -> jps_ordered (P ++ Q) = true.
Proof.
  intros HP HQ. induction P as [|a P IH]; cbn [app].
  - destruct Q as [|q Q]; [reflexivity|]. cbn in HQ |- *. apply andb_prop in HQ as [Hq HQ].
    apply Bool.negb_true_iff in Hq. rewrite Hq. exact HQ.
  - cbn in HP |- *. apply andb_prop in HP as [-> HP]. apply IH. exact HP.
Qed.

Lemma pre_a_frame i calls : pre_a (frame_a (AT i calls)) = is_pre_jp (ai_jp i).
Proof. unfold pre_a. cbn [frame_a]. rewrite process_output_jp. reflexivity. Qed.

Lemma forallb_map {A B} (p : B -> bool) (g : A -> B) l : forallb p (map g l) = forallb (fun x => p (g x)) l.
Proof. induction l as [|x l IH]; [reflexivity|]. cbn. rewrite IH. reflexivity. Qed.

Lemma typed_ordered :
  (forall t, typed_c t = true -> ordered_c (frame_c t) = true) /\
  (forall a, (forall w, typed_a w a = true -> ordered_a (frame_a a) = true /\ pre_a (frame_a a) = w)).
Proof.
  apply tree_ind2.
  - intros i pre body post Hpre Hbody Hpost H. cbn [typed_c] in H.
    apply andb_prop in H as [H T3]. apply andb_prop in H as [T1 T2]. rewrite Forall_forall in *.
    cbn [frame_c]. rewrite ordered_process_output. cbn [ordered_c].
    rewrite forallb_forall in T1, T2, T3.
    assert (O1 : jps_ordered (map frame_a pre ++ map frame_a post) = true).
    { apply jps_ordered_app; rewrite forallb_map; apply forallb_forall; intros a Ha.
      - apply (Hpre a Ha true (T1 a Ha)).
      - rewrite (proj2 (Hpost a Ha false (T3 a Ha))). reflexivity. }
    rewrite O1. cbn [andb]. apply andb_true_intro. split.
    + rewrite forallb_map. apply forallb_forall. intros c Hc. apply (Hbody c Hc (T2 c Hc)).
    + rewrite forallb_app, !forallb_map. apply andb_true_intro. split; apply forallb_forall; intros a Ha.
      * apply (Hpre a Ha true (T1 a Ha)).
      * apply (Hpost a Ha false (T3 a Ha)).
  - intros i calls Hcalls w H. cbn [typed_a] in H. apply andb_prop in H as [H T2]. apply andb_prop in H as [T1 _].
    rewrite Forall_forall in Hcalls. rewrite forallb_forall in T2. split.
    + cbn [frame_a]. rewrite ordered_process_output_a. cbn [ordered_a]. rewrite forallb_map. apply forallb_forall.
      intros c Hc. apply (Hcalls c Hc (T2 c Hc)).
    + rewrite pre_a_frame. apply Bool.eqb_prop. exact T1.
Qed.

Lemma typed_tx_ordered x : typed_tx x = true -> ordered_c (frame_tx x) = true.
Proof.
  unfold typed_tx. intros H.
  apply andb_prop in H as [H T5]. apply andb_prop in H as [H T4]. apply andb_prop in H as [H T3]. apply andb_prop in H as [T1 T2].
  unfold frame_tx. rewrite ordered_process_output. cbn [ordered_c].
  rewrite forallb_forall in T1, T2, T3, T4, T5.
  assert (PA : forall l w, (forall a, In a l -> typed_a w a = true) -> forallb (fun a => Bool.eqb (pre_a a) w) (map frame_a l) = true /\ forallb ordered_a (map frame_a l) = true).
  { intros l w Hl. rewrite !forallb_map. split; apply forallb_forall; intros a Ha.
    - rewrite (proj2 (proj2 typed_ordered a w (Hl a Ha))). destruct w; reflexivity.
    - apply (proj2 typed_ordered a w (Hl a Ha)). }
  destruct (PA _ _ T1) as [P1 O1]. destruct (PA _ _ T2) as [P2 O2]. destruct (PA _ _ T4) as [P4 O4]. destruct (PA _ _ T5) as [P5 O5].
  assert (J : jps_ordered (map frame_a (x_pretx x) ++ map frame_a (x_pre x) ++ map frame_a (x_post x) ++ map frame_a (x_posttx x)) = true).
  { rewrite app_assoc. apply jps_ordered_app; rewrite forallb_app; apply andb_true_intro; split.
    - eapply forallb_impl; [|exact P1]. intros a _ E. apply Bool.eqb_prop in E. exact E.
    - eapply forallb_impl; [|exact P2]. intros a _ E. apply Bool.eqb_prop in E. exact E.
    - eapply forallb_impl; [|exact P4]. intros a _ E. apply Bool.eqb_prop in E. rewrite E. reflexivity.
    - eapply forallb_impl; [|exact P5]. intros a _ E. apply Bool.eqb_prop in E. rewrite E. reflexivity. }
  rewrite J. cbn [andb]. apply andb_true_intro. split.
  - rewrite forallb_map. apply forallb_forall. intros c Hc. apply (proj1 typed_ordered c (T3 c Hc)).
  - rewrite !forallb_app, O1, O2, O4, O5. reflexivity.
Qed.

(** pruning keeps trees typed *)
Section PruneTyped.
  Variables (include_pre : bool) (is_pre : N -> bool).
  Notation prc := (prune_c include_pre is_pre).
  Notation pra := (prune_a include_pre is_pre).

  Lemma forallb_flat_map_filter {A B} (p : B -> bool) (q : A -> bool) (d : A -> bool) (g : A -> B) l :
    (forall x, In x l -> q x = true -> p (g x) = true) -> forallb q l = true ->
    forallb p (flat_map (fun c => if d c then [] else [g c]) l) = true.
  Proof.
    intros H Hq. rewrite forallb_forall in Hq. induction l as [|x l IH]; [reflexivity|].
    cbn [flat_map]. rewrite forallb_app. apply andb_true_intro. split.
    - destruct (d x); [reflexivity|]. cbn. rewrite (H x (or_introl eq_refl) (Hq x (or_introl eq_refl))). reflexivity.
    - apply IH; [intros y Hy; apply H; right; exact Hy|intros y Hy; apply Hq; right; exact Hy].
  Qed.

  Lemma prune_typed b :
    (forall t, typed_c t = true -> typed_c (prc b t) = true) /\
    (forall a, forall w, typed_a w a = true -> typed_a w (pra b a) = true).
  Proof.
    apply tree_ind2.
    - intros i pre body post Hpre Hbody Hpost H. cbn [typed_c] in H.
      apply andb_prop in H as [H T3]. apply andb_prop in H as [T1 T2]. rewrite Forall_forall in *.
      change (typed_c (prc b (CT i pre body post))) with
        (forallb (typed_a true) (map (pra b) pre) &&
         forallb typed_c (flat_map (fun c => if dropped include_pre is_pre b (ci_of c) then [] else [prc b c]) body) &&
         forallb (typed_a false) (map (pra b) post)).
      rewrite !forallb_map.
      rewrite (forallb_impl _ _ _ (fun a Ha Ht => Hpre a Ha true Ht) T1).
      rewrite (forallb_impl _ _ _ (fun a Ha Ht => Hpost a Ha false Ht) T3).
      rewrite (forallb_flat_map_filter typed_c typed_c _ _ body (fun c Hc Ht => Hbody c Hc Ht) T2). reflexivity.
    - intros i calls Hcalls w H. cbn [typed_a] in H. apply andb_prop in H as [H T2].
      rewrite Forall_forall in Hcalls.
      change (typed_a w (pra b (AT i calls))) with
        (Bool.eqb (is_pre_jp (ai_jp i)) w && negb (ai_jp i =? 0) &&
         forallb typed_c (flat_map (fun c => if dropped include_pre is_pre b (ci_of c) then [] else [prc b c]) calls)).
      rewrite H. cbn [andb].
      apply (forallb_flat_map_filter typed_c typed_c _ _ calls (fun c Hc Ht => Hcalls c Hc Ht) T2).
  Qed.

  Lemma prune_tx_typed x : typed_tx x = true -> typed_tx (prune_tx include_pre is_pre x) = true.
  Proof.
    unfold typed_tx. intros H.
    apply andb_prop in H as [H T5]. apply andb_prop in H as [H T4]. apply andb_prop in H as [H T3]. apply andb_prop in H as [T1 T2].
    cbn [prune_tx x_pretx x_pre x_body x_post x_posttx]. rewrite !forallb_map.
    rewrite (forallb_impl _ _ _ (fun a _ Ht => proj2 (prune_typed false) a true Ht) T1).
    rewrite (forallb_impl _ _ _ (fun a _ Ht => proj2 (prune_typed true) a true Ht) T2).
    rewrite (forallb_impl _ _ _ (fun a _ Ht => proj2 (prune_typed true) a false Ht) T4).
    rewrite (forallb_impl _ _ _ (fun a _ Ht => proj2 (prune_typed true) a false Ht) T5).
    unfold prune_list.
    rewrite (forallb_flat_map_filter typed_c typed_c _ _ (x_body x) (fun c _ Ht => proj1 (prune_typed true) c Ht) T3). reflexivity.
  Qed.
End PruneTyped.

(** the number of frames of a tree's frame = the number of nodes (calls + Aspect executions) of the tree *)
Fixpoint nodes_c (t : ctree) : nat :=
  match t with CT _ pre body post => S (list_sum (map nodes_a pre) + list_sum (map nodes_c body) + list_sum (map nodes_a post)) end
with nodes_a (a : atree) : nat :=
  match a with AT _ calls => S (list_sum (map nodes_c calls)) end.

Lemma size_process_output f out err : size_c (process_output f out err) = size_c f.
Proof. destruct f; cbn. destruct err; [|reflexivity]. destruct (_ && _); reflexivity. Qed.
Lemma size_process_output_a a out err : size_a (process_output_a a out err) = size_a a.
Proof. destruct a; cbn. destruct err; reflexivity. Qed.

Lemma list_sum_app a b : list_sum (a ++ b) = (list_sum a + list_sum b)%nat.
Proof. induction a as [|x a IH]; [reflexivity|]. cbn [app]. change (list_sum (x :: ?r)) with (x + list_sum r)%nat. rewrite IH. lia. Qed.

Lemma map_ext_Forall {A B} (f g : A -> B) l : Forall (fun x => f x = g x) l -> map f l = map g l.
Proof. induction 1 as [|x l E _ IH]; [reflexivity|]. cbn. rewrite E, IH. reflexivity. Qed.

Lemma size_nodes : (forall t, size_c (frame_c t) = nodes_c t) /\ (forall a, size_a (frame_a a) = nodes_a a).
Proof.
  apply tree_ind2.
  - intros i pre body post Hpre Hbody Hpost. cbn [frame_c]. rewrite size_process_output. cbn [size_c nodes_c].
    rewrite map_app, list_sum_app, !map_map.
    rewrite (map_ext_Forall _ _ _ Hpre), (map_ext_Forall _ _ _ Hbody), (map_ext_Forall _ _ _ Hpost). lia.
  - intros i calls Hcalls. cbn [frame_a]. rewrite size_process_output_a. cbn [size_a nodes_a].
    rewrite map_map, (map_ext_Forall _ _ _ Hcalls). reflexivity.
Qed.

Definition nodes_tx (x : txtree) : nat :=
  S (list_sum (map nodes_a (x_pretx x)) + list_sum (map nodes_a (x_pre x)) + list_sum (map nodes_c (x_body x)) +
     list_sum (map nodes_a (x_post x)) + list_sum (map nodes_a (x_posttx x))).

Lemma size_frame_tx x : size_c (frame_tx x) = nodes_tx x.
Proof.
  unfold frame_tx. rewrite size_process_output. cbn [size_c]. unfold nodes_tx.
  rewrite !map_app, !list_sum_app, !map_map.
  rewrite !(map_ext_Forall (fun a => size_a (frame_a a)) nodes_a) by (apply Forall_forall; intros; apply size_nodes).
  rewrite (map_ext_Forall (fun a => size_c (frame_c a)) nodes_c) by (apply Forall_forall; intros; apply size_nodes). lia.
Qed.

(** ** the flat tracer end to end *)
Definition flat_trace_of (include_pre : bool) (is_pre : N -> bool) (convert : bool) (fuel : nat) (es : list tev) : res (list flat) :=
  match ctf_run include_pre is_pre t_init es with Ok s => ctf_result convert fuel s | Err e => Err e | Panic e => Panic e end.

Theorem flat_trace_exact include_pre is_pre convert fuel x l :
  typed_tx x = true ->
  flat_trace_of include_pre is_pre convert fuel (events_tx x) = Ok l ->
  flat_c convert fuel (frame_tx (prune_tx include_pre is_pre x)) [] = Some l /\
  flat_tree [] l /\ length l = nodes_tx (prune_tx include_pre is_pre x).
Proof.
  intros Ht H. unfold flat_trace_of in H. rewrite (ctf_tree_exact include_pre is_pre x (typed_tx_wf x Ht)) in H.
  unfold ctf_result in H. cbn [st t_stack rev app of o_frame] in H.
  destruct (flat_c convert fuel (frame_tx (prune_tx include_pre is_pre x)) []) as [l'|] eqn:E; [|discriminate].
  inversion H; subst l'. split; [reflexivity|]. split.
  - apply (proj1 (flat_shape convert fuel) _ _ _ (typed_tx_ordered _ (prune_tx_typed include_pre is_pre x Ht)) E).
  - rewrite (proj1 (flat_size convert fuel) _ _ _ E). apply size_frame_tx.
Qed.
