From Verif Require Import Base.Bytes Proofs.Bytes_proofs Model.Journal Model.SolLayout.
From Coq Require Import ZifyN ZifyNat ZifyBool.
Ltac Zify.zify_post_hook ::= Z.div_mod_to_equations.
Open Scope N_scope.

(** * big-endian encoding: splitting and truncation *)

Lemma N_to_be_app a b v :
  N_to_be (a + b) v = N_to_be a (v / 256 ^ N.of_nat b) ++ N_to_be b v.
Proof.
  revert v. induction b as [|b IH]; intros v.
  - rewrite Nat.add_0_r. cbn [N_to_be N.of_nat]. rewrite N.pow_0_r, N.div_1_r, app_nil_r. reflexivity.
  - rewrite Nat.add_succ_r. cbn [N_to_be]. rewrite IH, app_assoc.
    rewrite Nat2N.inj_succ, N.pow_succ_r', N.div_div by (try apply N.pow_nonzero; lia).
    reflexivity.
Qed.

Lemma N_to_be_mod n v : N_to_be n (v mod 256 ^ N.of_nat n) = N_to_be n v.
Proof.
  revert v. induction n as [|n IH]; intros v; [reflexivity|].
  cbn [N_to_be]. rewrite Nat2N.inj_succ, N.pow_succ_r'.
  assert (Hp : 256 ^ N.of_nat n <> 0) by (apply N.pow_nonzero; lia).
  rewrite N.mod_mul_r by lia.
  replace ((v mod 256 + 256 * ((v / 256) mod 256 ^ N.of_nat n)) / 256) with ((v / 256) mod 256 ^ N.of_nat n) by lia.
  replace ((v mod 256 + 256 * ((v / 256) mod 256 ^ N.of_nat n)) mod 256) with (v mod 256) by lia.
  rewrite IH. reflexivity.
Qed.

Lemma firstn_app_exact {A} (a b : list A) n : length a = n -> firstn n (a ++ b) = a.
Proof. intros <-. rewrite firstn_app, Nat.sub_diag, firstn_all. cbn. apply app_nil_r. Qed.
Lemma skipn_app_exact {A} (a b : list A) n : length a = n -> skipn n (a ++ b) = b.
Proof. intros <-. rewrite skipn_app, Nat.sub_diag, skipn_all. reflexivity. Qed.

(** * the value journal *)

Theorem vv_correct w off size :
  off <= 31 -> size <= 32 -> off + size <= 32 ->
  vv_slice w off size = Ok (sol_packed_field w off size).
Proof.
  intros Ho Hs Hos. unfold vv_slice, two64.
  replace ((18446744073709551616 <=? off) || (31 <? off)) with false by lia.
  replace ((18446744073709551616 <=? size) || (32 <? size)) with false by lia.
  replace (32 <? off + size) with false by lia.
  unfold go_slice, word_bytes. rewrite length_N_to_be.
  replace ((32 - off - size <=? 32 - off) && (32 - off <=? N.of_nat 32)) with true by lia.
  f_equal. unfold slice, sol_packed_field.
  set (o := N.to_nat off). set (s := N.to_nat size). set (c := (32 - o - s)%nat).
  replace 32%nat with ((c + s) + o)%nat by lia.
  rewrite (N_to_be_app (c + s) o w), (N_to_be_app c s).
  replace (N.to_nat (32 - off - size)) with c by lia.
  replace (N.to_nat (32 - off - (32 - off - size))) with s by lia.
  rewrite <- app_assoc, skipn_app_exact by apply length_N_to_be.
  rewrite firstn_app_exact by apply length_N_to_be.
  subst o s. rewrite !N2Nat.id. rewrite <- (N_to_be_mod (N.to_nat size)), N2Nat.id. reflexivity.
Qed.

Theorem vv_rejects w off size :
  ~ (off <= 31 /\ size <= 32 /\ off + size <= 32) -> exists e, vv_slice w off size = Err e.
Proof.
  intros H. unfold vv_slice.
  destruct ((two64 <=? off) || (31 <? off)) eqn:E1; [eexists; reflexivity|].
  destruct ((two64 <=? size) || (32 <? size)) eqn:E2; [eexists; reflexivity|].
  destruct (32 <? off + size) eqn:E3; [eexists; reflexivity|].
  exfalso. apply H. unfold two64 in *. lia.
Qed.

Corollary vv_no_panic w off size : is_panic (vv_slice w off size) = false.
Proof.
  destruct (N.le_gt_cases off 31) as [H1|H1]; [destruct (N.le_gt_cases size 32) as [H2|H2];
    [destruct (N.le_gt_cases (off + size) 32) as [H3|H3]|]|].
  - rewrite vv_correct by assumption. reflexivity.
  - destruct (vv_rejects w off size) as [e ->]; [lia|reflexivity].
  - destruct (vv_rejects w off size) as [e ->]; [lia|reflexivity].
  - destruct (vv_rejects w off size) as [e ->]; [lia|reflexivity].
Qed.

(** * the length word *)

Lemma land_7f x : N.land x 0x7f = x mod 128.
Proof. change 0x7f with (N.ones 7). rewrite N.land_ones. reflexivity. Qed.

Theorem extract_len_valid w :
  valid_len_word w = true -> (w mod 2 = 1 -> w / 2 < two64) ->
  extract_storage_len w = Ok (if w mod 2 =? 0 then (w mod 256) / 2 else w / 2).
Proof.
  unfold valid_len_word, extract_storage_len. intros Hv Hb.
  destruct (w mod 2 =? 0) eqn:E.
  - rewrite land_7f.
    assert (Hl : (w / 2) mod 128 = w mod 256 / 2) by lia.
    rewrite Hl.
    replace (w mod 256 / 2 <? 32) with true by lia.
    replace (w mod 2 =? 1) with false by lia.
    replace (two64 <=? w mod 256 / 2) with false by (unfold two64; lia). reflexivity.
  - replace (w / 2 <? 32) with false by lia.
    replace (w mod 2 =? 0) with false by lia.
    replace (two64 <=? w / 2) with false by lia. reflexivity.
Qed.

Theorem extract_len_invalid w :
  valid_len_word w = false -> exists e, extract_storage_len w = Err e.
Proof.
  unfold valid_len_word, extract_storage_len. intros Hv.
  destruct (w mod 2 =? 0) eqn:E.
  - rewrite land_7f.
    assert (Hl : (w / 2) mod 128 = w mod 256 / 2) by lia. rewrite Hl.
    replace (w mod 256 / 2 <? 32) with false by lia.
    replace (w mod 2 =? 0) with true by lia. eexists; reflexivity.
  - replace (w / 2 <? 32) with true by lia.
    replace (w mod 2 =? 1) with true by lia. eexists; reflexivity.
Qed.

Lemma extract_len_no_panic w : is_panic (extract_storage_len w) = false.
Proof.
  unfold extract_storage_len.
  destruct (w mod 2 =? _); [reflexivity|]. destruct (two64 <=? _); reflexivity.
Qed.

(** * the reference journal: round trip through Solidity's string layout *)

Lemma wf_repeat0 n : wf_bytes (zeros n).
Proof. unfold zeros, wf_bytes. apply Forall_forall. intros x Hx. apply repeat_spec in Hx. subst. lia. Qed.

Lemma wf_right_pad n b : wf_bytes b -> wf_bytes (right_pad n b).
Proof.
  intros H. unfold right_pad. destruct (Nat.leb n (length b)); [assumption|].
  apply Forall_app; split; [assumption|apply wf_repeat0].
Qed.

Lemma length_right_pad n b : (length b <= n)%nat -> length (right_pad n b) = n.
Proof.
  intros H. unfold right_pad. destruct (Nat.leb n (length b)) eqn:E.
  - apply Nat.leb_le in E. lia.
  - rewrite app_length. unfold zeros. rewrite repeat_length. lia.
Qed.

Lemma be_to_N_snoc b x : be_to_N (b ++ [x]) = be_to_N b * 256 + x.
Proof. unfold be_to_N. rewrite be_acc_app. reflexivity. Qed.

(** the slot count the code computes is the mathematical ceiling: no wrap-around for any uint64 length *)
Lemma u64_ceiling32_is_ceil32 n : u64_ceiling32 n = ceil32 n.
Proof. unfold u64_ceiling32, ceil32. destruct (n mod 32 =? 0) eqn:E; lia. Qed.

Lemma ceil32_covers n : n <= 32 * ceil32 n.
Proof. unfold ceil32. lia. Qed.

Lemma go_slice_prefix {A} (l : list A) n :
  n <= N.of_nat (length l) -> go_slice l 0 n = Ok (firstn (N.to_nat n) l).
Proof.
  intro H. unfold go_slice. replace ((0 <=? n) && (n <=? N.of_nat (length l))) with true by lia.
  unfold slice. rewrite N.sub_0_r. reflexivity.
Qed.

Lemma length_flat_words ws : length (flat_map word_bytes ws) = (32 * length ws)%nat.
Proof.
  induction ws as [|w ws IH]; [reflexivity|]. cbn [flat_map]. rewrite app_length, IH. unfold word_bytes.
  rewrite length_N_to_be. cbn [length]. lia.
Qed.

Section Reader.
  Variable st : N -> N.
  Variable keccak : bytes -> N.

  Lemma length_long_words slot cnt : length (long_words st keccak slot cnt) = N.to_nat cnt.
  Proof. unfold long_words. now rewrite map_length, seq_length. Qed.

  Lemma long_slice_ok slot len :
    go_slice (flat_map word_bytes (long_words st keccak slot (u64_ceiling32 len))) 0 len
    = Ok (firstn (N.to_nat len) (flat_map word_bytes (long_words st keccak slot (ceil32 len)))).
  Proof.
    rewrite u64_ceiling32_is_ceil32. apply go_slice_prefix.
    rewrite length_flat_words, length_long_words. pose proof (ceil32_covers len). lia.
  Qed.

  Theorem vr_roundtrip_short slot content :
    wf_bytes content -> blen content < 32 ->
    holds_string st keccak slot content -> vr_read st keccak slot = Ok content.
  Proof.
    intros Hwf Hlen Hh. unfold holds_string in Hh.
    replace (blen content <? 32) with true in Hh by lia.
    set (len := blen content) in *.
    set (body := right_pad 31 content) in *.
    assert (Lb : length body = 31%nat) by (apply length_right_pad; unfold len, blen in *; lia).
    assert (Wb : wf_bytes body) by (apply wf_right_pad; assumption).
    assert (Hw : st slot = be_to_N body * 256 + 2 * len) by (rewrite Hh; apply be_to_N_snoc).
    unfold vr_read, vr_read_with. rewrite Hw.
    set (B := be_to_N body) in *.
    assert (E : extract_storage_len (B * 256 + 2 * len) = Ok len).
    { rewrite extract_len_valid.
      - replace ((B * 256 + 2 * len) mod 2 =? 0) with true by lia. f_equal. lia.
      - unfold valid_len_word. replace ((B * 256 + 2 * len) mod 2 =? 0) with true by lia. lia.
      - lia. }
    rewrite E. cbn [bind]. replace (len <? 32) with true by lia. f_equal.
    unfold unmask_short, word_bytes.
    replace (B * 256 + 2 * len - (B * 256 + 2 * len) mod 256) with (B * 256 + 0) by lia.
    subst B. rewrite <- be_to_N_snoc.
    replace 32%nat with (length (body ++ [0])) by (rewrite app_length, Lb; reflexivity).
    rewrite N_to_be_to_N.
    2:{ apply Forall_app; split; [assumption|]. constructor; [lia|constructor]. }
    subst body. unfold right_pad.
    destruct (Nat.leb 31 (length content)) eqn:E31.
    - apply Nat.leb_le in E31. unfold len, blen in *.
      assert (length content = 31%nat) by lia.
      rewrite firstn_app_exact by lia. reflexivity.
    - rewrite <- app_assoc. apply firstn_app_exact. unfold len, blen. lia.
  Qed.

  (** chunks: concatenation restores the content up to zero padding *)
  Lemma chunk32_concat fuel b :
    (length b <= fuel)%nat -> firstn (length b) (concat (chunk32 fuel b)) = b.
  Proof.
    revert b. induction fuel as [|f IH]; intros b Hf.
    - destruct b; [reflexivity|cbn in Hf; lia].
    - destruct b as [|x b']; [reflexivity|].
      cbn [chunk32 concat]. set (b := x :: b') in *.
      destruct (Nat.le_gt_cases (length b) 32) as [Hs|Hl].
      + (* last chunk *)
        rewrite firstn_all2 with (n := 32%nat) (l := b) by exact Hs.
        unfold right_pad. destruct (Nat.leb 32 (length b)) eqn:E.
        * apply Nat.leb_le in E. rewrite firstn_app_exact by reflexivity. reflexivity.
        * rewrite <- app_assoc. apply firstn_app_exact. reflexivity.
      + assert (Lf : length (firstn 32 b) = 32%nat) by (rewrite firstn_length; lia).
        unfold right_pad. rewrite Lf. cbn [Nat.leb].
        rewrite firstn_app, Lf.
        rewrite firstn_all2 with (l := firstn 32 b) by lia.
        replace (length b - 32)%nat with (length (skipn 32 b)) by (rewrite skipn_length; reflexivity).
        rewrite IH by (rewrite skipn_length; lia).
        apply firstn_skipn.
  Qed.

  Lemma chunk32_length fuel b :
    (length b <= fuel)%nat -> length (chunk32 fuel b) = N.to_nat (ceil32 (blen b)).
  Proof.
    revert b. induction fuel as [|f IH]; intros b Hf.
    - destruct b; [reflexivity|cbn in Hf; lia].
    - destruct b as [|x b']; [reflexivity|].
      cbn [chunk32 length]. set (b := x :: b') in *.
      rewrite IH by (rewrite skipn_length; subst b; cbn [length] in *; lia).
      unfold ceil32, blen. rewrite skipn_length.
      assert (0 < length b)%nat by (subst b; cbn; lia).
      destruct (Nat.le_gt_cases (length b) 32) as [Hs|Hl].
      * replace (length b - 32)%nat with 0%nat by lia. cbn [N.of_nat].
        assert ((N.of_nat (length b) + 31) / 32 = 1) by lia. lia.
      * assert ((N.of_nat (length b - 32) + 31) / 32 + 1 = (N.of_nat (length b) + 31) / 32) by lia. lia.
  Qed.

  Lemma chunk32_shape fuel b c : wf_bytes b -> In c (chunk32 fuel b) -> length c = 32%nat /\ wf_bytes c.
  Proof.
    revert b. induction fuel as [|f IH]; intros b Hwf Hin; [destruct Hin|].
    destruct b as [|x b']; [destruct Hin|]. cbn [chunk32] in Hin. set (b := x :: b') in *.
    destruct Hin as [<-|Hin].
    - split.
      + apply length_right_pad. rewrite firstn_length. lia.
      + apply wf_right_pad. unfold wf_bytes in *. rewrite Forall_forall in *. intros y Hy.
        apply Hwf. eapply In_firstn; eauto.
    - apply (IH (skipn 32 b)); [|exact Hin].
      unfold wf_bytes in *. rewrite Forall_forall in *. intros y Hy. apply Hwf. eapply In_skipn; eauto.
  Qed.

  Lemma flat_map_concat_map {A B} (f : A -> list B) l : flat_map f l = concat (map f l).
  Proof. induction l; cbn; congruence. Qed.

  Theorem vr_roundtrip_long slot content :
    wf_bytes content -> 32 <= blen content -> blen content < two64 ->
    holds_string st keccak slot content -> vr_read st keccak slot = Ok content.
  Proof.
    intros Hwf Hlen Hmax Hh. unfold holds_string in Hh.
    replace (blen content <? 32) with false in Hh by lia.
    destruct Hh as [Hw Hd]. set (len := blen content) in *.
    unfold vr_read, vr_read_with. rewrite Hw.
    assert (E : extract_storage_len (2 * len + 1) = Ok len).
    { rewrite extract_len_valid.
      - replace ((2 * len + 1) mod 2 =? 0) with false by lia. f_equal. lia.
      - unfold valid_len_word. replace ((2 * len + 1) mod 2 =? 0) with false by lia. lia.
      - intros _. lia. }
    rewrite E. cbn [bind]. replace (len <? 32) with false by lia. rewrite long_slice_ok. f_equal.
    assert (Lc : length (chunks content) = N.to_nat (ceil32 len)) by (apply chunk32_length; lia).
    assert (Hwords : map word_bytes (long_words st keccak slot (ceil32 len)) = chunks content).
    { unfold long_words. rewrite map_map.
      apply nth_ext with (d := word_bytes (st (u256 (keccak (word_bytes slot) + N.of_nat 0)))) (d' := []).
      - rewrite map_length, seq_length. lia.
      - intros n Hn. rewrite map_length, seq_length in Hn.
        rewrite (map_nth (fun i => word_bytes (st (u256 (keccak (word_bytes slot) + N.of_nat i)))) (seq 0 (N.to_nat (ceil32 len))) 0%nat n).
        rewrite seq_nth by exact Hn. cbn [Nat.add].
        unfold word_bytes at 1. unfold word_bytes in Hd |- *. rewrite Hd by lia.
        assert (Hin : In (nth n (chunks content) []) (chunks content)) by (apply nth_In; lia).
        destruct (chunk32_shape _ _ _ Hwf Hin) as [L32 W32].
        rewrite <- L32 at 1. apply N_to_be_to_N. exact W32. }
    rewrite flat_map_concat_map.
    etransitivity; [apply f_equal; apply f_equal; exact Hwords|].
    replace (N.to_nat len) with (length content) by (unfold len, blen; lia).
    apply chunk32_concat. lia.
  Qed.

  Theorem vr_roundtrip slot content :
    wf_bytes content -> blen content < two64 ->
    holds_string st keccak slot content -> vr_read st keccak slot = Ok content.
  Proof.
    intros Hwf Hmax Hh. destruct (N.lt_ge_cases (blen content) 32).
    - apply vr_roundtrip_short; assumption.
    - apply vr_roundtrip_long; assumption.
  Qed.

  Theorem vr_rejects_bad_encoding slot :
    valid_len_word (st slot) = false -> exists e, vr_read st keccak slot = Err e.
  Proof.
    intros H. unfold vr_read, vr_read_with. destruct (extract_len_invalid _ H) as [e ->]. eexists; reflexivity.
  Qed.

  Theorem vr_no_panic slot : is_panic (vr_read st keccak slot) = false.
  Proof.
    unfold vr_read, vr_read_with. pose proof (extract_len_no_panic (st slot)) as P.
    destruct (extract_storage_len (st slot)); cbn [bind is_panic] in *; try congruence.
    destruct (a <? 32); [reflexivity|]. rewrite long_slice_ok. reflexivity.
  Qed.
End Reader.

(** * loadDataFromMem *)

Theorem ldm_correct ptr mem :
  blen mem < two63 ->
  ptr + 32 <= blen mem ->
  let dl := be_to_N (slice mem ptr (ptr + 32)) in
  ptr + 32 + dl <= blen mem ->
  load_data_from_mem ptr mem = Ok (slice mem (ptr + 32) (ptr + 32 + dl)).
Proof.
  intros Hm H1 dl H2. unfold load_data_from_mem. fold dl.
  replace (two64 <=? ptr) with false by (unfold two64, two63 in *; lia).
  replace ((blen mem <? ptr) || (blen mem - ptr <? 32)) with false by lia.
  replace ((two64 <=? dl) || (blen mem - ptr - 32 <? dl)) with false by (unfold two64, two63 in *; lia).
  reflexivity.
Qed.

Theorem ldm_rejects ptr mem :
  blen mem < two63 ->
  ~ (ptr + 32 <= blen mem /\ ptr + 32 + be_to_N (slice mem ptr (ptr + 32)) <= blen mem) ->
  exists e, load_data_from_mem ptr mem = Err e.
Proof.
  intros Hm H. unfold load_data_from_mem.
  destruct (two64 <=? ptr); [eexists; reflexivity|].
  destruct ((blen mem <? ptr) || (blen mem - ptr <? 32)) eqn:E1; [eexists; reflexivity|].
  destruct ((two64 <=? _) || _) eqn:E2; [eexists; reflexivity|].
  exfalso. apply H. unfold two64, two63 in *. lia.
Qed.

Theorem ldm_no_panic ptr mem : is_panic (load_data_from_mem ptr mem) = false.
Proof.
  unfold load_data_from_mem.
  destruct (two64 <=? ptr); [reflexivity|].
  destruct ((blen mem <? ptr) || _); [reflexivity|].
  destruct ((two64 <=? _) || _); reflexivity.
Qed.

(** bytes copied are bounded by the memory that exists (C20) *)
Theorem ldm_bounded ptr mem b :
  load_data_from_mem ptr mem = Ok b -> blen b <= blen mem.
Proof.
  unfold load_data_from_mem.
  destruct (two64 <=? ptr); [discriminate|].
  destruct ((blen mem <? ptr) || _) eqn:E1; [discriminate|].
  destruct ((two64 <=? _) || _) eqn:E2; [discriminate|].
  intros H; inversion H; subst. unfold blen, slice.
  rewrite firstn_length, skipn_length. lia.
Qed.
