(* Proofs/Exec_stream.v — the callbacks the frame logic makes to a debug tracer that is also an Aspect logger form a
   WELL-NESTED STREAM in the sense of Model/CallTracer.v: the events a frame (below the top level) emits are the event
   stream of a forest of call trees, each CALL frame with the Aspects of its pre join point, then the calls its code makes,
   then the Aspects of its post join point.  Together with the call-tracer theorems (C19) this says what the call tracers
   report for a real execution: the frame of exactly that tree. *)
From Verif Require Import Base.Bytes Model.KeyTree Model.CallTree Model.Journal Model.Tracer Model.Exec Model.CallTracer
     Proofs.CallTree_proofs Proofs.Exec_proofs Proofs.Exec_generic Proofs.CallTracer_proofs.
Open Scope N_scope.

Definition jp_code (pre : bool) : N := if pre then 4 else 8.

(** the tracer callback an event of the model stands for (steps, provider queries, Aspect runtime invocations and journal
    records are not call-tracer callbacks) *)
Definition to_tev (e : event) : option tev :=
  match e with
  | EvStart from to create input gas value => Some (TStart from to create input gas value)
  | EvEnd out used err => Some (TEnd out used (option_map verr_text err))
  | EvEnter kind from to input gas value => Some (TEnter kind from to input gas value)
  | EvExit out used err => Some (TExit out used (option_map verr_text err))
  | EvAspEnter pre from to a input gas value => Some (TAspEnter (jp_code pre) from to a input gas (Some value))
  | EvAspExit pre g r e => Some (TAspExit (jp_code pre) g r e)
  | _ => None
  end.
Fixpoint trs (l : list event) : list tev :=
  match l with
  | [] => []
  | e :: r => match to_tev e with Some t => t :: trs r | None => trs r end
  end.
Lemma trs_app a b : trs (a ++ b) = trs a ++ trs b.
Proof. induction a as [|e a IH]; [reflexivity|]. cbn. destruct (to_tev e); cbn; rewrite IH; reflexivity. Qed.

(** events that are none of the four frame callbacks, nor top-level start/end *)
Definition silent (e : event) : bool :=
  match e with
  | EvStep _ _ | EvJournal _ _ _ _ _ | EvProvider _ _ | EvFire _ _ _ => true
  | _ => false
  end.
Lemma trs_silent l : forallb silent l = true -> trs l = [].
Proof.
  induction l as [|e l IH]; [reflexivity|]. cbn. intros H. apply andb_prop in H as [He Hl].
  destruct e; try discriminate; cbn; apply IH; exact Hl.
Qed.

Section Stream.
  Variable W M HT : Type.
  Variable can_transfer : W -> N -> N -> bool.
  Variable transfer : W -> N -> N -> N -> W.
  Variable balance_of : W -> N -> N.
  Variable exists_acct : W -> N -> bool.
  Variable create_account : W -> N -> W.
  Variable code_of : W -> N -> bytes.
  Variable collides : W -> N -> bool.
  Variable get_nonce : W -> N -> N.
  Variable set_nonce : W -> N -> N -> W.
  Variable acl_add : W -> N -> W.
  Variable set_code : W -> N -> bytes -> W.
  Variable touch : W -> N -> W.
  Variable is_homestead is_eip158 is_berlin is_london : bool.
  Variable max_code_size : N.
  Variable is_precompile : N -> bool.
  Variable precompile : N -> option N -> bytes -> N -> cres.
  Variable local_step : nat -> fctx -> M -> W -> step_out W M HT.
  Variable init_machine : fctx -> N -> HT -> M.
  Variable keccak : bytes -> N.
  Variable artela jp_on asp_logger : bool.
  Variable bound : bool -> N -> res (list N).
  Variable aspect : nat -> bool -> N -> N -> jpin -> bytes * N * option string.

  Notation xst := (xstate W).
  Notation debug := true.
  Notation RUN := (run W M HT can_transfer transfer balance_of exists_acct create_account code_of collides get_nonce set_nonce
                       acl_add set_code touch is_homestead is_eip158 is_berlin is_london max_code_size is_precompile precompile
                       local_step init_machine keccak artela jp_on debug asp_logger bound aspect).
  Notation RUNF := (run_frame W M HT can_transfer transfer balance_of exists_acct create_account code_of collides get_nonce set_nonce
                       acl_add set_code touch is_homestead is_eip158 is_berlin is_london max_code_size is_precompile precompile
                       local_step init_machine keccak artela jp_on debug asp_logger bound aspect).
  Notation CALL := (do_call W M HT can_transfer transfer balance_of exists_acct create_account code_of collides get_nonce set_nonce
                       acl_add set_code touch is_homestead is_eip158 is_berlin is_london max_code_size is_precompile precompile
                       local_step init_machine keccak artela jp_on debug asp_logger bound aspect).
  Notation CALLCODE := (do_callcode W M HT can_transfer transfer balance_of exists_acct create_account code_of collides get_nonce set_nonce
                       acl_add set_code touch is_homestead is_eip158 is_berlin is_london max_code_size is_precompile precompile
                       local_step init_machine keccak artela jp_on debug asp_logger bound aspect).
  Notation DELEGATE := (do_delegatecall W M HT can_transfer transfer balance_of exists_acct create_account code_of collides get_nonce set_nonce
                       acl_add set_code touch is_homestead is_eip158 is_berlin is_london max_code_size is_precompile precompile
                       local_step init_machine keccak artela jp_on debug asp_logger bound aspect).
  Notation STATIC := (do_staticcall W M HT can_transfer transfer balance_of exists_acct create_account code_of collides get_nonce set_nonce
                       acl_add set_code touch is_homestead is_eip158 is_berlin is_london max_code_size is_precompile precompile
                       local_step init_machine keccak artela jp_on debug asp_logger bound aspect).
  Notation CREATE := (do_create W M HT can_transfer transfer balance_of exists_acct create_account code_of collides get_nonce set_nonce
                       acl_add set_code touch is_homestead is_eip158 is_berlin is_london max_code_size is_precompile precompile
                       local_step init_machine keccak artela jp_on debug asp_logger bound aspect).
  Notation JP := (join_point W asp_logger bound aspect).

  (** the instructions themselves make no frame or Aspect callbacks *)
  Hypothesis H_silent : forall d fc m w, forallb silent (step_events (local_step d fc m w)) = true.

  (** [Fd s s' forest]: from s to s' the model emitted exactly the callbacks of [forest]; [Ad] likewise for Aspect executions *)
  Definition Fd (s s' : xst) (forest : list ctree) : Prop :=
    exists ev, xe s' = xe s ++ ev /\ trs ev = flat_map events_c forest /\ forallb wf_c forest = true.
  Definition Ad (s s' : xst) (al : list atree) : Prop :=
    exists ev, xe s' = xe s ++ ev /\ trs ev = flat_map events_a al /\ forallb wf_a al = true.

  Lemma Fd_refl s : Fd s s [].
  Proof. exists []. rewrite app_nil_r. auto. Qed.
  Lemma Fd_same s s' : xe s' = xe s -> Fd s s' [].
  Proof. intros E. exists []. rewrite app_nil_r. auto. Qed.
  Lemma Fd_trans a b c f1 f2 : Fd a b f1 -> Fd b c f2 -> Fd a c (f1 ++ f2).
  Proof.
    intros (e1 & E1 & T1 & W1) (e2 & E2 & T2 & W2). exists (e1 ++ e2).
    rewrite E2, E1, app_assoc, trs_app, T1, T2, flat_map_app, forallb_app, W1, W2. auto.
  Qed.
  Lemma Fd_silent s ev : forallb silent ev = true -> Fd s (emit W s ev) [].
  Proof. intros H. exists ev. rewrite (trs_silent _ H). auto. Qed.
  Lemma Fd_xe a b c f : Fd a b f -> xe c = xe b -> Fd a c f.
  Proof. intros (e & E & T & Wf) H. exists e. rewrite H. auto. Qed.
  Lemma Fd_xe_l a b c f : Fd b c f -> xe a = xe b -> Fd a c f.
  Proof. intros (e & E & T & Wf) H. exists e. rewrite H. auto. Qed.

  Lemma Ad_refl s : Ad s s [].
  Proof. exists []. rewrite app_nil_r. auto. Qed.
  Lemma Ad_trans a b c f1 f2 : Ad a b f1 -> Ad b c f2 -> Ad a c (f1 ++ f2).
  Proof.
    intros (e1 & E1 & T1 & W1) (e2 & E2 & T2 & W2). exists (e1 ++ e2).
    rewrite E2, E1, app_assoc, trs_app, T1, T2, flat_map_app, forallb_app, W1, W2. auto.
  Qed.

  (** one Aspect execution; a whole join point *)
  Lemma run_aspects_stream pre from c input value p ids : forall gas ret s ret' gas' e' s',
    run_aspects W asp_logger aspect pre from c input value p ids gas ret s = (ret', gas', e', s') ->
    exists al, Ad s s' al /\ Forall (fun a => match a with AT _ calls => calls = [] end) al.
  Proof.
    induction ids as [|a rest IH]; intros gas ret s ret' gas' e' s' E; cbn [run_aspects] in E.
    - inversion E; subst. exists []. split; [apply Ad_refl|constructor].
    - cbv zeta in E.
      destruct (aspect (xn (if asp_logger then emit W s [EvAspEnter pre from c a input gas value] else s)) pre a gas
                       {| j_from := j_from p; j_to := j_to p; j_index := j_index p; j_data := j_data p; j_value := j_value p;
                          j_gas := j_gas p; j_ret := j_ret p; j_errtext := j_errtext p |}) as [[r g] e] eqn:EA.
      set (info := {| ai_jp := jp_code pre; ai_from := from; ai_to := c; ai_aspect := a; ai_input := input; ai_gas := gas;
                      ai_value := Some value; ai_left := g; ai_ret := r; ai_err := e |}).
      assert (Hone : exists s1 al1, Ad s s1 al1 /\ Forall (fun a => match a with AT _ calls => calls = [] end) al1 /\
                       s1 = (if asp_logger then emit W (emit W (bump W (if asp_logger then emit W s [EvAspEnter pre from c a input gas value] else s))
                                                                [EvFire pre a {| j_from := j_from p; j_to := j_to p; j_index := j_index p; j_data := j_data p; j_value := j_value p;
                                                                                 j_gas := j_gas p; j_ret := j_ret p; j_errtext := j_errtext p |}]) [EvAspExit pre g r e]
                             else emit W (bump W (if asp_logger then emit W s [EvAspEnter pre from c a input gas value] else s))
                                         [EvFire pre a {| j_from := j_from p; j_to := j_to p; j_index := j_index p; j_data := j_data p; j_value := j_value p;
                                                          j_gas := j_gas p; j_ret := j_ret p; j_errtext := j_errtext p |}])).
      { destruct asp_logger.
        - eexists. exists [AT info []]. split; [|split; [repeat constructor|reflexivity]].
          exists [EvAspEnter pre from c a input gas value;
                  EvFire pre a {| j_from := j_from p; j_to := j_to p; j_index := j_index p; j_data := j_data p; j_value := j_value p;
                                  j_gas := j_gas p; j_ret := j_ret p; j_errtext := j_errtext p |};
                  EvAspExit pre g r e].
          split; [cbn; repeat rewrite <- app_assoc; reflexivity|]. split; [reflexivity|].
          cbn. destruct pre; reflexivity.
        - eexists. exists []. split; [|split; [constructor|reflexivity]].
          exists [EvFire pre a {| j_from := j_from p; j_to := j_to p; j_index := j_index p; j_data := j_data p; j_value := j_value p;
                                  j_gas := j_gas p; j_ret := j_ret p; j_errtext := j_errtext p |}].
          split; [cbn; reflexivity|]. split; reflexivity. }
      destruct Hone as (s1 & al1 & A1 & F1 & ->).
      destruct e as [msg|].
      + inversion E; subst. exists al1. split; assumption.
      + apply IH in E. destruct E as (al2 & A2 & F2). exists (al1 ++ al2). split; [eapply Ad_trans; eassumption|apply Forall_app; split; assumption].
  Qed.

  Lemma jp_stream pre from c input value p gas s ret' gas' e' s' :
    JP pre from c input value p gas s = (ret', gas', e', s') -> exists al, Ad s s' al.
  Proof.
    unfold join_point. destruct (bound pre c) as [ids|e|e].
    - intros E. apply run_aspects_stream in E. destruct E as (al & A & _).
      exists al. destruct A as (ev & E1 & T & Wf). exists (EvProvider pre c :: ev).
      split; [cbn in E1 |- *; rewrite E1, <- app_assoc; reflexivity|]. split; [exact T|exact Wf].
    - intros E; inversion E; subst. exists []. exists [EvProvider pre c]. auto.
    - intros E; inversion E; subst. exists []. exists [EvProvider pre c]. auto.
  Qed.

  (** a bracketed frame: Enter, Aspects of the pre join point, the forest of the body, Aspects of the post join point, Exit *)
  Lemma frame_tree s s1 s2 s3 s4 s5 kind from to input gas value out used err pre body post :
    xe s1 = xe s ++ [EvEnter kind from to input gas value] ->
    Ad s1 s2 pre -> Fd s2 s3 body -> Ad s3 s4 post ->
    xe s5 = xe s4 ++ [EvExit out used err] ->
    Fd s s5 [CT {| ci_typ := kind; ci_from := from; ci_to := to; ci_input := input; ci_gas := gas; ci_value := value;
                   ci_out := out; ci_used := used; ci_err := option_map verr_text err |} pre body post].
  Proof.
    intros E1 (e2 & E2 & T2 & W2) (e3 & E3 & T3 & W3) (e4 & E4 & T4 & W4) E5.
    exists ([EvEnter kind from to input gas value] ++ e2 ++ e3 ++ e4 ++ [EvExit out used err]).
    split; [rewrite E5, E4, E3, E2, E1, <- !app_assoc; reflexivity|].
    split.
    - rewrite !trs_app, T2, T3, T4. cbn. rewrite ?app_nil_r. repeat rewrite <- app_assoc. reflexivity.
    - cbn. rewrite W2, W3, W4. reflexivity.
  Qed.

  Definition PS (fuel : nat) : Prop :=
    (forall d fc m s r s', RUN fuel (S d) fc m s = Some (r, s') -> exists f, Fd s s' f) /\
    (forall d hint fc gas s r s', RUNF fuel d hint fc gas s = Some (r, s') -> exists f, Fd s s' f) /\
    (forall d hint ps caller addr input gas value s r s', CALL fuel (S d) hint ps caller addr input gas value s = Some (r, s') -> exists f, Fd s s' f) /\
    (forall d hint pf addr input gas value s r s', CALLCODE fuel (S d) hint pf addr input gas value s = Some (r, s') -> exists f, Fd s s' f) /\
    (forall d hint pf addr input gas s r s', DELEGATE fuel (S d) hint pf addr input gas s = Some (r, s') -> exists f, Fd s s' f) /\
    (forall d hint pf addr input gas s r s', STATIC fuel (S d) hint pf addr input gas s = Some (r, s') -> exists f, Fd s s' f) /\
    (forall d hint caller code gas value address typ s r s', CREATE fuel (S d) hint caller code gas value address typ s = Some (r, s') -> exists f, Fd s s' f).

  Lemma xe_tail w0 r (s : xst) r' s' : tail W w0 r s = (r', s') -> xe s' = xe s.
  Proof. unfold tail. destruct (r_err r); intros E; inversion E; reflexivity. Qed.

  (* the shape shared by CALLCODE / DELEGATECALL / STATICCALL: Enter, body, tail, Exit *)
  Lemma plain_frame_stream (s s1 s5 s6 : xst) w0 rr r' kind from to input gas value body out used err :
    xe s1 = xe s ++ [EvEnter kind from to input gas value] ->
    Fd s1 s5 body -> tail W w0 rr s5 = (r', s6) ->
    exists f, Fd s (emit W s6 [EvExit out used err]) f.
  Proof.
    intros E1 B T. eexists.
    eapply (frame_tree s s1 s1 s5 s6 (emit W s6 [EvExit out used err]) kind from to input gas value out used err [] body []).
    - exact E1.
    - apply Ad_refl.
    - exact B.
    - exists []. rewrite app_nil_r. split; [apply (xe_tail _ _ _ _ _ T)|auto].
    - reflexivity.
  Qed.

  Theorem frames_emit_tree_streams : forall fuel, PS fuel.
  Proof.
    induction fuel as [|f IH].
    { repeat split; intros; discriminate. }
    destruct IH as [IHrun [IHrunf [IHcall [IHcc [IHdc [IHsc IHcr]]]]]].
    repeat split.
    - (* run *)
      intros d fc m s r s'. cbn [run]. pose proof (H_silent (S d) fc m (xw s)) as HS.
      destruct (local_step (S d) fc m (xw s)) as [m' w' ev|ret g err w' ev|k to input gas value w' ev hint resume|typ code gas value addr w' ev hint resume|j ev resume];
        cbn [step_events] in HS.
      + intros E. apply IHrun in E. destruct E as [f1 F1]. eexists. eapply Fd_trans; [|exact F1].
        eapply Fd_xe_l; [apply (Fd_silent (set_w W s w') ev HS)|reflexivity].
      + intros E; inversion E; subst. eexists. eapply Fd_xe_l; [apply (Fd_silent (set_w W s w') ev HS)|reflexivity].
      + assert (F0 : Fd s (emit W (set_w W s w') ev) []) by (eapply Fd_xe_l; [apply (Fd_silent (set_w W s w') ev HS)|reflexivity]).
        destruct k.
        * match goal with |- context [match ?X with _ => _ end] => destruct X as [[r2 s2]|] eqn:EC end; [|intros; discriminate].
          intros E. apply IHcall in EC. apply IHrun in E. destruct EC as [f1 F1]. destruct E as [f2 F2].
          eexists. eapply Fd_trans; [exact F0|]. eapply Fd_trans; eassumption.
        * match goal with |- context [match ?X with _ => _ end] => destruct X as [[r2 s2]|] eqn:EC end; [|intros; discriminate].
          intros E. apply IHcc in EC. apply IHrun in E. destruct EC as [f1 F1]. destruct E as [f2 F2].
          eexists. eapply Fd_trans; [exact F0|]. eapply Fd_trans; eassumption.
        * match goal with |- context [match ?X with _ => _ end] => destruct X as [[r2 s2]|] eqn:EC end; [|intros; discriminate].
          intros E. apply IHdc in EC. apply IHrun in E. destruct EC as [f1 F1]. destruct E as [f2 F2].
          eexists. eapply Fd_trans; [exact F0|]. eapply Fd_trans; eassumption.
        * match goal with |- context [match ?X with _ => _ end] => destruct X as [[r2 s2]|] eqn:EC end; [|intros; discriminate].
          intros E. apply IHsc in EC. apply IHrun in E. destruct EC as [f1 F1]. destruct E as [f2 F2].
          eexists. eapply Fd_trans; [exact F0|]. eapply Fd_trans; eassumption.
      + assert (F0 : Fd s (emit W (set_w W s w') ev) []) by (eapply Fd_xe_l; [apply (Fd_silent (set_w W s w') ev HS)|reflexivity]).
        match goal with |- context [match ?X with _ => _ end] => destruct X as [[r2 s2]|] eqn:EC end; [|intros; discriminate].
        intros E. apply IHcr in EC. apply IHrun in E. destruct EC as [f1 F1]. destruct E as [f2 F2].
        eexists. eapply Fd_trans; [exact F0|]. eapply Fd_trans; eassumption.
      + match goal with |- context [let '(_, _) := ?X in _] => destruct X as [t' rj] end.
        intros E. apply IHrun in E. destruct E as [f2 F2]. eexists.
        eapply Fd_trans; [apply (Fd_silent s ev HS)|].
        eapply Fd_trans; [|exact F2].
        match goal with |- Fd ?a (emit W ?b ?e) _ => apply (Fd_xe_l a b (emit W b e) []); [apply Fd_silent; reflexivity|reflexivity] end.
    - (* run_frame *)
      intros d hint fc gas s r s'. cbn [run_frame]. destruct (f_code fc).
      + intros E; inversion E; subst. eexists. apply Fd_refl.
      + intros E. apply IHrun in E. exact E.
    - (* do_call *)
      intros d hint ps caller addr input gas value s r s' E.
      rewrite call_unfold in E. cbv beta zeta in E.
      set (s1 := save_call W artela s caller (Some addr) input value gas) in *.
      assert (X1 : xe s1 = xe s) by (unfold s1, save_call; destruct artela; reflexivity).
      assert (XE : forall (x : xst) rr, xe (exit_call W artela x rr) = xe x) by (intros; unfold exit_call; destruct artela; reflexivity).
      destruct (Nat.ltb max_depth (S d)).
      { inversion E; subst. cbn [fst snd]. eexists. apply Fd_same. rewrite XE. exact X1. }
      destruct (negb (value =? 0) && negb (can_transfer (xw s1) caller value)).
      { inversion E; subst. cbn [fst snd]. eexists. apply Fd_same. rewrite XE. exact X1. }
      destruct (negb (exists_acct (xw s1) addr) && negb (is_precompile addr) && is_eip158 && (value =? 0)).
      { inversion E; subst. cbn [fst snd]. eexists.
        eapply (frame_tree s (dbg_open W true s1 (S d) 241 caller addr false input gas (Some value)) _ _ _ _ 241 caller addr input gas (Some value) [] (used64 gas gas) None [] [] []).
        - cbn. rewrite X1. reflexivity.
        - apply Ad_refl.
        - apply Fd_refl.
        - apply Ad_refl.
        - rewrite XE. reflexivity. }
      set (s2 := if exists_acct (xw s1) addr then s1 else set_w W s1 (create_account (xw s1) addr)) in *.
      assert (X2 : xe s2 = xe s) by (unfold s2; destruct (exists_acct (xw s1) addr); exact X1).
      set (s2t := transfer_recorded W transfer balance_of artela s2 caller addr value) in *.
      assert (X2t : xe s2t = xe s) by (unfold s2t, transfer_recorded; destruct artela; exact X2).
      set (s3 := dbg_open W true s2t (S d) 241 caller addr false input gas (Some value)) in *.
      assert (X3 : xe s3 = xe s ++ [EvEnter 241 caller addr input gas (Some value)]) by (cbn; rewrite X2t; reflexivity).
      destruct (is_precompile addr).
      { destruct (tail W (xw s1) (precompile addr (if artela then Some caller else None) input gas) s3) as [r' s''] eqn:T.
        inversion E; subst. cbn [fst snd]. eexists.
        eapply (frame_tree s s3 s3 s3 s'' _ 241 caller addr input gas (Some value) (r_ret r) (used64 gas (r_gas r)) (r_err r) [] [] []).
        - exact X3.
        - apply Ad_refl.
        - apply Fd_refl.
        - exists []. rewrite app_nil_r. split; [apply (xe_tail _ _ _ _ _ T)|auto].
        - rewrite XE. reflexivity. }
      destruct (code_of (xw s3) addr) as [|c0 code] eqn:Ecode.
      { inversion E; subst. cbn [fst snd]. eexists.
        eapply (frame_tree s s3 s3 s3 s3 _ 241 caller addr input gas (Some value) [] (used64 gas gas) None [] [] []).
        - exact X3.
        - apply Ad_refl.
        - apply Fd_refl.
        - apply Ad_refl.
        - rewrite XE. reflexivity. }
      match type of E with context [match ?X with _ => _ end] => destruct X as [[[pret pgas] perr] s4] eqn:EP end.
      assert (A34 : exists pre, Ad s3 s4 pre).
      { destruct (artela && jp_on); [eapply jp_stream; exact EP|]. inversion EP; subst. exists []. apply Ad_refl. }
      destruct A34 as [pre A34].
      destruct perr as [e|].
      { inversion E; subst. cbn [fst snd]. eexists.
        eapply (frame_tree s s3 s4 s4 (set_w W s4 (xw s1)) _ 241 caller addr input gas (Some value) _ _ _ pre [] []).
        - exact X3.
        - exact A34.
        - apply Fd_refl.
        - exists []. rewrite app_nil_r. auto.
        - rewrite XE. reflexivity. }
      match type of E with context [match ?X with _ => _ end] => destruct X as [[rb s5]|] eqn:ER end; [|discriminate].
      apply IHrunf in ER. destruct ER as [body FB].
      match type of E with context [let '(_, _) := ?X in _] => destruct X as [rq s6] eqn:EQ end.
      assert (A56 : exists post, Ad s5 s6 post).
      { destruct (artela && jp_on).
        - match type of EQ with context [let '(_, _) := ?X in _] => destruct X as [[[qret qgas] qerr] s7] eqn:EJ end.
          inversion EQ; subst. eapply jp_stream; exact EJ.
        - inversion EQ; subst. exists []. apply Ad_refl. }
      destruct A56 as [post A56].
      destruct (tail W (xw s1) rq s6) as [r' s''] eqn:T.
      inversion E; subst. cbn [fst snd]. eexists.
      eapply (frame_tree s s3 s4 s5 s'' _ 241 caller addr input gas (Some value) _ _ _ pre body post).
      + exact X3.
      + exact A34.
      + exact FB.
      + destruct A56 as (ev & E6 & T6 & W6). exists ev. rewrite (xe_tail _ _ _ _ _ T). auto.
      + rewrite XE. reflexivity.
    - (* do_callcode *)
      intros d hint pf addr input gas value s r s'. cbn [do_callcode]. cbv beta zeta.
      destruct (Nat.ltb max_depth (S d)); [intros E; inversion E; subst; eexists; apply Fd_refl|].
      destruct (negb (can_transfer (xw s) (f_self pf) value)); [intros E; inversion E; subst; eexists; apply Fd_refl|].
      set (s1 := emit W s [EvEnter 242 (f_self pf) addr input gas (Some value)]).
      destruct (is_precompile addr).
      { match goal with |- context [let '(_, _) := ?X in _] => destruct X as [r' s''] eqn:T end.
        intros E; inversion E; subst.
        eapply (plain_frame_stream s s1 s1 s'' _ _ _ 242 (f_self pf) addr input gas (Some value) []); [reflexivity|apply Fd_refl|exact T]. }
      match goal with |- context [match ?X with _ => _ end] => destruct X as [[rb s5]|] eqn:ER end; [|intros; discriminate].
      apply IHrunf in ER. destruct ER as [body FB].
      match goal with |- context [let '(_, _) := ?X in _] => destruct X as [r' s''] eqn:T end.
      intros E; inversion E; subst.
      eapply (plain_frame_stream s s1 s5 s'' _ _ _ 242 (f_self pf) addr input gas (Some value) body); [reflexivity|exact FB|exact T].
    - (* do_delegatecall *)
      intros d hint pf addr input gas s r s'. cbn [do_delegatecall]. cbv beta zeta.
      destruct (Nat.ltb max_depth (S d)); [intros E; inversion E; subst; eexists; apply Fd_refl|].
      set (s1 := emit W s [EvEnter 244 (f_self pf) addr input gas (Some (f_value pf))]).
      destruct (is_precompile addr).
      { match goal with |- context [let '(_, _) := ?X in _] => destruct X as [r' s''] eqn:T end.
        intros E; inversion E; subst.
        eapply (plain_frame_stream s s1 s1 s'' _ _ _ 244 (f_self pf) addr input gas (Some (f_value pf)) []); [reflexivity|apply Fd_refl|exact T]. }
      match goal with |- context [match ?X with _ => _ end] => destruct X as [[rb s5]|] eqn:ER end; [|intros; discriminate].
      apply IHrunf in ER. destruct ER as [body FB].
      match goal with |- context [let '(_, _) := ?X in _] => destruct X as [r' s''] eqn:T end.
      intros E; inversion E; subst.
      eapply (plain_frame_stream s s1 s5 s'' _ _ _ 244 (f_self pf) addr input gas (Some (f_value pf)) body); [reflexivity|exact FB|exact T].
    - (* do_staticcall *)
      intros d hint pf addr input gas s r s'. cbn [do_staticcall]. cbv beta zeta.
      destruct (Nat.ltb max_depth (S d)); [intros E; inversion E; subst; eexists; apply Fd_refl|].
      set (s1 := emit W (set_w W s (touch (xw s) addr)) [EvEnter 250 (f_self pf) addr input gas None]).
      destruct (is_precompile addr).
      { match goal with |- context [let '(_, _) := ?X in _] => destruct X as [r' s''] eqn:T end.
        intros E; inversion E; subst.
        eapply (plain_frame_stream s s1 s1 s'' _ _ _ 250 (f_self pf) addr input gas None []); [reflexivity|apply Fd_refl|exact T]. }
      match goal with |- context [match ?X with _ => _ end] => destruct X as [[rb s5]|] eqn:ER end; [|intros; discriminate].
      apply IHrunf in ER. destruct ER as [body FB].
      match goal with |- context [let '(_, _) := ?X in _] => destruct X as [r' s''] eqn:T end.
      intros E; inversion E; subst.
      eapply (plain_frame_stream s s1 s5 s'' _ _ _ 250 (f_self pf) addr input gas None body); [reflexivity|exact FB|exact T].
    - (* do_create *)
      intros d hint caller code gas value address typ s r s'. cbn [do_create]. cbv beta zeta.
      set (s1 := save_call W artela s caller None code value gas).
      assert (X1 : xe s1 = xe s) by (unfold s1, save_call; destruct artela; reflexivity).
      assert (XE : forall (x : xst) rr, xe (exit_call W artela x rr) = xe x) by (intros; unfold exit_call; destruct artela; reflexivity).
      destruct (Nat.ltb max_depth (S d)); [intros E; inversion E; subst; cbn [fst snd]; eexists; apply Fd_same; rewrite XE; exact X1|].
      destruct (negb (can_transfer (xw s1) caller value)); [intros E; inversion E; subst; cbn [fst snd]; eexists; apply Fd_same; rewrite XE; exact X1|].
      destruct (two64 <=? get_nonce (xw s1) caller + 1); [intros E; inversion E; subst; cbn [fst snd]; eexists; apply Fd_same; rewrite XE; exact X1|].
      set (s2 := set_w W s1 (set_nonce (xw s1) caller (get_nonce (xw s1) caller + 1))).
      set (s3 := if is_berlin then set_w W s2 (acl_add (xw s2) address) else s2).
      assert (X3 : xe s3 = xe s) by (unfold s3; destruct is_berlin; exact X1).
      destruct (collides (xw s3) address); [intros E; inversion E; subst; cbn [fst snd]; eexists; apply Fd_same; rewrite XE; exact X3|].
      set (s4 := set_w W s3 (create_account (xw s3) address)).
      set (s5 := if is_eip158 then set_w W s4 (set_nonce (xw s4) address 1) else s4).
      assert (X5 : xe s5 = xe s) by (unfold s5; destruct is_eip158; exact X3).
      set (s5t := transfer_recorded W transfer balance_of artela s5 caller address value).
      assert (X5t : xe s5t = xe s) by (unfold s5t, transfer_recorded; destruct artela; exact X5).
      set (s6 := dbg_open W true s5t (S d) typ caller address true code gas (Some value)).
      assert (X6 : xe s6 = xe s ++ [EvEnter typ caller address code gas (Some value)]) by (cbn; rewrite X5t; reflexivity).
      match goal with |- context [match ?X with Some _ => _ | None => None end] => destruct X as [[rb s7]|] eqn:ER end; [|intros; discriminate].
      apply IHrunf in ER. destruct ER as [body FB].
      match goal with |- context [let '(_, _) := ?X in _] => destruct X as [r' s8] eqn:EF end.
      intros E; inversion E; subst. cbn [fst snd]. eexists.
      assert (X8 : xe s8 = xe s7).
      { unfold create_finish in EF. destruct (create_checks is_eip158 is_london max_code_size (r_ret rb) (r_err rb)).
        - inversion EF; reflexivity.
        - destruct (blen (r_ret rb) * 200 <=? r_gas rb); [inversion EF; reflexivity|].
          destruct is_homestead; inversion EF; reflexivity. }
      eapply (frame_tree s s6 s6 s7 s8 _ typ caller address code gas (Some value) _ _ _ [] body []).
      + exact X6.
      + apply Ad_refl.
      + exact FB.
      + exists []. rewrite app_nil_r. auto.
      + rewrite XE. reflexivity.
  Qed.

  (** the top-level CALL of a transaction: either refused before anything is reported, or CaptureStart, the Aspects of its
      pre join point, the forest of its code's calls, the Aspects of its post join point, CaptureEnd *)
  Theorem top_call_stream fuel hint ps caller addr input gas value s r s' :
    CALL fuel 0 hint ps caller addr input gas value s = Some (r, s') ->
    xe s' = xe s \/
    exists pre body post ev out used err,
      xe s' = xe s ++ ev /\
      trs ev = TStart caller addr false input gas value :: flat_map events_a pre ++ flat_map events_c body ++ flat_map events_a post
               ++ [TEnd out used (option_map verr_text err)] /\
      forallb wf_a pre = true /\ forallb wf_c body = true /\ forallb wf_a post = true.
  Proof.
    destruct fuel as [|f]; [discriminate|]. intros E.
    destruct (frames_emit_tree_streams f) as [_ [IHrunf _]].
    rewrite call_unfold in E. cbv beta zeta in E.
    set (s1 := save_call W artela s caller (Some addr) input value gas) in *.
    assert (X1 : xe s1 = xe s) by (unfold s1, save_call; destruct artela; reflexivity).
    assert (XE : forall (x : xst) rr, xe (exit_call W artela x rr) = xe x) by (intros; unfold exit_call; destruct artela; reflexivity).
    assert (SHAPE : forall (s3 s4 s5 s6 sf : xst) pre body post out used err,
               xe s3 = xe s ++ [EvStart caller addr false input gas value] ->
               Ad s3 s4 pre -> Fd s4 s5 body -> Ad s5 s6 post ->
               xe sf = xe s6 ++ [EvEnd out used err] ->
               exists pre0 body0 post0 ev out0 used0 err0,
                 xe sf = xe s ++ ev /\
                 trs ev = TStart caller addr false input gas value :: flat_map events_a pre0 ++ flat_map events_c body0 ++ flat_map events_a post0
                          ++ [TEnd out0 used0 (option_map verr_text err0)] /\
                 forallb wf_a pre0 = true /\ forallb wf_c body0 = true /\ forallb wf_a post0 = true).
    { intros s3 s4 s5 s6 sf pre body post out used err E3 (e4 & E4 & T4 & W4) (e5 & E5 & T5 & W5) (e6 & E6 & T6 & W6) Ef.
      exists pre, body, post, ([EvStart caller addr false input gas value] ++ e4 ++ e5 ++ e6 ++ [EvEnd out used err]), out, used, err.
      split; [rewrite Ef, E6, E5, E4, E3; repeat rewrite <- app_assoc; reflexivity|].
      split; [rewrite !trs_app, T4, T5, T6; cbn; repeat rewrite <- app_assoc; reflexivity|auto]. }
    destruct (Nat.ltb max_depth 0); [inversion E; subst; cbn [fst snd]; left; rewrite XE; exact X1|].
    destruct (negb (value =? 0) && negb (can_transfer (xw s1) caller value)); [inversion E; subst; cbn [fst snd]; left; rewrite XE; exact X1|].
    destruct (negb (exists_acct (xw s1) addr) && negb (is_precompile addr) && is_eip158 && (value =? 0)).
    { inversion E; subst. cbn [fst snd]. right. rewrite XE.
      set (sx := dbg_open W true s1 0 241 caller addr false input gas (Some value)).
      eapply (SHAPE sx sx sx sx _ [] [] []);
        [cbn; rewrite X1; reflexivity|apply Ad_refl|apply Fd_refl|apply Ad_refl|reflexivity]. }
    set (s2 := if exists_acct (xw s1) addr then s1 else set_w W s1 (create_account (xw s1) addr)) in *.
    assert (X2 : xe s2 = xe s) by (unfold s2; destruct (exists_acct (xw s1) addr); exact X1).
    set (s2t := transfer_recorded W transfer balance_of artela s2 caller addr value) in *.
    assert (X2t : xe s2t = xe s) by (unfold s2t, transfer_recorded; destruct artela; exact X2).
    set (s3 := dbg_open W true s2t 0 241 caller addr false input gas (Some value)) in *.
    assert (X3 : xe s3 = xe s ++ [EvStart caller addr false input gas value]) by (cbn; rewrite X2t; reflexivity).
    destruct (is_precompile addr).
    { destruct (tail W (xw s1) (precompile addr (if artela then Some caller else None) input gas) s3) as [r' s''] eqn:T.
      inversion E; subst. cbn [fst snd]. right. rewrite XE.
      eapply (SHAPE s3 s3 s3 s'' _ [] [] []); [exact X3|apply Ad_refl|apply Fd_refl| |reflexivity].
      exists []. rewrite app_nil_r. split; [apply (xe_tail _ _ _ _ _ T)|auto]. }
    destruct (code_of (xw s3) addr) as [|c0 code] eqn:Ecode.
    { inversion E; subst. cbn [fst snd]. right. rewrite XE.
      eapply (SHAPE s3 s3 s3 s3 _ [] [] []); [exact X3|apply Ad_refl|apply Fd_refl|apply Ad_refl|reflexivity]. }
    match type of E with context [match ?X with _ => _ end] => destruct X as [[[pret pgas] perr] s4] eqn:EP end.
    assert (A34 : exists pre, Ad s3 s4 pre).
    { destruct (artela && jp_on); [eapply jp_stream; exact EP|]. inversion EP; subst. exists []. apply Ad_refl. }
    destruct A34 as [pre A34].
    destruct perr as [e|].
    { inversion E; subst. cbn [fst snd]. right. rewrite XE.
      eapply (SHAPE s3 s4 s4 (set_w W s4 (xw s1)) _ pre [] []); [exact X3|exact A34|apply Fd_refl| |reflexivity].
      exists []. rewrite app_nil_r. auto. }
    match type of E with context [match ?X with _ => _ end] => destruct X as [[rb s5]|] eqn:ER end; [|discriminate].
    apply IHrunf in ER. destruct ER as [body FB].
    match type of E with context [let '(_, _) := ?X in _] => destruct X as [rq s6] eqn:EQ end.
    assert (A56 : exists post, Ad s5 s6 post).
    { destruct (artela && jp_on).
      - match type of EQ with context [let '(_, _) := ?X in _] => destruct X as [[[qret qgas] qerr] s7] eqn:EJ end.
        inversion EQ; subst. eapply jp_stream; exact EJ.
      - inversion EQ; subst. exists []. apply Ad_refl. }
    destruct A56 as [post A56].
    destruct (tail W (xw s1) rq s6) as [r' s''] eqn:T.
    inversion E; subst. cbn [fst snd]. right. rewrite XE.
    eapply (SHAPE s3 s4 s5 s'' _ pre body post); [exact X3|exact A34|exact FB| |reflexivity].
    destruct A56 as (ev & E6 & T6 & W6). exists ev. rewrite (xe_tail _ _ _ _ _ T). auto.
  Qed.

  (** ... and therefore the call tracer, fed the callbacks of any such frame while some frame [f] is open with no Aspect
      running, appends to [f]'s calls exactly the frames of the forest — each call under its issuer, each Aspect execution
      under its call's join point, nothing twice or missing (composition with the C19 theorems) *)
  Corollary traced_frames fuel d hint ps caller addr input gas value s r s' :
    CALL fuel (S d) hint ps caller addr input gas value s = Some (r, s') ->
    exists forest ev, xe s' = xe s ++ ev /\
      forall f rest g b k,
        ct_run false (st (of f 0 :: rest) g b) (trs ev ++ k) =
        ct_run false (st (of (cf_set_calls f (cf_calls f ++ map frame_c forest)) 0 :: rest) g b) k.
  Proof.
    intros E. destruct (frames_emit_tree_streams fuel) as [_ [_ [Hc _]]].
    destruct (Hc _ _ _ _ _ _ _ _ _ _ _ E) as (forest & ev & E1 & T & Wf).
    exists forest, ev. split; [exact E1|]. intros f rest g b k. rewrite T.
    apply runs_calls. apply forall_runs_c. exact Wf.
  Qed.

  (** the whole top-level CALL through the call tracer: unless the call is refused before anything is reported, the
      tracer's result is the frame of the tree of what ran *)
  Corollary traced_top_call fuel hint ps caller addr input gas value s r s' :
    CALL fuel 0 hint ps caller addr input gas value s = Some (r, s') ->
    xe s' = xe s \/
    exists ev x, xe s' = xe s ++ ev /\ trs ev = events_call x /\
      x_from x = caller /\ x_to x = addr /\ x_input x = input /\ x_value x = value /\ x_create x = false /\
      match ct_run false t_init (trs ev) with Ok st => ct_result st | Err e => Err e | Panic e => Panic e end = Ok (frame_call x).
  Proof.
    intros E. destruct (top_call_stream _ _ _ _ _ _ _ _ _ _ _ E) as [H|(pre & body & post & ev & out & used & err & E1 & T & W1 & W2 & W3)];
      [left; exact H|right].
    set (x := {| x_gaslimit := 0; x_rest := 0; x_pretx := []; x_from := caller; x_to := addr; x_create := false; x_input := input;
                 x_gas := gas; x_value := value; x_pre := pre; x_body := body; x_post := post; x_out := out; x_used := used;
                 x_err := option_map verr_text err; x_posttx := [] |}).
    exists ev, x. split; [exact E1|]. split; [exact T|]. repeat (split; [reflexivity|]).
    rewrite T. apply (ct_call_exact x); assumption.
  Qed.
End Stream.
