(* Proofs/Exec_refine.v — C01/C02/C18: with nothing bound to any join point, the frame logic WITH the Artela
   additions (call tree, balance journal, join points, context-carrying precompile calls) computes exactly what the
   frame logic WITHOUT them computes: same results and gas, same world state, same debug-tracer events — for every
   instruction semantics, entry point, call tree, gas and fuel.  The only difference is bookkeeping in the Artela
   tracer (erased) and the provider queries (filtered from the event list). *)
From Verif Require Import Base.Bytes Model.KeyTree Model.CallTree Model.Journal Model.Tracer Model.Exec
     Proofs.CallTree_proofs Proofs.Exec_proofs Proofs.Exec_generic.
Open Scope N_scope.

Section Refine.
  Variable W M HT : Type.
  Variable can_transfer : W -> N -> N -> bool.
  Variable transfer : W -> N -> N -> N -> W.
  Variable balance_of : W -> N -> N.
  Variable exists_acct : W -> N -> bool.
  Variable create_account : W -> N -> W.
  Variable code_of : W -> N -> bytes.
  Variable collides : W -> N -> bool.
  Variable get_nonce : W -> N -> N.
  Variable set_nonce : W -> N -> N -> W.
  Variable acl_add : W -> N -> W.
  Variable set_code : W -> N -> bytes -> W.
  Variable touch : W -> N -> W.
  Variable is_homestead is_eip158 is_berlin is_london : bool.
  Variable max_code_size : N.
  Variable is_precompile : N -> bool.
  Variable precompile : N -> option N -> bytes -> N -> cres.
  Variable local_step : nat -> fctx -> M -> W -> step_out W M HT.
  Variable init_machine : fctx -> N -> HT -> M.
  Variable keccak : bytes -> N.
  Variable debug : bool.
  (* the Artela side: additions on, join points on or off, nothing bound *)
  Variables jpA alA : bool.
  Variable aspA : nat -> bool -> N -> N -> jpin -> bytes * N * option string.
  (* the reference side: additions off (whatever the other switches say) *)
  Variables jpR alR : bool.
  Variable bR : bool -> N -> res (list N).
  Variable aspR : nat -> bool -> N -> N -> jpin -> bytes * N * option string.
  Variable t0 : tracer.

  Notation xst := (xstate W).
  Notation nobind := (fun (_ : bool) (_ : N) => @Ok (list N) []).
  Notation RUN_A := (run W M HT can_transfer transfer balance_of exists_acct create_account code_of collides get_nonce set_nonce
                       acl_add set_code touch is_homestead is_eip158 is_berlin is_london max_code_size is_precompile precompile
                       local_step init_machine keccak true jpA debug alA nobind aspA).
  Notation RUNF_A := (run_frame W M HT can_transfer transfer balance_of exists_acct create_account code_of collides get_nonce set_nonce
                       acl_add set_code touch is_homestead is_eip158 is_berlin is_london max_code_size is_precompile precompile
                       local_step init_machine keccak true jpA debug alA nobind aspA).
  Notation CALL_A := (do_call W M HT can_transfer transfer balance_of exists_acct create_account code_of collides get_nonce set_nonce
                       acl_add set_code touch is_homestead is_eip158 is_berlin is_london max_code_size is_precompile precompile
                       local_step init_machine keccak true jpA debug alA nobind aspA).
  Notation CALLCODE_A := (do_callcode W M HT can_transfer transfer balance_of exists_acct create_account code_of collides get_nonce set_nonce
                       acl_add set_code touch is_homestead is_eip158 is_berlin is_london max_code_size is_precompile precompile
                       local_step init_machine keccak true jpA debug alA nobind aspA).
  Notation DELEGATE_A := (do_delegatecall W M HT can_transfer transfer balance_of exists_acct create_account code_of collides get_nonce set_nonce
                       acl_add set_code touch is_homestead is_eip158 is_berlin is_london max_code_size is_precompile precompile
                       local_step init_machine keccak true jpA debug alA nobind aspA).
  Notation STATIC_A := (do_staticcall W M HT can_transfer transfer balance_of exists_acct create_account code_of collides get_nonce set_nonce
                       acl_add set_code touch is_homestead is_eip158 is_berlin is_london max_code_size is_precompile precompile
                       local_step init_machine keccak true jpA debug alA nobind aspA).
  Notation CREATE_A := (do_create W M HT can_transfer transfer balance_of exists_acct create_account code_of collides get_nonce set_nonce
                       acl_add set_code touch is_homestead is_eip158 is_berlin is_london max_code_size is_precompile precompile
                       local_step init_machine keccak true jpA debug alA nobind aspA).
  Notation RUN_R := (run W M HT can_transfer transfer balance_of exists_acct create_account code_of collides get_nonce set_nonce
                       acl_add set_code touch is_homestead is_eip158 is_berlin is_london max_code_size is_precompile precompile
                       local_step init_machine keccak false jpR debug alR bR aspR).
  Notation RUNF_R := (run_frame W M HT can_transfer transfer balance_of exists_acct create_account code_of collides get_nonce set_nonce
                       acl_add set_code touch is_homestead is_eip158 is_berlin is_london max_code_size is_precompile precompile
                       local_step init_machine keccak false jpR debug alR bR aspR).
  Notation CALL_R := (do_call W M HT can_transfer transfer balance_of exists_acct create_account code_of collides get_nonce set_nonce
                       acl_add set_code touch is_homestead is_eip158 is_berlin is_london max_code_size is_precompile precompile
                       local_step init_machine keccak false jpR debug alR bR aspR).
  Notation CALLCODE_R := (do_callcode W M HT can_transfer transfer balance_of exists_acct create_account code_of collides get_nonce set_nonce
                       acl_add set_code touch is_homestead is_eip158 is_berlin is_london max_code_size is_precompile precompile
                       local_step init_machine keccak false jpR debug alR bR aspR).
  Notation DELEGATE_R := (do_delegatecall W M HT can_transfer transfer balance_of exists_acct create_account code_of collides get_nonce set_nonce
                       acl_add set_code touch is_homestead is_eip158 is_berlin is_london max_code_size is_precompile precompile
                       local_step init_machine keccak false jpR debug alR bR aspR).
  Notation STATIC_R := (do_staticcall W M HT can_transfer transfer balance_of exists_acct create_account code_of collides get_nonce set_nonce
                       acl_add set_code touch is_homestead is_eip158 is_berlin is_london max_code_size is_precompile precompile
                       local_step init_machine keccak false jpR debug alR bR aspR).
  Notation CREATE_R := (do_create W M HT can_transfer transfer balance_of exists_acct create_account code_of collides get_nonce set_nonce
                       acl_add set_code touch is_homestead is_eip158 is_berlin is_london max_code_size is_precompile precompile
                       local_step init_machine keccak false jpR debug alR bR aspR).

  (** what the reference cannot see: the Artela tracer's state and the join-point events *)
  Definition keep (e : event) : bool := negb (is_jp_event e).
  Definition erase (s : xst) : xst := {| xw := xw s; xt := t0; xe := filter keep (xe s); xn := xn s |}.

  (** side conditions: a STANDARD program — its instructions emit no join-point events of their own and none of them
      is a journal instruction — and standard precompiles, which do not look at the execution context *)
  Hypothesis H_ev : forall d fc m w, Forall (fun e => is_jp_event e = false) (step_events (local_step d fc m w)).
  Hypothesis H_std : forall d fc m w, match local_step d fc m w with SJournal _ _ _ _ _ _ => False | _ => True end.
  Hypothesis H_pre : forall a c i g, precompile a (Some c) i g = precompile a None i g.

  Lemma filter_keep_all ev : Forall (fun e => is_jp_event e = false) ev -> filter keep ev = ev.
  Proof. induction 1 as [|e ev He _ IH]; [reflexivity|]. cbn. unfold keep at 1. rewrite He. cbn. rewrite IH. reflexivity. Qed.

  Lemma erase_emit s ev : Forall (fun e => is_jp_event e = false) ev -> erase (emit W s ev) = emit W (erase s) ev.
  Proof. intros H. unfold erase, emit. cbn. rewrite filter_app, (filter_keep_all ev H). reflexivity. Qed.
  Lemma erase_emit1 s e : is_jp_event e = false -> erase (emit W s [e]) = emit W (erase s) [e].
  Proof. intros H. apply erase_emit. constructor; [exact H|constructor]. Qed.
  Lemma erase_emit_jp s e : is_jp_event e = true -> erase (emit W s [e]) = erase s.
  Proof. intros H. unfold erase, emit. cbn. rewrite filter_app. cbn. unfold keep at 2. rewrite H. cbn. rewrite app_nil_r. reflexivity. Qed.
  Lemma erase_set_w s w : erase (set_w W s w) = set_w W (erase s) w.
  Proof. reflexivity. Qed.
  Lemma erase_set_t s t : erase (set_t W s t) = erase s.
  Proof. reflexivity. Qed.
  Lemma xw_erase s : xw (erase s) = xw s.
  Proof. reflexivity. Qed.

  Lemma erase_save s f t d v g : erase (save_call W true s f t d v g) = erase s.
  Proof. reflexivity. Qed.
  Lemma erase_exit s r : erase (exit_call W true s r) = erase s.
  Proof. reflexivity. Qed.
  Lemma erase_transfer s f t v :
    erase (transfer_recorded W transfer balance_of true s f t v) = transfer_recorded W transfer balance_of false (erase s) f t v.
  Proof. reflexivity. Qed.
  Lemma erase_dopen s d k f t c i g v : erase (dbg_open W debug s d k f t c i g v) = dbg_open W debug (erase s) d k f t c i g v.
  Proof. unfold dbg_open. destruct debug; [|reflexivity]. apply erase_emit1. destruct d; reflexivity. Qed.
  Lemma erase_dclose s d r a b : erase (dbg_close W debug s d r a b) = dbg_close W debug (erase s) d r a b.
  Proof. unfold dbg_close. destruct debug; [|reflexivity]. apply erase_emit1. destruct d; reflexivity. Qed.
  Lemma erase_tail w0 r s r' s' : tail W w0 r s = (r', s') -> tail W w0 r (erase s) = (r', erase s').
  Proof. unfold tail. destruct (r_err r); intros E; inversion E; subst; reflexivity. Qed.
  Lemma erase_dbg_emit s e : is_jp_event e = false ->
    erase (if debug then emit W s [e] else s) = (if debug then emit W (erase s) [e] else erase s).
  Proof. intros H. destruct debug; [apply erase_emit1; exact H|reflexivity]. Qed.

  (** a join point nobody is bound to: one provider query, nothing else *)
  Lemma jp_unbound pre from c input value p gas s :
    join_point W alA nobind aspA pre from c input value p gas s = ([], gas, None, emit W s [EvProvider pre c]).
  Proof. reflexivity. Qed.
  Lemma post_merge_id r : post_merge r [] (r_gas r) None = r.
  Proof. destruct r; reflexivity. Qed.

  Definition PR (fuel : nat) : Prop :=
    (forall d fc m s r s', RUN_A fuel d fc m s = Some (r, s') -> RUN_R fuel d fc m (erase s) = Some (r, erase s')) /\
    (forall d hint fc gas s r s', RUNF_A fuel d hint fc gas s = Some (r, s') -> RUNF_R fuel d hint fc gas (erase s) = Some (r, erase s')) /\
    (forall d hint ps caller addr input gas value s r s',
        CALL_A fuel d hint ps caller addr input gas value s = Some (r, s') ->
        CALL_R fuel d hint ps caller addr input gas value (erase s) = Some (r, erase s')) /\
    (forall d hint pf addr input gas value s r s',
        CALLCODE_A fuel d hint pf addr input gas value s = Some (r, s') ->
        CALLCODE_R fuel d hint pf addr input gas value (erase s) = Some (r, erase s')) /\
    (forall d hint pf addr input gas s r s',
        DELEGATE_A fuel d hint pf addr input gas s = Some (r, s') ->
        DELEGATE_R fuel d hint pf addr input gas (erase s) = Some (r, erase s')) /\
    (forall d hint pf addr input gas s r s',
        STATIC_A fuel d hint pf addr input gas s = Some (r, s') ->
        STATIC_R fuel d hint pf addr input gas (erase s) = Some (r, erase s')) /\
    (forall d hint caller code gas value address typ s r s',
        CREATE_A fuel d hint caller code gas value address typ s = Some (r, s') ->
        CREATE_R fuel d hint caller code gas value address typ (erase s) = Some (r, erase s')).

  (* replace the first match scrutinee of the goal by a known value *)
  Ltac goal_scrut X :=
    match goal with |- context [match ?Y with _ => _ end] => replace Y with X by (symmetry; eassumption) end.

  Theorem additions_invisible : forall fuel, PR fuel.
  Proof.
    induction fuel as [|f IH].
    { repeat split; intros; discriminate. }
    destruct IH as [IHrun [IHrunf [IHcall [IHcc [IHdc [IHsc IHcr]]]]]].
    repeat split.
    - (* run *)
      intros d fc m s r s' E. cbn [run] in E |- *. change (xw (erase s)) with (xw s).
      pose proof (H_ev d fc m (xw s)) as Hev. pose proof (H_std d fc m (xw s)) as Hstd.
      destruct (local_step d fc m (xw s)) as [m' w' ev|ret g err w' ev|k to input gas value w' ev hint resume|typ code gas value addr w' ev hint resume|j ev resume];
        cbn [step_events] in Hev.
      + rewrite <- erase_set_w, <- (erase_emit _ _ Hev). eapply IHrun. exact E.
      + inversion E; subst. rewrite <- erase_set_w, <- (erase_emit _ _ Hev). reflexivity.
      + rewrite <- erase_set_w, <- (erase_emit _ _ Hev).
        destruct k.
        * match type of E with context [match ?X with _ => _ end] => destruct X as [[r2 s2]|] eqn:EC end; [|discriminate].
          pose proof (IHcall _ _ _ _ _ _ _ _ _ _ _ EC) as X. goal_scrut (Some (r2, erase s2)). eapply IHrun. exact E.
        * match type of E with context [match ?X with _ => _ end] => destruct X as [[r2 s2]|] eqn:EC end; [|discriminate].
          pose proof (IHcc _ _ _ _ _ _ _ _ _ _ EC) as X. goal_scrut (Some (r2, erase s2)). eapply IHrun. exact E.
        * match type of E with context [match ?X with _ => _ end] => destruct X as [[r2 s2]|] eqn:EC end; [|discriminate].
          pose proof (IHdc _ _ _ _ _ _ _ _ _ EC) as X. goal_scrut (Some (r2, erase s2)). eapply IHrun. exact E.
        * match type of E with context [match ?X with _ => _ end] => destruct X as [[r2 s2]|] eqn:EC end; [|discriminate].
          pose proof (IHsc _ _ _ _ _ _ _ _ _ EC) as X. goal_scrut (Some (r2, erase s2)). eapply IHrun. exact E.
      + rewrite <- erase_set_w, <- (erase_emit _ _ Hev).
        match type of E with context [match ?X with _ => _ end] => destruct X as [[r2 s2]|] eqn:EC end; [|discriminate].
        pose proof (IHcr _ _ _ _ _ _ _ _ _ _ _ EC) as X. goal_scrut (Some (r2, erase s2)). eapply IHrun. exact E.
      + contradiction.
    - (* run_frame *)
      intros d hint fc gas s r s' E. cbn [run_frame] in E |- *. destruct (f_code fc).
      + inversion E; subst. reflexivity.
      + eapply IHrun. exact E.
    - (* do_call *)
      intros d hint ps caller addr input gas value s r s' E.
      rewrite call_unfold in E. rewrite call_unfold. cbv beta zeta in E |- *.
      cbn [save_call] in E |- *.
      set (s1 := set_t W s (t_save_call (xt s) caller (Some addr) input value gas)) in *.
      assert (E1 : erase s1 = erase s) by reflexivity.
      change (xw s1) with (xw s) in E. change (xw (erase s)) with (xw s).
      destruct (Nat.ltb max_depth d).
      { inversion E; subst. cbn [fst snd exit_call]. reflexivity. }
      destruct (negb (value =? 0) && negb (can_transfer (xw s) caller value)).
      { inversion E; subst. cbn [fst snd exit_call]. reflexivity. }
      destruct (negb (exists_acct (xw s) addr) && negb (is_precompile addr) && is_eip158 && (value =? 0)).
      { inversion E; subst. cbn [fst snd exit_call]. rewrite erase_set_t, !erase_dclose, !erase_dopen, E1. reflexivity. }
      set (s2 := if exists_acct (xw s) addr then s1 else set_w W s1 (create_account (xw s) addr)) in *.
      assert (E2 : erase s2 = (if exists_acct (xw s) addr then erase s else set_w W (erase s) (create_account (xw s) addr))).
      { subst s2. destruct (exists_acct (xw s) addr); reflexivity. }
      rewrite <- E2. rewrite <- erase_transfer, <- erase_dopen.
      set (s3 := dbg_open W debug (transfer_recorded W transfer balance_of true s2 caller addr value) d 241 caller addr false input gas (Some value)) in *.
      destruct (is_precompile addr).
      { cbn [andb] in E |- *. rewrite H_pre in E.
        destruct (tail W (xw s) (precompile addr None input gas) s3) as [r' s''] eqn:T.
        rewrite (erase_tail _ _ _ _ _ T). inversion E; subst. cbn [fst snd exit_call].
        rewrite erase_set_t, erase_dclose. reflexivity. }
      change (xw (erase s3)) with (xw s3).
      destruct (code_of (xw s3) addr) as [|c0 code] eqn:Ecode.
      { inversion E; subst. cbn [fst snd exit_call]. rewrite erase_set_t, erase_dclose. reflexivity. }
      cbn [andb] in E |- *.
      (* the Artela side: pre join point (if on) is a provider query; the reference side has none *)
      set (fc := {| f_self := addr; f_code_addr := addr; f_caller := caller; f_value := value; f_input := input;
                    f_code := c0 :: code; f_static := ps; f_create := false |}) in *.
      destruct jpA.
      + rewrite jp_unbound in E.
        match type of E with context [match ?X with _ => _ end] => destruct X as [[rb s5]|] eqn:ER end; [|discriminate].
        pose proof (IHrunf _ _ _ _ _ _ _ ER) as X. rewrite erase_emit_jp in X by reflexivity.
        goal_scrut (Some (rb, erase s5)).
        rewrite jp_unbound in E. rewrite post_merge_id in E.
        destruct (tail W (xw s) rb (emit W s5 [EvProvider false addr])) as [r' s''] eqn:T.
        apply erase_tail in T. rewrite erase_emit_jp in T by reflexivity. rewrite T.
        inversion E; subst. cbn [fst snd exit_call]. rewrite erase_set_t, erase_dclose. reflexivity.
      + match type of E with context [match ?X with _ => _ end] => destruct X as [[rb s5]|] eqn:ER end; [|discriminate].
        pose proof (IHrunf _ _ _ _ _ _ _ ER) as X. goal_scrut (Some (rb, erase s5)).
        destruct (tail W (xw s) rb s5) as [r' s''] eqn:T.
        rewrite (erase_tail _ _ _ _ _ T).
        inversion E; subst. cbn [fst snd exit_call]. rewrite erase_set_t, erase_dclose. reflexivity.
    - (* do_callcode *)
      intros d hint pf addr input gas value s r s' E. cbn [do_callcode] in E |- *. cbv beta zeta in E |- *.
      change (xw (erase s)) with (xw s).
      destruct (Nat.ltb max_depth d); [inversion E; subst; reflexivity|].
      destruct (negb (can_transfer (xw s) (f_self pf) value)); [inversion E; subst; reflexivity|].
      rewrite <- (erase_dbg_emit s (EvEnter 242 (f_self pf) addr input gas (Some value))) by reflexivity.
      set (s1 := if debug then emit W s [EvEnter 242 (f_self pf) addr input gas (Some value)] else s) in *.
      destruct (is_precompile addr).
      { destruct (tail W (xw s) (precompile addr None input gas) s1) as [r' s''] eqn:T.
        rewrite (erase_tail _ _ _ _ _ T). inversion E; subst. rewrite erase_dbg_emit by reflexivity. reflexivity. }
      change (xw (erase s1)) with (xw s1).
      match type of E with context [match ?X with _ => _ end] => destruct X as [[rb s5]|] eqn:ER end; [|discriminate].
      pose proof (IHrunf _ _ _ _ _ _ _ ER) as X. goal_scrut (Some (rb, erase s5)).
      destruct (tail W (xw s) rb s5) as [r' s''] eqn:T. rewrite (erase_tail _ _ _ _ _ T).
      inversion E; subst. rewrite erase_dbg_emit by reflexivity. reflexivity.
    - (* do_delegatecall *)
      intros d hint pf addr input gas s r s' E. cbn [do_delegatecall] in E |- *. cbv beta zeta in E |- *.
      change (xw (erase s)) with (xw s).
      destruct (Nat.ltb max_depth d); [inversion E; subst; reflexivity|].
      rewrite <- (erase_dbg_emit s (EvEnter 244 (f_self pf) addr input gas (Some (f_value pf)))) by reflexivity.
      set (s1 := if debug then emit W s [EvEnter 244 (f_self pf) addr input gas (Some (f_value pf))] else s) in *.
      destruct (is_precompile addr).
      { destruct (tail W (xw s) (precompile addr None input gas) s1) as [r' s''] eqn:T.
        rewrite (erase_tail _ _ _ _ _ T). inversion E; subst. rewrite erase_dbg_emit by reflexivity. reflexivity. }
      change (xw (erase s1)) with (xw s1).
      match type of E with context [match ?X with _ => _ end] => destruct X as [[rb s5]|] eqn:ER end; [|discriminate].
      pose proof (IHrunf _ _ _ _ _ _ _ ER) as X. goal_scrut (Some (rb, erase s5)).
      destruct (tail W (xw s) rb s5) as [r' s''] eqn:T. rewrite (erase_tail _ _ _ _ _ T).
      inversion E; subst. rewrite erase_dbg_emit by reflexivity. reflexivity.
    - (* do_staticcall *)
      intros d hint pf addr input gas s r s' E. cbn [do_staticcall] in E |- *. cbv beta zeta in E |- *.
      change (xw (erase s)) with (xw s).
      destruct (Nat.ltb max_depth d); [inversion E; subst; reflexivity|].
      rewrite <- erase_set_w.
      rewrite <- (erase_dbg_emit (set_w W s (touch (xw s) addr)) (EvEnter 250 (f_self pf) addr input gas None)) by reflexivity.
      set (s1 := if debug then emit W (set_w W s (touch (xw s) addr)) [EvEnter 250 (f_self pf) addr input gas None] else set_w W s (touch (xw s) addr)) in *.
      destruct (is_precompile addr).
      { destruct (tail W (xw s) (precompile addr None input gas) s1) as [r' s''] eqn:T.
        rewrite (erase_tail _ _ _ _ _ T). inversion E; subst. rewrite erase_dbg_emit by reflexivity. reflexivity. }
      change (xw (erase s1)) with (xw s1).
      match type of E with context [match ?X with _ => _ end] => destruct X as [[rb s5]|] eqn:ER end; [|discriminate].
      pose proof (IHrunf _ _ _ _ _ _ _ ER) as X. goal_scrut (Some (rb, erase s5)).
      destruct (tail W (xw s) rb s5) as [r' s''] eqn:T. rewrite (erase_tail _ _ _ _ _ T).
      inversion E; subst. rewrite erase_dbg_emit by reflexivity. reflexivity.
    - (* do_create *)
      intros d hint caller code gas value address typ s r s' E. cbn [do_create] in E |- *. cbv beta zeta in E |- *.
      cbn [save_call] in E |- *.
      set (s1 := set_t W s (t_save_call (xt s) caller None code value gas)) in *.
      change (xw s1) with (xw s) in E. change (xw (erase s)) with (xw s).
      destruct (Nat.ltb max_depth d); [inversion E; subst; reflexivity|].
      destruct (negb (can_transfer (xw s) caller value)); [inversion E; subst; reflexivity|].
      destruct (two64 <=? get_nonce (xw s) caller + 1); [inversion E; subst; reflexivity|].
      set (s2 := set_w W s1 (set_nonce (xw s) caller (get_nonce (xw s) caller + 1))) in *.
      change (set_w W (erase s) (set_nonce (xw s) caller (get_nonce (xw s) caller + 1))) with (erase s2).
      set (s3 := if is_berlin then set_w W s2 (acl_add (xw s2) address) else s2) in *.
      assert (E3 : (if is_berlin then set_w W (erase s2) (acl_add (xw (erase s2)) address) else erase s2) = erase s3).
      { subst s3. destruct is_berlin; reflexivity. }
      rewrite E3. change (xw (erase s3)) with (xw s3).
      destruct (collides (xw s3) address); [inversion E; subst; reflexivity|].
      set (s4 := set_w W s3 (create_account (xw s3) address)) in *.
      change (set_w W (erase s3) (create_account (xw s3) address)) with (erase s4).
      set (s5 := if is_eip158 then set_w W s4 (set_nonce (xw s4) address 1) else s4) in *.
      assert (E5 : (if is_eip158 then set_w W (erase s4) (set_nonce (xw (erase s4)) address 1) else erase s4) = erase s5).
      { subst s5. destruct is_eip158; reflexivity. }
      rewrite E5. rewrite <- erase_transfer, <- erase_dopen.
      match type of E with context [match ?X with _ => _ end] => destruct X as [[rb s6]|] eqn:ER end; [|discriminate].
      pose proof (IHrunf _ _ _ _ _ _ _ ER) as X. goal_scrut (Some (rb, erase s6)).
      assert (CF : forall r' s7, create_finish W set_code is_homestead is_eip158 is_london max_code_size (xw s3) address rb s6 = (r', s7) ->
                                 create_finish W set_code is_homestead is_eip158 is_london max_code_size (xw s3) address rb (erase s6) = (r', erase s7)).
      { intros r' s7. unfold create_finish. destruct (create_checks is_eip158 is_london max_code_size (r_ret rb) (r_err rb)).
        - intros Q; inversion Q; subst; reflexivity.
        - destruct (blen (r_ret rb) * 200 <=? r_gas rb); [intros Q; inversion Q; subst; reflexivity|].
          destruct is_homestead; intros Q; inversion Q; subst; reflexivity. }
      match type of E with context [match ?X with _ => _ end] => destruct X as [r' s7] eqn:EF end.
      rewrite (CF r' s7 eq_refl). inversion E; subst. cbn [fst snd exit_call]. rewrite erase_set_t, erase_dclose. reflexivity.
  Qed.
End Refine.
