(* Proofs/Exec_generic.v — one mutual induction over the seven functions of Model/Exec.v, generic in
   the relation [Qd] between the state before and after, so that each further property of whole
   executions (event nesting, journal tagging, absence of join points, ...) only has to say how the
   elementary steps of the frame logic behave. *)
From Verif Require Import Base.Bytes Model.KeyTree Model.CallTree Model.Journal Model.Tracer Model.Exec.
From Coq Require Import ZifyN ZifyNat ZifyBool.
Open Scope N_scope.

Definition step_events {W M HT} (o : step_out W M HT) : list event :=
  match o with
  | SNext _ _ _ _ _ ev => ev | SDone _ _ _ _ _ _ _ ev => ev | SCall _ _ _ _ _ _ _ _ _ ev _ _ => ev
  | SCreate _ _ _ _ _ _ _ _ _ ev _ _ => ev | SJournal _ _ _ _ ev _ => ev
  end.

Definition is_open_event (e : event) : bool :=
  match e with EvStart _ _ _ _ _ _ | EvEnter _ _ _ _ _ _ => true | _ => false end.
Definition is_close_event (e : event) : bool :=
  match e with EvEnd _ _ _ | EvExit _ _ _ => true | _ => false end.
Definition matching (o c : event) : bool :=
  match o, c with
  | EvStart _ _ _ _ _ _, EvEnd _ _ _ => true
  | EvEnter _ _ _ _ _ _, EvExit _ _ _ => true
  | _, _ => false
  end.
Definition is_jp_event (e : event) : bool :=
  match e with EvProvider _ _ | EvAspEnter _ _ _ _ _ _ _ | EvFire _ _ _ | EvAspExit _ _ _ _ => true | _ => false end.

Section Generic.
  Variable W M HT : Type.
  Variable can_transfer : W -> N -> N -> bool.
  Variable transfer : W -> N -> N -> N -> W.
  Variable balance_of : W -> N -> N.
  Variable exists_acct : W -> N -> bool.
  Variable create_account : W -> N -> W.
  Variable code_of : W -> N -> bytes.
  Variable collides : W -> N -> bool.
  Variable get_nonce : W -> N -> N.
  Variable set_nonce : W -> N -> N -> W.
  Variable acl_add : W -> N -> W.
  Variable set_code : W -> N -> bytes -> W.
  Variable touch : W -> N -> W.
  Variable is_homestead is_eip158 is_berlin is_london : bool.
  Variable max_code_size : N.
  Variable is_precompile : N -> bool.
  Variable precompile : N -> option N -> bytes -> N -> cres.
  Variable local_step : nat -> fctx -> M -> W -> step_out W M HT.
  Variable init_machine : fctx -> N -> HT -> M.
  Variable keccak : bytes -> N.
  Variable artela jp_on debug asp_logger : bool.
  Variable bound : bool -> N -> res (list N).
  Variable aspect : nat -> bool -> N -> N -> jpin -> bytes * N * option string.

  Notation xst := (xstate W).
  Notation RUN := (run W M HT can_transfer transfer balance_of exists_acct create_account code_of collides get_nonce set_nonce
                       acl_add set_code touch is_homestead is_eip158 is_berlin is_london max_code_size is_precompile precompile
                       local_step init_machine keccak artela jp_on debug asp_logger bound aspect).
  Notation RUNF := (run_frame W M HT can_transfer transfer balance_of exists_acct create_account code_of collides get_nonce set_nonce
                       acl_add set_code touch is_homestead is_eip158 is_berlin is_london max_code_size is_precompile precompile
                       local_step init_machine keccak artela jp_on debug asp_logger bound aspect).
  Notation CALL := (do_call W M HT can_transfer transfer balance_of exists_acct create_account code_of collides get_nonce set_nonce
                       acl_add set_code touch is_homestead is_eip158 is_berlin is_london max_code_size is_precompile precompile
                       local_step init_machine keccak artela jp_on debug asp_logger bound aspect).
  Notation CALLCODE := (do_callcode W M HT can_transfer transfer balance_of exists_acct create_account code_of collides get_nonce set_nonce
                       acl_add set_code touch is_homestead is_eip158 is_berlin is_london max_code_size is_precompile precompile
                       local_step init_machine keccak artela jp_on debug asp_logger bound aspect).
  Notation DELEGATE := (do_delegatecall W M HT can_transfer transfer balance_of exists_acct create_account code_of collides get_nonce set_nonce
                       acl_add set_code touch is_homestead is_eip158 is_berlin is_london max_code_size is_precompile precompile
                       local_step init_machine keccak artela jp_on debug asp_logger bound aspect).
  Notation STATIC := (do_staticcall W M HT can_transfer transfer balance_of exists_acct create_account code_of collides get_nonce set_nonce
                       acl_add set_code touch is_homestead is_eip158 is_berlin is_london max_code_size is_precompile precompile
                       local_step init_machine keccak artela jp_on debug asp_logger bound aspect).
  Notation CREATE := (do_create W M HT can_transfer transfer balance_of exists_acct create_account code_of collides get_nonce set_nonce
                       acl_add set_code touch is_homestead is_eip158 is_berlin is_london max_code_size is_precompile precompile
                       local_step init_machine keccak artela jp_on debug asp_logger bound aspect).
  Notation JP := (join_point W asp_logger bound aspect).
  Notation TRANSFER := (transfer_recorded W transfer balance_of artela).
  Notation SAVE := (save_call W artela).
  Notation EXIT := (exit_call W artela).
  Notation DOPEN := (dbg_open W debug).
  Notation DCLOSE := (dbg_close W debug).


  (** [Qd d s s']: what happened between [s] and [s'] was initiated at EVM depth [d] or deeper *)
  Variable Qd : nat -> xst -> xst -> Prop.
  Hypothesis Q_refl : forall d s, Qd d s s.
  Hypothesis Q_trans : forall d a b c, Qd d a b -> Qd d b c -> Qd d a c.
  Hypothesis Q_mono : forall d s s', Qd (S d) s s' -> Qd d s s'.
  Hypothesis Q_set_w : forall d s w, Qd d s (set_w W s w).
  Hypothesis Q_bump : forall d s, Qd d s (bump W s).
  (** events an instruction emits by itself, in a frame running at depth [S d] *)
  Hypothesis Q_step : forall d fc m (s : xst) w', Qd (S d) (set_w W s w') (emit W (set_w W s w') (step_events (local_step (S d) fc m (xw s)))).
  Hypothesis Q_step_j : forall d fc m (s : xst), Qd (S d) s (emit W s (step_events (local_step (S d) fc m (xw s)))).
  (** join-point events (only ever emitted with the Artela additions and join points on) *)
  Hypothesis Q_jp : forall d s e, artela && jp_on = true -> is_jp_event e = true -> Qd d s (emit W s [e]).
  (** debug-tracer brackets (only with a debug tracer attached) *)
  Hypothesis Q_dbg : forall d s s2 o c, debug = true -> matching o c = true ->
      Qd d (emit W s [o]) s2 -> Qd d s (emit W s2 [c]).
  (** call-tree brackets and the balance journal *)
  Hypothesis Q_tree : forall d s s2 from to data value gas r, Qd d (SAVE s from to data value gas) s2 -> Qd d s (EXIT s2 r).
  Hypothesis Q_transfer : forall d s f t v, Qd d s (TRANSFER s f t v).
  (** a journal instruction executed by a frame running at depth [S d] *)
  Hypothesis Q_journal : forall d (s : xst) st op self mem stack,
      Qd (S d) s (emit W (set_t W s (fst (jop st keccak op self mem stack (xt s))))
                      [EvJournal (S d) self (current_index (tc (xt s))) op (is_ok (snd (jop st keccak op self mem stack (xt s))))]).

  Lemma Q_tail d w0 r s r' s' : tail W w0 r s = (r', s') -> Qd d s s'.
  Proof. unfold tail. destruct (r_err r); intros E; inversion E; subst; [apply Q_set_w|apply Q_refl]. Qed.

  Lemma Q_run_aspects d pre from c input value p ids : artela && jp_on = true -> forall gas ret s ret' gas' e' s',
    run_aspects W asp_logger aspect pre from c input value p ids gas ret s = (ret', gas', e', s') -> Qd d s s'.
  Proof.
    intros Hj. induction ids as [|a rest IH]; intros gas ret s ret' gas' e' s' E; cbn [run_aspects] in E.
    - inversion E; subst. apply Q_refl.
    - cbv zeta in E.
      set (s1 := if asp_logger then emit W s [EvAspEnter pre from c a input gas value] else s) in *.
      assert (Q1 : Qd d s s1) by (subst s1; destruct asp_logger; [apply Q_jp; auto|apply Q_refl]).
      destruct (aspect (xn s1) pre a gas _) as [[r g] e].
      match type of E with context [emit W (bump W s1) [?ev]] => set (s2 := emit W (bump W s1) [ev]) in * end.
      assert (Q2 : Qd d s1 s2) by (eapply Q_trans; [apply Q_bump|apply Q_jp; auto]).
      set (s3 := if asp_logger then emit W s2 [EvAspExit pre g r e] else s2) in *.
      assert (Q3 : Qd d s2 s3) by (subst s3; destruct asp_logger; [apply Q_jp; auto|apply Q_refl]).
      destruct e as [e|].
      + inversion E; subst. eapply Q_trans; [exact Q1|]. eapply Q_trans; [exact Q2|exact Q3].
      + eapply Q_trans; [exact Q1|]. eapply Q_trans; [exact Q2|]. eapply Q_trans; [exact Q3|]. eapply IH. exact E.
  Qed.

  Lemma Q_join_point d pre from c input value p gas s ret' gas' e' s' :
    artela && jp_on = true -> JP pre from c input value p gas s = (ret', gas', e', s') -> Qd d s s'.
  Proof.
    intros Hj. unfold join_point.
    assert (Q0 : Qd d s (emit W s [EvProvider pre c])) by (apply Q_jp; auto).
    destruct (bound pre c).
    - intros E. eapply Q_trans; [exact Q0|]. eapply Q_run_aspects; eassumption.
    - intros E; inversion E; subst. exact Q0.
    - intros E; inversion E; subst. exact Q0.
  Qed.

  (** the debug bracket as the frame logic writes it *)
  Lemma Q_dopen_dclose d s depth kind from to create input gas value s2 r a b :
    Qd d (DOPEN s depth kind from to create input gas value) s2 -> Qd d s (DCLOSE s2 depth r a b).
  Proof.
    unfold dbg_open, dbg_close. destruct (Bool.bool_dec debug true) as [Ed|Ed].
    - rewrite Ed. intros X. eapply Q_dbg; [exact Ed| |exact X]; destruct depth; reflexivity.
    - apply Bool.not_true_is_false in Ed. rewrite Ed. intros X; exact X.
  Qed.

  Definition P_all (fuel : nat) : Prop :=
    (forall d fc m s r s', RUN fuel (S d) fc m s = Some (r, s') -> Qd (S d) s s') /\
    (forall d hint fc gas s r s', RUNF fuel d hint fc gas s = Some (r, s') -> Qd (S d) s s') /\
    (forall d hint ps caller addr input gas value s r s', CALL fuel d hint ps caller addr input gas value s = Some (r, s') -> Qd (S d) s s') /\
    (forall d hint pf addr input gas value s r s', CALLCODE fuel d hint pf addr input gas value s = Some (r, s') -> Qd (S d) s s') /\
    (forall d hint pf addr input gas s r s', DELEGATE fuel d hint pf addr input gas s = Some (r, s') -> Qd (S d) s s') /\
    (forall d hint pf addr input gas s r s', STATIC fuel d hint pf addr input gas s = Some (r, s') -> Qd (S d) s s') /\
    (forall d hint caller code gas value address typ s r s', CREATE fuel d hint caller code gas value address typ s = Some (r, s') -> Qd (S d) s s').

  (** the three non-recording call kinds share their shape: Enter, body, tail, Exit *)
  Lemma plain_frame d (s s1 s5 s6 : xst) w0 rr r' o c :
    matching o c = true ->
    s1 = (if debug then emit W s [o] else s) ->
    Qd d s1 s5 -> tail W w0 rr s5 = (r', s6) ->
    Qd d s (if debug then emit W s6 [c] else s6).
  Proof.
    intros Hm -> Q15 T. destruct (Bool.bool_dec debug true) as [Ed|Ed].
    - rewrite Ed in Q15 |- *. eapply Q_dbg; [exact Ed|exact Hm|]. eapply Q_trans; [exact Q15|eapply Q_tail; exact T].
    - apply Bool.not_true_is_false in Ed. rewrite Ed in Q15 |- *. eapply Q_trans; [exact Q15|eapply Q_tail; exact T].
  Qed.

  Theorem generic_induction : forall fuel, P_all fuel.
  Proof.
    induction fuel as [|f IH].
    { repeat split; intros; discriminate. }
    destruct IH as [IHrun [IHrunf [IHcall [IHcc [IHdc [IHsc IHcr]]]]]].
    repeat split.
    - (* run *)
      intros d fc m s r s'. cbn [run].
      pose proof (Q_step d fc m s) as QS. pose proof (Q_step_j d fc m s) as QJ.
      destruct (local_step (S d) fc m (xw s)) as [m' w' ev|ret g err w' ev|k to input gas value w' ev hint resume|typ code gas value addr w' ev hint resume|j ev resume]; cbn [step_events] in QS, QJ.
      + intros E. eapply Q_trans; [|eapply IHrun; exact E]. eapply Q_trans; [apply Q_set_w|apply QS].
      + intros E; inversion E; subst. eapply Q_trans; [apply Q_set_w|apply QS].
      + set (s1 := emit W (set_w W s w') ev).
        assert (Q1 : Qd (S d) s s1) by (eapply Q_trans; [apply Q_set_w|apply QS]).
        destruct k.
        * match goal with |- context [match ?X with _ => _ end] => destruct X as [[r2 s2]|] eqn:EC end; [|intros; discriminate].
          intros E. eapply Q_trans; [exact Q1|]. eapply Q_trans; [apply Q_mono; eapply IHcall; exact EC|eapply IHrun; exact E].
        * match goal with |- context [match ?X with _ => _ end] => destruct X as [[r2 s2]|] eqn:EC end; [|intros; discriminate].
          intros E. eapply Q_trans; [exact Q1|]. eapply Q_trans; [apply Q_mono; eapply IHcc; exact EC|eapply IHrun; exact E].
        * match goal with |- context [match ?X with _ => _ end] => destruct X as [[r2 s2]|] eqn:EC end; [|intros; discriminate].
          intros E. eapply Q_trans; [exact Q1|]. eapply Q_trans; [apply Q_mono; eapply IHdc; exact EC|eapply IHrun; exact E].
        * match goal with |- context [match ?X with _ => _ end] => destruct X as [[r2 s2]|] eqn:EC end; [|intros; discriminate].
          intros E. eapply Q_trans; [exact Q1|]. eapply Q_trans; [apply Q_mono; eapply IHsc; exact EC|eapply IHrun; exact E].
      + set (s1 := emit W (set_w W s w') ev).
        assert (Q1 : Qd (S d) s s1) by (eapply Q_trans; [apply Q_set_w|apply QS]).
        match goal with |- context [match ?X with _ => _ end] => destruct X as [[r2 s2]|] eqn:EC end; [|intros; discriminate].
        intros E. eapply Q_trans; [exact Q1|]. eapply Q_trans; [apply Q_mono; eapply IHcr; exact EC|eapply IHrun; exact E].
      + set (s1 := emit W s ev).
        pose proof (Q_journal d s1 (jr_storage j) (jr_op j) (f_self fc) (jr_mem j) (jr_stack j)) as QX.
        destruct (jop (jr_storage j) keccak (jr_op j) (f_self fc) (jr_mem j) (jr_stack j) (xt s1)) as [t' rj] eqn:EJ.
        cbn [fst snd] in QX.
        intros E. eapply Q_trans; [exact QJ|]. eapply Q_trans; [exact QX|]. eapply IHrun. exact E.
    - (* run_frame *)
      intros d hint fc gas s r s'. cbn [run_frame]. destruct (f_code fc).
      + intros E; inversion E; subst. apply Q_refl.
      + intros E. eapply IHrun. exact E.
    - (* do_call *)
      intros d hint ps caller addr input gas value s r s'. cbn [do_call]. cbv beta zeta.
      set (s1 := SAVE s caller (Some addr) input value gas).
      destruct (Nat.ltb max_depth d).
      { intros E; inversion E; subst. cbn [fst snd]. eapply Q_tree. apply Q_refl. }
      destruct (negb (value =? 0) && negb (can_transfer (xw s1) caller value)).
      { intros E; inversion E; subst. cbn [fst snd]. eapply Q_tree. apply Q_refl. }
      destruct (negb (exists_acct (xw s1) addr) && negb (is_precompile addr) && is_eip158 && (value =? 0)).
      { intros E; inversion E; subst. cbn [fst snd]. eapply Q_tree. eapply Q_dopen_dclose. apply Q_refl. }
      set (s2 := if exists_acct (xw s1) addr then s1 else set_w W s1 (create_account (xw s1) addr)).
      assert (Q2 : Qd (S d) s1 s2) by (subst s2; destruct (exists_acct (xw s1) addr); [apply Q_refl|apply Q_set_w]).
      set (s2t := TRANSFER s2 caller addr value).
      assert (Q2t : Qd (S d) s1 s2t) by (eapply Q_trans; [exact Q2|apply Q_transfer]).
      set (s3 := DOPEN s2t d 0xf1 caller addr false input gas (Some value)).
      destruct (is_precompile addr).
      { destruct (tail W (xw s1) (precompile addr (if artela then Some caller else None) input gas) s3) as [r' s''] eqn:T.
        intros E; inversion E; subst. cbn [fst snd]. eapply Q_tree.
        eapply Q_trans; [exact Q2t|]. eapply Q_dopen_dclose. eapply Q_tail. exact T. }
      destruct (code_of (xw s3) addr) as [|c0 code].
      { intros E; inversion E; subst. cbn [fst snd]. eapply Q_tree. eapply Q_trans; [exact Q2t|]. eapply Q_dopen_dclose. apply Q_refl. }
      match goal with |- context [match ?X with _ => _ end] => remember X as PRE eqn:EP end.
      destruct PRE as [[[pret pgas] perr] s4]. symmetry in EP.
      assert (Q4 : Qd (S d) s3 s4).
      { destruct (Bool.bool_dec (artela && jp_on) true) as [Ej|Ej].
        - rewrite Ej in EP. eapply Q_join_point; [exact Ej|exact EP].
        - apply Bool.not_true_is_false in Ej. rewrite Ej in EP. inversion EP; subst; apply Q_refl. }
      destruct perr as [e|].
      { intros E; inversion E; subst. cbn [fst snd]. eapply Q_tree.
        eapply Q_trans; [exact Q2t|]. eapply Q_dopen_dclose. eapply Q_trans; [exact Q4|apply Q_set_w]. }
      match goal with |- context [match ?X with _ => _ end] => remember X as RF eqn:ER end.
      destruct RF as [[rr s5]|]; [|discriminate]. symmetry in ER.
      match goal with |- context [match ?X with _ => _ end] => remember X as POST eqn:EQ end.
      destruct POST as [rq s6]. symmetry in EQ.
      assert (Q6 : Qd (S d) s5 s6).
      { destruct (Bool.bool_dec (artela && jp_on) true) as [Ej|Ej].
        - rewrite Ej in EQ.
          match type of EQ with context [match ?X with _ => _ end] => destruct X as [[[qret qgas] qerr] s7] eqn:EJ end.
          inversion EQ; subst. eapply Q_join_point; [exact Ej|exact EJ].
        - apply Bool.not_true_is_false in Ej. rewrite Ej in EQ. inversion EQ; subst. apply Q_refl. }
      destruct (tail W (xw s1) rq s6) as [r' s''] eqn:T.
      intros E; inversion E; subst. cbn [fst snd]. eapply Q_tree.
      eapply Q_trans; [exact Q2t|]. eapply Q_dopen_dclose.
      eapply Q_trans; [exact Q4|]. eapply Q_trans; [eapply IHrunf; exact ER|].
      eapply Q_trans; [exact Q6|]. eapply Q_tail. exact T.
    - (* do_callcode *)
      intros d hint pf addr input gas value s r s'. cbn [do_callcode]. cbv beta zeta.
      destruct (Nat.ltb max_depth d); [intros E; inversion E; subst; apply Q_refl|].
      destruct (negb (can_transfer (xw s) (f_self pf) value)); [intros E; inversion E; subst; apply Q_refl|].
      match goal with |- context [if debug then emit W s [?oo] else s] => set (o := oo); set (s1 := if debug then emit W s [o] else s) end.
      destruct (is_precompile addr).
      { destruct (tail W (xw s) (precompile addr None input gas) s1) as [r' s''] eqn:T.
        intros E; injection E as <- <-. eapply (plain_frame (S d) s s1 s1 s'' (xw s) _ r' o); [reflexivity|reflexivity|apply Q_refl|exact T]. }
      match goal with |- context [match ?X with _ => _ end] => remember X as RF eqn:ER end.
      destruct RF as [[rr s5]|]; [|discriminate]. symmetry in ER.
      destruct (tail W (xw s) rr s5) as [r' s''] eqn:T.
      intros E; injection E as <- <-.
      eapply (plain_frame (S d) s s1 s5 s'' (xw s) rr r' o); [reflexivity|reflexivity|eapply IHrunf; exact ER|exact T].
    - (* do_delegatecall *)
      intros d hint pf addr input gas s r s'. cbn [do_delegatecall]. cbv beta zeta.
      destruct (Nat.ltb max_depth d); [intros E; inversion E; subst; apply Q_refl|].
      match goal with |- context [if debug then emit W s [?oo] else s] => set (o := oo); set (s1 := if debug then emit W s [o] else s) end.
      destruct (is_precompile addr).
      { destruct (tail W (xw s) (precompile addr None input gas) s1) as [r' s''] eqn:T.
        intros E; injection E as <- <-. eapply (plain_frame (S d) s s1 s1 s'' (xw s) _ r' o); [reflexivity|reflexivity|apply Q_refl|exact T]. }
      match goal with |- context [match ?X with _ => _ end] => remember X as RF eqn:ER end.
      destruct RF as [[rr s5]|]; [|discriminate]. symmetry in ER.
      destruct (tail W (xw s) rr s5) as [r' s''] eqn:T.
      intros E; injection E as <- <-.
      eapply (plain_frame (S d) s s1 s5 s'' (xw s) rr r' o); [reflexivity|reflexivity|eapply IHrunf; exact ER|exact T].
    - (* do_staticcall *)
      intros d hint pf addr input gas s r s'. cbn [do_staticcall]. cbv beta zeta.
      destruct (Nat.ltb max_depth d); [intros E; inversion E; subst; apply Q_refl|].
      set (st := set_w W s (touch (xw s) addr)).
      match goal with |- context [if debug then emit W st [?oo] else st] => set (o := oo); set (s1 := if debug then emit W st [o] else st) end.
      destruct (is_precompile addr).
      { destruct (tail W (xw s) (precompile addr None input gas) s1) as [r' s''] eqn:T.
        intros E; injection E as <- <-. eapply Q_trans; [apply (Q_set_w (S d) s (touch (xw s) addr))|]. fold st.
        eapply (plain_frame (S d) st s1 s1 s'' (xw s) _ r' o); [reflexivity|reflexivity|apply Q_refl|exact T]. }
      match goal with |- context [match ?X with _ => _ end] => remember X as RF eqn:ER end.
      destruct RF as [[rr s5]|]; [|discriminate]. symmetry in ER.
      destruct (tail W (xw s) rr s5) as [r' s''] eqn:T.
      intros E; injection E as <- <-. eapply Q_trans; [apply (Q_set_w (S d) s (touch (xw s) addr))|]. fold st.
      eapply (plain_frame (S d) st s1 s5 s'' (xw s) rr r' o); [reflexivity|reflexivity|eapply IHrunf; exact ER|exact T].
    - (* do_create *)
      intros d hint caller code gas value address typ s r s'. cbn [do_create]. cbv beta zeta.
      set (s1 := SAVE s caller None code value gas).
      destruct (Nat.ltb max_depth d).
      { intros E; inversion E; subst. cbn [fst snd]. eapply Q_tree. apply Q_refl. }
      destruct (negb (can_transfer (xw s1) caller value)).
      { intros E; inversion E; subst. cbn [fst snd]. eapply Q_tree. apply Q_refl. }
      destruct (two64 <=? get_nonce (xw s1) caller + 1).
      { intros E; inversion E; subst. cbn [fst snd]. eapply Q_tree. apply Q_refl. }
      set (s2 := set_w W s1 (set_nonce (xw s1) caller (get_nonce (xw s1) caller + 1))).
      set (s3 := if is_berlin then set_w W s2 (acl_add (xw s2) address) else s2).
      assert (Q3 : Qd (S d) s1 s3).
      { eapply Q_trans; [apply (Q_set_w (S d) s1)|]. fold s2. subst s3. destruct is_berlin; [apply Q_set_w|apply Q_refl]. }
      destruct (collides (xw s3) address).
      { intros E; inversion E; subst. cbn [fst snd]. eapply Q_tree. exact Q3. }
      set (s4 := set_w W s3 (create_account (xw s3) address)).
      set (s5 := if is_eip158 then set_w W s4 (set_nonce (xw s4) address 1) else s4).
      set (s6 := TRANSFER s5 caller address value).
      assert (Q6 : Qd (S d) s1 s6).
      { eapply Q_trans; [exact Q3|]. eapply Q_trans; [apply (Q_set_w (S d) s3)|]. fold s4.
        eapply Q_trans; [|apply Q_transfer]. subst s5. destruct is_eip158; [apply Q_set_w|apply Q_refl]. }
      match goal with |- context [match ?X with _ => _ end] => remember X as RF eqn:ER end.
      destruct RF as [[rr s7]|]; [|discriminate]. symmetry in ER.
      match goal with |- context [match ?X with _ => _ end] => remember X as CF eqn:EF end.
      destruct CF as [r' s8]. symmetry in EF.
      intros E; inversion E; subst. cbn [fst snd]. eapply Q_tree.
      eapply Q_trans; [exact Q6|]. eapply Q_dopen_dclose.
      eapply Q_trans; [eapply IHrunf; exact ER|].
      unfold create_finish in EF.
      repeat match type of EF with context [match ?X with _ => _ end] => destruct X end;
        inversion EF; subst; first [apply Q_set_w | apply Q_refl].
  Qed.
End Generic.
