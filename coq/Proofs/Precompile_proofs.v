From Verif Require Import Base.Bytes Proofs.Bytes_proofs Model.Precompile.
From Coq Require Import ZifyN ZifyNat ZifyBool.
Ltac Zify.zify_post_hook ::= Z.div_mod_to_equations.
Open Scope N_scope.

Lemma go_slice_ok {A} (l : list A) i j :
  i <= j -> j <= N.of_nat (length l) -> go_slice l i j = Ok (slice l i j).
Proof.
  intros H1 H2. unfold go_slice.
  destruct (i <=? j) eqn:E1; [|lia]. destruct (j <=? N.of_nat (length l)) eqn:E2; [|lia]. reflexivity.
Qed.

Lemma firstn_32_slice (p : bytes) off :
  off + 32 <= blen p -> firstn 32 (slice p off (off + 32)) = slice p off (off + 32).
Proof.
  intros H. apply firstn_all2. rewrite length_slice by (unfold blen in *; lia). lia.
Qed.

(** The decoder, wrap-around included, computes exactly the ABI specification for every
    payload a Go slice can hold (length below 2^63) and every parameter index. *)
Theorem lpb_refines_abi (p : bytes) (i : N) :
  blen p < two63 ->
  match abi_bytes_at p i with
  | Some b => load_param_bytes p i = Ok b
  | None => exists e, load_param_bytes p i = Err e
  end.
Proof.
  intros Hlen. unfold abi_bytes_at, load_param_bytes.
  replace (i * 32) with (32 * i) by lia.
  destruct (blen p <? 32 * i + 32) eqn:E1; [eexists; reflexivity|].
  set (w := be_to_N (slice p (32 * i) (32 * i + 32))).
  destruct (two64 <=? w) eqn:E2.
  { replace (blen p <? w + 32) with true; [eexists; reflexivity|].
    unfold two64, two63 in *. lia. }
  assert (Hw : w < two64) by lia.
  destruct (blen p <? w + 32) eqn:E3.
  { (* start is either wrapped or beyond the payload *)
    unfold u64.
    destruct (((w + 32) mod two64 <? w) || (blen p <? (w + 32) mod two64)) eqn:E4;
      [eexists; reflexivity|].
    exfalso. unfold two64, two63 in *. lia. }
  assert (Hs : u64 (w + 32) = w + 32).
  { unfold u64. apply N.mod_small. unfold two64, two63 in *. lia. }
  rewrite Hs.
  replace ((w + 32 <? w) || (blen p <? w + 32)) with false by lia.
  rewrite go_slice_ok by (unfold blen in *; lia). cbn [bind].
  replace (blen (slice p w (w + 32)) <? 32) with false.
  2:{ unfold blen. rewrite length_slice by (unfold blen in *; lia). lia. }
  rewrite firstn_32_slice by lia.
  set (dl := be_to_N (slice p w (w + 32))).
  destruct (two64 <=? dl) eqn:E5.
  { replace (blen p <? w + 32 + dl) with true; [eexists; reflexivity|].
    unfold two64, two63 in *. lia. }
  destruct (blen p <? w + 32 + dl) eqn:E6.
  { unfold u64.
    destruct (((w + 32 + dl) mod two64 <? w + 32) || (blen p <? (w + 32 + dl) mod two64)) eqn:E7;
      [eexists; reflexivity|].
    exfalso. unfold two64, two63 in *. lia. }
  assert (He : u64 (w + 32 + dl) = w + 32 + dl).
  { unfold u64. apply N.mod_small. unfold two64, two63 in *. lia. }
  rewrite He.
  replace ((w + 32 + dl <? w + 32) || (blen p <? w + 32 + dl)) with false by lia.
  apply go_slice_ok; unfold blen in *; lia.
Qed.

Corollary lpb_no_panic p i : blen p < two63 -> is_panic (load_param_bytes p i) = false.
Proof.
  intros H. pose proof (lpb_refines_abi p i H) as L.
  destruct (abi_bytes_at p i); [rewrite L; reflexivity|destruct L as [e ->]; reflexivity].
Qed.

Section Host.
  Variable host : hostcall -> res bytes.

  Definition decodes (input : bytes) : option (bytes * bytes) :=
    match abi_bytes_at input 0, abi_bytes_at input 1 with
    | Some k, Some v => Some (k, v)
    | _, _ => None
    end.

  Definition lift_unit (r : res bytes) : res bytes :=
    match r with Ok _ => Ok [] | Err e => Err e | Panic w => Panic w end.

  (** A decodable (key, value) payload reaches the host exactly, under the context's address;
      the result is the host's. *)
  Theorem ctxwriter_exact from input k v :
    blen input < two63 -> 128 <= blen input -> decodes input = Some (k, v) ->
    run_ctxwriter host (Some from) input = (lift_unit (host (HSet from k v)), [HSet from k v]).
  Proof.
    intros Hlen H128 Hd. unfold run_ctxwriter, decodes in *.
    replace (blen input <? 128) with false by lia.
    pose proof (lpb_refines_abi input 0 Hlen) as L0. pose proof (lpb_refines_abi input 1 Hlen) as L1.
    destruct (abi_bytes_at input 0) as [k'|]; [|discriminate].
    destruct (abi_bytes_at input 1) as [v'|]; [|discriminate].
    inversion Hd; subst. rewrite L0, L1. reflexivity.
  Qed.

  (** A payload of at least the minimum size that does not decode is rejected with an error
      and the host is not called. *)
  Theorem ctxwriter_malformed_rejected ctx input :
    blen input < two63 -> 128 <= blen input -> decodes input = None ->
    exists e, run_ctxwriter host ctx input = (Err e, []).
  Proof.
    intros Hlen H128 Hd. unfold run_ctxwriter, decodes in *.
    replace (blen input <? 128) with false by lia.
    pose proof (lpb_refines_abi input 0 Hlen) as L0. pose proof (lpb_refines_abi input 1 Hlen) as L1.
    destruct (abi_bytes_at input 0) as [k'|].
    - rewrite L0. destruct (abi_bytes_at input 1) as [v'|]; [discriminate|].
      destruct L1 as [e ->]. eexists; reflexivity.
    - destruct L0 as [e ->]. eexists; reflexivity.
  Qed.

  (** Without a context (every call kind but CALL) a write is refused, the host is not called. *)
  Theorem ctxwriter_no_ctx_refused input :
    blen input < two63 ->
    snd (run_ctxwriter host None input) = [] /\ is_panic (fst (run_ctxwriter host None input)) = false.
  Proof.
    intros Hlen. unfold run_ctxwriter.
    destruct (blen input <? 128); [split; reflexivity|].
    pose proof (lpb_no_panic input 0 Hlen) as P0. pose proof (lpb_no_panic input 1 Hlen) as P1.
    destruct (load_param_bytes input 0); cbn in *; try (split; [reflexivity|congruence]).
    destruct (load_param_bytes input 1); cbn in *; try (split; [reflexivity|congruence]).
  Qed.

  (** Attribution for every call kind: whatever the payload, a write that reaches the host is
      filed under the address of the contract whose CALL reached the precompile. *)
  Theorem write_attribution k caller addr input gas c :
    In c (snd (call_artela host k caller addr input gas)) ->
    match c with
    | HSet from _ _ => from = caller /\ k = KCall /\ addr = 0x66
    | HGet _ _ => addr = 0x64
    | HJit _ => addr = 0x65
    end.
  Proof.
    unfold call_artela. destruct (gas <? precompile_fee); [cbn; tauto|].
    unfold run_artela.
    destruct (addr =? 0x64) eqn:E64.
    { unfold run_aspcontext. destruct (blen input <? 20); cbn; [tauto|].
      intros [<-|[]]. lia. }
    destruct (addr =? 0x65) eqn:E65.
    { unfold run_userop. destruct (blen input =? 0); cbn; [tauto|].
      intros [<-|[]]. lia. }
    destruct (addr =? 0x66) eqn:E66; [|cbn; tauto].
    unfold run_ctxwriter. destruct (blen input <? 128); [cbn; tauto|].
    destruct (load_param_bytes input 0); [|cbn; tauto|cbn; tauto].
    destruct (load_param_bytes input 1); [|cbn; tauto|cbn; tauto].
    destruct k; cbn; try tauto.
    intros [<-|[]]. repeat split; lia.
  Qed.

  (** No payload, call kind or gas value makes an Artela precompile panic, provided the host
      callbacks do not. *)
  Theorem artela_precompiles_no_panic k caller addr input gas :
    blen input < two63 ->
    (forall c, is_panic (host c) = false) ->
    is_panic (fst (fst (call_artela host k caller addr input gas))) = false.
  Proof.
    intros Hlen Hh. unfold call_artela. destruct (gas <? precompile_fee); [reflexivity|].
    unfold run_artela.
    destruct (addr =? 0x64).
    { unfold run_aspcontext. destruct (blen input <? 20); cbn; [reflexivity|apply Hh]. }
    destruct (addr =? 0x65).
    { unfold run_userop. destruct (blen input =? 0); cbn; [reflexivity|].
      match goal with |- context [host ?c] => specialize (Hh c); destruct (host c) end; cbn in *; congruence. }
    destruct (addr =? 0x66); [|reflexivity].
    unfold run_ctxwriter. destruct (blen input <? 128); [reflexivity|].
    pose proof (lpb_no_panic input 0 Hlen) as P0. pose proof (lpb_no_panic input 1 Hlen) as P1.
    destruct (load_param_bytes input 0); cbn in *; try congruence.
    destruct (load_param_bytes input 1); cbn in *; try congruence.
    destruct (ctx_for_kind k caller); cbn; [|reflexivity].
    match goal with |- context [host ?c] => specialize (Hh c); destruct (host c) end; cbn in *; congruence.
  Qed.

  Theorem aspcontext_exact input :
    20 <= blen input ->
    run_aspcontext host input =
      (host (HGet (firstn 20 input) (skipn 20 input)), [HGet (firstn 20 input) (skipn 20 input)]).
  Proof. intros H. unfold run_aspcontext. replace (blen input <? 20) with false by lia. reflexivity. Qed.

  Theorem userop_exact input :
    blen input = 32 ->
    run_userop host input =
      (match host (HJit input) with Ok a => Ok (left_pad 32 (last_n 20 a)) | Err e => Err e | Panic w => Panic w end,
       [HJit input]).
  Proof.
    intros H. unfold run_userop. replace (blen input =? 0) with false by lia.
    assert (L : length input = 32%nat) by (unfold blen in H; lia).
    assert (E : left_pad 32 (last_n 32 input) = input).
    { unfold last_n. rewrite L. cbn [Nat.sub skipn]. unfold left_pad. rewrite L. reflexivity. }
    rewrite E. reflexivity.
  Qed.

  (** The fee is fixed and charged before running; any failure forfeits the gas. *)
  Theorem fee_fixed k caller addr input gas r g calls :
    call_artela host k caller addr input gas = (r, g, calls) ->
    (is_ok r = true -> gas >= precompile_fee /\ g = gas - precompile_fee) /\
    (is_ok r = false -> g = 0).
  Proof.
    unfold call_artela. destruct (gas <? precompile_fee) eqn:E.
    - intros H; inversion H; subst. cbn. split; [discriminate|reflexivity].
    - destruct (run_artela host addr (ctx_for_kind k caller) input) as [r' c'].
      intros H; inversion H; subst. split; intros Hr; rewrite Hr; [lia|reflexivity].
  Qed.
End Host.

(** The part of the statement that is FALSE of the code as it stands (known finding F11):
    a truncated payload (shorter than any (bytes, bytes) encoding) is answered with success and
    empty output, the write is silently dropped. *)
Theorem ctxwriter_truncated_rejected_refuted :
  exists host from input, decodes input = None /\ run_ctxwriter host (Some from) input = (Ok [], []).
Proof. exists (fun _ => Ok []), [], []. split; reflexivity. Qed.
