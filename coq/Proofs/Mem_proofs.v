From Verif Require Import Base.Bytes Proofs.Bytes_proofs Proofs.ListUtil Model.Mem.
From Coq Require Import ZifyN ZifyNat ZifyBool.
Ltac Zify.zify_post_hook ::= Z.div_mod_to_equations.
Open Scope N_scope.

Lemma nth_firstn_lt {A} (l : list A) n i d : (i < n)%nat -> nth i (firstn n l) d = nth i l d.
Proof.
  revert n i. induction l as [|x l IH]; intros n i H; [rewrite firstn_nil; reflexivity|].
  destruct n; [lia|]. destruct i; [reflexivity|]. cbn. apply IH. lia.
Qed.
Lemma nth_skipn_add {A} (l : list A) a i d : nth i (skipn a l) d = nth (a + i) l d.
Proof.
  revert a. induction l as [|x l IH]; intros a; [rewrite skipn_nil; destruct i, a; reflexivity|].
  destruct a; [reflexivity|]. cbn. apply IH.
Qed.
Lemma nth_slice (m : bytes) a b i : a <= b -> b <= blen m -> (i < N.to_nat (b - a))%nat ->
  nth i (slice m a b) 0 = nth (N.to_nat a + i) m 0.
Proof. intros H1 H2 Hi. unfold slice. rewrite nth_firstn_lt by exact Hi. apply nth_skipn_add. Qed.

Lemma length_mem_copy m dst src len :
  src + len <= blen m -> dst + len <= blen m -> length (mem_copy m dst src len) = length m.
Proof.
  intros Hs Hd. unfold mem_copy. destruct (len =? 0) eqn:E; [reflexivity|].
  rewrite !app_length, firstn_length, skipn_length, length_slice by (unfold blen in *; lia).
  unfold blen in *. lia.
Qed.

(** MCOPY copies exactly like an overlap-safe memmove: every byte of the result is the byte memmove
    defines, for every memory, destination, source and length inside it — overlapping either way, zero length included *)
Theorem mcopy_is_memmove m dst src len i :
  src + len <= blen m -> dst + len <= blen m -> i < blen m ->
  nth (N.to_nat i) (mem_copy m dst src len) 0 = memmove_byte m dst src len i.
Proof.
  intros Hs Hd Hi. unfold mem_copy, memmove_byte. destruct (len =? 0) eqn:E.
  { replace ((dst <=? i) && (i <? dst + len)) with false by lia. reflexivity. }
  assert (L1 : length (firstn (N.to_nat dst) m) = N.to_nat dst) by (rewrite firstn_length; unfold blen in *; lia).
  assert (L2 : length (slice m src (src + len)) = N.to_nat len) by (rewrite length_slice by (unfold blen in *; lia); f_equal; lia).
  destruct (dst <=? i) eqn:E1; cbn [andb].
  - destruct (i <? dst + len) eqn:E2.
    + rewrite app_nth2 by lia. rewrite app_nth1 by lia. rewrite L1.
      rewrite nth_slice by (unfold blen in *; lia). f_equal. lia.
    + rewrite app_nth2 by lia. rewrite app_nth2 by lia. rewrite L1, L2.
      rewrite nth_skipn_add. f_equal. lia.
  - rewrite app_nth1 by lia. apply nth_firstn_lt. lia.
Qed.

(** the required memory size is max(dst, src) + len, and 0 for a zero length; operands that do not fit
    64 bits or whose sum wraps are reported as overflow *)
Theorem mcopy_memsize dst src len :
  0 < len -> N.max dst src + len < two64 ->
  mcopy_mem_size dst src len = (N.max dst src + len, false).
Proof.
  intros Hl Hb. unfold mcopy_mem_size, calc_mem_size, u64, two64 in *.
  replace (18446744073709551616 <=? len) with false by lia.
  replace (len =? 0) with false by lia.
  replace (18446744073709551616 <=? N.max dst src) with false by lia.
  rewrite N.mod_small by lia. replace (N.max dst src + len <? N.max dst src) with false by lia. reflexivity.
Qed.
Theorem mcopy_memsize_zero dst src : mcopy_mem_size dst src 0 = (0, false).
Proof. reflexivity. Qed.
Theorem mcopy_memsize_overflow dst src len :
  0 < len -> two64 <= N.max dst src + len -> snd (mcopy_mem_size dst src len) = true.
Proof.
  intros Hl Hb. unfold mcopy_mem_size, calc_mem_size, u64.
  destruct (two64 <=? len) eqn:E1; [reflexivity|]. replace (len =? 0) with false by lia.
  destruct (two64 <=? N.max dst src) eqn:E2; [reflexivity|]. cbn [snd]. unfold two64 in *. lia.
Qed.

(** after a successful step the memory covers both the source and the destination range, and it
    only ever grows, in whole words *)
Theorem mcopy_expands_both m dst src len g m' :
  blen m mod 32 = 0 -> blen m < 0x2000000000 ->
  mcopy_step m dst src len = Ok (g, m') ->
  (0 < len -> src + len <= blen m' /\ dst + len <= blen m') /\ blen m <= blen m' /\ blen m' mod 32 = 0.
Proof.
  intros Hal Hsm. unfold mcopy_step.
  destruct (mcopy_mem_size dst src len) as [size ovf] eqn:ES. destruct ovf; [discriminate|].
  destruct (two64 <=? to_words size * 32) eqn:EW; [discriminate|].
  destruct (memory_gas_cost (blen m) (to_words size * 32)) as [ex| |] eqn:EG; try discriminate.
  intros H; inversion H; subst; clear H.
  set (newsize := to_words size * 32) in *.
  set (mm := if blen m <? newsize then m ++ zeros (N.to_nat (newsize - blen m)) else m).
  assert (Lmm : blen mm = N.max (blen m) newsize).
  { subst mm. unfold blen. destruct (N.of_nat (length m) <? newsize) eqn:E.
    - apply N.ltb_lt in E. rewrite app_length. unfold zeros. rewrite repeat_length. rewrite N.max_r by lia. lia.
    - apply N.ltb_ge in E. rewrite N.max_l by lia. reflexivity. }
  assert (Hsz : 0 < len -> N.max dst src + len <= newsize /\ N.max dst src + len < two64).
  { intros Hl. unfold mcopy_mem_size, calc_mem_size in ES.
    destruct (two64 <=? len) eqn:E1; [inversion ES|]. replace (len =? 0) with false in ES by lia.
    destruct (two64 <=? N.max dst src) eqn:E2; [inversion ES|].
    inversion ES as [[Hv Ho]]. unfold u64 in *.
    assert (N.max dst src + len < two64) by (unfold two64 in *; lia).
    rewrite N.mod_small in Hv by assumption. subst size. split; [|assumption].
    subst newsize. unfold to_words. set (x := N.max dst src + len) in *. clearbody x.
    destruct (_ <? x) eqn:E3; [unfold two64 in *; lia|]. clear -E3. lia. }
  assert (Lc : 0 < len -> length (mem_copy mm dst src len) = length mm).
  { intros Hl. destruct (Hsz Hl). apply length_mem_copy; rewrite Lmm; lia. }
  assert (Lb : blen (mem_copy mm dst src len) = blen mm).
  { destruct (N.eq_dec len 0) as [->|Hne]; [reflexivity|]. unfold blen. f_equal. apply Lc. lia. }
  rewrite Lb, Lmm.
  assert (Hmod : N.max (blen m) newsize mod 32 = 0).
  { subst newsize. destruct (N.max_spec (blen m) (to_words size * 32)) as [[_ ->]|[_ ->]]; [apply N.mod_mul; lia|exact Hal]. }
  split; [|split; [lia|exact Hmod]].
  intros Hl. destruct (Hsz Hl). lia.
Qed.

(** the charge: 3 + 3 per word copied + the memory expansion fee for the new size *)
Theorem mcopy_gas_formula m dst src len g m' :
  mcopy_step m dst src len = Ok (g, m') ->
  exists expansion, memory_gas_cost (blen m) (to_words (fst (mcopy_mem_size dst src len)) * 32) = Ok expansion /\
                    g = 3 + expansion + to_words len * 3.
Proof.
  unfold mcopy_step. destruct (mcopy_mem_size dst src len) as [size ovf]. destruct ovf; [discriminate|].
  destruct (two64 <=? to_words size * 32); [discriminate|]. cbn [fst].
  destruct (memory_gas_cost (blen m) (to_words size * 32)) as [ex| |]; try discriminate.
  intros H; inversion H; subst. exists ex. split; reflexivity.
Qed.

Theorem mcopy_no_panic m dst src len : is_panic (mcopy_step m dst src len) = false.
Proof.
  unfold mcopy_step. destruct (mcopy_mem_size dst src len) as [size ovf]. destruct ovf; [reflexivity|].
  destruct (two64 <=? _); [reflexivity|].
  unfold memory_gas_cost. destruct (_ =? 0); [reflexivity|]. destruct (_ <? _); [reflexivity|].
  destruct (_ <? _); reflexivity.
Qed.

(** [mcopy_gas] is the gas component of [mcopy_step], and fails exactly when it does *)
Theorem mcopy_gas_is_step_gas m dst src len :
  mcopy_gas (blen m) dst src len = match mcopy_step m dst src len with Ok (g, _) => Ok g | Err e => Err e | Panic p => Panic p end.
Proof.
  unfold mcopy_gas, mcopy_step. destruct (mcopy_mem_size dst src len) as [size ovf]. destruct ovf; [reflexivity|].
  destruct (two64 <=? to_words size * 32); [reflexivity|].
  destruct (memory_gas_cost (blen m) (to_words size * 32)); reflexivity.
Qed.
