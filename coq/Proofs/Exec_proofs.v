From Verif Require Import Base.Bytes Model.KeyTree Model.CallTree Model.Journal Model.Tracer Model.Exec Proofs.CallTree_proofs.
From Coq Require Import ZifyN ZifyNat ZifyBool.
Open Scope N_scope.

Section ExecProofs.
  Variable W M HT : Type.
  Variable can_transfer : W -> N -> N -> bool.
  Variable transfer : W -> N -> N -> N -> W.
  Variable balance_of : W -> N -> N.
  Variable exists_acct : W -> N -> bool.
  Variable create_account : W -> N -> W.
  Variable code_of : W -> N -> bytes.
  Variable collides : W -> N -> bool.
  Variable get_nonce : W -> N -> N.
  Variable set_nonce : W -> N -> N -> W.
  Variable acl_add : W -> N -> W.
  Variable set_code : W -> N -> bytes -> W.
  Variable touch : W -> N -> W.
  Variable is_homestead is_eip158 is_berlin is_london : bool.
  Variable max_code_size : N.
  Variable is_precompile : N -> bool.
  Variable precompile : N -> option N -> bytes -> N -> cres.
  Variable local_step : nat -> fctx -> M -> W -> step_out W M HT.
  Variable init_machine : fctx -> N -> HT -> M.
  Variable keccak : bytes -> N.
  Variable artela jp_on debug asp_logger : bool.
  Variable bound : bool -> N -> res (list N).
  Variable aspect : nat -> bool -> N -> N -> jpin -> bytes * N * option string.

  Notation xst := (xstate W).
  Notation RUN := (run W M HT can_transfer transfer balance_of exists_acct create_account code_of collides get_nonce set_nonce
                       acl_add set_code touch is_homestead is_eip158 is_berlin is_london max_code_size is_precompile precompile
                       local_step init_machine keccak artela jp_on debug asp_logger bound aspect).
  Notation RUNF := (run_frame W M HT can_transfer transfer balance_of exists_acct create_account code_of collides get_nonce set_nonce
                       acl_add set_code touch is_homestead is_eip158 is_berlin is_london max_code_size is_precompile precompile
                       local_step init_machine keccak artela jp_on debug asp_logger bound aspect).
  Notation CALL := (do_call W M HT can_transfer transfer balance_of exists_acct create_account code_of collides get_nonce set_nonce
                       acl_add set_code touch is_homestead is_eip158 is_berlin is_london max_code_size is_precompile precompile
                       local_step init_machine keccak artela jp_on debug asp_logger bound aspect).
  Notation CALLCODE := (do_callcode W M HT can_transfer transfer balance_of exists_acct create_account code_of collides get_nonce set_nonce
                       acl_add set_code touch is_homestead is_eip158 is_berlin is_london max_code_size is_precompile precompile
                       local_step init_machine keccak artela jp_on debug asp_logger bound aspect).
  Notation DELEGATE := (do_delegatecall W M HT can_transfer transfer balance_of exists_acct create_account code_of collides get_nonce set_nonce
                       acl_add set_code touch is_homestead is_eip158 is_berlin is_london max_code_size is_precompile precompile
                       local_step init_machine keccak artela jp_on debug asp_logger bound aspect).
  Notation STATIC := (do_staticcall W M HT can_transfer transfer balance_of exists_acct create_account code_of collides get_nonce set_nonce
                       acl_add set_code touch is_homestead is_eip158 is_berlin is_london max_code_size is_precompile precompile
                       local_step init_machine keccak artela jp_on debug asp_logger bound aspect).
  Notation CREATE := (do_create W M HT can_transfer transfer balance_of exists_acct create_account code_of collides get_nonce set_nonce
                       acl_add set_code touch is_homestead is_eip158 is_berlin is_london max_code_size is_precompile precompile
                       local_step init_machine keccak artela jp_on debug asp_logger bound aspect).
  Notation JP := (join_point W asp_logger bound aspect).
  Notation TRANSFER := (transfer_recorded W transfer balance_of artela).
  Notation SAVE := (save_call W artela).
  Notation EXIT := (exit_call W artela).
  Notation DOPEN := (dbg_open W debug).
  Notation DCLOSE := (dbg_close W debug).

  (** ** what the bookkeeping helpers leave alone *)
  Lemma xw_emit (s : xst) ev : xw (emit W s ev) = xw s. Proof. reflexivity. Qed.
  Lemma xw_set_w (s : xst) w : xw (set_w W s w) = w. Proof. reflexivity. Qed.
  Lemma xw_set_t (s : xst) t : xw (set_t W s t) = xw s. Proof. reflexivity. Qed.
  Lemma xw_save s f to d v g : xw (SAVE s f to d v g) = xw s.
  Proof. unfold save_call. destruct artela; reflexivity. Qed.
  Lemma xw_exit s r : xw (EXIT s r) = xw s.
  Proof. unfold exit_call. destruct artela; reflexivity. Qed.
  Lemma xw_dopen s d k f t c i g v : xw (DOPEN s d k f t c i g v) = xw s.
  Proof. unfold dbg_open. destruct debug; reflexivity. Qed.
  Lemma xw_dclose s d r a b : xw (DCLOSE s d r a b) = xw s.
  Proof. unfold dbg_close. destruct debug; reflexivity. Qed.

  (** the common tail: an error restores the snapshot; success changes nothing *)
  Lemma tail_err w0 r (s : xst) r' s' :
    tail W w0 r s = (r', s') -> r_err r' <> None -> xw s' = w0 /\ r_err r = r_err r' /\ r_ret r' = r_ret r.
  Proof.
    unfold tail. destruct (r_err r) as [e|] eqn:E; intros H; inversion H; subst; cbn.
    - intros _. repeat split. 
    - intros Hc. rewrite E in Hc. contradiction.
  Qed.
  Lemma tail_ok w0 r (s : xst) r' s' :
    tail W w0 r s = (r', s') -> r_err r' = None -> r' = r /\ s' = s.
  Proof.
    unfold tail. destruct (r_err r) as [e|] eqn:E; intros H; inversion H; subst; cbn; [discriminate|auto].
  Qed.
  Lemma tail_gas w0 r (s : xst) r' s' :
    tail W w0 r s = (r', s') ->
    r_gas r' = match r_err r with Some e => if is_revert e then r_gas r else 0 | None => r_gas r end.
  Proof. unfold tail. destruct (r_err r); intros H; inversion H; reflexivity. Qed.

  (** * C04 — a failed frame leaves the world state untouched, whatever made it fail *)

  Theorem call_failure_atomic fuel depth hint pstatic caller addr input gas value s r s' :
    CALL fuel depth hint pstatic caller addr input gas value s = Some (r, s') ->
    r_err r <> None -> xw s' = xw s.
  Proof.
    destruct fuel as [|f]; [discriminate|]. cbn [do_call]. cbv beta zeta.
    set (s1 := SAVE s caller (Some addr) input value gas).
    assert (E1 : xw s1 = xw s) by apply xw_save.
    destruct (Nat.ltb max_depth depth).
    { intros H; inversion H; subst. intros _. cbn. rewrite xw_exit. exact E1. }
    destruct (negb (value =? 0) && negb (can_transfer (xw s1) caller value)).
    { intros H; inversion H; subst. intros _. cbn. rewrite xw_exit. exact E1. }
    destruct (negb (exists_acct (xw s1) addr) && negb (is_precompile addr) && is_eip158 && (value =? 0)).
    { intros H; inversion H; subst. cbn. intros Hc. contradiction. }
    set (s2 := if exists_acct (xw s1) addr then s1 else set_w W s1 (create_account (xw s1) addr)).
    set (s3 := DOPEN (TRANSFER s2 caller addr value) depth 0xf1 caller addr false input gas (Some value)).
    destruct (is_precompile addr).
    { destruct (tail W (xw s1) (precompile addr (if artela then Some caller else None) input gas) s3) as [r' s''] eqn:T.
      intros H; inversion H; subst. cbn [fst snd]. intros Hc. rewrite xw_exit, xw_dclose.
      destruct (tail_err _ _ _ _ _ T Hc) as [-> _]. exact E1. }
    destruct (code_of (xw s3) addr) as [|c0 code] eqn:Ecode.
    { intros H; inversion H; subst. cbn. intros Hc. contradiction. }
    match goal with |- context [match ?X with _ => _ end] => remember X as PRE eqn:EP end.
    destruct PRE as [[[pret pgas] perr] s4].
    destruct perr as [e|].
    { intros H; inversion H; subst. cbn [fst snd]. intros _. rewrite xw_exit, xw_dclose. cbn. exact E1. }
    match goal with |- context [match ?X with _ => _ end] => remember X as RF eqn:ER end.
    destruct RF as [[rr s5]|]; [|discriminate].
    match goal with |- context [match ?X with _ => _ end] => remember X as POST eqn:EQ end.
    destruct POST as [rq s6].
    destruct (tail W (xw s1) rq s6) as [r' s''] eqn:T.
    intros H; inversion H; subst. cbn [fst snd]. intros Hc. rewrite xw_exit, xw_dclose.
    destruct (tail_err _ _ _ _ _ T Hc) as [-> _]. exact E1.
  Qed.

  Theorem callcode_failure_atomic fuel depth hint pf addr input gas value s r s' :
    CALLCODE fuel depth hint pf addr input gas value s = Some (r, s') -> r_err r <> None -> xw s' = xw s.
  Proof.
    destruct fuel as [|f]; [discriminate|]. cbn [do_callcode]. cbv beta zeta.
    destruct (Nat.ltb max_depth depth); [intros H; inversion H; reflexivity|].
    destruct (negb (can_transfer (xw s) (f_self pf) value)); [intros H; inversion H; reflexivity|].
    set (s1 := if debug then emit W s _ else s).
    assert (E1 : xw s1 = xw s) by (subst s1; destruct debug; reflexivity).
    destruct (is_precompile addr).
    { destruct (tail W (xw s) (precompile addr None input gas) s1) as [r' s''] eqn:T.
      intros H; inversion H; subst. intros Hc. destruct (tail_err _ _ _ _ _ T Hc) as [E _].
      destruct debug; cbn; exact E. }
    match goal with |- context [match ?X with _ => _ end] => remember X as RF eqn:ER end.
    destruct RF as [[rr s5]|]; [|discriminate].
    destruct (tail W (xw s) rr s5) as [r' s''] eqn:T.
    intros H; inversion H; subst. intros Hc. destruct (tail_err _ _ _ _ _ T Hc) as [E _].
    destruct debug; cbn; exact E.
  Qed.

  Theorem delegatecall_failure_atomic fuel depth hint pf addr input gas s r s' :
    DELEGATE fuel depth hint pf addr input gas s = Some (r, s') -> r_err r <> None -> xw s' = xw s.
  Proof.
    destruct fuel as [|f]; [discriminate|]. cbn [do_delegatecall]. cbv beta zeta.
    destruct (Nat.ltb max_depth depth); [intros H; inversion H; reflexivity|].
    set (s1 := if debug then emit W s _ else s).
    assert (E1 : xw s1 = xw s) by (subst s1; destruct debug; reflexivity).
    destruct (is_precompile addr).
    { destruct (tail W (xw s) (precompile addr None input gas) s1) as [r' s''] eqn:T.
      intros H; inversion H; subst. intros Hc. destruct (tail_err _ _ _ _ _ T Hc) as [E _].
      destruct debug; cbn; exact E. }
    match goal with |- context [match ?X with _ => _ end] => remember X as RF eqn:ER end.
    destruct RF as [[rr s5]|]; [|discriminate].
    destruct (tail W (xw s) rr s5) as [r' s''] eqn:T.
    intros H; inversion H; subst. intros Hc. destruct (tail_err _ _ _ _ _ T Hc) as [E _].
    destruct debug; cbn; exact E.
  Qed.

  (** a failed static call even undoes the touch of the target *)
  Theorem staticcall_failure_atomic fuel depth hint pf addr input gas s r s' :
    STATIC fuel depth hint pf addr input gas s = Some (r, s') -> r_err r <> None -> xw s' = xw s.
  Proof.
    destruct fuel as [|f]; [discriminate|]. cbn [do_staticcall]. cbv beta zeta.
    destruct (Nat.ltb max_depth depth); [intros H; inversion H; reflexivity|].
    set (s1 := if debug then emit W (set_w W s (touch (xw s) addr)) _ else set_w W s (touch (xw s) addr)).
    destruct (is_precompile addr).
    { destruct (tail W (xw s) (precompile addr None input gas) s1) as [r' s''] eqn:T.
      intros H; inversion H; subst. intros Hc. destruct (tail_err _ _ _ _ _ T Hc) as [E _].
      destruct debug; cbn; exact E. }
    match goal with |- context [match ?X with _ => _ end] => remember X as RF eqn:ER end.
    destruct RF as [[rr s5]|]; [|discriminate].
    destruct (tail W (xw s) rr s5) as [r' s''] eqn:T.
    intros H; inversion H; subst. intros Hc. destruct (tail_err _ _ _ _ _ T Hc) as [E _].
    destruct debug; cbn; exact E.
  Qed.

  (** a failed creation leaves the world as it was except for what the protocol keeps on purpose: the
      creator's nonce increment and (from Berlin) the warm address — or nothing at all when it was
      refused up front.  (Frontier's "code store out of gas keeps the account" quirk is excluded.) *)
  Definition world_after_failed_create (w : W) (caller address : N) : W :=
    let w1 := set_nonce w caller (get_nonce w caller + 1) in
    if is_berlin then acl_add w1 address else w1.

  Theorem create_failure_atomic fuel depth hint caller code gas value address typ s r s' :
    CREATE fuel depth hint caller code gas value address typ s = Some (r, s') ->
    r_err r <> None -> is_homestead = true ->
    xw s' = xw s \/ xw s' = world_after_failed_create (xw s) caller address.
  Proof.
    destruct fuel as [|f]; [discriminate|]. cbn [do_create]. cbv beta zeta.
    set (s1 := SAVE s caller None code value gas) in *.
    assert (E1 : xw s1 = xw s) by apply xw_save.
    destruct (Nat.ltb max_depth depth).
    { intros Hrun _ _. inversion Hrun; subst. left. cbn. rewrite xw_exit. exact E1. }
    destruct (negb (can_transfer (xw s1) caller value)).
    { intros Hrun _ _. inversion Hrun; subst. left. cbn. rewrite xw_exit. exact E1. }
    destruct (two64 <=? get_nonce (xw s1) caller + 1).
    { intros Hrun _ _. inversion Hrun; subst. left. cbn. rewrite xw_exit. exact E1. }
    set (s2 := set_w W s1 (set_nonce (xw s1) caller (get_nonce (xw s1) caller + 1))) in *.
    set (s3 := if is_berlin then set_w W s2 (acl_add (xw s2) address) else s2) in *.
    assert (E3 : xw s3 = world_after_failed_create (xw s) caller address).
    { subst s3 s2. unfold world_after_failed_create. rewrite E1. destruct is_berlin; reflexivity. }
    destruct (collides (xw s3) address).
    { intros Hrun _ _. inversion Hrun; subst. right. cbn. rewrite xw_exit. exact E3. }
    match goal with |- context [match ?X with _ => _ end] => remember X as RF eqn:ER end.
    destruct RF as [[rr s5]|]; [|discriminate].
    match goal with |- context [match ?X with _ => _ end] => remember X as CF eqn:EF end.
    destruct CF as [r' s6]. symmetry in EF.
    intros Hrun Herr Hh. right. inversion Hrun; subst r s'. cbn [fst snd] in *. rewrite xw_exit, xw_dclose.
    unfold create_finish in EF. rewrite Hh in EF.
    match type of EF with context [match ?X with _ => _ end] => destruct X as [e|] end.
    - inversion EF; subst. exact E3.
    - destruct (blen (r_ret rr) * 200 <=? r_gas rr).
      + inversion EF; subst. cbn in Herr. contradiction.
      + inversion EF; subst. exact E3.
  Qed.

  (** * C07 / C03 — every entry point leaves the call tree balanced, whatever happens inside *)

  Lemma balanced_app a b : balanced a -> balanced b -> balanced (a ++ b).
  Proof.
    induction 1 as [|f to d v g body rg ret err rest Hb IHb Hr IHr]; intros Hb2; [exact Hb2|].
    change ((CAdd f to d v g :: body ++ CExit rg ret err :: rest) ++ b)
      with (CAdd f to d v g :: (body ++ CExit rg ret err :: rest) ++ b).
    rewrite <- app_assoc. cbn [app]. constructor; [exact Hb|]. apply IHr. exact Hb2.
  Qed.

  (** [Q s s']: the call tree of [s'] is the call tree of [s] after a balanced sequence of add/exit *)
  Definition Q (s s' : xst) : Prop :=
    exists ops, balanced ops /\ tc (xt s') = fold_left ct_step ops (tc (xt s)).

  Lemma Q_refl s : Q s s.
  Proof. exists []. split; [constructor|reflexivity]. Qed.
  Lemma Q_trans a b c : Q a b -> Q b c -> Q a c.
  Proof.
    intros [o1 [B1 E1]] [o2 [B2 E2]]. exists (o1 ++ o2). split; [apply balanced_app; assumption|].
    rewrite fold_left_app, <- E1. exact E2.
  Qed.
  Lemma Q_same_tc a b : tc (xt b) = tc (xt a) -> Q a b.
  Proof. intros E. exists []. split; [constructor|exact E]. Qed.

  Lemma tc_save_key t a p sl o ty d : tc (fst (t_save_key t a p sl o ty d)) = tc t.
  Proof. unfold t_save_key. destruct (save_key (tk t) a p sl o ty d). reflexivity. Qed.
  Lemma tc_save_change t a sl o ty v : tc (fst (t_save_change t a sl o ty v)) = tc t.
  Proof. unfold t_save_change. destruct (save_change _ _ _ _ _ _ _). reflexivity. Qed.
  Lemma tc_jop st kk op self mem stack t : tc (fst (jop st kk op self mem stack t)) = tc t.
  Proof.
    unfold jop, with_mem_string.
    destruct (Nat.ltb _ _); [reflexivity|].
    repeat match goal with
           | |- context [if ?c then _ else _] => destruct c
           | |- context [match load_data_from_mem ?p ?m with _ => _ end] => destruct (load_data_from_mem p m)
           | |- context [match vv_slice ?a ?b ?c with _ => _ end] => destruct (vv_slice a b c)
           | |- context [match vr_read ?a ?b ?c with _ => _ end] => destruct (vr_read a b c)
           end; try reflexivity; try apply tc_save_key; try apply tc_save_change.
  Qed.
  Lemma tc_transfer_record t f to a b c d : tc (t_transfer_record t f to a b c d) = tc t.
  Proof. reflexivity. Qed.

  Lemma Q_emit s ev : Q s (emit W s ev). Proof. apply Q_same_tc. reflexivity. Qed.
  Lemma Q_set_w s w : Q s (set_w W s w). Proof. apply Q_same_tc. reflexivity. Qed.
  Lemma Q_dopen s d k f t c i g v : Q s (DOPEN s d k f t c i g v).
  Proof. apply Q_same_tc. unfold dbg_open. destruct debug; reflexivity. Qed.
  Lemma Q_dclose s d r a b : Q s (DCLOSE s d r a b).
  Proof. apply Q_same_tc. unfold dbg_close. destruct debug; reflexivity. Qed.
  Lemma Q_transfer s f t v : Q s (TRANSFER s f t v).
  Proof. apply Q_same_tc. unfold transfer_recorded. destruct artela; reflexivity. Qed.
  Lemma Q_tail w0 r s r' s' : tail W w0 r s = (r', s') -> Q s s'.
  Proof. unfold tail. destruct (r_err r); intros E; inversion E; subst; [apply Q_set_w|apply Q_refl]. Qed.

  Lemma Q_run_aspects pre from c input value p ids : forall gas ret s ret' gas' e' s',
    run_aspects W asp_logger aspect pre from c input value p ids gas ret s = (ret', gas', e', s') -> Q s s'.
  Proof.
    induction ids as [|a rest IH]; intros gas ret s ret' gas' e' s' E; cbn in E.
    - inversion E; subst. apply Q_refl.
    - destruct (aspect _ _ _ _ _) as [[r g] e]. destruct e as [e|].
      + inversion E; subst. apply Q_same_tc. destruct asp_logger; reflexivity.
      + eapply Q_trans; [|eapply IH; exact E]. apply Q_same_tc. destruct asp_logger; reflexivity.
  Qed.
  Lemma Q_join_point pre from c input value p gas s ret' gas' e' s' :
    JP pre from c input value p gas s = (ret', gas', e', s') -> Q s s'.
  Proof.
    unfold join_point. destruct (bound pre c).
    - intros E. eapply Q_trans; [apply Q_emit|]. eapply Q_run_aspects. exact E.
    - intros E; inversion E; subst. apply Q_emit.
    - intros E; inversion E; subst. apply Q_emit.
  Qed.

  (** entering a call and leaving it again around a balanced body is balanced *)
  Lemma Q_bracket s from to data value gas s2 r :
    Q (SAVE s from to data value gas) s2 -> Q s (EXIT s2 r).
  Proof.
    unfold save_call, exit_call. destruct artela; [|intros Hq; exact Hq].
    intros [ops [B E]]. cbn in E.
    exists (CAdd from to data value gas :: ops ++ [CExit (r_gas r) (r_ret r) (option_map verr_text (r_err r))]).
    split; [apply bal_call; [exact B|constructor]|].
    cbn. rewrite fold_left_app, <- E. reflexivity.
  Qed.

  Definition P_all (fuel : nat) : Prop :=
    (forall depth fc m s r s', RUN fuel depth fc m s = Some (r, s') -> Q s s') /\
    (forall depth hint fc gas s r s', RUNF fuel depth hint fc gas s = Some (r, s') -> Q s s') /\
    (forall depth hint ps caller addr input gas value s r s', CALL fuel depth hint ps caller addr input gas value s = Some (r, s') ->
        exists s2, s' = EXIT s2 r /\ Q (SAVE s caller (Some addr) input value gas) s2) /\
    (forall depth hint pf addr input gas value s r s', CALLCODE fuel depth hint pf addr input gas value s = Some (r, s') -> Q s s') /\
    (forall depth hint pf addr input gas s r s', DELEGATE fuel depth hint pf addr input gas s = Some (r, s') -> Q s s') /\
    (forall depth hint pf addr input gas s r s', STATIC fuel depth hint pf addr input gas s = Some (r, s') -> Q s s') /\
    (forall depth hint caller code gas value address typ s r s', CREATE fuel depth hint caller code gas value address typ s = Some (r, s') ->
        exists s2, s' = EXIT s2 r /\ Q (SAVE s caller None code value gas) s2).

  Ltac qchain := repeat first [apply Q_refl | apply Q_emit | apply Q_set_w | apply Q_dopen | apply Q_dclose | apply Q_transfer
                               | (eapply Q_trans; [|solve [apply Q_emit | apply Q_set_w | apply Q_dopen | apply Q_dclose | apply Q_transfer | apply Q_refl]])].

  Theorem calltree_balanced : forall fuel, P_all fuel.
  Proof.
    induction fuel as [|f IH].
    { repeat split; intros; discriminate. }
    destruct IH as [IHrun [IHrunf [IHcall [IHcc [IHdc [IHsc IHcr]]]]]].
    repeat split.
    - (* run *)
      intros depth fc m s r s'. cbn [run].
      destruct (local_step depth fc m (xw s)) as [m' w' ev|ret g err w' ev|k to input gas value w' ev hint resume|typ code gas value addr w' ev hint resume|j ev resume].
      + intros E. eapply Q_trans; [|eapply IHrun; exact E]. eapply Q_trans; [apply Q_set_w|apply Q_emit].
      + intros E; inversion E; subst. eapply Q_trans; [apply Q_set_w|apply Q_emit].
      + set (s1 := emit W (set_w W s w') ev).
        assert (Q1 : Q s s1) by (eapply Q_trans; [apply Q_set_w|apply Q_emit]).
        destruct k.
        * match goal with |- context [match ?X with _ => _ end] => destruct X as [[r2 s2]|] eqn:EC end; [|intros; discriminate].
          intros E. destruct (IHcall _ _ _ _ _ _ _ _ _ _ _ EC) as [sx [-> Qx]]. eapply Q_trans; [exact Q1|]. eapply Q_trans; [eapply Q_bracket; exact Qx|eapply IHrun; exact E].
        * match goal with |- context [match ?X with _ => _ end] => destruct X as [[r2 s2]|] eqn:EC end; [|intros; discriminate].
          intros E. eapply Q_trans; [exact Q1|]. eapply Q_trans; [eapply IHcc; exact EC|eapply IHrun; exact E].
        * match goal with |- context [match ?X with _ => _ end] => destruct X as [[r2 s2]|] eqn:EC end; [|intros; discriminate].
          intros E. eapply Q_trans; [exact Q1|]. eapply Q_trans; [eapply IHdc; exact EC|eapply IHrun; exact E].
        * match goal with |- context [match ?X with _ => _ end] => destruct X as [[r2 s2]|] eqn:EC end; [|intros; discriminate].
          intros E. eapply Q_trans; [exact Q1|]. eapply Q_trans; [eapply IHsc; exact EC|eapply IHrun; exact E].
      + set (s1 := emit W (set_w W s w') ev).
        assert (Q1 : Q s s1) by (eapply Q_trans; [apply Q_set_w|apply Q_emit]).
        match goal with |- context [match ?X with _ => _ end] => destruct X as [[r2 s2]|] eqn:EC end; [|intros; discriminate].
        intros E. destruct (IHcr _ _ _ _ _ _ _ _ _ _ _ EC) as [sx [-> Qx]]. eapply Q_trans; [exact Q1|]. eapply Q_trans; [eapply Q_bracket; exact Qx|eapply IHrun; exact E].
      + destruct (jop (jr_storage j) keccak (jr_op j) (f_self fc) (jr_mem j) (jr_stack j) (xt (emit W s ev))) as [t' rj] eqn:EJ.
        intros E. eapply Q_trans; [|eapply IHrun; exact E].
        apply Q_same_tc. cbn. pose proof (tc_jop (jr_storage j) keccak (jr_op j) (f_self fc) (jr_mem j) (jr_stack j) (xt (emit W s ev))) as T.
        rewrite EJ in T. exact T.
    - (* run_frame *)
      intros depth hint fc gas s r s'. cbn [run_frame]. destruct (f_code fc).
      + intros E; inversion E; subst. apply Q_refl.
      + intros E. eapply IHrun. exact E.
    - (* do_call *)
      intros depth hint ps caller addr input gas value s r s'. cbn [do_call]. cbv beta zeta.
      set (s1 := SAVE s caller (Some addr) input value gas).
      destruct (Nat.ltb max_depth depth).
      { intros E; inversion E; subst. cbn [fst snd]. eexists; split; [reflexivity|]. apply Q_refl. }
      destruct (negb (value =? 0) && negb (can_transfer (xw s1) caller value)).
      { intros E; inversion E; subst. cbn [fst snd]. eexists; split; [reflexivity|]. apply Q_refl. }
      destruct (negb (exists_acct (xw s1) addr) && negb (is_precompile addr) && is_eip158 && (value =? 0)).
      { intros E; inversion E; subst. cbn [fst snd]. eexists; split; [reflexivity|]. eapply Q_trans; [apply Q_dopen|apply Q_dclose]. }
      set (s2 := if exists_acct (xw s1) addr then s1 else set_w W s1 (create_account (xw s1) addr)).
      assert (Q2 : Q s1 s2) by (subst s2; destruct (exists_acct (xw s1) addr); [apply Q_refl|apply Q_set_w]).
      set (s3 := DOPEN (TRANSFER s2 caller addr value) depth 0xf1 caller addr false input gas (Some value)).
      assert (Q3 : Q s1 s3) by (eapply Q_trans; [exact Q2|]; eapply Q_trans; [apply Q_transfer|apply Q_dopen]).
      destruct (is_precompile addr).
      { destruct (tail W (xw s1) (precompile addr (if artela then Some caller else None) input gas) s3) as [r' s''] eqn:T.
        intros E; inversion E; subst. cbn [fst snd]. eexists; split; [reflexivity|].
        eapply Q_trans; [exact Q3|]. eapply Q_trans; [eapply Q_tail; exact T|apply Q_dclose]. }
      destruct (code_of (xw s3) addr) as [|c0 code].
      { intros E; inversion E; subst. cbn [fst snd]. eexists; split; [reflexivity|]. eapply Q_trans; [exact Q3|apply Q_dclose]. }
      match goal with |- context [match ?X with _ => _ end] => remember X as PRE eqn:EP end.
      destruct PRE as [[[pret pgas] perr] s4]. symmetry in EP.
      assert (Q4 : Q s3 s4).
      { destruct (artela && jp_on); [eapply Q_join_point; exact EP|inversion EP; subst; apply Q_refl]. }
      destruct perr as [e|].
      { intros E; inversion E; subst. cbn [fst snd]. eexists; split; [reflexivity|].
        eapply Q_trans; [exact Q3|]. eapply Q_trans; [exact Q4|]. eapply Q_trans; [apply Q_set_w|apply Q_dclose]. }
      match goal with |- context [match ?X with _ => _ end] => remember X as RF eqn:ER end.
      destruct RF as [[rr s5]|]; [|discriminate]. symmetry in ER.
      match goal with |- context [match ?X with _ => _ end] => remember X as POST eqn:EQ end.
      destruct POST as [rq s6]. symmetry in EQ.
      assert (Q6 : Q s5 s6).
      { destruct (artela && jp_on).
        - match type of EQ with context [match ?X with _ => _ end] => destruct X as [[[qret qgas] qerr] s7] eqn:EJ end.
          assert (Q7 : Q s5 s7) by (eapply Q_join_point; exact EJ).
          destruct qerr; inversion EQ; subst; exact Q7.
        - inversion EQ; subst. apply Q_refl. }
      destruct (tail W (xw s1) rq s6) as [r' s''] eqn:T.
      intros E; inversion E; subst. cbn [fst snd]. eexists; split; [reflexivity|].
      eapply Q_trans; [exact Q3|]. eapply Q_trans; [exact Q4|]. eapply Q_trans; [eapply IHrunf; exact ER|].
      eapply Q_trans; [exact Q6|]. eapply Q_trans; [eapply Q_tail; exact T|apply Q_dclose].
    - (* do_callcode *)
      intros depth hint pf addr input gas value s r s'. cbn [do_callcode]. cbv beta zeta.
      destruct (Nat.ltb max_depth depth); [intros E; inversion E; subst; apply Q_refl|].
      destruct (negb (can_transfer (xw s) (f_self pf) value)); [intros E; inversion E; subst; apply Q_refl|].
      set (s1 := if debug then emit W s _ else s).
      assert (Q1 : Q s s1) by (subst s1; destruct debug; [apply Q_emit|apply Q_refl]).
      destruct (is_precompile addr).
      { destruct (tail W (xw s) (precompile addr None input gas) s1) as [r' s''] eqn:T.
        intros E; inversion E; subst. eapply Q_trans; [exact Q1|]. eapply Q_trans; [eapply Q_tail; exact T|].
        destruct debug; [apply Q_emit|apply Q_refl]. }
      match goal with |- context [match ?X with _ => _ end] => remember X as RF eqn:ER end.
      destruct RF as [[rr s5]|]; [|discriminate]. symmetry in ER.
      destruct (tail W (xw s) rr s5) as [r' s''] eqn:T.
      intros E; inversion E; subst. eapply Q_trans; [exact Q1|]. eapply Q_trans; [eapply IHrunf; exact ER|].
      eapply Q_trans; [eapply Q_tail; exact T|]. destruct debug; [apply Q_emit|apply Q_refl].
    - (* do_delegatecall *)
      intros depth hint pf addr input gas s r s'. cbn [do_delegatecall]. cbv beta zeta.
      destruct (Nat.ltb max_depth depth); [intros E; inversion E; subst; apply Q_refl|].
      set (s1 := if debug then emit W s _ else s).
      assert (Q1 : Q s s1) by (subst s1; destruct debug; [apply Q_emit|apply Q_refl]).
      destruct (is_precompile addr).
      { destruct (tail W (xw s) (precompile addr None input gas) s1) as [r' s''] eqn:T.
        intros E; inversion E; subst. eapply Q_trans; [exact Q1|]. eapply Q_trans; [eapply Q_tail; exact T|].
        destruct debug; [apply Q_emit|apply Q_refl]. }
      match goal with |- context [match ?X with _ => _ end] => remember X as RF eqn:ER end.
      destruct RF as [[rr s5]|]; [|discriminate]. symmetry in ER.
      destruct (tail W (xw s) rr s5) as [r' s''] eqn:T.
      intros E; inversion E; subst. eapply Q_trans; [exact Q1|]. eapply Q_trans; [eapply IHrunf; exact ER|].
      eapply Q_trans; [eapply Q_tail; exact T|]. destruct debug; [apply Q_emit|apply Q_refl].
    - (* do_staticcall *)
      intros depth hint pf addr input gas s r s'. cbn [do_staticcall]. cbv beta zeta.
      destruct (Nat.ltb max_depth depth); [intros E; inversion E; subst; apply Q_refl|].
      set (s1 := if debug then emit W (set_w W s (touch (xw s) addr)) _ else set_w W s (touch (xw s) addr)).
      assert (Q1 : Q s s1) by (subst s1; destruct debug; [eapply Q_trans; [apply Q_set_w|apply Q_emit]|apply Q_set_w]).
      destruct (is_precompile addr).
      { destruct (tail W (xw s) (precompile addr None input gas) s1) as [r' s''] eqn:T.
        intros E; inversion E; subst. eapply Q_trans; [exact Q1|]. eapply Q_trans; [eapply Q_tail; exact T|].
        destruct debug; [apply Q_emit|apply Q_refl]. }
      match goal with |- context [match ?X with _ => _ end] => remember X as RF eqn:ER end.
      destruct RF as [[rr s5]|]; [|discriminate]. symmetry in ER.
      destruct (tail W (xw s) rr s5) as [r' s''] eqn:T.
      intros E; inversion E; subst. eapply Q_trans; [exact Q1|]. eapply Q_trans; [eapply IHrunf; exact ER|].
      eapply Q_trans; [eapply Q_tail; exact T|]. destruct debug; [apply Q_emit|apply Q_refl].
    - (* do_create *)
      intros depth hint caller code gas value address typ s r s'. cbn [do_create]. cbv beta zeta.
      set (s1 := SAVE s caller None code value gas).
      destruct (Nat.ltb max_depth depth).
      { intros E; inversion E; subst. cbn [fst snd]. eexists; split; [reflexivity|]. apply Q_refl. }
      destruct (negb (can_transfer (xw s1) caller value)).
      { intros E; inversion E; subst. cbn [fst snd]. eexists; split; [reflexivity|]. apply Q_refl. }
      destruct (two64 <=? get_nonce (xw s1) caller + 1).
      { intros E; inversion E; subst. cbn [fst snd]. eexists; split; [reflexivity|]. apply Q_refl. }
      set (s2 := set_w W s1 (set_nonce (xw s1) caller (get_nonce (xw s1) caller + 1))).
      set (s3 := if is_berlin then set_w W s2 (acl_add (xw s2) address) else s2).
      assert (Q3 : Q s1 s3).
      { eapply Q_trans; [apply (Q_set_w s1)|]. fold s2. subst s3. destruct is_berlin; [apply Q_set_w|apply Q_refl]. }
      destruct (collides (xw s3) address).
      { intros E; inversion E; subst. cbn [fst snd]. eexists; split; [reflexivity|]. exact Q3. }
      match goal with |- context [match ?X with _ => _ end] => remember X as RF eqn:ER end.
      destruct RF as [[rr s5]|]; [|discriminate]. symmetry in ER.
      match goal with |- context [match ?X with _ => _ end] => remember X as CF eqn:EF end.
      destruct CF as [r' s6]. symmetry in EF.
      intros E; inversion E; subst. cbn [fst snd]. eexists; split; [reflexivity|].
      eapply Q_trans; [exact Q3|]. eapply Q_trans; [|apply Q_dclose].
      eapply Q_trans; [|].
      2:{ unfold create_finish in EF.
          repeat match type of EF with context [match ?X with _ => _ end] => destruct X end;
            inversion EF; subst; first [apply Q_set_w | apply Q_refl]. }
      eapply Q_trans; [|eapply IHrunf; exact ER].
      match goal with |- Q s3 ?sx => assert (Qx : Q s3 sx) end.
      { eapply Q_trans; [apply Q_set_w|].
        eapply Q_trans; [|apply Q_dopen]. eapply Q_trans; [|apply Q_transfer].
        destruct is_eip158; [apply Q_set_w|apply Q_refl]. }
      exact Qx.
  Qed.

  (** consequences: from a well-formed tree with no call open, every entry point returns with a
      well-formed tree and no call open — for every outcome, every Aspect behaviour, every instruction
      semantics.  (The call depth is a parameter of the model: it is back at its entry value by construction.) *)
  Theorem call_closes_tree fuel depth hint ps caller addr input gas value s r s' :
    CALL fuel depth hint ps caller addr input gas value s = Some (r, s') ->
    ct_wf (tc (xt s)) -> ct_wf (tc (xt s')) /\ current (tc (xt s')) = current (tc (xt s)).
  Proof.
    intros E Wf. destruct (calltree_balanced fuel) as [_ [_ [Hc _]]].
    destruct (Hc _ _ _ _ _ _ _ _ _ _ _ E) as [sx [-> Qx]].
    destruct (Q_bracket _ _ _ _ _ _ _ r Qx) as [ops [B Et]]. rewrite Et. split.
    - apply ct_wf_fold. exact Wf.
    - apply balanced_restores_cursor; assumption.
  Qed.
  Theorem create_closes_tree fuel depth hint caller code gas value address typ s r s' :
    CREATE fuel depth hint caller code gas value address typ s = Some (r, s') ->
    ct_wf (tc (xt s)) -> ct_wf (tc (xt s')) /\ current (tc (xt s')) = current (tc (xt s)).
  Proof.
    intros E Wf. destruct (calltree_balanced fuel) as [_ [_ [_ [_ [_ [_ Hc]]]]]].
    destruct (Hc _ _ _ _ _ _ _ _ _ _ _ E) as [sx [-> Qx]].
    destruct (Q_bracket _ _ _ _ _ _ _ r Qx) as [ops [B Et]]. rewrite Et. split.
    - apply ct_wf_fold. exact Wf.
    - apply balanced_restores_cursor; assumption.
  Qed.


  (** * C08 — every CALL / CREATE attempt is recorded once, with its inputs as made and its outcome as
      handed back; nothing that runs inside it can alter the record *)

  Lemma bracket_shape s from to data value gas s2 r :
    artela = true -> Q (SAVE s from to data value gas) s2 ->
    exists body, balanced body /\
      tc (xt (EXIT s2 r)) = fold_left ct_step (CAdd from to data value gas :: body ++ [CExit (r_gas r) (r_ret r) (option_map verr_text (r_err r))]) (tc (xt s)).
  Proof.
    intros Ha [ops [B E]]. unfold save_call, exit_call in *. rewrite Ha in *. cbn in E.
    exists ops. split; [exact B|]. cbn. rewrite fold_left_app, <- E. reflexivity.
  Qed.

  Theorem call_node_recorded fuel depth hint ps caller addr input gas value s r s' :
    artela = true -> ct_wf (tc (xt s)) ->
    CALL fuel depth hint ps caller addr input gas value s = Some (r, s') ->
    exists c, nth_error (calls (tc (xt s'))) (length (calls (tc (xt s)))) = Some c /\
      c_from c = caller /\ c_to c = Some addr /\ c_data c = input /\ c_value c = value /\ c_gas c = gas /\
      c_parent c = current (tc (xt s)) /\
      c_ret c = r_ret r /\ c_rgas c = r_gas r /\ c_err c = option_map verr_text (r_err r) /\ c_exited c = true.
  Proof.
    intros Ha Wf E. destruct (calltree_balanced fuel) as [_ [_ [Hc _]]].
    destruct (Hc _ _ _ _ _ _ _ _ _ _ _ E) as [sx [-> Qx]].
    destruct (bracket_shape _ _ _ _ _ _ _ r Ha Qx) as [body [B Et]]. rewrite Et.
    apply bracket_node; assumption.
  Qed.

  Theorem create_node_recorded fuel depth hint caller code gas value address typ s r s' :
    artela = true -> ct_wf (tc (xt s)) ->
    CREATE fuel depth hint caller code gas value address typ s = Some (r, s') ->
    exists c, nth_error (calls (tc (xt s'))) (length (calls (tc (xt s)))) = Some c /\
      c_from c = caller /\ c_to c = None /\ c_data c = code /\ c_value c = value /\ c_gas c = gas /\
      c_parent c = current (tc (xt s)) /\
      c_ret c = r_ret r /\ c_rgas c = r_gas r /\ c_err c = option_map verr_text (r_err r) /\ c_exited c = true.
  Proof.
    intros Ha Wf E. destruct (calltree_balanced fuel) as [_ [_ [_ [_ [_ [_ Hc]]]]]].
    destruct (Hc _ _ _ _ _ _ _ _ _ _ _ E) as [sx [-> Qx]].
    destruct (bracket_shape _ _ _ _ _ _ _ r Ha Qx) as [body [B Et]]. rewrite Et.
    apply bracket_node; assumption.
  Qed.

  (** ... and every node that existed before is untouched (only the issuing frame's node gains a child) *)
  Theorem call_preserves_nodes fuel depth hint ps caller addr input gas value s r s' :
    ct_wf (tc (xt s)) ->
    CALL fuel depth hint ps caller addr input gas value s = Some (r, s') ->
    preserved (tc (xt s)) (tc (xt s')).
  Proof.
    intros Wf E. destruct (calltree_balanced fuel) as [_ [_ [Hc _]]].
    destruct (Hc _ _ _ _ _ _ _ _ _ _ _ E) as [sx [-> Qx]].
    destruct (Q_bracket _ _ _ _ _ _ _ r Qx) as [ops [B Et]]. rewrite Et.
    apply balanced_preserved; assumption.
  Qed.

  (** one unfolding of EVM.Call's model, with the mutually defined functions folded back *)
  Lemma call_unfold fuel depth hint ps caller addr input gas value s :
    CALL (S fuel) depth hint ps caller addr input gas value s =
      let s := SAVE s caller (Some addr) input value gas in
      let idx := current_index (tc (xt s)) in
      let finish := fun (p : cres * xst) => Some (fst p, EXIT (snd p) (fst p)) in
      if Nat.ltb max_depth depth then finish (mk [] gas (Some (VOther "max call depth exceeded")), s)
      else if negb (value =? 0) && negb (can_transfer (xw s) caller value)
      then finish (mk [] gas (Some (VOther "insufficient balance for transfer")), s)
      else
        let w0 := xw s in
        let isp := is_precompile addr in
        if negb (exists_acct w0 addr) && negb isp && is_eip158 && (value =? 0) then
          let s := DOPEN s depth 0xf1 caller addr false input gas (Some value) in
          let s := DCLOSE s depth (mk [] gas None) gas gas in
          finish (mk [] gas None, s)
        else
          let s := if exists_acct w0 addr then s else set_w W s (create_account w0 addr) in
          let s := TRANSFER s caller addr value in
          let s := DOPEN s depth 0xf1 caller addr false input gas (Some value) in
          let close := fun (r : cres) (gas_var : N) (s : xst) => finish (r, DCLOSE s depth r gas gas_var) in
          if isp then
            let r := precompile addr (if artela then Some caller else None) input gas in
            let '(r', s') := tail W w0 r s in close r' (r_gas r') s'
          else
            let code := code_of (xw s) addr in
            match code with
            | [] => close (mk [] gas None) gas s
            | _ =>
              let jp := artela && jp_on in
              let p0 := {| j_from := caller; j_to := addr; j_index := idx; j_data := input; j_value := value; j_gas := gas;
                           j_ret := []; j_errtext := ""%string |} in
              let '(pret, pgas, perr, s) :=
                  if jp then JP true caller addr input value p0 gas s else ([], gas, None, s) in
              match perr with
              | Some e =>
                let r := pre_fail pret pgas e in
                close r (r_gas r) (set_w W s w0)
              | None =>
                let fc := {| f_self := addr; f_code_addr := addr; f_caller := caller; f_value := value; f_input := input;
                             f_code := code; f_static := ps; f_create := false |} in
                match RUNF fuel depth hint fc pgas s with
                | None => None
                | Some (r, s) =>
                  let '(r, s) :=
                      if jp then
                        let p1 := {| j_from := caller; j_to := addr; j_index := idx; j_data := input; j_value := value;
                                     j_gas := r_gas r; j_ret := r_ret r;
                                     j_errtext := match r_err r with Some e => verr_text e | None => ""%string end |} in
                        let '(qret, qgas, qerr, s) := JP false caller addr input value p1 (r_gas r) s in
                        (post_merge r qret qgas qerr, s)
                      else (r, s) in
                  let '(r', s') := tail W w0 r s in close r' (r_gas r') s'
                end
              end
            end.
  Proof. reflexivity. Qed.

  (** * C05 — the join points of a call: once before the callee with the call's own data, once after it with its
      result, nothing when the first one fails.  For a CALL that passes the entry checks and reaches code: *)
  Theorem call_join_points_shape fuel depth hint ps caller addr input gas value s r s' :
    CALL (S fuel) depth hint ps caller addr input gas value s = Some (r, s') ->
    let s1 := SAVE s caller (Some addr) input value gas in
    let s2 := if exists_acct (xw s1) addr then s1 else set_w W s1 (create_account (xw s1) addr) in
    let s3 := DOPEN (TRANSFER s2 caller addr value) depth 0xf1 caller addr false input gas (Some value) in
    Nat.ltb max_depth depth = false ->
    negb (value =? 0) && negb (can_transfer (xw s1) caller value) = false ->
    negb (exists_acct (xw s1) addr) && negb (is_precompile addr) && is_eip158 && (value =? 0) = false ->
    is_precompile addr = false ->
    code_of (xw s3) addr <> [] ->
    artela && jp_on = true ->
    let idx := current_index (tc (xt s1)) in
    let p0 := {| j_from := caller; j_to := addr; j_index := idx; j_data := input; j_value := value; j_gas := gas;
                 j_ret := []; j_errtext := ""%string |} in
    exists pret pgas perr s4,
      JP true caller addr input value p0 gas s3 = (pret, pgas, perr, s4) /\
      match perr with
      | Some e =>
        (* the callee does not run, the post join point does not run *)
        r = pre_fail pret pgas e /\ s' = EXIT (DCLOSE (set_w W s4 (xw s1)) depth r gas (r_gas r)) r
      | None =>
        let fc := {| f_self := addr; f_code_addr := addr; f_caller := caller; f_value := value; f_input := input;
                     f_code := code_of (xw s3) addr; f_static := ps; f_create := false |} in
        exists rb s5, RUNF fuel depth hint fc pgas s4 = Some (rb, s5) /\
          let p1 := {| j_from := caller; j_to := addr; j_index := idx; j_data := input; j_value := value;
                       j_gas := r_gas rb; j_ret := r_ret rb;
                       j_errtext := match r_err rb with Some e => verr_text e | None => ""%string end |} in
          exists qret qgas qerr s6 s7,
            JP false caller addr input value p1 (r_gas rb) s5 = (qret, qgas, qerr, s6) /\
            tail W (xw s1) (post_merge rb qret qgas qerr) s6 = (r, s7) /\
            s' = EXIT (DCLOSE s7 depth r gas (r_gas r)) r
      end.
  Proof.
    rewrite call_unfold. cbv beta zeta. intros E H1 H2 H3 H4 H5 H6.
    rewrite H1, H2, H3, H4 in E.
    destruct (code_of (xw (DOPEN (TRANSFER (if exists_acct (xw (SAVE s caller (Some addr) input value gas)) addr
                                             then SAVE s caller (Some addr) input value gas
                                             else set_w W (SAVE s caller (Some addr) input value gas)
                                                        (create_account (xw (SAVE s caller (Some addr) input value gas)) addr))
                                            caller addr value) depth 241 caller addr false input gas (Some value))) addr)
      as [|c0 code] eqn:Ecode; [contradiction|].
    rewrite H6 in E.
    match type of E with context [match ?X with _ => _ end] => destruct X as [[[pret pgas] perr] s4] eqn:EP end.
    exists pret, pgas, perr, s4. split; [reflexivity|].
    destruct perr as [e|].
    { inversion E; subst. cbn [fst snd]. split; reflexivity. }
    match type of E with context [match ?X with _ => _ end] => destruct X as [[rb s5]|] eqn:ER end; [|discriminate].
    exists rb, s5. split; [reflexivity|].
    match type of E with context [match ?X with _ => _ end] => destruct X as [[[qret qgas] qerr] s6] eqn:EQ end.
    match type of E with context [match ?X with _ => _ end] => destruct X as [r7 s7] eqn:ET end.
    exists qret, qgas, qerr, s6, s7. inversion E; subst. cbn [fst snd].
    split; [first [reflexivity|eassumption]|]. split; first [reflexivity|eassumption].
  Qed.

  (** * C06 — gas through join points *)

  Lemma verr_of_text_oog : verr_of_text "out of gas" = VOog.
  Proof. reflexivity. Qed.
  Lemma verr_of_text_not_revert e : is_revert (verr_of_text e) = false.
  Proof. unfold verr_of_text. destruct (String.eqb e "out of gas"); reflexivity. Qed.

  (** a join point that runs out of gas surfaces as the EVM's own out-of-gas error with no gas returned *)
  Theorem pre_oog_is_evm_oog pret pgas : pre_fail pret pgas "out of gas" = mk pret 0 (Some VOog).
  Proof. reflexivity. Qed.
  Theorem post_oog_is_evm_oog w0 r qret qgas (s : xst) :
    fst (tail W w0 (post_merge r qret qgas (Some "out of gas"%string)) s) = mk (r_ret r) 0 (Some VOog).
  Proof. reflexivity. Qed.
  (** any other post-join-point failure forfeits the frame's gas like an exceptional halt and rolls back *)
  Theorem post_failure_forfeits w0 r qret qgas e (s : xst) :
    let p := tail W w0 (post_merge r qret qgas (Some e)) s in
    r_gas (fst p) = 0 /\ r_err (fst p) <> None /\ xw (snd p) = w0.
  Proof.
    cbn zeta. unfold post_merge. pose proof (verr_of_text_not_revert e) as Hn.
    destruct (verr_of_text e); cbn in *; try discriminate; repeat split; discriminate.
  Qed.
  (** a succeeding post join point hands back exactly what it left, the frame's own outcome unchanged *)
  Theorem post_success_gas r qret qgas : post_merge r qret qgas None = mk (r_ret r) qgas (r_err r).
  Proof. reflexivity. Qed.

  Definition aspect_sane : Prop :=
    forall n pre a g p, let '(_, g', _) := aspect n pre a g p in g' <= g.

  Lemma run_aspects_gas_le pre from c input value p ids : aspect_sane -> forall gas ret s ret' gas' e' s',
    run_aspects W asp_logger aspect pre from c input value p ids gas ret s = (ret', gas', e', s') -> gas' <= gas.
  Proof.
    intros Hs. induction ids as [|a rest IH]; intros gas ret s ret' gas' e' s' E; cbn in E.
    - inversion E; subst. lia.
    - match type of E with context [aspect ?n ?pr ?aa ?g ?pp] => pose proof (Hs n pr aa g pp) as Hg; destruct (aspect n pr aa g pp) as [[r g'] e] end.
      destruct e as [e|].
      + inversion E; subst. exact Hg.
      + apply IH in E. lia.
  Qed.
  Lemma join_point_gas_le pre from c input value p gas s ret' gas' e' s' :
    aspect_sane -> JP pre from c input value p gas s = (ret', gas', e', s') -> gas' <= gas.
  Proof.
    intros Hs. unfold join_point. destruct (bound pre c).
    - intros E. eapply run_aspects_gas_le; eassumption.
    - intros E; inversion E; subst. lia.
    - intros E; inversion E; subst. lia.
  Qed.

  (** no CALL frame hands back more gas than it was given — provided no Aspect, precompile or
      interpreter run reports more gas left than it received *)
  Lemma call_gas_le_fuel f depth hint ps caller addr input gas value s r s' :
    aspect_sane ->
    (forall a c i g, r_gas (precompile a c i g) <= g) ->
    (forall d h fc g st r0 st', RUNF f d h fc g st = Some (r0, st') -> r_gas r0 <= g) ->
    CALL (S f) depth hint ps caller addr input gas value s = Some (r, s') -> r_gas r <= gas.
  Proof.
    intros Hs Hp Hr. cbn [do_call]. cbv beta zeta.
    set (s1 := SAVE s caller (Some addr) input value gas).
    destruct (Nat.ltb max_depth depth); [intros E; inversion E; subst; cbn; lia|].
    destruct (negb (value =? 0) && negb (can_transfer (xw s1) caller value)); [intros E; inversion E; subst; cbn; lia|].
    destruct (negb (exists_acct (xw s1) addr) && negb (is_precompile addr) && is_eip158 && (value =? 0)); [intros E; inversion E; subst; cbn; lia|].
    set (s2 := if exists_acct (xw s1) addr then s1 else set_w W s1 (create_account (xw s1) addr)).
    set (s3 := DOPEN (TRANSFER s2 caller addr value) depth 0xf1 caller addr false input gas (Some value)).
    destruct (is_precompile addr).
    { destruct (tail W (xw s1) (precompile addr (if artela then Some caller else None) input gas) s3) as [r' s''] eqn:T.
      intros E; inversion E; subst. cbn [fst]. rewrite (tail_gas _ _ _ _ _ T).
      pose proof (Hp addr (if artela then Some caller else None) input gas).
      destruct (r_err _) as [e|]; [destruct (is_revert e)|]; lia. }
    destruct (code_of (xw s3) addr) as [|c0 code]; [intros E; inversion E; subst; cbn; lia|].
    match goal with |- context [match ?X with _ => _ end] => remember X as PRE eqn:EP end.
    destruct PRE as [[[pret pgas] perr] s4]. symmetry in EP.
    assert (G4 : pgas <= gas).
    { destruct (artela && jp_on); [eapply join_point_gas_le; eassumption|inversion EP; subst; lia]. }
    destruct perr as [e|].
    { intros E; inversion E; subst. cbn [fst]. unfold pre_fail. destruct (verr_of_text e); cbn; lia. }
    match goal with |- context [match ?X with _ => _ end] => remember X as RF eqn:ER end.
    destruct RF as [[rr s5]|]; [|discriminate]. symmetry in ER. apply Hr in ER.
    match goal with |- context [match ?X with _ => _ end] => remember X as POST eqn:EQ end.
    destruct POST as [rq s6]. symmetry in EQ.
    assert (G6 : r_gas rq <= r_gas rr).
    { destruct (artela && jp_on).
      - match type of EQ with context [match ?X with _ => _ end] => destruct X as [[[qret qgas] qerr] s7] eqn:EJ end.
        apply join_point_gas_le in EJ; [|exact Hs]. inversion EQ; subst. unfold post_merge.
        destruct qerr as [e|]; [destruct (verr_of_text e)|]; cbn; lia.
      - inversion EQ; subst. lia. }
    destruct (tail W (xw s1) rq s6) as [r' s''] eqn:T.
    intros E; inversion E; subst. cbn [fst]. rewrite (tail_gas _ _ _ _ _ T).
    destruct (r_err rq) as [e|]; [destruct (is_revert e)|]; lia.
  Qed.

  Theorem call_gas_le fuel depth hint ps caller addr input gas value s r s' :
    aspect_sane ->
    (forall a c i g, r_gas (precompile a c i g) <= g) ->
    (forall f d h fc g st r0 st', RUNF f d h fc g st = Some (r0, st') -> r_gas r0 <= g) ->
    CALL fuel depth hint ps caller addr input gas value s = Some (r, s') -> r_gas r <= gas.
  Proof.
    intros Hs Hp Hr. destruct fuel as [|f]; [discriminate|]. apply call_gas_le_fuel; [exact Hs|exact Hp|apply Hr].
  Qed.

  (** * C13 — the balance journal brackets the value transfer with the true balances *)
  Theorem transfer_recorded_spec (s : xst) from to value :
    artela = true ->
    let w := xw s in let w' := transfer w from to value in
    xw (TRANSFER s from to value) = w' /\
    xt (TRANSFER s from to value) =
      t_transfer_record (xt s) from to (balance_of w from) (balance_of w to) (balance_of w' from) (balance_of w' to).
  Proof. intros Ha. unfold transfer_recorded. rewrite Ha. split; reflexivity. Qed.

  (** the entries are filed under the index of the frame's own node: right after SaveCall the cursor
      is the node just added *)
  Theorem save_call_cursor (s : xst) from to data value gas :
    artela = true ->
    current_index (tc (xt (SAVE s from to data value gas))) = N.of_nat (length (calls (tc (xt s)))).
  Proof. intros Ha. unfold save_call. rewrite Ha. reflexivity. Qed.

  (** and the tracer is touched by nothing else in the frame logic: without a journal instruction or a
      transfer the key tree stays as it is (save/exit only move the call tree) *)
  Theorem save_exit_keep_keytree (s : xst) from to data value gas r :
    tk (xt (SAVE s from to data value gas)) = tk (xt s) /\ tk (xt (EXIT s r)) = tk (xt s).
  Proof. unfold save_call, exit_call. destruct artela; split; reflexivity. Qed.


  (** * C12 — a journal instruction is invisible to execution: the loop serves it by updating the tracer
      only; the world state the program can observe is passed on untouched, and what the instruction did
      (success or error) is all the frame's machine gets to see *)
  Theorem journal_step_invisible fuel depth fc m s j ev resume :
    local_step depth fc m (xw s) = SJournal W M HT j ev resume ->
    exists s2 rj,
      RUN (S fuel) depth fc m s = RUN fuel depth fc (resume rj) s2 /\
      xw s2 = xw s /\
      rj = snd (jop (jr_storage j) keccak (jr_op j) (f_self fc) (jr_mem j) (jr_stack j) (xt s)) /\
      tc (xt s2) = tc (xt s).
  Proof.
    intros E. cbn [run]. rewrite E.
    destruct (jop (jr_storage j) keccak (jr_op j) (f_self fc) (jr_mem j) (jr_stack j) (xt (emit W s ev))) as [t' rj] eqn:EJ.
    eexists. exists rj. split; [reflexivity|]. split; [reflexivity|]. split.
    - change (xt (emit W s ev)) with (xt s) in EJ. rewrite EJ. reflexivity.
    - cbn. pose proof (tc_jop (jr_storage j) keccak (jr_op j) (f_self fc) (jr_mem j) (jr_stack j) (xt s)) as T.
      change (xt (emit W s ev)) with (xt s) in EJ. rewrite EJ in T. exact T.
  Qed.

End ExecProofs.
