(* Proofs/CallGas_proofs.v — EIP-150: a frame forwards at most all but one 64th of what it has left after the instruction's
   own costs, and exactly the request when that is smaller; before EIP-150 exactly the request. *)
From Verif Require Import Base.Bytes Model.CallGas.
From Coq Require Import ZifyN ZifyBool.
Open Scope N_scope.

Lemma u64_sub a b : b <= a -> a < two64 -> u64 (a + two64 - b) = a - b.
Proof. intros H1 H2. unfold u64, two64 in *. replace (a + 18446744073709551616 - b) with ((a - b) + 1 * 18446744073709551616) by lia.
  rewrite N.mod_add by lia. apply N.mod_small. lia. Qed.

Definition cap (left : N) : N := left - left / 64.

(** from EIP-150: forwarded = min(requested, cap(available - base)) *)
Theorem call_gas_eip150 available base requested :
  base <= available -> available < two64 ->
  call_gas true available base requested = Ok (N.min requested (cap (available - base))).
Proof.
  intros Hb Ha. unfold call_gas, cap. rewrite (u64_sub _ _ Hb Ha).
  set (a := available - base).
  destruct (requested <? two64) eqn:F; cbn [negb orb].
  - destruct (a - a / 64 <? requested) eqn:G; f_equal; lia.
  - f_equal. assert (a < two64) by (unfold a; lia). assert (a - a / 64 <= a) by lia. unfold two64 in *. lia.
Qed.

(** so the callee never gets more than the caller has left, and at least one 64th stays behind (for left >= 64) *)
Theorem call_gas_leaves_a_64th available base requested g :
  base <= available -> available < two64 ->
  call_gas true available base requested = Ok g ->
  g <= available - base /\ (available - base) / 64 <= (available - base) - g.
Proof.
  intros Hb Ha E. rewrite (call_gas_eip150 _ _ _ Hb Ha) in E. inversion E; subst. unfold cap.
  set (a := available - base). assert (a / 64 <= a) by (apply N.div_le_upper_bound; lia). lia.
Qed.

(** before EIP-150 the request is forwarded as it is (and the instruction fails afterwards if the frame cannot pay it) *)
Theorem call_gas_legacy available base requested :
  call_gas false available base requested = if requested <? two64 then Ok requested else Err "gas uint64 overflow".
Proof. reflexivity. Qed.

Theorem call_gas_no_panic eip150 available base requested : is_panic (call_gas eip150 available base requested) = false.
Proof.
  unfold call_gas. destruct eip150.
  - destruct (negb (requested <? two64) || _); reflexivity.
  - destruct (requested <? two64); reflexivity.
Qed.

(** the callee frame's gas: the forwarded amount, plus 2300 only for a value-bearing CALL / CALLCODE *)
Theorem callee_gas_stipend kind value_nonzero g :
  callee_gas kind value_nonzero g = g \/ (callee_gas kind value_nonzero g = g + 2300 /\ value_nonzero = true /\ (kind = 0 \/ kind = 1)).
Proof.
  unfold callee_gas, call_stipend. destruct value_nonzero; cbn [andb]; [|left; reflexivity].
  destruct (kind =? 0) eqn:K0; [right; repeat split; left; lia|].
  destruct (kind =? 1) eqn:K1; [right; repeat split; right; lia|]. left; reflexivity.
Qed.

Example ex_call_gas :
  call_gas true 100000 700 (two64 + 5) = Ok 97749 /\ call_gas true 100000 700 5000 = Ok 5000 /\
  call_gas false 100000 700 5000000 = Ok 5000000 /\ callee_gas 0 true 5000 = 7300 /\ callee_gas 2 true 5000 = 5000.
Proof. vm_compute. repeat split; reflexivity. Qed.
