(* Proofs/Work_proofs.v — no-panic and work-bound facts about the journal instructions and the Artela
   precompiles (C03, C20). *)
From Verif Require Import Base.Bytes Proofs.Bytes_proofs Model.KeyTree Model.CallTree Model.Journal Model.SolLayout Model.Tracer
  Model.Precompile Proofs.Journal_proofs Proofs.Precompile_proofs.
From Coq Require Import ZifyN ZifyNat ZifyBool.
Ltac Zify.zify_post_hook ::= Z.div_mod_to_equations.
Open Scope N_scope.

Lemma save_key_no_panic t a p sl o ty d : is_panic (snd (t_save_key t a p sl o ty d)) = false.
Proof.
  unfold t_save_key, save_key. destruct o as [o|]; cbn [offset_u8].
  - destruct (31 <? o); [reflexivity|]. destruct p as [[ps pt]|].
    + destruct (find_key (tk t) a ps 0 pt); [|reflexivity]. destruct (add_child _ _ _ _ _ _ _). reflexivity.
    + destruct (ensure_root (tk t) a). destruct (add_child _ _ _ _ _ _ _). reflexivity.
  - destruct p as [[ps pt]|].
    + destruct (find_key (tk t) a ps 0 pt); [|reflexivity]. destruct (add_child _ _ _ _ _ _ _). reflexivity.
    + destruct (ensure_root (tk t) a). destruct (add_child _ _ _ _ _ _ _). reflexivity.
Qed.

Lemma save_change_no_panic t a sl o ty v : is_panic (snd (t_save_change t a sl o ty v)) = false.
Proof.
  unfold t_save_change, save_change. destruct o as [o|]; cbn [offset_u8].
  - destruct (31 <? o); [reflexivity|]. destruct (root_of (tk t) a); [|reflexivity].
    destruct (find_key (tk t) a sl o ty); reflexivity.
  - destruct (root_of (tk t) a); [|reflexivity]. destruct (find_key (tk t) a sl 0 ty); reflexivity.
Qed.

(** No journal instruction panics, for any opcode byte, operand words, memory, storage, hash and tracer state. *)
Theorem jop_no_panic st kk op self mem stack t : is_panic (snd (jop st kk op self mem stack t)) = false.
Proof.
  unfold jop, with_mem_string. destruct (Nat.ltb _ _); [reflexivity|].
  repeat match goal with
         | |- context [if ?c then _ else _] => destruct c
         end; try reflexivity;
  repeat match goal with
         | |- context [match load_data_from_mem ?p ?m with _ => _ end] =>
           pose proof (ldm_no_panic p m); destruct (load_data_from_mem p m); cbn in *; try congruence
         | |- context [match vv_slice ?a ?b ?c with _ => _ end] =>
           pose proof (vv_no_panic a b c); destruct (vv_slice a b c); cbn in *; try congruence
         | |- context [match vr_read ?a ?b ?c with _ => _ end] =>
           pose proof (vr_no_panic a b c); destruct (vr_read a b c); cbn in *; try congruence
         end; try reflexivity; try apply save_key_no_panic; try apply save_change_no_panic.
Qed.

(** ** work *)

(** the reference journal performs one storage read for the length word plus one per 32 bytes of a long string *)
Theorem vr_reads_formula st slot :
  vr_reads st slot = match extract_storage_len (st slot) with
                     | Ok len => if len <? 32 then 1 else 1 + u64_ceiling32 len
                     | _ => 1 end.
Proof. reflexivity. Qed.

(** ... which no fixed multiple of the flat fee bounds: for every K there is a storage word that makes
    one instruction read more than K slots.  (FALSE of the faithful model: known finding F7.) *)
Theorem vr_work_bounded_refuted : forall K : N, K < 0x10000000000000 ->
  exists (st : N -> N) (slot : N), vr_reads st slot > K.
Proof.
  intros K HK. exists (fun _ => 2 * (32 * (K + 1)) + 1), 0. unfold vr_reads.
  rewrite extract_len_valid.
  - replace ((2 * (32 * (K + 1)) + 1) mod 2 =? 0) with false by lia.
    replace ((2 * (32 * (K + 1)) + 1) / 2 <? 32) with false by lia. rewrite u64_ceiling32_is_ceil32. unfold ceil32. lia.
  - unfold valid_len_word. replace ((2 * (32 * (K + 1)) + 1) mod 2 =? 0) with false by lia. lia.
  - intros _. unfold two64. lia.
Qed.

(** what is proved instead: the work is bounded by the encoded length (and by nothing smaller) *)
Theorem vr_work_partial st slot len :
  extract_storage_len (st slot) = Ok len -> vr_reads st slot <= 2 + len / 32.
Proof. intros H. unfold vr_reads. rewrite H. destruct (len <? 32); rewrite ?u64_ceiling32_is_ceil32; unfold ceil32; lia. Qed.

(** the value journal reads one slot and copies at most 32 bytes *)
Theorem vv_output_bounded w off size b : vv_slice w off size = Ok b -> blen b <= 32.
Proof.
  unfold vv_slice. destruct ((two64 <=? off) || (31 <? off)); [discriminate|].
  destruct ((two64 <=? size) || (32 <? size)) eqn:E; [discriminate|]. destruct (32 <? off + size) eqn:E2; [discriminate|].
  unfold go_slice. destruct ((_ <=? _) && _); [|discriminate]. intros H; inversion H; subst.
  unfold blen, slice. rewrite firstn_length. lia.
Qed.

(** the ABI decoder of the context-write precompile returns a sub-slice of the payload: nothing is
    copied or allocated beyond the calldata the caller already paid for *)
Theorem lpb_output_le_input p i b : blen p < two63 -> load_param_bytes p i = Ok b -> blen b <= blen p.
Proof.
  intros Hl H. pose proof (lpb_refines_abi p i Hl) as R. unfold abi_bytes_at in R.
  destruct (blen p <? 32 * i + 32); [destruct R as [e R]; congruence|].
  destruct (blen p <? be_to_N (slice p (32 * i) (32 * i + 32)) + 32); [destruct R as [e R]; congruence|].
  match type of R with context [if ?c then _ else _] => destruct c eqn:E end; [destruct R as [e R]; congruence|].
  rewrite R in H. inversion H; subst. unfold blen, slice. rewrite firstn_length, skipn_length. lia.
Qed.
