(* Proofs/JumpDest_proofs.v — the bit-vector jump-destination analysis equals its specification, for every code. *)
From Verif Require Import Base.Bytes Model.JumpDest.
From Coq Require Import ZifyN ZifyNat ZifyBool.
Ltac Zify.zify_post_hook ::= Z.div_mod_to_equations.
Open Scope nat_scope.

Lemma nth_firstn_lt {A} (l : list A) i j d : j < i -> nth j (firstn i l) d = nth j l d.
Proof.
  revert i j. induction l as [|x l IH]; intros i j H; [rewrite firstn_nil; reflexivity|].
  destruct i; [lia|]. destruct j; [reflexivity|]. cbn. apply IH. lia.
Qed.
Lemma nth_skipn {A} (l : list A) n j d : nth j (skipn n l) d = nth (n + j) l d.
Proof.
  revert l. induction n as [|n IH]; intro l; [reflexivity|]. destruct l; [cbn; destruct j; reflexivity|]. cbn. apply IH.
Qed.

(** * updating one byte *)
Lemma upd_ok b k v : k < length b -> exists b', upd b k v = Ok b' /\ length b' = length b /\
  forall m, byte_at b' m = if m =? k then v else byte_at b m.
Proof.
  intro H. unfold upd. replace (k <? length b) with true by lia. eexists. split; [reflexivity|]. split.
  - rewrite app_length, firstn_length. cbn [length]. rewrite skipn_length. lia.
  - intro m. unfold byte_at. destruct (m =? k) eqn:E.
    + apply Nat.eqb_eq in E. subst. rewrite app_nth2 by (rewrite firstn_length; lia).
      rewrite firstn_length. replace (k - Nat.min k (length b)) with 0 by lia. reflexivity.
    + apply Nat.eqb_neq in E. destruct (Nat.lt_ge_cases m k).
      * rewrite app_nth1 by (rewrite firstn_length; lia). apply nth_firstn_lt. exact H0.
      * rewrite app_nth2 by (rewrite firstn_length; lia). rewrite firstn_length.
        replace (m - Nat.min k (length b)) with (S (m - S k)) by lia. cbn [nth].
        rewrite nth_skipn. f_equal. lia.
Qed.

Lemma upd_inv b k v b' : upd b k v = Ok b' -> k < length b /\ length b' = length b /\
  forall m, byte_at b' m = if m =? k then v else byte_at b m.
Proof.
  intro H. assert (L : k < length b). { unfold upd in H. destruct (k <? length b) eqn:E; [lia|discriminate]. }
  destruct (upd_ok b k v L) as (b'' & E & P). rewrite E in H. inversion H; subst. split; [exact L|exact P].
Qed.

Lemma bv_get_upd b k v b' : upd b k v = Ok b' ->
  forall i, bv_get b' i = if i / 8 =? k then N.testbit v (N.of_nat (i mod 8)) else bv_get b i.
Proof.
  intros H i. destruct (upd_inv _ _ _ _ H) as (_ & _ & P). unfold bv_get. rewrite P. destruct (i / 8 =? k); reflexivity.
Qed.

(** * bits of the masks *)
Lemma testbit_shiftl_ones k r i : N.testbit (N.shiftl (N.ones k) r) i = ((r <=? i) && (i <? r + k))%N.
Proof.
  destruct (N.ltb_spec i r) as [H|H].
  - rewrite N.shiftl_spec_low by exact H. replace (r <=? i)%N with false by lia. reflexivity.
  - rewrite N.shiftl_spec_high' by exact H. replace (r <=? i)%N with true by lia. cbn [andb].
    destruct (N.ltb_spec (i - r) k) as [G|G].
    + rewrite N.ones_spec_low by exact G. lia.
    + rewrite N.ones_spec_high by exact G. lia.
Qed.

Lemma testbit_byte_of a j : (j < 8)%N -> N.testbit (byte_of a) j = N.testbit a j.
Proof. intro H. unfold byte_of. change 256%N with (2 ^ 8)%N. apply N.mod_pow2_bits_low. exact H. Qed.

Lemma testbit_byte_of_high a j : (8 <= j)%N -> N.testbit (byte_of a) j = false.
Proof. intro H. unfold byte_of. change 256%N with (2 ^ 8)%N. apply N.mod_pow2_bits_high. exact H. Qed.

Lemma testbit_hi a j : (j < 8)%N -> N.testbit (byte_of (N.shiftr a 8)) j = N.testbit a (j + 8).
Proof. intro H. rewrite testbit_byte_of by exact H. apply N.shiftr_spec'. Qed.

Lemma testbit_not_byte a j : (j < 8)%N -> N.testbit (N.lxor a 255) j = negb (N.testbit a j).
Proof.
  intro H. rewrite N.lxor_spec. change 255%N with (N.ones 8). rewrite N.ones_spec_low by exact H.
  destruct (N.testbit a j); reflexivity.
Qed.

Definition in_range (p n i : nat) : bool := (p <=? i) && (i <? p + n).
Definition zero_from (b : bitvec) (p : nat) : Prop := forall i, p <= i -> bv_get b i = false.

Lemma zero_from_get b p i : zero_from b p -> p <= i -> bv_get b i = false.
Proof. intros Z H. apply Z. exact H. Qed.

(** setN with the mask of [n] ones (the Go code uses it for n = 2..7; it is right for 1..8) *)
Lemma setN_spec n b pos b' : 1 <= n -> n <= 8 -> zero_from b pos ->
  setN (N.ones (N.of_nat n)) b pos = Ok b' ->
  forall i, bv_get b' i = bv_get b i || in_range pos n i.
Proof.
  intros Hn1 Hn8 Z H i. unfold setN in H.
  remember (N.shiftl (N.ones (N.of_nat n)) (N.of_nat (pos mod 8))) as a eqn:Ea.
  assert (A : forall j, N.testbit a j = ((N.of_nat (pos mod 8) <=? j) && (j <? N.of_nat (pos mod 8) + N.of_nat n))%N)
    by (intro j; subst a; apply testbit_shiftl_ones).
  destruct (upd b (pos / 8) (N.lor (byte_at b (pos / 8)) (byte_of a))) as [b1| |] eqn:U1; cbn [bind] in H; try discriminate.
  pose proof (bv_get_upd _ _ _ _ U1) as G1.
  assert (Hj : (N.of_nat (i mod 8) < 8)%N) by lia.
  destruct (byte_of (N.shiftr a 8) =? 0)%N eqn:HI.
  - inversion H; subst b'. rewrite G1.
    assert (Fit : pos mod 8 + n <= 8).
    { destruct (Nat.le_gt_cases (pos mod 8 + n) 8) as [F|F]; [exact F|exfalso].
      assert (T : N.testbit (byte_of (N.shiftr a 8)) 0 = true).
      { rewrite testbit_hi by lia. rewrite A. lia. }
      apply N.eqb_eq in HI. rewrite HI in T. discriminate. }
    destruct (i / 8 =? pos / 8) eqn:Eq.
    + apply Nat.eqb_eq in Eq. rewrite N.lor_spec. unfold bv_get at 1. rewrite Eq. f_equal.
      rewrite testbit_byte_of by exact Hj. rewrite A. unfold in_range. lia.
    + apply Nat.eqb_neq in Eq. destruct (Nat.lt_ge_cases (i / 8) (pos / 8)) as [L|L].
      * replace (in_range pos n i) with false by (unfold in_range; lia). now rewrite orb_false_r.
      * rewrite (zero_from_get b pos i Z) by lia. unfold in_range. lia.
  - destruct (upd_inv _ _ _ _ U1) as (_ & L1 & _).
    pose proof (bv_get_upd _ _ _ _ H) as G2. rewrite G2.
    destruct (i / 8 =? pos / 8 + 1) eqn:Eq1.
    + apply Nat.eqb_eq in Eq1. rewrite testbit_hi by exact Hj. rewrite A.
      rewrite (zero_from_get b pos i Z) by lia. unfold in_range. lia.
    + apply Nat.eqb_neq in Eq1. rewrite G1. destruct (i / 8 =? pos / 8) eqn:Eq.
      * apply Nat.eqb_eq in Eq. rewrite N.lor_spec. unfold bv_get at 1. rewrite Eq. f_equal.
        rewrite testbit_byte_of by exact Hj. rewrite A. unfold in_range. lia.
      * apply Nat.eqb_neq in Eq. destruct (Nat.lt_ge_cases (i / 8) (pos / 8)) as [L|L].
        -- replace (in_range pos n i) with false by (unfold in_range; lia). now rewrite orb_false_r.
        -- rewrite (zero_from_get b pos i Z) by lia. unfold in_range. lia.
Qed.

Lemma set1_spec b pos b' : set1 b pos = Ok b' -> forall i, bv_get b' i = bv_get b i || in_range pos 1 i.
Proof.
  intros H i. unfold set1 in H. rewrite (bv_get_upd _ _ _ _ H).
  assert (Hj : (N.of_nat (i mod 8) < 8)%N) by lia.
  destruct (i / 8 =? pos / 8) eqn:Eq.
  - apply Nat.eqb_eq in Eq. rewrite N.lor_spec. unfold bv_get at 1. rewrite Eq. f_equal.
    change 1%N with (N.ones 1). rewrite testbit_shiftl_ones. unfold in_range. lia.
  - apply Nat.eqb_neq in Eq. replace (in_range pos 1 i) with false by (unfold in_range; lia). now rewrite orb_false_r.
Qed.

Lemma mask8_bits r j : (j < 8)%N -> N.testbit (byte_of (N.shiftl 255 r)) j = (r <=? j)%N.
Proof.
  intro H. rewrite testbit_byte_of by exact H. change 255%N with (N.ones 8). rewrite testbit_shiftl_ones. lia.
Qed.

Lemma set8_spec b pos b' : zero_from b pos -> set8 b pos = Ok b' ->
  forall i, bv_get b' i = bv_get b i || in_range pos 8 i.
Proof.
  intros Z H i. unfold set8 in H.
  destruct (upd b (pos / 8) _) as [b1| |] eqn:U1; cbn [bind] in H; try discriminate.
  pose proof (bv_get_upd _ _ _ _ U1) as G1. pose proof (bv_get_upd _ _ _ _ H) as G2. rewrite G2.
  assert (Hj : (N.of_nat (i mod 8) < 8)%N) by lia.
  destruct (i / 8 =? pos / 8 + 1) eqn:Eq1.
  - apply Nat.eqb_eq in Eq1. rewrite testbit_not_byte by exact Hj. rewrite mask8_bits by exact Hj.
    rewrite (zero_from_get b pos i Z) by lia. unfold in_range. lia.
  - apply Nat.eqb_neq in Eq1. rewrite G1. destruct (i / 8 =? pos / 8) eqn:Eq.
    + apply Nat.eqb_eq in Eq. rewrite N.lor_spec. unfold bv_get at 1. rewrite Eq. f_equal.
      rewrite mask8_bits by exact Hj. unfold in_range. lia.
    + apply Nat.eqb_neq in Eq. destruct (Nat.lt_ge_cases (i / 8) (pos / 8)) as [L|L].
      * replace (in_range pos 8 i) with false by (unfold in_range; lia). now rewrite orb_false_r.
      * rewrite (zero_from_get b pos i Z) by lia. unfold in_range. lia.
Qed.

Lemma set16_spec b pos b' : zero_from b pos -> set16 b pos = Ok b' ->
  forall i, bv_get b' i = bv_get b i || in_range pos 16 i.
Proof.
  intros Z H i. unfold set16 in H.
  destruct (upd b (pos / 8) _) as [b1| |] eqn:U1; cbn [bind] in H; try discriminate.
  destruct (upd b1 (pos / 8 + 1) 255%N) as [b2| |] eqn:U2; cbn [bind] in H; try discriminate.
  pose proof (bv_get_upd _ _ _ _ U1) as G1. pose proof (bv_get_upd _ _ _ _ U2) as G2. pose proof (bv_get_upd _ _ _ _ H) as G3.
  rewrite G3.
  assert (Hj : (N.of_nat (i mod 8) < 8)%N) by lia.
  destruct (i / 8 =? pos / 8 + 2) eqn:Eq2.
  - apply Nat.eqb_eq in Eq2. rewrite testbit_not_byte by exact Hj. rewrite mask8_bits by exact Hj.
    rewrite (zero_from_get b pos i Z) by lia. unfold in_range. lia.
  - apply Nat.eqb_neq in Eq2. rewrite G2. destruct (i / 8 =? pos / 8 + 1) eqn:Eq1.
    + apply Nat.eqb_eq in Eq1. change 255%N with (N.ones 8). rewrite N.ones_spec_low by exact Hj.
      rewrite (zero_from_get b pos i Z) by lia. unfold in_range. lia.
    + apply Nat.eqb_neq in Eq1. rewrite G1. destruct (i / 8 =? pos / 8) eqn:Eq.
      * apply Nat.eqb_eq in Eq. rewrite N.lor_spec. unfold bv_get at 1. rewrite Eq. f_equal.
        rewrite mask8_bits by exact Hj. unfold in_range. lia.
      * apply Nat.eqb_neq in Eq. destruct (Nat.lt_ge_cases (i / 8) (pos / 8)) as [L|L].
        -- replace (in_range pos 16 i) with false by (unfold in_range; lia). now rewrite orb_false_r.
        -- rewrite (zero_from_get b pos i Z) by lia. unfold in_range. lia.
Qed.

(** * length is preserved, and nothing panics while the touched bytes exist *)
Lemma upd_len b k v b' : upd b k v = Ok b' -> length b' = length b.
Proof. intro H. now destruct (upd_inv _ _ _ _ H) as (_ & L & _). Qed.

Ltac bind_split H b1 U1 :=
  match type of H with
  | bind ?X _ = Ok _ => destruct X as [b1| |] eqn:U1; cbn [bind] in H; try discriminate
  end.

Lemma set1_len b pos b' : set1 b pos = Ok b' -> length b' = length b.
Proof. apply upd_len. Qed.
Lemma setN_len f b pos b' : setN f b pos = Ok b' -> length b' = length b.
Proof.
  unfold setN. intro H. bind_split H b1 U1. apply upd_len in U1.
  destruct (_ =? 0)%N; [inversion H; subst; exact U1|]. apply upd_len in H. congruence.
Qed.
Lemma set8_len b pos b' : set8 b pos = Ok b' -> length b' = length b.
Proof. unfold set8. intro H. bind_split H b1 U1. apply upd_len in U1. apply upd_len in H. congruence. Qed.
Lemma set16_len b pos b' : set16 b pos = Ok b' -> length b' = length b.
Proof.
  unfold set16. intro H. bind_split H b1 U1. bind_split H b2 U2.
  apply upd_len in U1. apply upd_len in U2. apply upd_len in H. congruence.
Qed.

Lemma upd_some b k v : k < length b -> exists b', upd b k v = Ok b'.
Proof. intro H. destruct (upd_ok b k v H) as (b' & E & _). eauto. Qed.

Lemma set1_some b pos : pos / 8 < length b -> exists b', set1 b pos = Ok b'.
Proof. intro H. apply upd_some. exact H. Qed.
Lemma setN_some f b pos : pos / 8 + 1 < length b -> exists b', setN f b pos = Ok b'.
Proof.
  intro H. unfold setN. destruct (upd_some b (pos / 8) (N.lor (byte_at b (pos / 8)) (byte_of (N.shiftl f (N.of_nat (pos mod 8)))))) as (b1 & U1); [lia|].
  rewrite U1. cbn [bind]. destruct (_ =? 0)%N; [eauto|]. apply upd_some. rewrite (upd_len _ _ _ _ U1). exact H.
Qed.
Lemma set8_some b pos : pos / 8 + 1 < length b -> exists b', set8 b pos = Ok b'.
Proof.
  intro H. unfold set8. destruct (upd_some b (pos / 8) (N.lor (byte_at b (pos / 8)) (byte_of (N.shiftl 255 (N.of_nat (pos mod 8)))))) as (b1 & U1); [lia|].
  rewrite U1. cbn [bind]. apply upd_some. rewrite (upd_len _ _ _ _ U1). exact H.
Qed.
Lemma set16_some b pos : pos / 8 + 2 < length b -> exists b', set16 b pos = Ok b'.
Proof.
  intro H. unfold set16. destruct (upd_some b (pos / 8) (N.lor (byte_at b (pos / 8)) (byte_of (N.shiftl 255 (N.of_nat (pos mod 8)))))) as (b1 & U1); [lia|].
  rewrite U1. cbn [bind]. destruct (upd_some b1 (pos / 8 + 1) 255%N) as (b2 & U2); [rewrite (upd_len _ _ _ _ U1); lia|].
  rewrite U2. cbn [bind]. apply upd_some. rewrite (upd_len _ _ _ _ U2), (upd_len _ _ _ _ U1). exact H.
Qed.

(** * what one PUSH marks *)
Definition marks (b b' : bitvec) (pc n : nat) : Prop :=
  length b' = length b /\ forall i, bv_get b' i = bv_get b i || in_range pc n i.

Lemma marks_zero b b' pc n : zero_from b pc -> marks b b' pc n -> zero_from b' (pc + n).
Proof. intros Z (_ & M) i Hi. rewrite M. rewrite (Z i) by lia. unfold in_range. lia. Qed.

Lemma marks_trans b b1 b2 pc n m : marks b b1 pc n -> marks b1 b2 (pc + n) m -> marks b b2 pc (n + m).
Proof.
  intros (L1 & M1) (L2 & M2). split; [congruence|]. intro i. rewrite M2, M1. unfold in_range.
  destruct (bv_get b i); cbn [orb]; lia.
Qed.

Lemma set_rest_marks n b pc b' : n <= 7 -> zero_from b pc -> set_rest n b pc = Ok b' -> marks b b' pc n.
Proof.
  intros Hn Z H. destruct n as [|[|n]].
  - inversion H; subst. split; [reflexivity|]. intro i. unfold in_range. replace ((pc <=? i) && (i <? pc + 0)) with false by lia. now rewrite orb_false_r.
  - cbn [set_rest] in H. split; [apply (set1_len _ _ _ H)|apply (set1_spec _ _ _ H)].
  - cbn [set_rest] in H. split; [apply (setN_len _ _ _ _ H)|]. apply (setN_spec (S (S n))); try assumption; lia.
Qed.

Lemma set16s_marks k : forall b pc b', zero_from b pc -> set16s k b pc = Ok b' -> marks b b' pc (16 * k).
Proof.
  induction k as [|k IH]; intros b pc b' Z H.
  - inversion H; subst. split; [reflexivity|]. intro i. unfold in_range. replace ((pc <=? i) && (i <? pc + 16 * 0)) with false by lia. now rewrite orb_false_r.
  - cbn [set16s] in H. bind_split H b1 U1.
    assert (M1 : marks b b1 pc 16) by (split; [apply (set16_len _ _ _ U1)|apply (set16_spec _ _ _ Z U1)]).
    replace (16 * S k) with (16 + 16 * k) by lia. eapply marks_trans; [exact M1|]. apply IH; [|exact H].
    eapply marks_zero; eauto.
Qed.

Lemma set_push_marks n b pc b' : n <= 32 -> zero_from b pc -> set_push n b pc = Ok b' -> marks b b' pc n.
Proof.
  intros Hn Z H. unfold set_push in H. bind_split H b1 U1.
  pose proof (set16s_marks _ _ _ _ Z U1) as M1.
  pose proof (marks_zero _ _ _ _ Z M1) as Z1.
  destruct (8 <=? n mod 16) eqn:E8.
  - bind_split H b2 U2.
    assert (M2 : marks b1 b2 (pc + 16 * (n / 16)) 8) by (split; [apply (set8_len _ _ _ U2)|apply (set8_spec _ _ _ Z1 U2)]).
    pose proof (marks_zero _ _ _ _ Z1 M2) as Z2.
    assert (M3 : marks b2 b' (pc + 16 * (n / 16) + 8) (n mod 16 - 8)) by (apply set_rest_marks; [lia|exact Z2|exact H]).
    pose proof (marks_trans _ _ _ _ _ _ M1 (marks_trans _ _ _ _ _ _ M2 M3)) as M.
    replace (16 * (n / 16) + (8 + (n mod 16 - 8))) with n in M by lia. exact M.
  - assert (M3 : marks b1 b' (pc + 16 * (n / 16)) (n mod 16)) by (apply set_rest_marks; [lia|exact Z1|exact H]).
    pose proof (marks_trans _ _ _ _ _ _ M1 M3) as M.
    replace (16 * (n / 16) + n mod 16) with n in M by lia. exact M.
Qed.

Lemma set16s_some k : forall b pc, (pc + 16 * k) / 8 < length b -> exists b', set16s k b pc = Ok b'.
Proof.
  induction k as [|k IH]; intros b pc H; [eexists; reflexivity|].
  cbn [set16s]. destruct (set16_some b pc) as (b1 & U1); [lia|]. rewrite U1. cbn [bind].
  apply IH. rewrite (set16_len _ _ _ U1). replace (pc + 16 + 16 * k) with (pc + 16 * S k) by lia. exact H.
Qed.

Lemma set_rest_some n b pc : n <= 7 -> (n = 0 \/ pc / 8 + 1 < length b) -> exists b', set_rest n b pc = Ok b'.
Proof.
  intros Hn H. destruct n as [|[|n]]; [eexists; reflexivity| |].
  - apply set1_some. lia.
  - apply setN_some. lia.
Qed.

Lemma set_push_some n b pc : n <= 32 -> pc / 8 + 4 < length b -> exists b', set_push n b pc = Ok b'.
Proof.
  intros Hn H. unfold set_push.
  destruct (set16s_some (n / 16) b pc) as (b1 & U1); [lia|]. rewrite U1. cbn [bind].
  assert (L1 : length b1 = length b).
  { clear -U1. revert b pc b1 U1. induction (n / 16) as [|k IH]; intros b pc b1 U1; [inversion U1; reflexivity|].
    cbn [set16s] in U1. bind_split U1 b0 U0. rewrite (IH _ _ _ U1). apply (set16_len _ _ _ U0). }
  destruct (8 <=? n mod 16) eqn:E8.
  - destruct (set8_some b1 (pc + 16 * (n / 16))) as (b2 & U2); [rewrite L1; lia|]. rewrite U2. cbn [bind].
    apply set_rest_some; [lia|]. right. rewrite (set8_len _ _ _ U2), L1. lia.
  - apply set_rest_some; [lia|]. rewrite L1. lia.
Qed.

(** * the loop: after looking at the bytes below [pc], exactly the data positions below [pc] are marked, nothing above *)
Lemma push_width_le op : push_width op <= 32.
Proof. unfold push_width. destruct ((0x60 <=? op) && (op <=? 0x7f))%N eqn:E; lia. Qed.

(** [mark_from code pc skip]: the marking of positions pc, pc+1, ... when the [skip] positions from pc on are data *)
Lemma mark_app_nth : forall code skip i, nth i (mark code skip) false = true -> i < length code.
Proof.
  induction code as [|op t IH]; intros skip i H; [destruct i; discriminate|].
  destruct i; [cbn; lia|]. cbn [length]. destruct skip; cbn [mark nth] in H; apply IH in H; lia.
Qed.

Lemma mark_length : forall code k, length (mark code k) = length code.
Proof. induction code as [|op t IH]; intro k; [reflexivity|]. destruct k; cbn; f_equal; apply IH. Qed.

Lemma mark_skip : forall t k i,
  nth i (mark t k) false = if i <? k then (i <? length t) else nth (i - k) (mark (skipn k t) 0) false.
Proof.
  induction t as [|op t IH]; intros k i.
  - rewrite skipn_nil. cbn [mark length]. replace (nth i [] false) with false by (destruct i; reflexivity).
    replace (nth (i - k) [] false) with false by (destruct (i - k); reflexivity). destruct (i <? k); [lia|reflexivity].
  - destruct k as [|k].
    + cbn [skipn]. replace (i <? 0) with false by lia. now rewrite Nat.sub_0_r.
    + cbn [mark skipn]. destruct i as [|i]; [reflexivity|]. cbn [nth]. rewrite IH.
      replace (S i <? S k) with (i <? k) by lia. replace (S i - S k) with (i - k) by lia.
      destruct (i <? k); [cbn [length]; lia|reflexivity].
Qed.

Lemma skipn_skipn' {A} : forall (l : list A) a b, skipn a (skipn b l) = skipn (a + b) l.
Proof.
  intros l a b. revert l. induction b as [|b IH]; intro l; [now rewrite Nat.add_0_r|].
  destruct l; [now rewrite !skipn_nil|]. replace (a + S b) with (S (a + b)) by lia. cbn [skipn]. apply IH.
Qed.

Definition Inv (code : bytes) (b : bitvec) (pc : nat) : Prop :=
  length b = length code / 8 + 1 + 4 /\ zero_from b pc /\
  (forall i, i < pc -> i < length code -> bv_get b i = is_data code i) /\
  (forall i, pc <= i -> is_data code i = nth (i - pc) (mark (skipn pc code) 0) false).

Lemma skipn_cons_nth (code : bytes) pc : pc < length code -> skipn pc code = nth pc code 0%N :: skipn (S pc) code.
Proof.
  revert pc. induction code as [|x t IH]; intros pc H; [cbn in H; lia|].
  destruct pc; [reflexivity|]. cbn [skipn nth]. apply IH. cbn in H. lia.
Qed.

Lemma loop_correct : forall fuel code b pc, length code - pc <= fuel -> Inv code b pc ->
  exists b', bitmap_loop fuel code b pc = Ok b' /\ forall i, i < length code -> bv_get b' i = is_data code i.
Proof.
  induction fuel as [|f IH]; intros code b pc Hf (Lb & Z & I1 & I3).
  - exists b. split; [reflexivity|]. intros i Hi. apply I1; lia.
  - cbn [bitmap_loop]. destruct (length code <=? pc) eqn:E.
    + exists b. split; [reflexivity|]. intros i Hi. apply I1; lia.
    + apply Nat.leb_gt in E. pose proof (skipn_cons_nth code pc E) as SK.
      set (op := nth pc code 0%N) in *. pose proof (push_width_le op) as W.
      assert (Dpc : is_data code pc = false).
      { rewrite (I3 pc) by lia. rewrite SK. replace (pc - pc) with 0 by lia. reflexivity. }
      assert (Dafter : forall i, pc < i -> is_data code i =
                 if i - S pc <? push_width op then (i - S pc <? length (skipn (S pc) code))
                 else nth (i - S pc - push_width op) (mark (skipn (push_width op) (skipn (S pc) code)) 0) false).
      { intros i Hi. rewrite (I3 i) by lia. rewrite SK. cbn [mark]. replace (i - pc) with (S (i - S pc)) by lia. cbn [nth].
        apply mark_skip. }
      destruct (push_width op =? 0) eqn:En.
      * apply Nat.eqb_eq in En. apply IH; [lia|]. split; [exact Lb|]. split; [intros i Hi; apply Z; lia|]. split.
        -- intros i Hi Hl. destruct (Nat.eq_dec i pc) as [->|Ne]; [rewrite Dpc; apply Z; lia|apply I1; lia].
        -- intros i Hi. rewrite (Dafter i) by lia. rewrite En. replace (i - S pc <? 0) with false by lia.
           replace (pc + 1) with (S pc) by lia. cbn [skipn]. f_equal. lia.
      * apply Nat.eqb_neq in En.
        assert (Zs : zero_from b (pc + 1)) by (intros i Hi; apply Z; lia).
        destruct (set_push_some (push_width op) b (pc + 1)) as (b1 & U1); [exact W|rewrite Lb; lia|].
        rewrite U1. cbn [bind].
        pose proof (set_push_marks _ _ _ _ W Zs U1) as (L1 & M1).
        apply IH; [lia|]. split; [congruence|]. split; [apply (marks_zero b b1 (pc + 1)); [exact Zs|split; assumption]|]. split.
        -- intros i Hi Hl. rewrite M1. destruct (Nat.lt_ge_cases i pc) as [Lt|Ge].
           ++ rewrite I1 by lia. unfold in_range. replace ((pc + 1 <=? i) && (i <? pc + 1 + push_width op)) with false by lia. now rewrite orb_false_r.
           ++ rewrite (Z i) by lia. destruct (Nat.eq_dec i pc) as [->|Ne].
              ** rewrite Dpc. unfold in_range. lia.
              ** rewrite (Dafter i) by lia. rewrite skipn_length. unfold in_range.
                 replace (i - S pc <? push_width op) with true by lia. lia.
        -- intros i Hi. rewrite (Dafter i) by lia. replace (i - S pc <? push_width op) with false by lia.
           rewrite skipn_skipn'. replace (pc + 1 + push_width op) with (push_width op + S pc) by lia. f_equal. lia.
Qed.

Lemma zeros_get n i : bv_get (repeat 0%N n) i = false.
Proof.
  unfold bv_get, byte_at. assert (H : nth (i / 8) (repeat 0%N n) 0%N = 0%N).
  { generalize (i / 8). induction n as [|n IH]; intro k; destruct k; cbn; auto. }
  rewrite H. apply N.bits_0.
Qed.

(** the analysis never panics (the vector is long enough for a PUSH32 at the very end of the code) and marks exactly
    the PUSH data *)
Theorem code_bitmap_correct code :
  exists b, code_bitmap code = Ok b /\ forall i, i < length code -> bv_get b i = is_data code i.
Proof.
  unfold code_bitmap. apply loop_correct; [lia|]. split; [apply repeat_length|]. split; [intros i _; apply zeros_get|]. split.
  - intros i Hi. lia.
  - intros i _. unfold is_data. now rewrite Nat.sub_0_r.
Qed.

Theorem valid_jumpdest_correct code d : valid_jumpdest code d = Ok (valid_jumpdest_spec code d).
Proof.
  unfold valid_jumpdest, valid_jumpdest_spec.
  destruct (d <? length code) eqn:E; [|reflexivity]. cbn [andb].
  destruct (nth d code 0%N =? 0x5b)%N; [|reflexivity]. cbn [andb].
  destruct (code_bitmap_correct code) as (b & -> & P). cbn [bind]. rewrite P by lia. reflexivity.
Qed.

(** a jump destination is never inside the immediate bytes of a PUSH: if position d is valid, the instruction that
    covers it starts exactly there *)
Theorem valid_jumpdest_not_in_push_data code d : valid_jumpdest_spec code d = true -> is_data code d = false.
Proof. unfold valid_jumpdest_spec. intro H. destruct (is_data code d); [|reflexivity]. rewrite andb_false_r in H. discriminate. Qed.

Example ex_jumpdest :
  let code := [0x60; 0x5b; 0x5b; 0x7f; 0x5b; 0x5b]%N in
  valid_jumpdest code 1 = Ok false /\ valid_jumpdest code 2 = Ok true /\ valid_jumpdest code 4 = Ok false /\ valid_jumpdest code 9 = Ok false.
Proof. vm_compute. repeat split; reflexivity. Qed.
