(* Proofs/CallTracer_proofs.v — the call tracers build exactly the tree of the well-nested stream they were fed. *)
From Verif Require Import Base.Bytes Model.CallTracer.
Open Scope N_scope.

(** ** an induction principle for the mutually nested trees *)
Section TreeInd.
  Variables (P : ctree -> Prop) (Q : atree -> Prop).
  Hypothesis HC : forall i pre body post, Forall Q pre -> Forall P body -> Forall Q post -> P (CT i pre body post).
  Hypothesis HA : forall i calls, Forall P calls -> Q (AT i calls).
  Fixpoint ctree_ind2 (t : ctree) : P t :=
    match t with
    | CT i pre body post =>
      HC i pre body post
         ((fix go (l : list atree) : Forall Q l := match l with [] => Forall_nil _ | a :: r => Forall_cons _ (atree_ind2 a) (go r) end) pre)
         ((fix go (l : list ctree) : Forall P l := match l with [] => Forall_nil _ | a :: r => Forall_cons _ (ctree_ind2 a) (go r) end) body)
         ((fix go (l : list atree) : Forall Q l := match l with [] => Forall_nil _ | a :: r => Forall_cons _ (atree_ind2 a) (go r) end) post)
    end
  with atree_ind2 (a : atree) : Q a :=
    match a with
    | AT i calls =>
      HA i calls ((fix go (l : list ctree) : Forall P l := match l with [] => Forall_nil _ | a :: r => Forall_cons _ (ctree_ind2 a) (go r) end) calls)
    end.
  Lemma tree_ind2 : (forall t, P t) /\ (forall a, Q a).
  Proof. split; [exact ctree_ind2 | exact atree_ind2]. Qed.
End TreeInd.

(** ** small facts *)
Lemma rev_snoc {A} (l : list A) x : rev (l ++ [x]) = x :: rev l.
Proof. rewrite rev_app_distr. reflexivity. Qed.

Lemma add_call_last J a c : add_call_to_last_jp (J ++ [a]) c = Ok (J ++ [af_add_call a c]).
Proof. unfold add_call_to_last_jp. rewrite rev_snoc, rev_involutive. reflexivity. Qed.

Lemma update_last_jp_open J a L jp f :
  af_jp a = jp -> af_exited a = false -> forallb af_exited L = true ->
  update_last_jp (J ++ a :: L) jp f = (J ++ f a :: L, true).
Proof.
  intros Hj Ho HL.
  assert (E : update_last_jp (a :: L) jp f = (f a :: L, true)).
  { cbn [update_last_jp].
    assert (EL : update_last_jp L jp f = (L, false)).
    { clear -HL. induction L as [|b L IH]; [reflexivity|]. cbn [forallb] in HL. apply andb_prop in HL as [Hb HL].
      cbn [update_last_jp]. rewrite (IH HL). rewrite Hb. rewrite Bool.andb_false_r. reflexivity. }
    rewrite EL. rewrite Hj, N.eqb_refl, Ho. reflexivity. }
  induction J as [|b J IH]; [exact E|].
  cbn [app update_last_jp]. rewrite IH. reflexivity.
Qed.

Lemma af_finish_frame i calls :
  af_finish (AF (ai_jp i) (ai_aspect i) (ai_from i) (ai_to i) (ai_input i) (ai_gas i) 0 [] ""%string (map frame_c calls)
                (match ai_value i with Some v => v | None => 0 end) false)
            (ai_left i) (ai_ret i) (ai_err i) = frame_a (AT i calls).
Proof. reflexivity. Qed.

Lemma process_output_exited a out err : af_exited (process_output_a a out err) = af_exited a.
Proof. destruct a. cbn. destruct err; reflexivity. Qed.
Lemma process_output_jp a out err : af_jp (process_output_a a out err) = af_jp a.
Proof. destruct a. cbn. destruct err; reflexivity. Qed.

(** states *)
Definition st (stack : list oframe) (g : N) (b : bool) : tstate := {| t_stack := stack; t_gaslimit := g; t_started := b |}.
Definition of (f : cframe) (m : N) : oframe := {| o_frame := f; o_marker := m |}.

Lemma ct_run_app ot s a b :
  ct_run ot s (a ++ b) = match ct_run ot s a with Ok s' => ct_run ot s' b | Err x => Err x | Panic x => Panic x end.
Proof.
  revert s. induction a as [|e a IH]; intros s; [reflexivity|].
  cbn [app ct_run]. destruct (ct_step ot s e); try reflexivity. apply IH.
Qed.

(** ** callTracer, all frames (onlyTopCall = false) *)
Section Nested.
  (* a call's events, run on any stack, attach exactly frame_c of the call to the frame (or running Aspect) below;
     an Aspect's events append exactly frame_a of it to the top frame and leave the marker cleared *)
  Definition runs_c (t : ctree) : Prop :=
    forall top rest g b k,
      ct_run false (st (top :: rest) g b) (events_c t ++ k) =
      match attach_call top (frame_c t) with
      | Ok p => ct_run false (st (p :: rest) g b) k
      | Err x => Err x | Panic x => Panic x
      end.
  Definition runs_a (a : atree) : Prop :=
    forall f m rest g b k,
      ct_run false (st (of f m :: rest) g b) (events_a a ++ k) =
      ct_run false (st (of (cf_add_jp f (frame_a a)) 0 :: rest) g b) k.

  Lemma runs_aspects l : Forall runs_a l -> forall f m rest g b k,
    ct_run false (st (of f m :: rest) g b) (flat_map events_a l ++ k) =
    ct_run false (st (of (cf_set_jps f (cf_jps f ++ map frame_a l)) (match l with [] => m | _ => 0 end) :: rest) g b) k.
  Proof.
    induction 1 as [|a l Ha _ IH]; intros f m rest g b k.
    - cbn. rewrite app_nil_r. destruct f; reflexivity.
    - cbn [flat_map]. rewrite <- app_assoc. rewrite Ha. rewrite IH.
      replace (match l with [] => 0 | _ :: _ => 0 end) with 0 by (destruct l; reflexivity).
      replace (cf_set_jps (cf_add_jp f (frame_a a)) (cf_jps (cf_add_jp f (frame_a a)) ++ map frame_a l))
        with (cf_set_jps f (cf_jps f ++ map frame_a (a :: l))); [reflexivity|].
      destruct f; cbn. rewrite <- app_assoc. reflexivity.
  Qed.

  Lemma runs_calls l : Forall runs_c l -> forall f rest g b k,
    ct_run false (st (of f 0 :: rest) g b) (flat_map events_c l ++ k) =
    ct_run false (st (of (cf_set_calls f (cf_calls f ++ map frame_c l)) 0 :: rest) g b) k.
  Proof.
    induction 1 as [|c l Hc _ IH]; intros f rest g b k.
    - cbn. rewrite app_nil_r. destruct f; reflexivity.
    - cbn [flat_map]. rewrite <- app_assoc. rewrite Hc. unfold attach_call. cbn [of o_marker o_frame N.eqb].
      change ({| o_frame := cf_add_call f (frame_c c); o_marker := 0 |}) with (of (cf_add_call f (frame_c c)) 0).
      rewrite IH.
      replace (cf_set_calls (cf_add_call f (frame_c c)) (cf_calls (cf_add_call f (frame_c c)) ++ map frame_c l))
        with (cf_set_calls f (cf_calls f ++ map frame_c (c :: l))); [reflexivity|].
      destruct f; cbn. rewrite <- app_assoc. reflexivity.
  Qed.

  (* calls made while the Aspect [a] (last of the join-point list, marker set) is running go under it *)
  Lemma runs_calls_in_aspect l : Forall runs_c l -> forall f J a m rest g b k,
    m <> 0 -> cf_jps f = J ++ [a] ->
    ct_run false (st (of f m :: rest) g b) (flat_map events_c l ++ k) =
    ct_run false (st (of (cf_set_jps f (J ++ [af_set_calls a (af_calls a ++ map frame_c l)])) m :: rest) g b) k.
  Proof.
    induction 1 as [|c l Hc _ IH]; intros f J a m rest g b k Hm HJ.
    - cbn. rewrite app_nil_r. destruct a, f; cbn in *; subst; reflexivity.
    - cbn [flat_map]. rewrite <- app_assoc. rewrite Hc. unfold attach_call. cbn [of o_marker o_frame].
      apply N.eqb_neq in Hm. rewrite Hm. rewrite HJ, add_call_last.
      rewrite (IH _ J (af_add_call a (frame_c c)) m rest g b k); [|apply N.eqb_neq; exact Hm|destruct f; reflexivity].
      f_equal. f_equal. f_equal. destruct f, a; cbn. rewrite <- app_assoc. reflexivity.
  Qed.

  Lemma tree_runs : (forall t, wf_c t = true -> runs_c t) /\ (forall a, wf_a a = true -> runs_a a).
  Proof.
    assert (G : (forall t, wf_c t = true -> runs_c t) /\ (forall a, wf_a a = true -> runs_a a));
      [|exact G].
    apply (tree_ind2 (fun t => wf_c t = true -> runs_c t) (fun a => wf_a a = true -> runs_a a)).
    - intros i pre body post Hpre Hbody Hpost Hwf. cbn [wf_c] in Hwf.
      apply andb_prop in Hwf as [Hwf W3]. apply andb_prop in Hwf as [W1 W2].
      assert (Fpre : Forall runs_a pre).
      { rewrite forallb_forall in W1. rewrite Forall_forall in *. intros a Ha. apply Hpre; [exact Ha|apply W1; exact Ha]. }
      assert (Fbody : Forall runs_c body).
      { rewrite forallb_forall in W2. rewrite Forall_forall in *. intros a Ha. apply Hbody; [exact Ha|apply W2; exact Ha]. }
      assert (Fpost : Forall runs_a post).
      { rewrite forallb_forall in W3. rewrite Forall_forall in *. intros a Ha. apply Hpost; [exact Ha|apply W3; exact Ha]. }
      intros top rest g b k. cbn [events_c]. cbn [app ct_run ct_step].
      change ({| t_stack := ?x; t_gaslimit := ?y; t_started := ?z |}) with (st x y z). cbn [t_stack t_gaslimit t_started st].
      set (new := CF (ci_typ i) (ci_from i) (Some (ci_to i)) (ci_input i) (ci_gas i) 0 [] ""%string [] [] (ci_value i) []).
      change ({| o_frame := new; o_marker := 0 |}) with (of new 0).
      change ({| t_stack := of new 0 :: top :: rest; t_gaslimit := g; t_started := b |}) with (st (of new 0 :: top :: rest) g b).
      rewrite <- !app_assoc. rewrite (runs_aspects pre Fpre).
      assert (M0 : forall (l : list atree), match l with [] => 0 | _ :: _ => 0 end = 0) by (intros []; reflexivity).
      rewrite M0. rewrite (runs_calls body Fbody). rewrite (runs_aspects post Fpost). rewrite M0.
      cbn [app ct_run ct_step st t_stack t_gaslimit t_started of o_frame].
      subst new. cbn [cf_jps cf_set_jps cf_calls cf_set_calls cf_set_used app].
      change (process_output _ (ci_out i) (ci_err i)) with (frame_c (CT i pre body post)).
      destruct (attach_call top (frame_c (CT i pre body post))); reflexivity.
    - intros i calls Hcalls Hwf. cbn [wf_a] in Hwf. apply andb_prop in Hwf as [Wj Wc].
      assert (Fc : Forall runs_c calls).
      { rewrite forallb_forall in Wc. rewrite Forall_forall in *. intros a Ha. apply Hcalls; [exact Ha|apply Wc; exact Ha]. }
      apply Bool.negb_true_iff in Wj. apply N.eqb_neq in Wj.
      intros f m rest g b k. cbn [events_a app ct_run ct_step st t_stack t_gaslimit t_started].
      set (a0 := AF (ai_jp i) (ai_aspect i) (ai_from i) (ai_to i) (ai_input i) (ai_gas i) 0 [] ""%string []
                    (match ai_value i with Some v => v | None => 0 end) false).
      cbn [of o_frame].
      change ({| t_stack := ?x; t_gaslimit := ?y; t_started := ?z |}) with (st x y z).
      change ({| o_frame := ?x; o_marker := ?y |}) with (of x y).
      rewrite <- app_assoc.
      rewrite (runs_calls_in_aspect calls Fc (cf_add_jp f a0) (cf_jps f) a0 (ai_jp i) rest g b _ Wj) by (destruct f; reflexivity).
      cbn [app ct_run ct_step st t_stack t_gaslimit t_started of o_frame].
      assert (E : cf_jps (cf_set_jps (cf_add_jp f a0) (cf_jps f ++ [af_set_calls a0 (af_calls a0 ++ map frame_c calls)])) =
                  cf_jps f ++ af_set_calls a0 (map frame_c calls) :: []) by (destruct f; reflexivity).
      rewrite E. rewrite update_last_jp_open by reflexivity.
      change ({| t_stack := ?x; t_gaslimit := ?y; t_started := ?z |}) with (st x y z).
      change ({| o_frame := ?x; o_marker := ?y |}) with (of x y).
      f_equal. f_equal. f_equal. destruct f; reflexivity.
  Qed.
End Nested.

Lemma forall_runs_c l : forallb wf_c l = true -> Forall runs_c l.
Proof. intros H. rewrite forallb_forall in H. apply Forall_forall. intros t Ht. apply (proj1 tree_runs). apply H. exact Ht. Qed.
Lemma forall_runs_a l : forallb wf_a l = true -> Forall runs_a l.
Proof. intros H. rewrite forallb_forall in H. apply Forall_forall. intros t Ht. apply (proj2 tree_runs). apply H. exact Ht. Qed.

Lemma process_output_add_jps f out err l :
  cf_set_jps (process_output f out err) (cf_jps (process_output f out err) ++ l) = process_output (cf_set_jps f (cf_jps f ++ l)) out err.
Proof.
  destruct f. cbn. destruct err as [t|]; [|reflexivity].
  destruct (_ && _); reflexivity.
Qed.
Lemma process_output_set_used f out err u :
  cf_set_used (process_output f out err) u = process_output (cf_set_used f u) out err.
Proof.
  destruct f. cbn. destruct err as [t|]; [|reflexivity].
  destruct (_ && _); reflexivity.
Qed.

(** THE WHOLE TRANSACTION: callTracer's result is exactly the frame of the tree — every call under the frame or
    Aspect that issued it, every Aspect execution with its own gas used, output and error, nothing twice, nothing lost *)
Theorem ct_tree_exact x :
  wf_tx x = true ->
  match ct_run false t_init (events_tx x) with Ok s => ct_result s | Err e => Err e | Panic e => Panic e end = Ok (frame_tx x).
Proof.
  intros Hwf. unfold wf_tx in Hwf.
  apply andb_prop in Hwf as [Hwf W5]. apply andb_prop in Hwf as [Hwf W4]. apply andb_prop in Hwf as [Hwf W3].
  apply andb_prop in Hwf as [W1 W2].
  apply forall_runs_a in W1, W2, W4, W5. apply forall_runs_c in W3.
  unfold events_tx, t_init. cbn [ct_run ct_step t_stack t_gaslimit t_started].
  change ({| t_stack := ?x; t_gaslimit := ?y; t_started := ?z |}) with (st x y z).
  change ({| o_frame := ?x; o_marker := ?y |}) with (of x y).
  rewrite (runs_aspects _ W1).
  assert (M0 : forall (l : list atree), match l with [] => 0 | _ :: _ => 0 end = 0) by (intros []; reflexivity).
  rewrite M0. cbn [ct_run ct_step st t_stack t_gaslimit t_started upd_bottom rev app of o_frame o_marker].
  cbn [empty_frame cf_jps cf_set_jps app].
  change ({| t_stack := ?x; t_gaslimit := ?y; t_started := ?z |}) with (st x y z).
  change ({| o_frame := ?x; o_marker := ?y |}) with (of x y).
  rewrite (runs_aspects _ W2). rewrite M0. rewrite (runs_calls _ W3). rewrite (runs_aspects _ W4). rewrite M0.
  cbn [ct_run ct_step st t_stack t_gaslimit t_started upd_bottom rev app of o_frame o_marker].
  change ({| t_stack := ?x; t_gaslimit := ?y; t_started := ?z |}) with (st x y z).
  change ({| o_frame := ?x; o_marker := ?y |}) with (of x y).
  rewrite (runs_aspects _ W5). rewrite M0.
  cbn [ct_run ct_step st t_stack t_gaslimit t_started upd_bottom rev app of o_frame o_marker ct_result].
  f_equal. rewrite process_output_add_jps. rewrite process_output_set_used.
  unfold frame_tx. cbn [cf_jps cf_set_jps cf_calls cf_set_calls cf_set_used app].
  rewrite <- !app_assoc. reflexivity.
Qed.

(** a top-level call traced WITHOUT the transaction-level callbacks (EVM.Call driven directly: no CaptureTxStart/TxEnd):
    the frame's gas and gas used stay 0, everything else as in [ct_tree_exact] *)
Definition events_call (x : txtree) : list tev :=
  TStart (x_from x) (x_to x) (x_create x) (x_input x) (x_gas x) (x_value x)
  :: flat_map events_a (x_pre x) ++ flat_map events_c (x_body x) ++ flat_map events_a (x_post x)
  ++ [TEnd (x_out x) (x_used x) (x_err x)].
Definition frame_call (x : txtree) : cframe :=
  process_output
    (CF (if x_create x then op_create else op_call) (x_from x) (Some (x_to x)) (x_input x) 0 0 [] ""%string
        (map frame_c (x_body x)) (map frame_a (x_pre x) ++ map frame_a (x_post x)) (Some (x_value x)) [])
    (x_out x) (x_err x).

Theorem ct_call_exact x :
  forallb wf_a (x_pre x) = true -> forallb wf_c (x_body x) = true -> forallb wf_a (x_post x) = true ->
  match ct_run false t_init (events_call x) with Ok s => ct_result s | Err e => Err e | Panic e => Panic e end = Ok (frame_call x).
Proof.
  intros W2 W3 W4. apply forall_runs_a in W2, W4. apply forall_runs_c in W3.
  unfold events_call, t_init. cbn [ct_run ct_step t_stack t_gaslimit t_started upd_bottom rev app].
  cbn [empty_frame o_frame o_marker].
  change ({| t_stack := ?x; t_gaslimit := ?y; t_started := ?z |}) with (st x y z).
  change ({| o_frame := ?x; o_marker := ?y |}) with (of x y).
  assert (M0 : forall (l : list atree), match l with [] => 0 | _ :: _ => 0 end = 0) by (intros []; reflexivity).
  rewrite (runs_aspects _ W2). rewrite M0. rewrite (runs_calls _ W3). rewrite (runs_aspects _ W4). rewrite M0.
  cbn [ct_run ct_step st t_stack t_gaslimit t_started upd_bottom rev app of o_frame o_marker ct_result].
  f_equal; unfold frame_call; cbn [cf_jps cf_set_jps cf_calls cf_set_calls app]; rewrite <- ?app_assoc; reflexivity.
Qed.

(** ** callTracer with onlyTopCall *)
Definition top_runs_c (t : ctree) : Prop :=
  forall f m rest g b k, forallb af_exited (aspects_c t) = true /\
    ct_run true (st (of f m :: rest) g b) (events_c t ++ k) =
    ct_run true (st (of (cf_set_jps f (cf_jps f ++ aspects_c t)) (match aspects_c t with [] => m | _ => 0 end) :: rest) g b) k.
Definition top_runs_a (a : atree) : Prop :=
  forall f m rest g b k, forallb af_exited (aspects_a a) = true /\
    ct_run true (st (of f m :: rest) g b) (events_a a ++ k) =
    ct_run true (st (of (cf_set_jps f (cf_jps f ++ aspects_a a)) 0 :: rest) g b) k.

Lemma set_jps_nil f : cf_set_jps f (cf_jps f ++ []) = f.
Proof. destruct f; cbn. rewrite app_nil_r. reflexivity. Qed.
Lemma set_jps_app f a b : cf_set_jps (cf_set_jps f (cf_jps f ++ a)) (cf_jps (cf_set_jps f (cf_jps f ++ a)) ++ b) = cf_set_jps f (cf_jps f ++ a ++ b).
Proof. destruct f; cbn. rewrite <- app_assoc. reflexivity. Qed.

Lemma forallb_flat_map {A B} (p : B -> bool) (g : A -> list B) l :
  (forall x, In x l -> forallb p (g x) = true) -> forallb p (flat_map g l) = true.
Proof.
  induction l as [|x l IH]; intros H; [reflexivity|]. cbn [flat_map]. rewrite forallb_app.
  rewrite (H x (or_introl eq_refl)). apply IH. intros y Hy. apply H. right. exact Hy.
Qed.

Lemma marker_app {A} (a b : list A) (m : N) :
  match b with [] => match a with [] => m | _ => 0 end | _ => 0 end = match a ++ b with [] => m | _ => 0 end.
Proof. destruct a, b; reflexivity. Qed.

Lemma top_runs_list {T} (ev : T -> list tev) (asp : T -> list aframe) (l : list T) :
  Forall (fun t => forall f m rest g b k, forallb af_exited (asp t) = true /\
            ct_run true (st (of f m :: rest) g b) (ev t ++ k) =
            ct_run true (st (of (cf_set_jps f (cf_jps f ++ asp t)) (match asp t with [] => m | _ => 0 end) :: rest) g b) k) l ->
  forall f m rest g b k, forallb af_exited (flat_map asp l) = true /\
    ct_run true (st (of f m :: rest) g b) (flat_map ev l ++ k) =
    ct_run true (st (of (cf_set_jps f (cf_jps f ++ flat_map asp l)) (match flat_map asp l with [] => m | _ => 0 end) :: rest) g b) k.
Proof.
  induction 1 as [|t l Ht _ IH]; intros f m rest g b k.
  - cbn. rewrite set_jps_nil. split; reflexivity.
  - cbn [flat_map]. destruct (Ht f m rest g b (flat_map ev l ++ k)) as [E1 R1].
    split.
    + rewrite forallb_app, E1. apply (IH f m rest g b k).
    + rewrite <- app_assoc, R1.
      destruct (IH (cf_set_jps f (cf_jps f ++ asp t)) (match asp t with [] => m | _ => 0 end) rest g b k) as [_ R2].
      rewrite R2. rewrite set_jps_app. rewrite marker_app. reflexivity.
Qed.

Lemma top_tree_runs : (forall t, wf_c t = true -> top_runs_c t) /\ (forall a, wf_a a = true -> top_runs_a a).
Proof.
  apply (tree_ind2 (fun t => wf_c t = true -> top_runs_c t) (fun a => wf_a a = true -> top_runs_a a)).
  - intros i pre body post Hpre Hbody Hpost Hwf. cbn [wf_c] in Hwf.
    apply andb_prop in Hwf as [Hwf W3]. apply andb_prop in Hwf as [W1 W2].
    rewrite forallb_forall in W1, W2, W3.
    assert (Fpre : Forall (fun t => forall f m rest g b k, forallb af_exited (aspects_a t) = true /\
            ct_run true (st (of f m :: rest) g b) (events_a t ++ k) =
            ct_run true (st (of (cf_set_jps f (cf_jps f ++ aspects_a t)) (match aspects_a t with [] => m | _ => 0 end) :: rest) g b) k) pre).
    { rewrite Forall_forall in *. intros a Ha f m rest g b k. destruct (Hpre a Ha (W1 a Ha) f m rest g b k) as [E R]. split; [exact E|].
      rewrite R. destruct a; reflexivity. }
    assert (Fpost : Forall (fun t => forall f m rest g b k, forallb af_exited (aspects_a t) = true /\
            ct_run true (st (of f m :: rest) g b) (events_a t ++ k) =
            ct_run true (st (of (cf_set_jps f (cf_jps f ++ aspects_a t)) (match aspects_a t with [] => m | _ => 0 end) :: rest) g b) k) post).
    { rewrite Forall_forall in *. intros a Ha f m rest g b k. destruct (Hpost a Ha (W3 a Ha) f m rest g b k) as [E R]. split; [exact E|].
      rewrite R. destruct a; reflexivity. }
    assert (Fbody : Forall (fun t => forall f m rest g b k, forallb af_exited (aspects_c t) = true /\
            ct_run true (st (of f m :: rest) g b) (events_c t ++ k) =
            ct_run true (st (of (cf_set_jps f (cf_jps f ++ aspects_c t)) (match aspects_c t with [] => m | _ => 0 end) :: rest) g b) k) body).
    { rewrite Forall_forall in *. intros a Ha. apply (Hbody a Ha (W2 a Ha)). }
    intros f m rest g b k. cbn [events_c aspects_c].
    destruct (top_runs_list events_a aspects_a pre Fpre f m rest g b
                (flat_map events_c body ++ flat_map events_a post ++ [TExit (ci_out i) (ci_used i) (ci_err i)] ++ k)) as [E1 R1].
    set (f1 := cf_set_jps f (cf_jps f ++ flat_map aspects_a pre)) in *.
    set (m1 := match flat_map aspects_a pre with [] => m | _ => 0 end) in *.
    destruct (top_runs_list events_c aspects_c body Fbody f1 m1 rest g b
                (flat_map events_a post ++ [TExit (ci_out i) (ci_used i) (ci_err i)] ++ k)) as [E2 R2].
    set (f2 := cf_set_jps f1 (cf_jps f1 ++ flat_map aspects_c body)) in *.
    set (m2 := match flat_map aspects_c body with [] => m1 | _ => 0 end) in *.
    destruct (top_runs_list events_a aspects_a post Fpost f2 m2 rest g b ([TExit (ci_out i) (ci_used i) (ci_err i)] ++ k)) as [E3 R3].
    split; [rewrite !forallb_app, E1, E2, E3; reflexivity|].
    cbn [app ct_run ct_step]. change ({| t_stack := ?x; t_gaslimit := ?y; t_started := ?z |}) with (st x y z).
    replace ((flat_map events_a pre ++ flat_map events_c body ++ flat_map events_a post ++ [TExit (ci_out i) (ci_used i) (ci_err i)]) ++ k)
      with (flat_map events_a pre ++ flat_map events_c body ++ flat_map events_a post ++ [TExit (ci_out i) (ci_used i) (ci_err i)] ++ k)
      by (rewrite <- !app_assoc; reflexivity).
    rewrite R1, R2, R3. cbn [app ct_run ct_step].
    subst f2 m2 f1 m1. rewrite !set_jps_app.
    f_equal. f_equal. f_equal.
    destruct (flat_map aspects_a pre), (flat_map aspects_c body), (flat_map aspects_a post); reflexivity.
  - intros i calls Hcalls Hwf. cbn [wf_a] in Hwf. apply andb_prop in Hwf as [Wj Wc].
    rewrite forallb_forall in Wc.
    assert (Fc : Forall (fun t => forall f m rest g b k, forallb af_exited (aspects_c t) = true /\
            ct_run true (st (of f m :: rest) g b) (events_c t ++ k) =
            ct_run true (st (of (cf_set_jps f (cf_jps f ++ aspects_c t)) (match aspects_c t with [] => m | _ => 0 end) :: rest) g b) k) calls).
    { rewrite Forall_forall in *. intros a Ha. apply (Hcalls a Ha (Wc a Ha)). }
    intros f m rest g b k. cbn [events_a aspects_a].
    set (a0 := AF (ai_jp i) (ai_aspect i) (ai_from i) (ai_to i) (ai_input i) (ai_gas i) 0 [] ""%string []
                  (match ai_value i with Some v => v | None => 0 end) false).
    destruct (top_runs_list events_c aspects_c calls Fc (cf_add_jp f a0) (ai_jp i) rest g b
                ([TAspExit (ai_jp i) (ai_left i) (ai_ret i) (ai_err i)] ++ k)) as [E1 R1].
    split.
    { cbn [forallb]. rewrite process_output_exited. cbn [af_exited andb]. exact E1. }
    cbn [app ct_run ct_step st t_stack t_gaslimit t_started of o_frame].
    change ({| t_stack := ?x; t_gaslimit := ?y; t_started := ?z |}) with (st x y z).
    change ({| o_frame := ?x; o_marker := ?y |}) with (of x y).
    fold a0.
    replace ((flat_map events_c calls ++ [TAspExit (ai_jp i) (ai_left i) (ai_ret i) (ai_err i)]) ++ k)
      with (flat_map events_c calls ++ [TAspExit (ai_jp i) (ai_left i) (ai_ret i) (ai_err i)] ++ k) by (rewrite <- app_assoc; reflexivity).
    rewrite R1. cbn [app ct_run ct_step st t_stack t_gaslimit t_started of o_frame].
    assert (E : cf_jps (cf_set_jps (cf_add_jp f a0) (cf_jps (cf_add_jp f a0) ++ flat_map aspects_c calls)) =
                cf_jps f ++ a0 :: flat_map aspects_c calls) by (destruct f; cbn; rewrite <- app_assoc; reflexivity).
    rewrite E. rewrite update_last_jp_open by (try reflexivity; exact E1).
    change ({| t_stack := ?x; t_gaslimit := ?y; t_started := ?z |}) with (st x y z).
    change ({| o_frame := ?x; o_marker := ?y |}) with (of x y).
    f_equal. f_equal. f_equal. destruct f; reflexivity.
Qed.

Lemma top_list_c l : forallb wf_c l = true ->
  forall f m rest g b k,
    ct_run true (st (of f m :: rest) g b) (flat_map events_c l ++ k) =
    ct_run true (st (of (cf_set_jps f (cf_jps f ++ flat_map aspects_c l)) (match flat_map aspects_c l with [] => m | _ => 0 end) :: rest) g b) k.
Proof.
  intros H f m rest g b k. rewrite forallb_forall in H.
  apply (top_runs_list events_c aspects_c l). apply Forall_forall. intros t Ht. apply (proj1 top_tree_runs t (H t Ht)).
Qed.
Lemma top_list_a l : forallb wf_a l = true ->
  forall f m rest g b k,
    ct_run true (st (of f m :: rest) g b) (flat_map events_a l ++ k) =
    ct_run true (st (of (cf_set_jps f (cf_jps f ++ flat_map aspects_a l)) (match flat_map aspects_a l with [] => m | _ => 0 end) :: rest) g b) k.
Proof.
  intros H f m rest g b k. rewrite forallb_forall in H.
  apply (top_runs_list events_a aspects_a l). apply Forall_forall. intros t Ht f' m' rest' g' b' k'.
  destruct (proj2 top_tree_runs t (H t Ht) f' m' rest' g' b' k') as [E R]. split; [exact E|]. rewrite R. destruct t; reflexivity.
Qed.

(** with onlyTopCall the result is the top frame with every Aspect execution of the transaction exactly once,
    in the order they were entered, each with its own gas used, output and error — also when an Aspect issued a
    call whose own join points ran further Aspects of the same type *)
Theorem ct_top_exact x :
  wf_tx x = true ->
  match ct_run true t_init (events_tx x) with Ok s => ct_result s | Err e => Err e | Panic e => Panic e end = Ok (frame_tx_top x).
Proof.
  intros Hwf. unfold wf_tx in Hwf.
  apply andb_prop in Hwf as [Hwf W5]. apply andb_prop in Hwf as [Hwf W4]. apply andb_prop in Hwf as [Hwf W3].
  apply andb_prop in Hwf as [W1 W2].
  unfold events_tx, t_init. cbn [ct_run ct_step t_stack t_gaslimit t_started].
  change ({| t_stack := ?x; t_gaslimit := ?y; t_started := ?z |}) with (st x y z).
  change ({| o_frame := ?x; o_marker := ?y |}) with (of x y).
  rewrite (top_list_a _ W1).
  cbn [ct_run ct_step st t_stack t_gaslimit t_started upd_bottom rev app of o_frame o_marker].
  cbn [empty_frame cf_jps cf_set_jps app].
  change ({| t_stack := ?x; t_gaslimit := ?y; t_started := ?z |}) with (st x y z).
  change ({| o_frame := ?x; o_marker := ?y |}) with (of x y).
  rewrite (top_list_a _ W2). rewrite (top_list_c _ W3). rewrite (top_list_a _ W4).
  cbn [ct_run ct_step st t_stack t_gaslimit t_started upd_bottom rev app of o_frame o_marker].
  change ({| t_stack := ?x; t_gaslimit := ?y; t_started := ?z |}) with (st x y z).
  change ({| o_frame := ?x; o_marker := ?y |}) with (of x y).
  rewrite (top_list_a _ W5).
  cbn [ct_run ct_step st t_stack t_gaslimit t_started upd_bottom rev app of o_frame o_marker ct_result].
  f_equal. rewrite process_output_add_jps. rewrite process_output_set_used.
  unfold frame_tx_top. cbn [cf_jps cf_set_jps cf_calls cf_set_calls cf_set_used app].
  rewrite <- !app_assoc. reflexivity.
Qed.


(** ** neither tracer can panic, on ANY stream of callbacks (well nested or not) *)
Definition okf (o : oframe) : Prop := o_marker o = 0 \/ cf_jps (o_frame o) <> [].
Definition inv (s : tstate) : Prop := t_stack s <> [] /\ Forall okf (t_stack s).

Lemma inv_init : inv t_init.
Proof. split; [discriminate|]. repeat constructor. Qed.

Lemma upd_bottom_inv' stack f : (forall x, cf_jps x <> [] -> cf_jps (f x) <> []) -> stack <> [] -> Forall okf stack ->
  upd_bottom stack f <> [] /\ Forall okf (upd_bottom stack f).
Proof.
  intros Hf Hne Hok. unfold upd_bottom. destruct (rev stack) as [|b r] eqn:E.
  { apply (f_equal (@rev _)) in E. rewrite rev_involutive in E. contradiction. }
  split; [destruct (rev r); discriminate|].
  assert (Hs : stack = rev r ++ [b]) by (rewrite <- (rev_involutive stack), E; reflexivity).
  rewrite Hs in Hok. apply Forall_app in Hok as [H1 H2]. apply Forall_app. split; [exact H1|].
  inversion H2 as [|? ? Hb _]; subst. constructor; [|constructor].
  destruct Hb as [Hb|Hb]; [left; exact Hb|right; cbn; apply Hf; exact Hb].
Qed.
Lemma upd_bottom_inv stack f : (forall x, cf_jps (f x) = cf_jps x) -> stack <> [] -> Forall okf stack ->
  upd_bottom stack f <> [] /\ Forall okf (upd_bottom stack f).
Proof. intros Hf. apply upd_bottom_inv'. intros x H. rewrite Hf. exact H. Qed.

Lemma process_output_jps f out err : cf_jps (process_output f out err) = cf_jps f.
Proof. destruct f; cbn. destruct err; [|reflexivity]. destruct (_ && _); reflexivity. Qed.

Lemma attach_call_ok parent call : okf parent -> exists p, attach_call parent call = Ok p /\ okf p.
Proof.
  intros Hp. unfold attach_call. destruct (o_marker parent =? 0) eqn:Em.
  - eexists. split; [reflexivity|]. left. reflexivity.
  - destruct Hp as [Hp|Hp]; [rewrite Hp in Em; discriminate|].
    unfold add_call_to_last_jp. destruct (rev (cf_jps (o_frame parent))) as [|a r] eqn:E.
    { apply (f_equal (@rev _)) in E. rewrite rev_involutive in E. contradiction. }
    eexists. split; [reflexivity|]. right. destruct (o_frame parent); cbn. destruct (rev r); discriminate.
Qed.

Lemma ct_step_inv ot s e : inv s -> exists s', ct_step ot s e = Ok s' /\ inv s'.
Proof.
  intros [Hne Hok]. destruct s as [stack g b]. cbn [t_stack] in *.
  destruct e; cbn [ct_step t_stack t_gaslimit t_started].
  - eexists. split; [reflexivity|]. split; assumption.
  - eexists. split; [reflexivity|]. apply upd_bottom_inv; [intros []; reflexivity|assumption|assumption].
  - eexists. split; [reflexivity|]. apply upd_bottom_inv; [intros []; reflexivity|assumption|assumption].
  - eexists. split; [reflexivity|]. apply upd_bottom_inv; [intros x; apply process_output_jps|assumption|assumption].
  - destruct ot; eexists; (split; [reflexivity|]); split; try assumption; [discriminate|].
    constructor; [left; reflexivity|exact Hok].
  - destruct ot; [eexists; split; [reflexivity|split; assumption]|].
    destruct stack as [|top [|parent rest]]; [contradiction|eexists; split; [reflexivity|split; assumption]|].
    inversion Hok as [|? ? _ Hok']; subst. inversion Hok' as [|? ? Hp Hr]; subst.
    destruct (attach_call_ok parent (process_output (cf_set_used (o_frame top) used) out err) Hp) as (p & -> & Hp').
    eexists. split; [reflexivity|]. split; [discriminate|]. constructor; assumption.
  - destruct stack as [|top rest]; [contradiction|]. inversion Hok as [|? ? _ Hr]; subst.
    eexists. split; [reflexivity|]. split; [discriminate|]. constructor; [|exact Hr].
    right. destruct (o_frame top); cbn. destruct jps; discriminate.
  - destruct stack as [|top rest]; [contradiction|]. inversion Hok as [|? ? _ Hr]; subst.
    destruct (update_last_jp (cf_jps (o_frame top)) jp _) as [j fnd].
    eexists. split; [reflexivity|]. split; [discriminate|]. constructor; [left; reflexivity|exact Hr].
  - destruct ot; [eexists; split; [reflexivity|split; assumption]|].
    destruct stack as [|top rest]; [contradiction|]. inversion Hok as [|? ? Ht Hr]; subst.
    eexists. split; [reflexivity|]. split; [discriminate|]. constructor; [|exact Hr].
    destruct Ht as [Ht|Ht]; [left; exact Ht|right]. cbn [o_frame]. destruct (o_frame top); exact Ht.
  - eexists. split; [reflexivity|]. apply upd_bottom_inv'; [|assumption|assumption].
    intros x H. destruct x. cbn in H |- *. destruct jps; [contradiction|discriminate].
Qed.

Theorem ct_never_panics ot es : forall s, inv s -> exists s', ct_run ot s es = Ok s' /\ inv s'.
Proof.
  induction es as [|e es IH]; intros s Hs; [exists s; split; [reflexivity|exact Hs]|].
  cbn [ct_run]. destruct (ct_step_inv ot s e Hs) as (s1 & -> & H1). apply IH. exact H1.
Qed.

Section FlatNoPanic.
  Variables (include_pre : bool) (is_pre : N -> bool).

  Lemma flat_fixup_inv s : inv s -> exists s', flat_fixup is_pre s = Ok s' /\ inv s'.
  Proof.
    intros [Hne Hok]. destruct s as [stack g b]. cbn [t_stack] in *. unfold flat_fixup. cbn [t_stack t_gaslimit t_started].
    destruct stack as [|top rest]; [contradiction|]. inversion Hok as [|? ? Ht Hr]; subst.
    eexists. split; [reflexivity|]. split; [discriminate|]. constructor; [|exact Hr].
    destruct Ht as [Ht|Ht]; [left; exact Ht|]. right. cbn [o_frame].
    destruct (negb (o_marker top =? 0)).
    - destruct (rev (cf_jps (o_frame top))) as [|a r] eqn:E.
      + apply (f_equal (@rev _)) in E. rewrite rev_involutive in E. contradiction.
      + destruct (o_frame top); cbn. destruct (rev r); discriminate.
    - destruct (o_frame top); exact Ht.
  Qed.

  Lemma ctf_step_inv s e : inv s -> exists s', ctf_step include_pre is_pre s e = Ok s' /\ inv s'.
  Proof.
    intros Hs. destruct e; cbn [ctf_step]; try apply ct_step_inv; try exact Hs;
      try (exists s; split; [reflexivity|exact Hs]).
    destruct (ct_step_inv false s (TExit out used err) Hs) as (s1 & -> & H1).
    destruct include_pre; [exists s1; split; [reflexivity|exact H1]|]. apply flat_fixup_inv. exact H1.
  Qed.

  Theorem ctf_never_panics es : forall s, inv s -> exists s', ctf_run include_pre is_pre s es = Ok s' /\ inv s'.
  Proof.
    induction es as [|e es IH]; intros s Hs; [exists s; split; [reflexivity|exact Hs]|].
    cbn [ctf_run]. destruct (ctf_step_inv s e Hs) as (s1 & -> & H1). apply IH. exact H1.
  Qed.
End FlatNoPanic.
