From Verif Require Import Base.Bytes.
From Coq Require Import ZifyN ZifyNat ZifyBool.
Ltac Zify.zify_post_hook ::= Z.div_mod_to_equations.
Open Scope N_scope.

Lemma bytes_eqb_eq a b : bytes_eqb a b = true <-> a = b.
Proof.
  revert b; induction a as [|x s IH]; intros [|y t]; cbn; split; intros H; try congruence; try reflexivity.
  - apply andb_true_iff in H as [H1 H2]. apply N.eqb_eq in H1. apply IH in H2. congruence.
  - inversion H; subst. rewrite N.eqb_refl. cbn. apply IH. reflexivity.
Qed.

Lemma be_acc_app acc a b : be_acc acc (a ++ b) = be_acc (be_acc acc a) b.
Proof. revert acc; induction a as [|x a IH]; intros acc; cbn; [reflexivity|apply IH]. Qed.

Lemma be_acc_shift acc b : be_acc acc b = acc * 256 ^ blen b + be_to_N b.
Proof.
  unfold be_to_N, blen. revert acc. induction b as [|x b IH]; intros acc.
  - cbn. lia.
  - cbn [be_acc length]. rewrite IH. rewrite (IH (0 * 256 + x)).
    rewrite Nat2N.inj_succ, N.pow_succ_r'. lia.
Qed.

Lemma length_N_to_be n v : length (N_to_be n v) = n.
Proof. revert v; induction n as [|n IH]; intros v; cbn; [reflexivity|]. rewrite app_length, IH. cbn. lia. Qed.

Lemma wf_N_to_be n v : wf_bytes (N_to_be n v).
Proof.
  revert v; induction n as [|n IH]; intros v; cbn; [constructor|].
  apply Forall_app; split; [apply IH|]. constructor; [|constructor]. apply N.mod_lt. lia.
Qed.

Lemma be_to_N_to_be n v : be_to_N (N_to_be n v) = v mod 256 ^ N.of_nat n.
Proof.
  revert v; induction n as [|n IH]; intros v.
  - cbn. rewrite N.mod_1_r. reflexivity.
  - cbn [N_to_be]. unfold be_to_N. rewrite be_acc_app. fold (be_to_N (N_to_be n (v / 256))).
    rewrite IH. cbn [be_acc]. rewrite Nat2N.inj_succ, N.pow_succ_r'.
    assert (Hp : 256 ^ N.of_nat n <> 0) by (apply N.pow_nonzero; lia).
    rewrite N.mod_mul_r by lia.
    lia.
Qed.

Lemma be_to_N_bound b : wf_bytes b -> be_to_N b < 256 ^ blen b.
Proof.
  unfold blen. induction b as [|x b IH] using rev_ind; intros H.
  - cbn. lia.
  - apply Forall_app in H as [Hb Hx]. inversion Hx; subst.
    unfold be_to_N. rewrite be_acc_app. fold (be_to_N b). cbn [be_acc].
    rewrite app_length. cbn [length]. rewrite Nat.add_1_r, Nat2N.inj_succ, N.pow_succ_r'.
    specialize (IH Hb). lia.
Qed.

Lemma N_to_be_to_N b : wf_bytes b -> N_to_be (length b) (be_to_N b) = b.
Proof.
  induction b as [|x b IH] using rev_ind; intros H; [reflexivity|].
  apply Forall_app in H as [Hb Hx]. inversion Hx; subst.
  rewrite app_length. cbn [length]. rewrite Nat.add_1_r. cbn [N_to_be].
  unfold be_to_N. rewrite be_acc_app. fold (be_to_N b). cbn [be_acc].
  replace ((be_to_N b * 256 + x) / 256) with (be_to_N b) by lia.
  replace ((be_to_N b * 256 + x) mod 256) with x by lia.
  rewrite IH by assumption. reflexivity.
Qed.

Lemma length_slice {A} (l : list A) i j :
  i <= j -> j <= N.of_nat (length l) -> length (slice l i j) = N.to_nat (j - i).
Proof. intros H1 H2. unfold slice. rewrite firstn_length, skipn_length. lia. Qed.

Lemma In_firstn {A} n (l : list A) x : In x (firstn n l) -> In x l.
Proof. intros H. rewrite <- (firstn_skipn n l). apply in_or_app. left. exact H. Qed.
Lemma In_skipn {A} n (l : list A) x : In x (skipn n l) -> In x l.
Proof. intros H. rewrite <- (firstn_skipn n l). apply in_or_app. right. exact H. Qed.

Lemma wf_slice b i j : wf_bytes b -> wf_bytes (slice b i j).
Proof.
  intros H. unfold slice, wf_bytes in *. rewrite Forall_forall in *. intros x Hx.
  apply H. apply In_firstn in Hx. eapply In_skipn; eauto.
Qed.

Lemma wf_bytesb_iff b : wf_bytesb b = true <-> wf_bytes b.
Proof.
  unfold wf_bytesb, wf_bytes. rewrite forallb_forall, Forall_forall.
  split; intros H x Hx; specialize (H x Hx); lia.
Qed.
