From Coq Require Import List Arith Lia.
Import ListNotations.

Lemma nth_error_firstn_lt {A} (l : list A) i j : j < i -> nth_error (firstn i l) j = nth_error l j.
Proof.
  revert i j. induction l as [|x l IH]; intros i j H.
  - rewrite firstn_nil. reflexivity.
  - destruct i; [lia|]. destruct j; [reflexivity|]. cbn. apply IH. lia.
Qed.

Lemma nth_error_skipn' {A} (l : list A) n i : nth_error (skipn n l) i = nth_error l (n + i).
Proof.
  revert l. induction n as [|n IH]; intros l; [reflexivity|].
  destruct l as [|x l]; [destruct i; reflexivity|]. cbn. apply IH.
Qed.
