(* Proofs/Exec_gas.v — C06: no frame ever returns more gas than it was given.  For every entry point, call tree,
   Aspect behaviour and provider — assuming only LOCAL facts: an instruction never increases the frame's gas, what a
   sub-call hands back is credited at most once, an Aspect reports no more gas than it got, a precompile returns no
   more than it got. *)
From Verif Require Import Base.Bytes Model.KeyTree Model.CallTree Model.Journal Model.Tracer Model.Exec
     Proofs.CallTree_proofs Proofs.Exec_proofs.
From Coq Require Import ZifyN ZifyNat ZifyBool Lia.
Open Scope N_scope.

Section Gas.
  Variable W M HT : Type.
  Variable can_transfer : W -> N -> N -> bool.
  Variable transfer : W -> N -> N -> N -> W.
  Variable balance_of : W -> N -> N.
  Variable exists_acct : W -> N -> bool.
  Variable create_account : W -> N -> W.
  Variable code_of : W -> N -> bytes.
  Variable collides : W -> N -> bool.
  Variable get_nonce : W -> N -> N.
  Variable set_nonce : W -> N -> N -> W.
  Variable acl_add : W -> N -> W.
  Variable set_code : W -> N -> bytes -> W.
  Variable touch : W -> N -> W.
  Variable is_homestead is_eip158 is_berlin is_london : bool.
  Variable max_code_size : N.
  Variable is_precompile : N -> bool.
  Variable precompile : N -> option N -> bytes -> N -> cres.
  Variable local_step : nat -> fctx -> M -> W -> step_out W M HT.
  Variable init_machine : fctx -> N -> HT -> M.
  Variable keccak : bytes -> N.
  Variable artela jp_on debug asp_logger : bool.
  Variable bound : bool -> N -> res (list N).
  Variable aspect : nat -> bool -> N -> N -> jpin -> bytes * N * option string.

  Notation xst := (xstate W).
  Notation RUN := (run W M HT can_transfer transfer balance_of exists_acct create_account code_of collides get_nonce set_nonce
                       acl_add set_code touch is_homestead is_eip158 is_berlin is_london max_code_size is_precompile precompile
                       local_step init_machine keccak artela jp_on debug asp_logger bound aspect).
  Notation RUNF := (run_frame W M HT can_transfer transfer balance_of exists_acct create_account code_of collides get_nonce set_nonce
                       acl_add set_code touch is_homestead is_eip158 is_berlin is_london max_code_size is_precompile precompile
                       local_step init_machine keccak artela jp_on debug asp_logger bound aspect).
  Notation CALL := (do_call W M HT can_transfer transfer balance_of exists_acct create_account code_of collides get_nonce set_nonce
                       acl_add set_code touch is_homestead is_eip158 is_berlin is_london max_code_size is_precompile precompile
                       local_step init_machine keccak artela jp_on debug asp_logger bound aspect).
  Notation CALLCODE := (do_callcode W M HT can_transfer transfer balance_of exists_acct create_account code_of collides get_nonce set_nonce
                       acl_add set_code touch is_homestead is_eip158 is_berlin is_london max_code_size is_precompile precompile
                       local_step init_machine keccak artela jp_on debug asp_logger bound aspect).
  Notation DELEGATE := (do_delegatecall W M HT can_transfer transfer balance_of exists_acct create_account code_of collides get_nonce set_nonce
                       acl_add set_code touch is_homestead is_eip158 is_berlin is_london max_code_size is_precompile precompile
                       local_step init_machine keccak artela jp_on debug asp_logger bound aspect).
  Notation STATIC := (do_staticcall W M HT can_transfer transfer balance_of exists_acct create_account code_of collides get_nonce set_nonce
                       acl_add set_code touch is_homestead is_eip158 is_berlin is_london max_code_size is_precompile precompile
                       local_step init_machine keccak artela jp_on debug asp_logger bound aspect).
  Notation CREATE := (do_create W M HT can_transfer transfer balance_of exists_acct create_account code_of collides get_nonce set_nonce
                       acl_add set_code touch is_homestead is_eip158 is_berlin is_london max_code_size is_precompile precompile
                       local_step init_machine keccak artela jp_on debug asp_logger bound aspect).

  (** the gas a machine state holds *)
  Variable mgas : M -> N.
  Hypothesis H_init : forall fc g h, mgas (init_machine fc g h) <= g.
  Hypothesis H_step : forall d fc m w,
    match local_step d fc m w with
    | SNext _ _ _ m' _ _ => mgas m' <= mgas m
    | SDone _ _ _ _ g _ _ _ => g <= mgas m
    | SCall _ _ _ _ _ _ gas _ _ _ _ resume => forall r, r_gas r <= gas -> mgas (resume r) <= mgas m
    | SCreate _ _ _ _ _ gas _ _ _ _ _ resume => forall r a, r_gas r <= gas -> mgas (resume r a) <= mgas m
    | SJournal _ _ _ _ _ resume => forall r, mgas (resume r) <= mgas m
    end.
  Hypothesis H_asp : aspect_sane aspect.
  Hypothesis H_pre : forall a c i g, r_gas (precompile a c i g) <= g.

  Definition PG (fuel : nat) : Prop :=
    (forall d fc m s r s', RUN fuel d fc m s = Some (r, s') -> r_gas r <= mgas m) /\
    (forall d hint fc gas s r s', RUNF fuel d hint fc gas s = Some (r, s') -> r_gas r <= gas) /\
    (forall d hint ps caller addr input gas value s r s', CALL fuel d hint ps caller addr input gas value s = Some (r, s') -> r_gas r <= gas) /\
    (forall d hint pf addr input gas value s r s', CALLCODE fuel d hint pf addr input gas value s = Some (r, s') -> r_gas r <= gas) /\
    (forall d hint pf addr input gas s r s', DELEGATE fuel d hint pf addr input gas s = Some (r, s') -> r_gas r <= gas) /\
    (forall d hint pf addr input gas s r s', STATIC fuel d hint pf addr input gas s = Some (r, s') -> r_gas r <= gas) /\
    (forall d hint caller code gas value address typ s r s', CREATE fuel d hint caller code gas value address typ s = Some (r, s') -> r_gas r <= gas).

  Lemma tail_le w0 r (s : xst) r' s' g : tail W w0 r s = (r', s') -> r_gas r <= g -> r_gas r' <= g.
  Proof.
    intros T H. rewrite (tail_gas _ _ _ _ _ _ T). destruct (r_err r) as [e|]; [destruct (is_revert e)|]; lia.
  Qed.

  Theorem frames_never_gain_gas : forall fuel, PG fuel.
  Proof.
    induction fuel as [|f IH].
    { repeat split; intros; discriminate. }
    destruct IH as [IHrun [IHrunf [IHcall [IHcc [IHdc [IHsc IHcr]]]]]].
    repeat split.
    - (* run *)
      intros d fc m s r s'. cbn [run]. pose proof (H_step d fc m (xw s)) as HS.
      destruct (local_step d fc m (xw s)) as [m' w' ev|ret g err w' ev|k to input gas value w' ev hint resume|typ code gas value addr w' ev hint resume|j ev resume].
      + intros E. apply IHrun in E. lia.
      + intros E; inversion E; subst. cbn. exact HS.
      + destruct k.
        * match goal with |- context [match ?X with _ => _ end] => destruct X as [[r2 s2]|] eqn:EC end; [|intros; discriminate].
          intros E. apply IHcall in EC. apply IHrun in E. pose proof (HS r2 EC). lia.
        * match goal with |- context [match ?X with _ => _ end] => destruct X as [[r2 s2]|] eqn:EC end; [|intros; discriminate].
          intros E. apply IHcc in EC. apply IHrun in E. pose proof (HS r2 EC). lia.
        * match goal with |- context [match ?X with _ => _ end] => destruct X as [[r2 s2]|] eqn:EC end; [|intros; discriminate].
          intros E. apply IHdc in EC. apply IHrun in E. pose proof (HS r2 EC). lia.
        * match goal with |- context [match ?X with _ => _ end] => destruct X as [[r2 s2]|] eqn:EC end; [|intros; discriminate].
          intros E. apply IHsc in EC. apply IHrun in E. pose proof (HS r2 EC). lia.
      + match goal with |- context [match ?X with _ => _ end] => destruct X as [[r2 s2]|] eqn:EC end; [|intros; discriminate].
        intros E. apply IHcr in EC. apply IHrun in E. pose proof (HS r2 addr EC). lia.
      + match goal with |- context [let '(_, _) := ?X in _] => destruct X as [t' rj] end.
        intros E. apply IHrun in E. pose proof (HS rj). lia.
    - (* run_frame *)
      intros d hint fc gas s r s'. cbn [run_frame]. destruct (f_code fc).
      + intros E; inversion E; subst. cbn. lia.
      + intros E. apply IHrun in E. pose proof (H_init fc gas hint). lia.
    - (* do_call *)
      intros d hint ps caller addr input gas value s r s' E.
      eapply call_gas_le_fuel; [exact H_asp|exact H_pre| |exact E]. intros; eapply IHrunf; eassumption.
    - (* do_callcode *)
      intros d hint pf addr input gas value s r s'. cbn [do_callcode]. cbv beta zeta.
      destruct (Nat.ltb max_depth d); [intros E; inversion E; subst; cbn; lia|].
      destruct (negb (can_transfer (xw s) (f_self pf) value)); [intros E; inversion E; subst; cbn; lia|].
      destruct (is_precompile addr).
      { match goal with |- context [let '(_, _) := ?X in _] => destruct X as [r' s''] eqn:T end.
        intros E; inversion E; subst. eapply tail_le; [exact T|apply H_pre]. }
      match goal with |- context [match ?X with _ => _ end] => destruct X as [[rb s5]|] eqn:ER end; [|intros; discriminate].
      match goal with |- context [let '(_, _) := ?X in _] => destruct X as [r' s''] eqn:T end.
      intros E; inversion E; subst. eapply tail_le; [exact T|eapply IHrunf; exact ER].
    - (* do_delegatecall *)
      intros d hint pf addr input gas s r s'. cbn [do_delegatecall]. cbv beta zeta.
      destruct (Nat.ltb max_depth d); [intros E; inversion E; subst; cbn; lia|].
      destruct (is_precompile addr).
      { match goal with |- context [let '(_, _) := ?X in _] => destruct X as [r' s''] eqn:T end.
        intros E; inversion E; subst. eapply tail_le; [exact T|apply H_pre]. }
      match goal with |- context [match ?X with _ => _ end] => destruct X as [[rb s5]|] eqn:ER end; [|intros; discriminate].
      match goal with |- context [let '(_, _) := ?X in _] => destruct X as [r' s''] eqn:T end.
      intros E; inversion E; subst. eapply tail_le; [exact T|eapply IHrunf; exact ER].
    - (* do_staticcall *)
      intros d hint pf addr input gas s r s'. cbn [do_staticcall]. cbv beta zeta.
      destruct (Nat.ltb max_depth d); [intros E; inversion E; subst; cbn; lia|].
      destruct (is_precompile addr).
      { match goal with |- context [let '(_, _) := ?X in _] => destruct X as [r' s''] eqn:T end.
        intros E; inversion E; subst. eapply tail_le; [exact T|apply H_pre]. }
      match goal with |- context [match ?X with _ => _ end] => destruct X as [[rb s5]|] eqn:ER end; [|intros; discriminate].
      match goal with |- context [let '(_, _) := ?X in _] => destruct X as [r' s''] eqn:T end.
      intros E; inversion E; subst. eapply tail_le; [exact T|eapply IHrunf; exact ER].
    - (* do_create *)
      intros d hint caller code gas value address typ s r s'. cbn [do_create]. cbv beta zeta.
      destruct (Nat.ltb max_depth d); [intros E; inversion E; subst; cbn; lia|].
      match goal with |- context [if negb (can_transfer ?a ?b ?c) then _ else _] => destruct (negb (can_transfer a b c)) end;
        [intros E; inversion E; subst; cbn; lia|].
      match goal with |- context [if two64 <=? ?x then _ else _] => destruct (two64 <=? x) end; [intros E; inversion E; subst; cbn; lia|].
      match goal with |- context [if collides ?a ?b then _ else _] => destruct (collides a b) end; [intros E; inversion E; subst; cbn; lia|].
      match goal with |- context [match ?X with Some _ => _ | None => None end] => destruct X as [[rb s6]|] eqn:ER end; [|intros; discriminate].
      apply IHrunf in ER.
      match goal with |- context [let '(_, _) := ?X in _] => destruct X as [r' s7] eqn:EF end.
      intros E; inversion E; subst. cbn [fst].
      unfold create_finish in EF. destruct (create_checks is_eip158 is_london max_code_size (r_ret rb) (r_err rb)) as [e|].
      + inversion EF; subst. cbn. destruct (is_revert e); lia.
      + destruct (blen (r_ret rb) * 200 <=? r_gas rb) eqn:Ec.
        * inversion EF; subst. cbn. lia.
        * destruct is_homestead; inversion EF; subst; cbn; lia.
  Qed.
End Gas.
