From Verif Require Import Base.Bytes Model.CallTree Proofs.ListUtil.
From Coq Require Import ZifyN ZifyNat ZifyBool Sorted.
Open Scope nat_scope.

(** * list update *)
Lemma upd_nth_length {A} (l : list A) i f : length (upd_nth l i f) = length l.
Proof.
  unfold upd_nth. destruct (nth_error l i) eqn:E; [|reflexivity].
  assert (i < length l) by (apply nth_error_Some; congruence).
  rewrite !app_length, firstn_length, skipn_length. cbn. lia.
Qed.

Lemma nth_error_upd_nth {A} (l : list A) i f j :
  nth_error (upd_nth l i f) j = if Nat.eqb j i then option_map f (nth_error l i) else nth_error l j.
Proof.
  unfold upd_nth. destruct (nth_error l i) as [x|] eqn:E.
  - assert (Hi : i < length l) by (apply nth_error_Some; congruence).
    destruct (Nat.eqb_spec j i) as [->|Hne].
    + rewrite nth_error_app2 by (rewrite firstn_length; lia).
      rewrite firstn_length. replace (i - Nat.min i (length l)) with 0 by lia. reflexivity.
    + destruct (Nat.lt_ge_cases j i) as [Hlt|Hge].
      * rewrite nth_error_app1 by (rewrite firstn_length; lia).
        apply nth_error_firstn_lt. lia.
      * rewrite nth_error_app2 by (rewrite firstn_length; lia).
        rewrite firstn_length. replace (Nat.min i (length l)) with i by lia.
        change ([f x] ++ skipn (S i) l) with (f x :: skipn (S i) l).
        replace (j - i) with (S (j - S i)) by lia. cbn [nth_error].
        rewrite nth_error_skipn'. f_equal. lia.
  - destruct (Nat.eqb_spec j i) as [->|Hne]; [rewrite E; reflexivity|reflexivity].
Qed.

(** * well-formedness of the call tree *)

Definition parent_is (t : ct) (i k : nat) : bool :=
  match nth_error (calls t) k with
  | Some c => match c_parent c with Some p => Nat.eqb p i | None => false end
  | None => false
  end.

(** [ct_wf]: for every node, its children list is exactly the increasing list of all nodes whose
    parent it is; every parent has a smaller index; the cursor points into the tree. *)
Record ct_wf (t : ct) : Prop := {
  wf_children : forall i c, nth_error (calls t) i = Some c ->
      c_children c = filter (parent_is t i) (seq 0 (length (calls t)));
  wf_parent : forall i c p, nth_error (calls t) i = Some c -> c_parent c = Some p -> p < i;
  wf_current : forall k, current t = Some k -> k < length (calls t)
}.

Lemma filter_ext_in' {A} (f g : A -> bool) l : (forall x, In x l -> f x = g x) -> filter f l = filter g l.
Proof. induction l as [|x l IH]; intros H; cbn; [reflexivity|]. rewrite (H x) by (left; reflexivity). rewrite IH; [reflexivity|]. intros y Hy. apply H. right. exact Hy. Qed.

Lemma ct_wf_empty : ct_wf ct_empty.
Proof.
  split; cbn.
  - intros i c H. destruct i; discriminate.
  - intros i c p H. destruct i; discriminate.
  - intros k H. discriminate.
Qed.

Lemma ct_add_wf t from to data value gas : ct_wf t -> ct_wf (ct_add t from to data value gas).
Proof.
  intros [Hc Hp Hk]. unfold ct_add.
  set (n := length (calls t)).
  set (newc := {| c_from := from; c_to := to; c_data := data; c_value := value; c_gas := gas;
                  c_parent := current t; c_children := []; c_ret := []; c_rgas := 0%N; c_err := None; c_exited := false |}).
  set (cs := match current t with Some p => upd_nth (calls t) p (fun c => add_child_link c n) | None => calls t end).
  assert (Lcs : length cs = n) by (subst cs; destruct (current t); [apply upd_nth_length|reflexivity]).
  (* nodes of cs: same parents as before; children extended for the cursor *)
  assert (Hcs : forall i c', nth_error cs i = Some c' ->
            exists c, nth_error (calls t) i = Some c /\ c_parent c' = c_parent c /\
                      c_children c' = if (match current t with Some p => Nat.eqb i p | None => false end)
                                      then c_children c ++ [n] else c_children c).
  { intros i c' H. subst cs. destruct (current t) as [p|].
    - rewrite nth_error_upd_nth in H. destruct (Nat.eqb_spec i p) as [->|Hne].
      + destruct (nth_error (calls t) p) as [c|]; [|discriminate]. cbn in H. inversion H; subst.
        exists c. repeat split.
      + exists c'. repeat split. exact H.
    - exists c'. repeat split. exact H. }
  assert (Hpar : forall i k, k < n ->
            parent_is {| calls := cs ++ [newc]; current := Some n |} i k = parent_is t i k).
  { intros i k Hk'. unfold parent_is. cbn [calls].
    rewrite nth_error_app1 by lia.
    destruct (nth_error cs k) as [c'|] eqn:E.
    - destruct (Hcs _ _ E) as [c [E1 [E2 _]]]. rewrite E1, E2. reflexivity.
    - apply nth_error_None in E. lia. }
  split; cbn [calls current].
  - intros i c' H. rewrite app_length, Lcs. cbn [length]. rewrite Nat.add_1_r, seq_S, filter_app. cbn [Nat.add filter].
    rewrite (filter_ext_in' _ (parent_is t i)) by (intros x Hx; apply in_seq in Hx; apply Hpar; lia).
    assert (Hpn : parent_is {| calls := cs ++ [newc]; current := Some n |} i n =
                  match current t with Some p => Nat.eqb p i | None => false end).
    { unfold parent_is. cbn [calls]. rewrite nth_error_app2 by lia. rewrite Lcs, Nat.sub_diag. reflexivity. }
    rewrite Hpn.
    destruct (Nat.lt_ge_cases i n) as [Hlt|Hge].
    + rewrite nth_error_app1 in H by lia. destruct (Hcs _ _ H) as [c [E1 [_ E3]]].
      rewrite E3, (Hc _ _ E1). fold n.
      destruct (current t) as [p|]; [|rewrite app_nil_r; reflexivity].
      rewrite (Nat.eqb_sym i p). destruct (Nat.eqb p i); [reflexivity|rewrite app_nil_r; reflexivity].
    + rewrite nth_error_app2 in H by lia. rewrite Lcs in H.
      destruct (i - n) as [|d] eqn:Ed; [|destruct d; discriminate].
      cbn in H. inversion H; subst c'. cbn [c_children newc].
      assert (i = n) by lia. subst i.
      (* nobody has the new node as parent *)
      assert (Hnone : filter (parent_is t n) (seq 0 n) = []).
      { assert (Hall : forall y, parent_is t n y = false).
        { intros y. unfold parent_is. destruct (nth_error (calls t) y) as [c|] eqn:E; [|reflexivity].
          destruct (c_parent c) as [p|] eqn:Ep; [|reflexivity].
          specialize (Hp _ _ _ E Ep). assert (y < n) by (apply nth_error_Some; congruence).
          destruct (Nat.eqb_spec p n); [lia|reflexivity]. }
        clear -Hall. induction (seq 0 n) as [|a l' IH']; [reflexivity|]. cbn. rewrite Hall. exact IH'. }
      rewrite Hnone. cbn.
      destruct (current t) as [p|] eqn:Ecur; [|reflexivity].
      specialize (Hk _ eq_refl). destruct (Nat.eqb_spec p n); [lia|reflexivity].
  - intros i c' p H Hpp.
    destruct (Nat.lt_ge_cases i n) as [Hlt|Hge].
    + rewrite nth_error_app1 in H by lia. destruct (Hcs _ _ H) as [c [E1 [E2 _]]].
      apply (Hp _ _ _ E1). congruence.
    + rewrite nth_error_app2 in H by lia. rewrite Lcs in H.
      destruct (i - n) as [|d] eqn:Ed; [|destruct d; discriminate].
      cbn in H. inversion H; subst c'. cbn in Hpp. specialize (Hk _ Hpp). lia.
  - intros k H. inversion H; subst. rewrite app_length, Lcs. cbn. lia.
Qed.

Lemma ct_exit_wf t rgas ret err : ct_wf t -> ct_wf (ct_exit t rgas ret err).
Proof.
  intros W. pose proof W as [Hc Hp Hk]. unfold ct_exit. destruct (current t) as [k|] eqn:Ecur; [|exact W].
  specialize (Hk _ eq_refl).
  assert (Hn : forall i c', nth_error (upd_nth (calls t) k (fun c => set_result c rgas ret err)) i = Some c' ->
             exists c, nth_error (calls t) i = Some c /\ c_parent c' = c_parent c /\ c_children c' = c_children c).
  { intros i c' H. rewrite nth_error_upd_nth in H. destruct (Nat.eqb_spec i k) as [->|Hne].
    - destruct (nth_error (calls t) k) as [c|]; [|discriminate]. cbn in H. inversion H; subst.
      exists c. repeat split.
    - exists c'. repeat split. exact H. }
  set (t' := {| calls := upd_nth (calls t) k (fun c => set_result c rgas ret err);
                current := match nth_error (calls t) k with Some c => c_parent c | None => None end |}).
  assert (Hpar : forall i j, parent_is t' i j = parent_is t i j).
  { intros i j. unfold parent_is. cbn [calls t'].
    destruct (nth_error (upd_nth (calls t) k (fun c => set_result c rgas ret err)) j) as [c'|] eqn:E.
    - destruct (Hn _ _ E) as [c [E1 [E2 _]]]. rewrite E1, E2. reflexivity.
    - rewrite nth_error_upd_nth in E. destruct (Nat.eqb_spec j k) as [Hjk|Hne].
      + subst j. destruct (nth_error (calls t) k); [discriminate|reflexivity].
      + rewrite E. reflexivity. }
  split; cbn [calls current t'].
  - intros i c' H. destruct (Hn _ _ H) as [c [E1 [_ E3]]]. rewrite E3, (Hc _ _ E1), upd_nth_length.
    apply filter_ext_in'. intros x _. symmetry. apply Hpar.
  - intros i c' p H Hpp. destruct (Hn _ _ H) as [c [E1 [E2 _]]]. apply (Hp _ _ _ E1). congruence.
  - intros j H. rewrite upd_nth_length. destruct (nth_error (calls t) k) as [c|] eqn:E; [|discriminate].
    specialize (Hp _ _ _ E H). lia.
Qed.

(** every reachable tree — any sequence of add/exit, balanced or not — is well formed *)
Lemma ct_wf_fold ops : forall t, ct_wf t -> ct_wf (fold_left ct_step ops t).
Proof.
  induction ops as [|o ops IH]; intros t H; [exact H|]. cbn [fold_left]. apply IH.
  destruct o; cbn [ct_step]; [apply ct_add_wf|apply ct_exit_wf]; exact H.
Qed.

Theorem ct_wf_reachable ops : ct_wf (fold_left ct_step ops ct_empty).
Proof. apply ct_wf_fold, ct_wf_empty. Qed.

(** consequences in the vocabulary of the property *)
Lemma filter_seq_sorted f a n : StronglySorted lt (filter f (seq a n)).
Proof.
  revert a. induction n as [|n IH]; intros a; cbn; [constructor|].
  destruct (f a).
  - constructor; [apply IH|]. apply Forall_forall. intros x Hx. apply filter_In in Hx as [Hx _].
    apply in_seq in Hx. lia.
  - apply IH.
Qed.

Theorem ct_children_increasing t i c : ct_wf t -> nth_error (calls t) i = Some c ->
  StronglySorted lt (c_children c).
Proof. intros W H. rewrite (wf_children t W _ _ H). apply filter_seq_sorted. Qed.

Theorem ct_child_iff_parent t i c k : ct_wf t -> nth_error (calls t) i = Some c ->
  (In k (c_children c) <-> exists ck, nth_error (calls t) k = Some ck /\ c_parent ck = Some i).
Proof.
  intros W H. rewrite (wf_children t W _ _ H), filter_In, in_seq. unfold parent_is. split.
  - intros [_ Hp]. destruct (nth_error (calls t) k) as [ck|]; [|discriminate].
    exists ck. split; [reflexivity|]. destruct (c_parent ck) as [p|]; [|discriminate].
    apply Nat.eqb_eq in Hp. congruence.
  - intros [ck [E1 E2]]. split.
    + assert (k < length (calls t)) by (apply nth_error_Some; congruence). lia.
    + rewrite E1, E2. apply Nat.eqb_refl.
Qed.

Theorem ct_child_once t i c k : ct_wf t -> nth_error (calls t) i = Some c ->
  In k (c_children c) -> count_occ Nat.eq_dec (c_children c) k = 1.
Proof.
  intros W H Hin. pose proof (ct_children_increasing t i c W H) as S.
  induction S as [|x l S IH Hx]; [destruct Hin|].
  cbn. destruct (Nat.eq_dec x k) as [->|Hne].
  - f_equal. apply count_occ_not_In. intros Hk. rewrite Forall_forall in Hx. specialize (Hx _ Hk). lia.
  - destruct Hin as [->|Hin]; [congruence|]. apply IH. exact Hin.
Qed.

(** a balanced run returns the cursor to where it was: n adds, each eventually exited *)
Inductive balanced : list ctop -> Prop :=
| bal_nil : balanced []
| bal_call f to d v g body rg ret err rest :
    balanced body -> balanced rest -> balanced (CAdd f to d v g :: body ++ CExit rg ret err :: rest).

Lemma fold_left_app' {A B} (f : A -> B -> A) l1 l2 a : fold_left f (l1 ++ l2) a = fold_left f l2 (fold_left f l1 a).
Proof. apply fold_left_app. Qed.

Lemma ct_add_parent_kept t o k c :
  nth_error (calls t) k = Some c ->
  exists c', nth_error (calls (ct_step t o)) k = Some c' /\ c_parent c' = c_parent c.
Proof.
  intros H. destruct o as [f to d v g|rg ret err]; cbn [ct_step].
  - unfold ct_add. cbn [calls].
    assert (Hk : k < length (calls t)) by (apply nth_error_Some; congruence).
    destruct (current t) as [p|].
    + rewrite nth_error_app1 by (rewrite upd_nth_length; lia). rewrite nth_error_upd_nth.
      destruct (Nat.eqb_spec k p) as [->|_].
      * rewrite H. cbn. eexists; split; reflexivity.
      * eexists; split; [exact H|reflexivity].
    + rewrite nth_error_app1 by lia. eexists; split; [exact H|reflexivity].
  - unfold ct_exit. destruct (current t) as [p|]; [|eexists; split; [exact H|reflexivity]].
    cbn [calls]. rewrite nth_error_upd_nth. destruct (Nat.eqb_spec k p) as [->|_].
    + rewrite H. cbn. eexists; split; reflexivity.
    + eexists; split; [exact H|reflexivity].
Qed.

Lemma fold_parent_kept ops : forall t k p,
  (exists c, nth_error (calls t) k = Some c /\ c_parent c = p) ->
  exists c, nth_error (calls (fold_left ct_step ops t)) k = Some c /\ c_parent c = p.
Proof.
  induction ops as [|o b IH]; intros t k p P; [exact P|].
  cbn. apply IH. destruct P as [c [E1 E2]].
  destruct (ct_add_parent_kept t o _ _ E1) as [c' [E1' E2']]. exists c'. split; [exact E1'|congruence].
Qed.

Theorem balanced_restores_cursor ops : balanced ops ->
  forall t, ct_wf t -> current (fold_left ct_step ops t) = current t.
Proof.
  induction 1 as [|f to d v g body rg ret err rest Hb IHb Hr IHr]; intros t W; [reflexivity|].
  cbn [fold_left]. rewrite fold_left_app'. cbn [fold_left].
  set (t1 := ct_step t (CAdd f to d v g)).
  assert (W1 : ct_wf t1) by (apply ct_add_wf; exact W).
  set (t2 := fold_left ct_step body t1).
  assert (W2 : ct_wf t2) by (apply ct_wf_fold; exact W1).
  assert (C2 : current t2 = Some (length (calls t))) by (subst t2; rewrite IHb by exact W1; reflexivity).
  (* the node at position length(calls t) still has parent = current t *)
  assert (P2 : exists c, nth_error (calls t2) (length (calls t)) = Some c /\ c_parent c = current t).
  { assert (P1 : exists c, nth_error (calls t1) (length (calls t)) = Some c /\ c_parent c = current t).
    { subst t1. cbn [ct_step]. unfold ct_add. cbn [calls].
      rewrite nth_error_app2 by (destruct (current t); [rewrite upd_nth_length|]; lia).
      replace (length (calls t) - _) with 0 by (destruct (current t); [rewrite upd_nth_length|]; lia).
      eexists; split; reflexivity. }
    subst t2. apply fold_parent_kept. exact P1. }
  rewrite IHr by (cbn; apply ct_exit_wf; exact W2).
  cbn [ct_step]. unfold ct_exit. rewrite C2. cbn [current].
  destruct P2 as [c [E1 E2]]. rewrite E1. exact E2.
Qed.

(** ** frame property: a balanced run touches no node that existed before it, except that it may
    append children to the node the cursor points at *)

Definition same_but_children (c c' : call) : Prop :=
  c_from c' = c_from c /\ c_to c' = c_to c /\ c_data c' = c_data c /\ c_value c' = c_value c /\ c_gas c' = c_gas c /\
  c_parent c' = c_parent c /\ c_ret c' = c_ret c /\ c_rgas c' = c_rgas c /\ c_err c' = c_err c /\ c_exited c' = c_exited c.

Lemma sbc_refl c : same_but_children c c.
Proof. repeat split. Qed.
Lemma sbc_trans a b c : same_but_children a b -> same_but_children b c -> same_but_children a c.
Proof. unfold same_but_children. intuition congruence. Qed.

Definition preserved (t t' : ct) : Prop :=
  forall i c, nth_error (calls t) i = Some c ->
    exists c', nth_error (calls t') i = Some c' /\ same_but_children c c' /\
               (current t <> Some i -> c_children c' = c_children c).

Lemma preserved_refl t : preserved t t.
Proof. intros i c H. exists c. repeat split; auto. Qed.

Lemma add_preserved t f to d v g : preserved t (ct_add t f to d v g).
Proof.
  intros i c H. unfold ct_add. cbn [calls].
  assert (Hi : i < length (calls t)) by (apply nth_error_Some; congruence).
  destruct (current t) as [p|] eqn:Ec.
  - rewrite nth_error_app1 by (rewrite upd_nth_length; lia). rewrite nth_error_upd_nth.
    destruct (Nat.eqb_spec i p) as [->|Hne].
    + rewrite H. cbn. eexists. split; [reflexivity|]. split; [repeat split|]. intros Hc. congruence.
    + exists c. repeat split; auto.
  - rewrite nth_error_app1 by lia. exists c. repeat split; auto.
Qed.

(** exit only changes the result fields of the node under the cursor *)
Lemma exit_other t rg ret err i c :
  nth_error (calls t) i = Some c -> current t <> Some i ->
  nth_error (calls (ct_exit t rg ret err)) i = Some c.
Proof.
  intros H Hc. unfold ct_exit. destruct (current t) as [k|]; [|exact H].
  cbn [calls]. rewrite nth_error_upd_nth. destruct (Nat.eqb_spec i k) as [->|_]; [congruence|exact H].
Qed.

Lemma fold_length_ge ops : forall t, length (calls t) <= length (calls (fold_left ct_step ops t)).
Proof.
  induction ops as [|o ops IH]; intros t; [cbn; lia|]. cbn [fold_left].
  etransitivity; [|apply IH]. destruct o; cbn [ct_step].
  - unfold ct_add. cbn [calls]. rewrite app_length. destruct (current t); [rewrite upd_nth_length|]; cbn; lia.
  - unfold ct_exit. destruct (current t); [cbn [calls]; rewrite upd_nth_length|]; lia.
Qed.

Theorem balanced_preserved ops : balanced ops -> forall t, ct_wf t -> preserved t (fold_left ct_step ops t).
Proof.
  induction 1 as [|f to d v g body rg ret err rest Hb IHb Hr IHr]; intros t W; [apply preserved_refl|].
  cbn [fold_left]. rewrite fold_left_app'. cbn [fold_left].
  set (t1 := ct_step t (CAdd f to d v g)).
  assert (W1 : ct_wf t1) by (apply ct_add_wf; exact W).
  set (t2 := fold_left ct_step body t1).
  assert (W2 : ct_wf t2) by (apply ct_wf_fold; exact W1).
  set (t3 := ct_step t2 (CExit rg ret err)).
  assert (W3 : ct_wf t3) by (apply ct_exit_wf; exact W2).
  assert (C1 : current t1 = Some (length (calls t))) by reflexivity.
  assert (C2 : current t2 = Some (length (calls t))) by (subst t2; rewrite balanced_restores_cursor by assumption; exact C1).
  assert (C3 : current t3 = current t).
  { subst t3. cbn [ct_step]. unfold ct_exit. rewrite C2. cbn [current].
    assert (P1 : exists c, nth_error (calls t1) (length (calls t)) = Some c /\ c_parent c = current t).
    { subst t1. cbn [ct_step]. unfold ct_add. cbn [calls].
      rewrite nth_error_app2 by (destruct (current t); [rewrite upd_nth_length|]; lia).
      replace (length (calls t) - _) with 0 by (destruct (current t); [rewrite upd_nth_length|]; lia).
      eexists; split; reflexivity. }
    destruct (fold_parent_kept body t1 _ _ P1) as [c [E1 E2]]. fold t2 in E1. rewrite E1. exact E2. }
  intros i c H.
  assert (Hi : i < length (calls t)) by (apply nth_error_Some; congruence).
  destruct (add_preserved t f to d v g i c H) as [c1 [E1 [S1 K1]]]. fold t1 in E1.
  destruct (IHb t1 W1 i c1 E1) as [c2 [E2 [S2 K2]]]. fold t2 in E2.
  assert (Hne : current t2 <> Some i) by (rewrite C2; intros X; inversion X; lia).
  assert (E3 : nth_error (calls t3) i = Some c2) by (apply exit_other; assumption).
  destruct (IHr t3 W3 i c2 E3) as [c4 [E4 [S4 K4]]].
  exists c4. split; [exact E4|]. split; [eapply sbc_trans; [exact S1|]; eapply sbc_trans; [exact S2|exact S4]|].
  intros Hc. rewrite K4 by (rewrite C3; exact Hc). rewrite K2 by (rewrite C1; intros X; inversion X; lia).
  apply K1. exact Hc.
Qed.

(** the node a call adds carries the call's inputs, and — after a balanced body and the matching
    exit — exactly the outcome handed to exit; nothing in between can alter either *)
Theorem bracket_node t f to d v g body rg ret err :
  ct_wf t -> balanced body ->
  let t' := fold_left ct_step (CAdd f to d v g :: body ++ [CExit rg ret err]) t in
  exists c, nth_error (calls t') (length (calls t)) = Some c /\
            c_from c = f /\ c_to c = to /\ c_data c = d /\ c_value c = v /\ c_gas c = g /\ c_parent c = current t /\
            c_ret c = ret /\ c_rgas c = rg /\ c_err c = err /\ c_exited c = true.
Proof.
  intros W B. cbn zeta. cbn [fold_left]. rewrite fold_left_app'. cbn [fold_left].
  set (k := length (calls t)).
  set (t1 := ct_step t (CAdd f to d v g)).
  assert (W1 : ct_wf t1) by (apply ct_add_wf; exact W).
  assert (N1 : nth_error (calls t1) k = Some {| c_from := f; c_to := to; c_data := d; c_value := v; c_gas := g; c_parent := current t;
                c_children := []; c_ret := []; c_rgas := 0%N; c_err := None; c_exited := false |}).
  { subst t1 k. cbn [ct_step]. unfold ct_add. cbn [calls].
    rewrite nth_error_app2 by (destruct (current t); [rewrite upd_nth_length|]; lia).
    replace (length (calls t) - _) with 0 by (destruct (current t); [rewrite upd_nth_length|]; lia). reflexivity. }
  set (t2 := fold_left ct_step body t1).
  destruct (balanced_preserved body B t1 W1 k _ N1) as [c2 [E2 [S2 _]]]. fold t2 in E2.
  assert (C2 : current t2 = Some k) by (subst t2; rewrite balanced_restores_cursor by assumption; reflexivity).
  cbn [ct_step]. unfold ct_exit. rewrite C2. cbn [calls].
  rewrite nth_error_upd_nth, Nat.eqb_refl, E2. cbn [option_map].
  eexists. split; [reflexivity|]. destruct S2 as [A1 [A2 [A3 [A4 [A5 [A6 _]]]]]]. cbn in *.
  repeat split; assumption.
Qed.
