(* Proofs/Exec_examples.v — a concrete execution of the frame model (script instance), used by the property files to
   show that the hypotheses of the frame theorems are met by non-trivial runs: a top-level CALL with value that stores,
   then CALLs (with value, through a pre join point with one bound Aspect) a contract that stores and then halts
   exceptionally, then stops. *)
From Verif Require Import Base.Bytes Model.KeyTree Model.CallTree Model.Tracer Model.Precompile Model.Exec Model.ScriptInst.
Open Scope N_scope.

Definition ex_caller : N := 0xca.
Definition ex_A : N := 0xc0.
Definition ex_B : N := 0xc1.
Definition ex_world : sworld :=
  {| sw_bal := [(ex_caller, 1000)]; sw_nonce := []; sw_stor := []; sw_tstor := []; sw_code := [(ex_A, [0]); (ex_B, [0])];
     sw_exist := [ex_caller; ex_A; ex_B]; sw_logs := []; sw_suicide := []; sw_acl := [] |}.
Definition ex_script_B : script :=
  [AOp 0 0x55 100 [ESStore 2 9]; AHalt 2 0xfe 0 [] (Some (VOther "invalid opcode: INVALID")) []].
Definition ex_script_A : script :=
  [AOp 0 0x55 100 [ESStore 1 5];
   ACall 3 0xf1 30000 KCall ex_B [1; 2] 20000 3 ex_script_B;
   AHalt 9 0x00 0 [] None []].
Definition ex_bound (pre : bool) (c : N) : res (list N) := if pre && (c =? ex_B) then Ok [0xa1] else Ok [].
Definition ex_aspect (n : nat) (pre : bool) (a g : N) (p : jpin) : bytes * N * option string := ([], g - 10, None).
Definition ex_host (h : hostcall) : res bytes := Err "no host".
Definition ex_state : xstate sworld := {| xw := ex_world; xt := tracer_empty; xe := []; xn := O |}.

Definition ex_call (artela jp : bool) (fuel : nat) (depth : nat) (scr : script) (caller to : N) (input : bytes) (gas value : N) (s : xstate sworld) :=
  do_call sworld smachine script s_can_transfer s_transfer s_balance s_exists s_create_account s_code_of s_collides
          s_get_nonce s_set_nonce s_acl_add s_set_code s_touch true true true true 24576
          (s_is_precompile true) (s_precompile ex_host true) s_step s_init (fun _ => 0)
          artela jp true true ex_bound ex_aspect fuel depth scr false caller to input gas value s.

(** the whole transaction succeeds; two call-tree nodes; the inner frame failed and left no trace in the world *)
Example ex_top_run :
  exists r s', ex_call true true 50 0 ex_script_A ex_caller ex_A [] 100000 7 ex_state = Some (r, s') /\
    r_err r = None /\ length (calls (tc (xt s'))) = 2%nat /\
    s_balance (xw s') ex_A = 7 /\ s_balance (xw s') ex_B = 0 /\
    aget eq_nn (sw_stor (xw s')) (ex_A, 1) = Some 5 /\ aget eq_nn (sw_stor (xw s')) (ex_B, 2) = None /\
    (15 <= length (xe s'))%nat.
Proof. eexists. eexists. split; [vm_compute; reflexivity|]. vm_compute. repeat split; try reflexivity; repeat constructor. Qed.

(** a frame that fails after changing the world: value received, a store made, then an exceptional halt *)
Example ex_failing_frame :
  exists r s', ex_call true true 50 1 ex_script_B ex_A ex_B [1; 2] 20000 3
                       {| xw := s_transfer ex_world ex_caller ex_A 7; xt := tracer_empty; xe := []; xn := O |} = Some (r, s') /\
    r_err r <> None /\ r_gas r = 0.
Proof. eexists. eexists. split; [vm_compute; reflexivity|]. split; [discriminate|reflexivity]. Qed.
