(* The recorded-script instance used by the correspondence check satisfies the side conditions the
   whole-execution theorems place on the instruction semantics (non-vacuity of those theorems). *)
From Verif Require Import Base.Bytes Model.KeyTree Model.CallTree Model.Tracer Model.Exec Model.ScriptInst
  Proofs.Exec_generic Proofs.Exec_instances.
Open Scope N_scope.

Lemma s_step_events_only_steps d fc m w :
  Forall (fun e => match e with EvStep _ _ => True | _ => False end) (step_events (s_step d fc m w)).
Proof.
  unfold s_step. destruct (m_acts m) as [|a rest]; cbn; [constructor|].
  destruct a; cbn; repeat constructor. destruct err as [[| |]|]; repeat constructor.
Qed.

Theorem s_step_plain d fc m w : Forall plain_event (step_events (s_step d fc m w)).
Proof. eapply Forall_impl; [|apply s_step_events_only_steps]. intros e. destruct e; cbn; try tauto. intros _. split; reflexivity. Qed.
Theorem s_step_no_journal d fc m w : Forall no_journal_event (step_events (s_step d fc m w)).
Proof. eapply Forall_impl; [|apply s_step_events_only_steps]. intros e. destruct e; cbn; tauto. Qed.
Theorem s_step_no_jp d fc m w : Forall (fun e => is_jp_event e = false) (step_events (s_step d fc m w)).
Proof. eapply Forall_impl; [|apply s_step_events_only_steps]. intros e. destruct e; cbn; try tauto. Qed.
