(* Proofs/Exec_instances.v — properties of whole executions obtained from the generic induction. *)
From Verif Require Import Base.Bytes Model.KeyTree Model.CallTree Model.Journal Model.Tracer Model.Exec
  Proofs.CallTree_proofs Proofs.Exec_proofs Proofs.Exec_generic.
From Coq Require Import ZifyN ZifyNat ZifyBool.
Open Scope N_scope.

(** well-nested debug-tracer streams: start/end and enter/exit pair up like brackets *)
Inductive ev_balanced : list event -> Prop :=
| evb_nil : ev_balanced []
| evb_plain e rest : is_open_event e = false -> is_close_event e = false -> ev_balanced rest -> ev_balanced (e :: rest)
| evb_frame o body c rest : matching o c = true -> ev_balanced body -> ev_balanced rest -> ev_balanced (o :: body ++ c :: rest).

Lemma ev_balanced_app a b : ev_balanced a -> ev_balanced b -> ev_balanced (a ++ b).
Proof.
  induction 1 as [|e rest Ho Hc Hr IH|o body c rest Hm Hb IHb Hr IHr]; intros Hb2.
  - exact Hb2.
  - cbn. apply evb_plain; auto.
  - change ((o :: body ++ c :: rest) ++ b) with (o :: (body ++ c :: rest) ++ b).
    rewrite <- app_assoc. cbn [app]. apply evb_frame; auto.
Qed.

Definition plain_event (e : event) : Prop := is_open_event e = false /\ is_close_event e = false.
Lemma plain_list_balanced l : Forall plain_event l -> ev_balanced l.
Proof. induction 1 as [|e l [Ho Hc] _ IH]; constructor; auto. Qed.

Definition journal_tag_ge (d : nat) (e : event) : Prop :=
  match e with EvJournal t _ _ _ _ => (d <= t)%nat | _ => True end.
Definition no_journal_event (e : event) : Prop := match e with EvJournal _ _ _ _ _ => False | _ => True end.

Section Instances.
  Variable W M HT : Type.
  Variable can_transfer : W -> N -> N -> bool.
  Variable transfer : W -> N -> N -> N -> W.
  Variable balance_of : W -> N -> N.
  Variable exists_acct : W -> N -> bool.
  Variable create_account : W -> N -> W.
  Variable code_of : W -> N -> bytes.
  Variable collides : W -> N -> bool.
  Variable get_nonce : W -> N -> N.
  Variable set_nonce : W -> N -> N -> W.
  Variable acl_add : W -> N -> W.
  Variable set_code : W -> N -> bytes -> W.
  Variable touch : W -> N -> W.
  Variable is_homestead is_eip158 is_berlin is_london : bool.
  Variable max_code_size : N.
  Variable is_precompile : N -> bool.
  Variable precompile : N -> option N -> bytes -> N -> cres.
  Variable local_step : nat -> fctx -> M -> W -> step_out W M HT.
  Variable init_machine : fctx -> N -> HT -> M.
  Variable keccak : bytes -> N.
  Variable artela jp_on debug asp_logger : bool.
  Variable bound : bool -> N -> res (list N).
  Variable aspect : nat -> bool -> N -> N -> jpin -> bytes * N * option string.

  Notation xst := (xstate W).
  Notation RUN := (run W M HT can_transfer transfer balance_of exists_acct create_account code_of collides get_nonce set_nonce
                       acl_add set_code touch is_homestead is_eip158 is_berlin is_london max_code_size is_precompile precompile
                       local_step init_machine keccak artela jp_on debug asp_logger bound aspect).
  Notation RUNF := (run_frame W M HT can_transfer transfer balance_of exists_acct create_account code_of collides get_nonce set_nonce
                       acl_add set_code touch is_homestead is_eip158 is_berlin is_london max_code_size is_precompile precompile
                       local_step init_machine keccak artela jp_on debug asp_logger bound aspect).
  Notation CALL := (do_call W M HT can_transfer transfer balance_of exists_acct create_account code_of collides get_nonce set_nonce
                       acl_add set_code touch is_homestead is_eip158 is_berlin is_london max_code_size is_precompile precompile
                       local_step init_machine keccak artela jp_on debug asp_logger bound aspect).
  Notation CALLCODE := (do_callcode W M HT can_transfer transfer balance_of exists_acct create_account code_of collides get_nonce set_nonce
                       acl_add set_code touch is_homestead is_eip158 is_berlin is_london max_code_size is_precompile precompile
                       local_step init_machine keccak artela jp_on debug asp_logger bound aspect).
  Notation DELEGATE := (do_delegatecall W M HT can_transfer transfer balance_of exists_acct create_account code_of collides get_nonce set_nonce
                       acl_add set_code touch is_homestead is_eip158 is_berlin is_london max_code_size is_precompile precompile
                       local_step init_machine keccak artela jp_on debug asp_logger bound aspect).
  Notation STATIC := (do_staticcall W M HT can_transfer transfer balance_of exists_acct create_account code_of collides get_nonce set_nonce
                       acl_add set_code touch is_homestead is_eip158 is_berlin is_london max_code_size is_precompile precompile
                       local_step init_machine keccak artela jp_on debug asp_logger bound aspect).
  Notation CREATE := (do_create W M HT can_transfer transfer balance_of exists_acct create_account code_of collides get_nonce set_nonce
                       acl_add set_code touch is_homestead is_eip158 is_berlin is_london max_code_size is_precompile precompile
                       local_step init_machine keccak artela jp_on debug asp_logger bound aspect).
  Notation JP := (join_point W asp_logger bound aspect).
  Notation TRANSFER := (transfer_recorded W transfer balance_of artela).
  Notation SAVE := (save_call W artela).
  Notation EXIT := (exit_call W artela).
  Notation DOPEN := (dbg_open W debug).
  Notation DCLOSE := (dbg_close W debug).


  (** what the instruction semantics may emit by itself: no frame brackets, no journal bookkeeping *)
  Hypothesis step_events_plain : forall d fc m w, Forall plain_event (step_events (local_step d fc m w)).
  Hypothesis step_events_no_journal : forall d fc m w, Forall no_journal_event (step_events (local_step d fc m w)).

  (** * C18 — start/end and enter/exit stay balanced, whatever the Aspects and the callees do *)
  Definition Qev (d : nat) (s s' : xst) : Prop := exists evs, xe s' = xe s ++ evs /\ ev_balanced evs.

  Lemma Qev_refl d s : Qev d s s.
  Proof. exists []. split; [symmetry; apply app_nil_r|constructor]. Qed.
  Lemma Qev_trans d a b c : Qev d a b -> Qev d b c -> Qev d a c.
  Proof.
    intros [e1 [E1 B1]] [e2 [E2 B2]]. exists (e1 ++ e2). split; [rewrite E2, E1, app_assoc; reflexivity|apply ev_balanced_app; assumption].
  Qed.
  Lemma Qev_same d a b : xe b = xe a -> Qev d a b.
  Proof. intros E. exists []. split; [rewrite app_nil_r; exact E|constructor]. Qed.
  Lemma Qev_emit_plain d s ev : Forall plain_event ev -> Qev d s (emit W s ev).
  Proof. intros Hp. exists ev. split; [reflexivity|apply plain_list_balanced; exact Hp]. Qed.

  Theorem events_balanced : forall fuel, P_all W M HT can_transfer transfer balance_of exists_acct create_account code_of collides get_nonce set_nonce
      acl_add set_code touch is_homestead is_eip158 is_berlin is_london max_code_size is_precompile precompile
      local_step init_machine keccak artela jp_on debug asp_logger bound aspect Qev fuel.
  Proof.
    apply generic_induction.
    - apply Qev_refl.
    - apply Qev_trans.
    - intros d s s' X; exact X.
    - intros d s w. apply Qev_same. reflexivity.
    - intros d s. apply Qev_same. reflexivity.
    - intros d fc m s w'. apply Qev_emit_plain. apply step_events_plain.
    - intros d fc m s. apply Qev_emit_plain. apply step_events_plain.
    - intros d s e _ He. apply Qev_emit_plain. constructor; [|constructor]. destruct e; try discriminate; split; reflexivity.
    - intros d s s2 o c _ Hm [evs [E B]]. exists (o :: evs ++ [c]). split.
      + cbn. rewrite E. cbn. rewrite <- !app_assoc. reflexivity.
      + apply (evb_frame o evs c []); [exact Hm|exact B|constructor].
    - intros d s s2 from to data value gas r [evs [E B]]. exists evs. split; [|exact B].
      unfold save_call, exit_call in *. destruct artela; exact E.
    - intros d s f t v. apply Qev_same. unfold transfer_recorded. destruct artela; reflexivity.
    - intros d s st op self mem stack. eexists. split; [reflexivity|]. apply plain_list_balanced. constructor; [split; reflexivity|constructor].
  Qed.

  (** * C05 — with join points switched off (or without the Artela additions) no join point runs, anywhere *)
  Definition Qnojp (d : nat) (s s' : xst) : Prop :=
    exists evs, xe s' = xe s ++ evs /\ Forall (fun e => is_jp_event e = false) evs.
  Hypothesis step_events_no_jp : forall d fc m w, Forall (fun e => is_jp_event e = false) (step_events (local_step d fc m w)).

  Lemma Qnojp_same d a b : xe b = xe a -> Qnojp d a b.
  Proof. intros E. exists []. split; [rewrite app_nil_r; exact E|constructor]. Qed.

  Theorem no_join_point_when_off : artela && jp_on = false ->
    forall fuel, P_all W M HT can_transfer transfer balance_of exists_acct create_account code_of collides get_nonce set_nonce
      acl_add set_code touch is_homestead is_eip158 is_berlin is_london max_code_size is_precompile precompile
      local_step init_machine keccak artela jp_on debug asp_logger bound aspect Qnojp fuel.
  Proof.
    intros Hoff. apply generic_induction.
    - intros d s. apply Qnojp_same. reflexivity.
    - intros d a b c [e1 [E1 B1]] [e2 [E2 B2]]. exists (e1 ++ e2). split; [rewrite E2, E1, app_assoc; reflexivity|apply Forall_app; split; assumption].
    - intros d s s' X; exact X.
    - intros d s w. apply Qnojp_same. reflexivity.
    - intros d s. apply Qnojp_same. reflexivity.
    - intros d fc m s w'. eexists. split; [reflexivity|apply step_events_no_jp].
    - intros d fc m s. eexists. split; [reflexivity|apply step_events_no_jp].
    - intros d s e Hon. rewrite Hoff in Hon. discriminate.
    - intros d s s2 o c _ Hm [evs [E B]]. exists (o :: evs ++ [c]). split.
      + cbn. rewrite E. cbn. rewrite <- !app_assoc. reflexivity.
      + constructor; [destruct o; try discriminate; reflexivity|]. apply Forall_app. split; [exact B|].
        constructor; [destruct c; destruct o; try discriminate; reflexivity|constructor].
    - intros d s s2 from to data value gas r [evs [E B]]. exists evs. split; [|exact B].
      unfold save_call, exit_call in *. destruct artela; exact E.
    - intros d s f t v. apply Qnojp_same. unfold transfer_recorded. destruct artela; reflexivity.
    - intros d s st op self mem stack. eexists. split; [reflexivity|]. constructor; [reflexivity|constructor].
  Qed.

  (** * C10 — journal entries are attributed to the executing frame's storage address and to the
      innermost CALL/CREATE node *)
  Definition Qtag (d : nat) (s s' : xst) : Prop :=
    exists evs, xe s' = xe s ++ evs /\ Forall (journal_tag_ge d) evs.

  Lemma Qtag_same d a b : xe b = xe a -> Qtag d a b.
  Proof. intros E. exists []. split; [rewrite app_nil_r; exact E|constructor]. Qed.
  Lemma no_journal_tag d l : Forall no_journal_event l -> Forall (journal_tag_ge d) l.
  Proof. induction 1 as [|e l He _ IH]; constructor; [destruct e; cbn in *; tauto|exact IH]. Qed.

  (** every journal event carries the depth of the frame that executed the instruction: events of a
      frame's callees are tagged strictly deeper *)
  Theorem journal_tags : forall fuel, P_all W M HT can_transfer transfer balance_of exists_acct create_account code_of collides get_nonce set_nonce
      acl_add set_code touch is_homestead is_eip158 is_berlin is_london max_code_size is_precompile precompile
      local_step init_machine keccak artela jp_on debug asp_logger bound aspect Qtag fuel.
  Proof.
    apply generic_induction.
    - intros d s. apply Qtag_same. reflexivity.
    - intros d a b c [e1 [E1 B1]] [e2 [E2 B2]]. exists (e1 ++ e2). split; [rewrite E2, E1, app_assoc; reflexivity|apply Forall_app; split; assumption].
    - intros d s s' [evs [E B]]. exists evs. split; [exact E|]. eapply Forall_impl; [|exact B].
      intros e. destruct e; cbn; auto. lia.
    - intros d s w. apply Qtag_same. reflexivity.
    - intros d s. apply Qtag_same. reflexivity.
    - intros d fc m s w'. eexists. split; [reflexivity|apply no_journal_tag, step_events_no_journal].
    - intros d fc m s. eexists. split; [reflexivity|apply no_journal_tag, step_events_no_journal].
    - intros d s e _ He. eexists. split; [reflexivity|]. constructor; [destruct e; try discriminate; exact I|constructor].
    - intros d s s2 o c _ Hm [evs [E B]]. exists (o :: evs ++ [c]). split.
      + cbn. rewrite E. cbn. rewrite <- !app_assoc. reflexivity.
      + constructor; [destruct o; try discriminate; exact I|]. apply Forall_app. split; [exact B|].
        constructor; [destruct c; destruct o; try discriminate; exact I|constructor].
    - intros d s s2 from to data value gas r [evs [E B]]. exists evs. split; [|exact B].
      unfold save_call, exit_call in *. destruct artela; exact E.
    - intros d s f t v. apply Qtag_same. unfold transfer_recorded. destruct artela; reflexivity.
    - intros d s st op self mem stack. eexists. split; [reflexivity|]. constructor; [cbn; lia|constructor].
  Qed.

  Definition attributed (d : nat) (self idx : N) (e : event) : Prop :=
    match e with
    | EvJournal t s i _ _ => t = d -> s = self /\ i = idx
    | _ => True
    end.

  (** The journal instructions a frame executes itself are all filed under that frame's storage address
      [f_self] and under the call index the cursor had when the frame started — the node of the innermost
      CALL/CREATE — no matter how many calls of any kind, failing or not, the frame makes in between. *)
  Theorem run_attribution : forall fuel d fc m s r s',
    ct_wf (tc (xt s)) ->
    RUN fuel (S d) fc m s = Some (r, s') ->
    exists evs, xe s' = xe s ++ evs /\
                Forall (attributed (S d) (f_self fc) (current_index (tc (xt s)))) evs /\
                ct_wf (tc (xt s')) /\ current (tc (xt s')) = current (tc (xt s)).
  Proof.
    induction fuel as [|f IH]; intros d fc m s r s' Wf; [discriminate|]. cbn [run].
    pose proof (step_events_no_journal (S d) fc m (xw s)) as NJ.
    assert (NJa : Forall (attributed (S d) (f_self fc) (current_index (tc (xt s)))) (step_events (local_step (S d) fc m (xw s)))).
    { eapply Forall_impl; [|exact NJ]. intros e. destruct e; cbn; tauto. }
    (* what a nested entry point contributes: deeper tags, same cursor, well-formed tree *)
    assert (Nested : forall (s1 s2 : xst), tc (xt s1) = tc (xt s) -> xe s1 = xe s ++ step_events (local_step (S d) fc m (xw s)) ->
              Qtag (S (S d)) s1 s2 -> Q W s1 s2 -> forall m2,
              RUN f (S d) fc m2 s2 = Some (r, s') ->
              exists evs, xe s' = xe s ++ evs /\ Forall (attributed (S d) (f_self fc) (current_index (tc (xt s)))) evs /\
                          ct_wf (tc (xt s')) /\ current (tc (xt s')) = current (tc (xt s))).
    { intros s1 s2 Et Ee [ev2 [E2 T2]] [ops [B Eo]] m2 ER.
      assert (W2 : ct_wf (tc (xt s2))) by (rewrite Eo, Et; apply ct_wf_fold; exact Wf).
      assert (C2 : current (tc (xt s2)) = current (tc (xt s))) by (rewrite Eo, Et; apply balanced_restores_cursor; assumption).
      destruct (IH d fc m2 s2 r s' W2 ER) as [ev3 [E3 [A3 [W3 C3]]]].
      exists (step_events (local_step (S d) fc m (xw s)) ++ ev2 ++ ev3). split; [rewrite E3, E2, Ee, <- !app_assoc; reflexivity|].
      split; [|split; [exact W3|congruence]].
      apply Forall_app; split; [exact NJa|]. apply Forall_app; split.
      - eapply Forall_impl; [|exact T2]. intros e. destruct e; cbn; auto. intros; lia.
      - unfold current_index in *. rewrite C2 in A3. exact A3. }
    destruct (local_step (S d) fc m (xw s)) as [m' w' ev|ret g err w' ev|k to input gas value w' ev hint resume|typ code gas value addr w' ev hint resume|j ev resume] eqn:EL; cbn [step_events] in *.
    - intros E. destruct (IH d fc m' (emit W (set_w W s w') ev) r s' Wf E) as [ev3 [E3 [A3 [W3 C3]]]].
      exists (ev ++ ev3). split; [rewrite E3; cbn; rewrite app_assoc; reflexivity|]. split; [|split; assumption].
      apply Forall_app; split; [exact NJa|exact A3].
    - intros E; inversion E; subst. exists ev. split; [reflexivity|]. split; [exact NJa|]. split; [exact Wf|reflexivity].
    - set (s1 := emit W (set_w W s w') ev).
      destruct k.
      + match goal with |- context [match ?X with _ => _ end] => destruct X as [[r2 s2]|] eqn:EC end; [|intros; discriminate].
        intros E. destruct (journal_tags f) as [_ [_ [Hc _]]]. destruct (calltree_balanced W M HT can_transfer transfer balance_of exists_acct create_account code_of collides get_nonce set_nonce
              acl_add set_code touch is_homestead is_eip158 is_berlin is_london max_code_size is_precompile precompile
              local_step init_machine keccak artela jp_on debug asp_logger bound aspect f) as [_ [_ [Hb _]]].
        destruct (Hb _ _ _ _ _ _ _ _ _ _ _ EC) as [sx [-> Qx]].
        eapply (Nested s1 _ eq_refl eq_refl (Hc _ _ _ _ _ _ _ _ _ _ _ EC)); [|exact E].
        eapply Q_bracket. exact Qx.
      + match goal with |- context [match ?X with _ => _ end] => destruct X as [[r2 s2]|] eqn:EC end; [|intros; discriminate].
        intros E. destruct (journal_tags f) as [_ [_ [_ [Hc _]]]]. destruct (calltree_balanced W M HT can_transfer transfer balance_of exists_acct create_account code_of collides get_nonce set_nonce
              acl_add set_code touch is_homestead is_eip158 is_berlin is_london max_code_size is_precompile precompile
              local_step init_machine keccak artela jp_on debug asp_logger bound aspect f) as [_ [_ [_ [Hb _]]]].
        eapply (Nested s1 _ eq_refl eq_refl (Hc _ _ _ _ _ _ _ _ _ _ EC) (Hb _ _ _ _ _ _ _ _ _ _ EC)); exact E.
      + match goal with |- context [match ?X with _ => _ end] => destruct X as [[r2 s2]|] eqn:EC end; [|intros; discriminate].
        intros E. destruct (journal_tags f) as [_ [_ [_ [_ [Hc _]]]]]. destruct (calltree_balanced W M HT can_transfer transfer balance_of exists_acct create_account code_of collides get_nonce set_nonce
              acl_add set_code touch is_homestead is_eip158 is_berlin is_london max_code_size is_precompile precompile
              local_step init_machine keccak artela jp_on debug asp_logger bound aspect f) as [_ [_ [_ [_ [Hb _]]]]].
        eapply (Nested s1 _ eq_refl eq_refl (Hc _ _ _ _ _ _ _ _ _ EC) (Hb _ _ _ _ _ _ _ _ _ EC)); exact E.
      + match goal with |- context [match ?X with _ => _ end] => destruct X as [[r2 s2]|] eqn:EC end; [|intros; discriminate].
        intros E. destruct (journal_tags f) as [_ [_ [_ [_ [_ [Hc _]]]]]]. destruct (calltree_balanced W M HT can_transfer transfer balance_of exists_acct create_account code_of collides get_nonce set_nonce
              acl_add set_code touch is_homestead is_eip158 is_berlin is_london max_code_size is_precompile precompile
              local_step init_machine keccak artela jp_on debug asp_logger bound aspect f) as [_ [_ [_ [_ [_ [Hb _]]]]]].
        eapply (Nested s1 _ eq_refl eq_refl (Hc _ _ _ _ _ _ _ _ _ EC) (Hb _ _ _ _ _ _ _ _ _ EC)); exact E.
    - set (s1 := emit W (set_w W s w') ev).
      match goal with |- context [match ?X with _ => _ end] => destruct X as [[r2 s2]|] eqn:EC end; [|intros; discriminate].
      intros E. destruct (journal_tags f) as [_ [_ [_ [_ [_ [_ Hc]]]]]]. destruct (calltree_balanced W M HT can_transfer transfer balance_of exists_acct create_account code_of collides get_nonce set_nonce
            acl_add set_code touch is_homestead is_eip158 is_berlin is_london max_code_size is_precompile precompile
            local_step init_machine keccak artela jp_on debug asp_logger bound aspect f) as [_ [_ [_ [_ [_ [_ Hb]]]]]].
      destruct (Hb _ _ _ _ _ _ _ _ _ _ _ EC) as [sx [-> Qx]].
      eapply (Nested s1 _ eq_refl eq_refl (Hc _ _ _ _ _ _ _ _ _ _ _ EC)); [|exact E].
      eapply Q_bracket. exact Qx.
    - (* the frame's own journal instruction *)
      set (s1 := emit W s ev).
      destruct (jop (jr_storage j) keccak (jr_op j) (f_self fc) (jr_mem j) (jr_stack j) (xt s1)) as [t' rj] eqn:EJ.
      intros E.
      pose proof (tc_jop (jr_storage j) keccak (jr_op j) (f_self fc) (jr_mem j) (jr_stack j) (xt s1)) as Tj. rewrite EJ in Tj. cbn [fst] in Tj.
      match type of E with RUN f (S d) fc ?mm ?ss = _ => destruct (IH d fc mm ss r s') as [ev3 [E3 [A3 [W3 C3]]]]; [cbn; rewrite Tj; exact Wf|exact E|] end.
      eexists. split; [rewrite E3; cbn; rewrite <- !app_assoc; reflexivity|].
      split; [|split; [exact W3|cbn in C3; rewrite Tj in C3; exact C3]].
      apply Forall_app; split; [exact NJa|]. constructor.
      + cbn. intros _. split; reflexivity.
      + cbn in A3. rewrite Tj in A3. exact A3.
  Qed.
End Instances.
