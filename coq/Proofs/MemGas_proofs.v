(* Proofs/MemGas_proofs.v — the Memory object's fee bookkeeping: lastGasCost is always the total fee of the current
   length, so the 64-bit subtraction never wraps, the total a frame pays for memory depends only on how far it got
   (not on the path), and the bytes held are bounded by the gas paid for them. *)
From Verif Require Import Base.Bytes Model.Mem Model.MemSize Model.MemGas.
From Coq Require Import ZifyN ZifyBool.
Ltac Zify.zify_post_hook ::= Z.div_mod_to_equations.
Open Scope N_scope.

(** invariant of a live frame's memory: whole words, below the fee function's overflow guard, fee paid in full *)
Definition mg_inv (st : mstate) : Prop :=
  fst st mod 32 = 0 /\ fst st <= 0x1FFFFFFFE0 /\ snd st = mem_fee (fst st / 32).

Lemma mg_inv_init : mg_inv mg_init.
Proof. unfold mg_inv, mg_init, mem_fee; cbn [fst snd]. repeat split; try reflexivity. lia. Qed.

Lemma two64_val : two64 = 18446744073709551616. Proof. reflexivity. Qed.

Lemma mem_fee_mono a b : a <= b -> mem_fee a <= mem_fee b.
Proof.
  intro H. unfold mem_fee. assert (a * a <= b * b) by nia.
  assert (a * a / 512 <= b * b / 512) by (apply N.div_le_mono; lia). nia.
Qed.

Lemma mem_fee_small w : w <= 0xFFFFFFFF -> w * w < two64 /\ w * 3 < two64 /\ w * 3 + w * w / 512 < two64.
Proof. rewrite two64_val. intro H. assert (w * w <= 0xFFFFFFFF * 0xFFFFFFFF) by nia. lia. Qed.

Lemma u64_small x : x < two64 -> u64 x = x.
Proof. unfold u64. intro. apply N.mod_small. assumption. Qed.

(** what memoryGasCost returns under the invariant, in unbounded integers *)
Lemma memory_gas_cost64_spec st n fee last' :
  mg_inv st -> n mod 32 = 0 -> memory_gas_cost64 st n = Ok (fee, last') ->
  let len' := N.max (fst st) n in
  n <= 0x1FFFFFFFE0 /\ last' = mem_fee (len' / 32) /\ fee + mem_fee (fst st / 32) = mem_fee (len' / 32).
Proof.
  destruct st as [len last]. unfold mg_inv; cbn [fst snd]. intros (Hm & Hb & Hl) Hn.
  unfold memory_gas_cost64.
  destruct (n =? 0) eqn:E0.
  { intro H. inversion H; subst fee last'; clear H. assert (n = 0) by lia. subst n. cbn zeta. rewrite N.max_l by lia.
    split; [lia|]. split; [assumption|]. apply N.add_0_l. }
  destruct (0x1FFFFFFFE0 <? n) eqn:E1; [discriminate|]. cbn zeta.
  assert (Hn' : n <= 0x1FFFFFFFE0) by lia.
  assert (Wd : to_word_size n = n / 32).
  { unfold to_word_size. rewrite two64_val. destruct (18446744073709551616 - 1 - 31 <? n) eqn:E2; [lia|]. lia. }
  rewrite Wd. set (w := n / 32) in *.
  assert (Ww : w <= 0xFFFFFFFF) by (unfold w; lia).
  assert (Hw32 : w * 32 = n) by (unfold w; lia).
  destruct (mem_fee_small w Ww) as (S1 & S2 & S3).
  rewrite Hw32. rewrite (u64_small n) by (rewrite two64_val; lia).
  destruct (len <? n) eqn:E3.
  - intro H. inversion H; subst fee last'; clear H.
    rewrite (u64_small (w * w)) by assumption. rewrite (u64_small (w * 3)) by assumption.
    rewrite (u64_small (w * 3 + w * w / 512)) by assumption.
    rewrite N.max_r by lia. fold (mem_fee w). split; [assumption|]. split; [reflexivity|].
    assert (Hmono : mem_fee (len / 32) <= mem_fee w) by (apply mem_fee_mono; unfold w; lia).
    assert (Hlt : mem_fee w < two64) by (unfold mem_fee; assumption).
    unfold sub64. rewrite Hl. rewrite (u64_small (mem_fee (len / 32))) by lia.
    unfold u64. rewrite two64_val in *. change (n / 32) with w.
    set (A := mem_fee w) in *. set (B := mem_fee (len / 32)) in *. clearbody A B. clear -Hmono Hlt. lia.
  - intro H. inversion H; subst fee last'; clear H. rewrite N.max_l by lia. repeat split; try assumption; lia.
Qed.

(** one step keeps the invariant; the fee is exactly the difference of total fees — no wrap-around — and nothing shrinks *)
Theorem mg_step_inv st n fee st' :
  mg_inv st -> n mod 32 = 0 -> mg_step st n = Ok (fee, st') ->
  mg_inv st' /\ fst st' = N.max (fst st) n /\ fee + mem_fee (fst st / 32) = mem_fee (fst st' / 32).
Proof.
  intros Hi Hn. unfold mg_step. destruct (memory_gas_cost64 st n) as [[f l]| |] eqn:E; try discriminate.
  intro H. inversion H; subst fee st'; clear H.
  destruct (memory_gas_cost64_spec st n f l Hi Hn E) as (Hb & Hl & Hf). cbn zeta in *.
  assert (Hlen : (if 0 <? n then mem_resize (fst st) n else fst st) = N.max (fst st) n).
  { unfold mem_resize. destruct (0 <? n) eqn:E0; [destruct (fst st <? n) eqn:E1; lia | lia]. }
  cbn [fst snd]. rewrite Hlen. destruct Hi as (Hm & Hbb & _).
  split; [|split; [reflexivity|assumption]].
  unfold mg_inv; cbn [fst snd]. split; [|split; [lia|assumption]].
  destruct (N.max_spec (fst st) n) as [[_ M]|[_ M]]; rewrite M; assumption.
Qed.

(** it agrees with Model/Mem.v's [memory_gas_cost], whose assumption about lastGasCost is the invariant *)
Theorem memory_gas_cost64_agrees st n fee last' :
  mg_inv st -> n mod 32 = 0 -> memory_gas_cost64 st n = Ok (fee, last') -> memory_gas_cost (fst st) n = Ok fee.
Proof.
  intros Hi Hn E. destruct (memory_gas_cost64_spec st n fee last' Hi Hn E) as (Hb & _ & Hf). cbn zeta in Hf.
  unfold memory_gas_cost. destruct (n =? 0) eqn:E0.
  { assert (n = 0) by lia. subst n. rewrite N.max_l in Hf by lia. f_equal. lia. }
  destruct (0x1FFFFFFFE0 <? n) eqn:E1; [lia|].
  assert (Wd : to_words n = n / 32) by (unfold to_words; destruct (0xffffffffffffffe0 <? n) eqn:E2; lia).
  rewrite Wd. replace (n / 32 * 32) with n by lia.
  destruct (fst st <? n) eqn:E3.
  - rewrite N.max_r in Hf by lia. f_equal. lia.
  - rewrite N.max_l in Hf by lia. f_equal. lia.
Qed.

Definition all_word_sizes (l : list N) : Prop := Forall (fun n => n mod 32 = 0) l.

(** PATH INDEPENDENCE: whatever sequence of expansions a frame makes, what it has paid for memory in total is the fee
    of the length it reached (from any state satisfying the invariant) *)
Theorem mg_run_total st sizes tot fin :
  mg_inv st -> all_word_sizes sizes -> mg_run st sizes = Some (tot, fin) ->
  mg_inv fin /\ fst st <= fst fin /\ tot + mem_fee (fst st / 32) = mem_fee (fst fin / 32).
Proof.
  revert st tot fin. induction sizes as [|n t IH]; intros st tot fin Hi Hs; cbn [mg_run].
  - intro H. inversion H; subst. repeat split; try apply Hi; lia.
  - inversion Hs as [|? ? Hn Ht]; subst.
    destruct (mg_step st n) as [[fee st']| |] eqn:E; try discriminate.
    destruct (mg_run st' t) as [[tot' fin']|] eqn:E2; try discriminate.
    intro H. inversion H; subst tot fin; clear H.
    destruct (mg_step_inv st n fee st' Hi Hn E) as (Hi' & Hl & Hf).
    destruct (IH st' tot' fin' Hi' Ht E2) as (Hif & Hle & Hft).
    split; [assumption|]. split; [lia|]. lia.
Qed.

Corollary mg_run_from_empty sizes tot fin :
  all_word_sizes sizes -> mg_run mg_init sizes = Some (tot, fin) -> tot = mem_fee (fst fin / 32) /\ mg_inv fin.
Proof.
  intros Hs E. destruct (mg_run_total mg_init sizes tot fin mg_inv_init Hs E) as (Hi & _ & Ht).
  split; [|assumption]. cbn [mg_init fst] in Ht. change (mem_fee (0 / 32)) with 0 in Ht. lia.
Qed.

(** C20: the bytes a frame's memory holds are bounded by the gas paid for them: 3 gas per word at least (and
    quadratically more: words^2/512), whatever the sequence of instructions that expanded it *)
Theorem memory_bytes_bounded_by_gas sizes tot fin :
  all_word_sizes sizes -> mg_run mg_init sizes = Some (tot, fin) ->
  3 * fst fin <= 32 * tot /\ (fst fin / 32) * (fst fin / 32) <= 512 * tot + 511.
Proof.
  intros Hs E. destruct (mg_run_from_empty sizes tot fin Hs E) as (Ht & (Hm & _ & _)).
  rewrite Ht. unfold mem_fee. set (w := fst fin / 32) in *. assert (fst fin = 32 * w) by (unfold w; lia).
  split; [lia|]. assert (w * w <= 512 * (w * w / 512) + 511) by lia. lia.
Qed.

(** ... and per step: one instruction cannot grow the memory by more than 32/3 bytes per unit of gas it is charged *)
Theorem step_growth_bounded_by_fee st n fee st' :
  mg_inv st -> n mod 32 = 0 -> mg_step st n = Ok (fee, st') -> 3 * (fst st' - fst st) <= 32 * fee.
Proof.
  intros Hi Hn E. destruct (mg_step_inv st n fee st' Hi Hn E) as ((Hm' & _ & _) & Hl & Hf).
  destruct Hi as (Hm & _ & _). unfold mem_fee in Hf.
  set (a := fst st / 32) in *. set (b := fst st' / 32) in *.
  assert (fst st = 32 * a) by (unfold a; lia). assert (fst st' = 32 * b) by (unfold b; lia).
  assert (Hab : a <= b) by lia. assert (Hq : a * a / 512 <= b * b / 512) by (apply N.div_le_mono; [lia|nia]).
  set (qa := a * a / 512) in *. set (qb := b * b / 512) in *. clearbody qa qb. lia.
Qed.

(** the interpreter's rounded size is a whole number of words (so the theorems above apply to every instruction) *)
Lemma rounded_size_words op s n : rounded_size op s = Some n -> n mod 32 = 0.
Proof.
  unfold rounded_size. destruct (mem_needed op s) as [[size [|]]|]; try discriminate.
  destruct (_ <? size); [discriminate|]. intro H. assert (E : n = to_words size * 32) by (rewrite N.mul_comm; congruence). rewrite E. apply N.mod_mul. discriminate.
Qed.

(** the two models of one instruction agree: the length Model/MemSize.v says the next instruction sees is the length the
    fee bookkeeping ends with, and the growth is paid for — for every instruction that names a memory region, every stack *)
Theorem instruction_growth_paid op s st n fee st' :
  mg_inv st -> rounded_size op s = Some n -> mg_step st n = Ok (fee, st') ->
  mem_after op s (fst st) = Some (fst st') /\ mg_inv st' /\ 3 * (fst st' - fst st) <= 32 * fee.
Proof.
  intros Hi Hr E. pose proof (rounded_size_words op s n Hr) as Hn.
  destruct (mg_step_inv st n fee st' Hi Hn E) as (Hi' & Hl & _).
  split; [|split; [assumption | exact (step_growth_bounded_by_fee st n fee st' Hi Hn E)]].
  unfold rounded_size in Hr. unfold mem_after. destruct (mem_needed op s) as [[size [|]]|]; try discriminate.
  destruct (0xffffffffffffffe0 <? size); [discriminate|]. assert (En : n = 32 * to_words size) by congruence.
  rewrite Hl, En. reflexivity.
Qed.

(** C20 for the inherited copy / hash / log instructions: the bytes copied, hashed or logged are bounded by the cost charged *)
Lemma words_cover n : n < two64 -> n <= 32 * to_word_size n.
Proof.
  intro H. unfold to_word_size. rewrite two64_val in *.
  destruct (18446744073709551616 - 1 - 31 <? n) eqn:E; lia.
Qed.

Theorem copied_bytes_bounded_by_cost op s st g :
  (op = 0x37 \/ op = 0x39 \/ op = 0x3e \/ op = 0x5e) -> step_cost op s st = Some g ->
  back s 2 < two64 /\ 3 * back s 2 <= 32 * g.
Proof.
  intros Hop. unfold step_cost. destruct (rounded_size op s) as [msize|]; [|discriminate].
  destruct (memory_gas_cost64 st msize) as [[fee l]| |]; try discriminate.
  assert (E1 : ((op =? 0x51) || (op =? 0x52) || (op =? 0x53)) = false) by (destruct Hop as [->|[->|[->| ->]]]; reflexivity).
  assert (E2 : ((op =? 0xf3) || (op =? 0xfd)) = false) by (destruct Hop as [->|[->|[->| ->]]]; reflexivity).
  assert (E3 : (op =? 0x20) = false) by (destruct Hop as [->|[->|[->| ->]]]; reflexivity).
  assert (E4 : ((op =? 0x37) || (op =? 0x39) || (op =? 0x3e) || (op =? 0x5e)) = true) by (destruct Hop as [->|[->|[->| ->]]]; reflexivity).
  rewrite E1, E2, E3, E4. change (N.to_nat 2) with 2%nat.
  destruct (two64 <=? back s 2) eqn:Eb; [discriminate|].
  unfold safe_mul, safe_add. destruct (to_word_size (back s 2) * 3 <? two64); [|discriminate].
  destruct (fee + to_word_size (back s 2) * 3 <? two64); [|discriminate].
  intro H. assert (Hg : g = 3 + (fee + to_word_size (back s 2) * 3)) by congruence. rewrite Hg. clear H Hg.
  assert (Hlt : back s 2 < two64) by lia. split; [assumption|].
  pose proof (words_cover (back s 2) Hlt). lia.
Qed.

Theorem hashed_bytes_bounded_by_cost s st g :
  step_cost 0x20 s st = Some g -> back s 1 < two64 /\ 6 * back s 1 <= 32 * g.
Proof.
  unfold step_cost. destruct (rounded_size 0x20 s) as [msize|]; [|discriminate].
  destruct (memory_gas_cost64 st msize) as [[fee l]| |]; try discriminate.
  change ((0x20 =? 0x51) || (0x20 =? 0x52) || (0x20 =? 0x53)) with false. change ((0x20 =? 0xf3) || (0x20 =? 0xfd)) with false.
  change (0x20 =? 0x20) with true. cbv iota. change (N.to_nat 1) with 1%nat.
  destruct (two64 <=? back s 1) eqn:Eb; [discriminate|].
  unfold safe_mul, safe_add. destruct (to_word_size (back s 1) * 6 <? two64); [|discriminate].
  destruct (fee + to_word_size (back s 1) * 6 <? two64); [|discriminate].
  intro H. assert (Hg : g = 30 + (fee + to_word_size (back s 1) * 6)) by congruence. rewrite Hg. clear H Hg.
  assert (Hlt : back s 1 < two64) by lia. split; [assumption|].
  pose proof (words_cover (back s 1) Hlt). lia.
Qed.

Theorem logged_bytes_bounded_by_cost op s st g :
  0xa0 <= op <= 0xa4 -> step_cost op s st = Some g -> 8 * back s 1 <= g /\ 375 * (1 + (op - 0xa0)) <= g.
Proof.
  intros Hop. unfold step_cost. destruct (rounded_size op s) as [msize|]; [|discriminate].
  destruct (memory_gas_cost64 st msize) as [[fee l]| |]; try discriminate.
  replace ((op =? 0x51) || (op =? 0x52) || (op =? 0x53)) with false by lia.
  replace ((op =? 0xf3) || (op =? 0xfd)) with false by lia.
  replace (op =? 0x20) with false by lia.
  replace ((op =? 0x37) || (op =? 0x39) || (op =? 0x3e) || (op =? 0x5e)) with false by lia.
  replace ((0xa0 <=? op) && (op <=? 0xa4)) with true by lia.
  destruct (two64 <=? back s 1) eqn:Eb; [discriminate|].
  unfold safe_mul, safe_add. destruct (fee + 375 <? two64); [|discriminate].
  destruct (fee + 375 + (op - 0xa0) * 375 <? two64); [|discriminate].
  destruct (back s 1 * 8 <? two64); [|discriminate].
  destruct (fee + 375 + (op - 0xa0) * 375 + back s 1 * 8 <? two64); [|discriminate].
  intro H. assert (Hg : g = fee + 375 + (op - 0xa0) * 375 + back s 1 * 8) by congruence. rewrite Hg. lia.
Qed.

(** CREATE2 hashes its whole init code: on every fork the charge covers 6 gas per word of it *)
Theorem create2_hashed_bytes_bounded_by_cost shanghai s st g :
  create_cost shanghai 0xf5 s st = Some g -> back s 2 < two64 /\ 6 * back s 2 <= 32 * g.
Proof.
  unfold create_cost. destruct (rounded_size 0xf5 s) as [msize|]; [|discriminate].
  destruct (memory_gas_cost64 st msize) as [[fee l]| |]; try discriminate.
  destruct (two64 <=? back s 2) eqn:Eb; [discriminate|]. assert (Hlt : back s 2 < two64) by lia.
  change (0xf5 =? 0xf0) with false. cbv iota. unfold safe_mul, safe_add.
  destruct shanghai.
  - destruct (49152 <? back s 2) eqn:E1; [discriminate|].
    destruct (fee + (2 + 6) * ((back s 2 + 31) / 32) <? two64); [|discriminate].
    intro H. assert (Hg : g = 32000 + (fee + (2 + 6) * ((back s 2 + 31) / 32))) by congruence. rewrite Hg.
    split; [assumption|]. set (n := back s 2) in *. clearbody n. lia.
  - destruct (to_word_size (back s 2) * 6 <? two64); [|discriminate].
    destruct (fee + to_word_size (back s 2) * 6 <? two64); [|discriminate].
    intro H. assert (Hg : g = 32000 + (fee + to_word_size (back s 2) * 6)) by congruence. rewrite Hg.
    split; [assumption|]. pose proof (words_cover (back s 2) Hlt). lia.
Qed.

Example ex_mem_gas :
  mg_run mg_init [32; 64; 32; 1024; 0; 96] = Some (98, (1024, 98)) /\
  mg_run mg_init [1024] = Some (98, (1024, 98)) /\
  mg_step (1024, 98) 0x1FFFFFFFE0 = Ok (36028809887088637 - 98, (0x1FFFFFFFE0, 36028809887088637)) /\
  mg_run mg_init [0x2000000000] = None /\
  step_cost 0x52 [100; 7] (64, 6) = Some (3 + 9) /\ step_cost 0x20 [0; 33] (0, 0) = Some (30 + 6 + 12) /\
  step_cost 0xa2 [0; 5; 1; 2] (32, 3) = Some (375 + 750 + 40) /\ step_cost 0x37 [0; 0; two64] mg_init = None.
Proof. vm_compute. repeat split; reflexivity. Qed.
