(* Gen/GOpNames.v — the opcode names the tracers print (vm/opcodes.go: opCodeToString, stringToOp), read from the live
   code of both implementations on every run: equal to go-ethereum v1.12.0's for every byte except the thirteen Artela
   renumbered or added, which carry the reviewed names; and StringToOp inverts String on every defined opcode. *)
From Coq Require Import String NArith List Bool.
From Verif Require Import Gen.Tables.
Import ListNotations.
Open Scope N_scope.

Definition artela_names_reviewed : list (N * string) := [
  (0x5c, "TLOAD"%string); (0x5d, "TSTORE"%string); (0x5e, "MCOPY"%string);
  (0xb3, "opcode 0xb3 not defined"%string); (0xb4, "opcode 0xb4 not defined"%string);
  (0xe0, "RSVJNAL"%string); (0xe1, "VSVJNAL"%string); (0xe2, "IRVVJNAL"%string); (0xe3, "IRVRJNAL"%string);
  (0xe4, "IVVVJNAL"%string); (0xe5, "IVVRJNAL"%string); (0xe6, "VVJNAL"%string); (0xe7, "VRJNAL"%string)].

Fixpoint assoc (k : N) (l : list (N * string)) : option string :=
  match l with [] => None | (k', v) :: t => if k =? k' then Some v else assoc k t end.

Definition is_undefined_name (s : string) : bool := String.prefix "opcode " s.

Definition op_names_ok : bool :=
  Nat.eqb (length op_names_artela) 256 && Nat.eqb (length op_names_upstream) 256 && Nat.eqb (length string_to_op_artela) 256 &&
  forallb (fun p => match p with (i, (a, (u, back))) =>
     (match assoc i artela_names_reviewed with Some r => String.eqb a r | None => String.eqb a u end) &&
     (is_undefined_name a || (back =? i)) end)
   (combine (map N.of_nat (seq 0 256)) (combine op_names_artela (combine op_names_upstream string_to_op_artela))).

Theorem gen_op_names : op_names_ok = true.
Proof. vm_compute. reflexivity. Qed.
