(* Gen/GenProps.v — theorems over the data the translator regenerates from /repo on every run
   (Gen/Digests.v, Gen/Tables.v) and the reviewed pins (Gen/Pins.v).  All finite: proved by
   vm_compute, the bound (the listed declarations, 256 opcodes x the listed forks) is in the data. *)
From Coq Require Import String NArith List Bool.
From Verif Require Import Gen.Digests Gen.Tables Gen.Pins.
Import ListNotations.
Open Scope N_scope.

Definition mem_N (x : N) (l : list N) : bool := existsb (N.eqb x) l.
Definition mem_s (x : string) (l : list string) : bool := existsb (String.eqb x) l.

Definition find_pin (p f n : string) : option (N * bool * list N) :=
  match find (fun e => match e with (p', f', n', _, _, _) => String.eqb p p' && String.eqb f f' && String.eqb n n' end) pins with
  | Some (_, _, _, d, a, g) => Some (d, a, g)
  | None => None
  end.

(** a declaration is accounted for when it is pinned and equals the reviewed version, or is not
    pinned and is structurally identical to the go-ethereum v1.12.0 declaration of the same name *)
Definition decl_ok (d : string * string * string * N * option N) : bool :=
  match d with
  | (p, f, n, a, up) =>
    match find_pin p f n with
    | Some (dig, added, _) => (a =? dig) && (if added then match up with None => true | Some _ => false end else true)
    | None => match up with Some u => a =? u | None => false end
    end
  end.

(** every pinned declaration a property depends on still has its reviewed digest *)
Definition group_ok (g : N) : bool :=
  forallb (fun d => match d with (p, f, n, _, _) =>
             match find_pin p f n with
             | Some (_, _, gs) => if mem_N g gs then decl_ok d else true
             | None => true end end) decls.

(** every declaration of the packages that is not pinned is identical to upstream *)
Definition inherited_ok (pkgs : list string) : bool :=
  forallb (fun d => match d with (p, f, n, _, _) =>
             if mem_s p pkgs then match find_pin p f n with None => decl_ok d | Some _ => true end else true end) decls.

(** no pin is stale and nothing that exists upstream was deleted *)
Definition pins_live : bool :=
  forallb (fun e => match e with (p, f, n, _, _, _) =>
             existsb (fun d => match d with (p', f', n', _, _) => String.eqb p p' && String.eqb f f' && String.eqb n n' end) decls end) pins.
Definition nothing_deleted : bool := match upstream_only with [] => true | _ => false end.

(** ** instruction tables *)
Definition entry_eqb (a b : entry) : bool :=
  match a, b with (c, mi, ma, e, d, m), (c', mi', ma', e', d', m') =>
    (c =? c') && (mi =? mi') && (ma =? ma') && (e =? e') && (d =? d') && (m =? m') end.
Fixpoint table_eqb_except (skip : N -> bool) (i : N) (a b : list entry) : bool :=
  match a, b with
  | [], [] => true
  | x :: s, y :: t => (skip i || entry_eqb x y) && table_eqb_except skip (i + 1) s t
  | _, _ => false
  end.
Definition is_journal_byte (i : N) : bool := (0xe0 <=? i) && (i <=? 0xe7).
Definition sym_of (e : entry) (which : N) : string :=
  match e with (_, _, _, x, d, m) => nth (N.to_nat (match which with 0 => x | 1 => d | _ => m end)) syms "?"%string end.
Definition nth_entry (t : list entry) (i : N) : entry := nth (N.to_nat i) t (0, 0, 0, 0, 0, 0).
Definition is_undefined (e : entry) : bool := String.eqb (sym_of e 0) "opUndefined".

(** C01/C02: outside 0xe0..0xe7 the Artela table of every fork Frontier..Shanghai equals upstream's,
    entry by entry (constant gas, stack bounds, execute / dynamic gas / memory size functions) *)
Definition std_tables_equal : bool :=
  forallb (fun x => match x with (_, a, u) => Nat.eqb (length a) 256 && table_eqb_except is_journal_byte 0 a u end) forks_both.

(** the same with each activatable EIP enabled; EIP-1153 sits at 0x5c/0x5d in Artela, 0xb3/0xb4 upstream *)
Definition is_1153 (name : string) : bool :=
  match index 0 "+1153" name with Some _ => true | None => false end.
Definition eip_tables_equal : bool :=
  forallb (fun x => match x with (name, a, u) =>
    if is_1153 name then
      table_eqb_except (fun i => is_journal_byte i || (i =? 0x5c) || (i =? 0x5d) || (i =? 0xb3) || (i =? 0xb4)) 0 a u
      && entry_eqb (nth_entry a 0x5c) (nth_entry u 0xb3) && entry_eqb (nth_entry a 0x5d) (nth_entry u 0xb4)
      && is_undefined (nth_entry a 0xb3) && is_undefined (nth_entry a 0xb4)
    else table_eqb_except is_journal_byte 0 a u end) eip_variants.

Definition journal_undefined_upstream : bool :=
  forallb (fun x => match x with (_, _, u) =>
    forallb (fun i => is_undefined (nth_entry u i)) [0xe0; 0xe1; 0xe2; 0xe3; 0xe4; 0xe5; 0xe6; 0xe7] end) forks_both.

(** C12: in EVERY fork table the journal entries are the same eight entries: no constant gas, the
    flat dynamic fee function, no memory-size function, n operands popped and nothing pushed *)
Definition journal_expected : list (N * N * string) :=
  [(0xe0, 3, "opReferenceStateVarJournal"); (0xe1, 4, "opValueStateVarJournal");
   (0xe2, 6, "opReferenceIndexValueStorageJournal"); (0xe3, 5, "opReferenceIndexReferenceStorageJournal");
   (0xe4, 6, "opValueIndexValueStorageJournal"); (0xe5, 5, "opValueIndexReferenceStorageJournal");
   (0xe6, 4, "opValueChangeJournal"); (0xe7, 2, "opReferenceChangeJournal")]%string.
Definition journal_entries_uniform : bool :=
  forallb (fun x => match x with (_, a, _) =>
    forallb (fun j => match j with (i, pops, name) =>
      match nth_entry a i with (c, mi, ma, _, _, m) =>
        (c =? 0) && (mi =? pops) && (ma =? 1024 + pops) && (m =? 0) &&
        String.eqb (sym_of (nth_entry a i) 0) name && String.eqb (sym_of (nth_entry a i) 1) "makeGasJournal" end end)
      journal_expected end) forks_artela.

(** C15: 0x5c/0x5d/0x5e are invalid before Cancun and TLOAD/TSTORE/MCOPY in Cancun *)
Definition cancun_bytes : bool :=
  forallb (fun x => match x with (name, a, _) =>
    if String.eqb name "Cancun" then
      String.eqb (sym_of (nth_entry a 0x5c) 0) "opTload" && String.eqb (sym_of (nth_entry a 0x5d) 0) "opTstore" &&
      String.eqb (sym_of (nth_entry a 0x5e) 0) "opMcopy" &&
      match nth_entry a 0x5c, nth_entry a 0x5d, nth_entry a 0x5e with
      | (c1, mi1, _, _, d1, _), (c2, mi2, _, _, d2, _), (c3, mi3, _, _, _, _) =>
        (c1 =? 100) && (mi1 =? 1) && (d1 =? 0) && (c2 =? 100) && (mi2 =? 2) && (d2 =? 0) && (c3 =? 3) && (mi3 =? 3) end &&
      String.eqb (sym_of (nth_entry a 0x5e) 1) "memoryCopierGas" && String.eqb (sym_of (nth_entry a 0x5e) 2) "memoryMcopy"
    else is_undefined (nth_entry a 0x5c) && is_undefined (nth_entry a 0x5d) && is_undefined (nth_entry a 0x5e) end) forks_artela.

(** C15: apart from those three bytes the Cancun table is the Shanghai table *)
Definition cancun_is_shanghai_plus : bool :=
  match find (fun x => String.eqb (fst (fst x)) "Cancun") forks_artela, find (fun x => String.eqb (fst (fst x)) "Shanghai") forks_artela with
  | Some (_, c, _), Some (_, s, _) => table_eqb_except (fun i => (i =? 0x5c) || (i =? 0x5d) || (i =? 0x5e)) 0 c s
  | _, _ => false
  end.

(** C17: constructing interpreters with extra EIPs leaves the package-level tables untouched *)
Definition tables_copy_on_write : bool :=
  forallb (fun x => match x with (_, a, after) => table_eqb_except (fun _ => false) 0 a after end) forks_artela.

(** C14/C01: precompile sets: upstream's plus 0x64, 0x65, 0x66 from Berlin on, nothing before *)
Definition pre_eqb (a b : list (N * string)) : bool :=
  Nat.eqb (length a) (length b) && forallb (fun p => match p with ((x, s), (y, t)) => (x =? y) && String.eqb s t end) (combine a b).
Definition artela_extra : list (N * string) := [(0x64, "aspcontext"); (0x65, "userOpSender"); (0x66, "contextWriter")]%string.
Definition berlin_or_later (f : string) : bool := mem_s f ["Berlin"; "London"; "Merge"; "Shanghai"; "Cancun"]%string.
Definition precompile_sets_ok : bool :=
  forallb (fun x => match x with (f, a) =>
    match find (fun y => String.eqb (fst y) f) precompiles_upstream with
    | Some (_, u) => pre_eqb a (if berlin_or_later f then u ++ artela_extra else u)
    | None => String.eqb f "Cancun" end end) precompiles_artela.

