(* Gen/G20.v — one generated-data theorem per file so that a broken one breaks only the properties that use it *)
From Coq Require Import String NArith List Bool.
From Verif Require Import Gen.Digests Gen.Tables Gen.Pins Gen.GenProps.
Import ListNotations.
Open Scope N_scope.
(* the declarations property C20's model and proofs were written against still have their reviewed digests *)
Theorem gen_group_20 : group_ok 20 = true.
Proof. vm_compute. reflexivity. Qed.
