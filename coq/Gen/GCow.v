(* Gen/GCow.v — one generated-data theorem per file so that a broken one breaks only the properties that use it *)
From Coq Require Import String NArith List Bool.
From Verif Require Import Gen.Digests Gen.Tables Gen.Pins Gen.GenProps.
Import ListNotations.
Open Scope N_scope.
Theorem gen_cow : tables_copy_on_write = true.
Proof. vm_compute. reflexivity. Qed.
