(* Gen/GJournalTables.v — one generated-data theorem per file so that a broken one breaks only the properties that use it *)
From Coq Require Import String NArith List Bool.
From Verif Require Import Gen.Digests Gen.Tables Gen.Pins Gen.GenProps.
Import ListNotations.
Open Scope N_scope.
Theorem gen_journal_tables : journal_entries_uniform = true.
Proof. vm_compute. reflexivity. Qed.
