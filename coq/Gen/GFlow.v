(* Gen/GFlow.v — reviewed control-flow facts about /repo/vm, compared with what `vh gen` reads from the syntax trees
   (Gen/Flow.v) on every run.  They are the premises under which Model/Cancel.v describes the interpreter loop:
   - the program counter of a running frame is advanced by the loop itself (`pc++` in EVMInterpreter.Run) and by the
     PUSH instructions (`*pc += size`); the only functions that ASSIGN it are opJump and opJumpi
     (codeBitmapInternal has a local variable of the same name: jump-destination analysis, not the interpreter);
   - the abort flag is read by opJump, opJumpi and Cancelled() only, and the only store is Cancel's `Store(true)`:
     nothing ever clears it. *)
From Coq Require Import String List.
From Verif Require Import Gen.Flow.
Import ListNotations.
Open Scope string_scope.

Definition pc_writers_reviewed : list (string * string) := [
  ("EVMInterpreter.Run", "++");
  ("codeBitmapInternal", "++");
  ("codeBitmapInternal", "+=");
  ("codeBitmapInternal", ":=");
  ("makePush", "+=");
  ("opJump", "=");
  ("opJumpi", "=");
  ("opPush1", "+=")
].
Definition abort_users_reviewed : list (string * string) := [
  ("EVM.Cancel", "Store(true)");
  ("EVM.Cancelled", "Load");
  ("opJump", "Load");
  ("opJumpi", "Load")
].

Theorem flow_ok : pc_writers = pc_writers_reviewed /\ abort_users = abort_users_reviewed.
Proof. split; reflexivity. Qed.
