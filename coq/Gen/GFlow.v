(* Gen/GFlow.v — reviewed control-flow facts about /repo/vm, compared with what `vh gen` reads from the syntax trees
   (Gen/Flow.v) on every run.  They are the premises under which Model/Cancel.v describes the interpreter loop:
   - the program counter of a running frame is advanced by the loop itself (`pc++` in EVMInterpreter.Run) and by the
     PUSH instructions (`*pc += size`); the only functions that ASSIGN it are opJump and opJumpi
     (codeBitmapInternal has a local variable of the same name: jump-destination analysis, not the interpreter);
   - the abort flag is read by opJump, opJumpi and Cancelled() only, and the only store is Cancel's `Store(true)`:
     nothing ever clears it. *)
From Coq Require Import String List NArith Bool.
From Verif Require Import Gen.Flow Gen.Tables Gen.GenProps.
Import ListNotations.
Open Scope string_scope.

Definition pc_writers_reviewed : list (string * string) := [
  ("EVMInterpreter.Run", "++");
  ("codeBitmapInternal", "++");
  ("codeBitmapInternal", "+=");
  ("codeBitmapInternal", ":=");
  ("makePush", "+=");
  ("opJump", "=");
  ("opJumpi", "=");
  ("opPush1", "+=")
].
Definition abort_users_reviewed : list (string * string) := [
  ("EVM.Cancel", "Store(true)");
  ("EVM.Cancelled", "Load");
  ("opJump", "Load");
  ("opJumpi", "Load")
].

Theorem flow_ok : pc_writers = pc_writers_reviewed /\ abort_users = abort_users_reviewed.
Proof. split; reflexivity. Qed.

(** the shared 256-bit values of vm/constants.go (zero, one, two, eight, oneSlot, storageMask) are package-level pointers;
    uint256 arithmetic works in place on its receiver.  No function uses one of them as the receiver of a modifying method,
    assigns it or takes its address: an execution cannot change what the next one in the process computes with them. *)
Theorem shared_constants_never_written : const_writes = [].
Proof. reflexivity. Qed.

(** ... and where these functions sit in the live instruction tables of every fork and every extra-EIP variant: opJump at
    0x56 only, opJumpi at 0x57 only, the PUSH functions (opPush1, makePush closures) exactly at 0x60..0x7f — this is what
    [is_jump_op] and [push_len] of Model/Cancel.v say about an opcode byte. *)
Open Scope N_scope.
Definition control_entries_ok (t : list entry) : bool :=
  Nat.eqb (length t) 256 &&
  forallb (fun p => match p with (i, e) =>
     let x := sym_of e 0 in
     Bool.eqb (String.eqb x "opJump") (i =? 0x56) && Bool.eqb (String.eqb x "opJumpi") (i =? 0x57) &&
     Bool.eqb (String.eqb x "opPush1" || String.eqb x "makePush") ((0x60 <=? i) && (i <=? 0x7f)) end)
   (combine (map N.of_nat (seq 0 256)) t).
Definition control_tables_ok : bool :=
  forallb (fun f => match f with (_, a, after) => control_entries_ok a && control_entries_ok after end) forks_artela &&
  forallb (fun f => match f with (_, a, _) => control_entries_ok a end) eip_variants.
Theorem gen_control_tables : control_tables_ok = true.
Proof. vm_compute. reflexivity. Qed.
