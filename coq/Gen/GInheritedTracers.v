(* Gen/GInheritedTracers.v — one generated-data theorem per file so that a broken one breaks only the properties that use it *)
From Coq Require Import String NArith List Bool.
From Verif Require Import Gen.Digests Gen.Tables Gen.Pins Gen.GenProps.
Import ListNotations.
Open Scope N_scope.
Theorem gen_inherited_tracers : inherited_ok ["tracers"; "tracers/logger"; "tracers/native"]%string && pins_live && nothing_deleted = true.
Proof. vm_compute. reflexivity. Qed.
