(* Corr/PrecompileCorr.v — evaluation side of the correspondence check for Model/Precompile.v.
   Case line:  kind caller addr input gas result gasleft [hostcalls] cmpgas
   [pc_check_items] re-computes the case with the model under the same deterministic host
   oracle the harness installs and says whether the implementation's observation agrees. *)
From Verif Require Import Base.Bytes Model.Precompile Corr.Items.
Open Scope N_scope.

Definition first_is_ee (b : bytes) : bool := match b with x :: _ => x =? 0xEE | [] => false end.
Definition test_host (c : hostcall) : res bytes :=
  match c with
  | HGet a k => if first_is_ee k then Err "host get failed" else Ok (k ++ a)
  | HSet f k v => if first_is_ee k then Err "host set failed" else Ok []
  | HJit h => if nth 31 h 0 =? 0xEE then Err "host jit failed" else Ok (skipn 12 h)
  end.

Definition kind_of (n : N) : callkind :=
  match n with 0 => KCall | 1 => KCallCode | 2 => KDelegateCall | _ => KStaticCall end.

Definition item_hostcall (i : item) : option hostcall :=
  match i with
  | IL [IN 0; IB a; IB k] => Some (HGet a k)
  | IL [IN 1; IB f; IB k; IB v] => Some (HSet f k v)
  | IL [IN 2; IB h] => Some (HJit h)
  | _ => None
  end.

Fixpoint hcalls_match (a : list hostcall) (b : list item) : bool :=
  match a, b with
  | [], [] => true
  | x :: s, y :: t => match item_hostcall y with Some y' => hostcall_eqb x y' && hcalls_match s t | None => false end
  | _, _ => false
  end.

Definition pc_check_items (c : list item) : option bool :=
  match c with
  | [IN kind; IB caller; IN addr; IB input; IN gas; obs; IN gleft; IL calls; IN cmpgas] =>
    let '(r, g, mcalls) := call_artela test_host (kind_of kind) caller addr input gas in
    Some ((if cmpgas =? 1 then res_matches r obs && (g =? gleft)
           else match item_res obs with
                | Some o => Bool.eqb (is_ok r) (is_ok o) && negb (is_panic o) && negb (is_panic r)
                | None => false end)
          && hcalls_match mcalls calls)
  | _ => None
  end.

(** Executable statement of C14 on one observation (independent of the model's code path: it uses
    the unbounded-integer ABI specification [abi_bytes_at]).  Answer: 1 = satisfied, 0 = violated,
    11 = violated in the way of known finding F11 (a payload shorter than the minimum is answered
    with success and empty output instead of an error). *)
Definition decodes_kv (input : bytes) : option (bytes * bytes) :=
  match abi_bytes_at input 0, abi_bytes_at input 1 with
  | Some k, Some v => Some (k, v)
  | _, _ => None
  end.

Definition host_unit (r : res bytes) : res bytes :=
  match r with Ok _ => Ok [] | Err e => Err e | Panic w => Panic w end.

Definition pcs_check_items (c : list item) : option N :=
  match c with
  | [IN kind; IB caller; IN addr; IB input; IN gas; obs; IN gleft; IL calls; IN cmpgas] =>
    match item_res obs with
    | None => None
    | Some o =>
      let top := cmpgas =? 1 in
      let attributed :=
        forallb (fun h => match item_hostcall h with
                          | Some (HSet f _ _) => bytes_eqb f caller && (kind =? 0) && (addr =? 0x66)
                          | Some (HGet _ _) => addr =? 0x64
                          | Some (HJit _) => addr =? 0x65
                          | None => false end) calls in
      let nocalls := match calls with [] => true | _ => false end in
      let gas_ok := negb top || (if is_ok o then (precompile_fee <=? gas) && (gleft =? gas - precompile_fee) else gleft =? 0) in
      if is_panic o then Some 0
      else if negb attributed then Some 0
      else if negb gas_ok then Some 0
      else if top && (gas <? precompile_fee) then Some (if is_err o && nocalls then 1 else 0)
      else if addr =? 0x66 then
        match decodes_kv input with
        | Some (k, v) =>
          if blen input <? 128 then Some 0 (* impossible: a decodable pair needs 128 bytes *)
          else if kind =? 0 then
            Some (if hcalls_match [HSet caller k v] calls &&
                     (if top then res_matches (host_unit (test_host (HSet caller k v))) obs
                      else Bool.eqb (is_ok o) (is_ok (test_host (HSet caller k v)))) then 1 else 0)
          else Some (if is_err o && nocalls then 1 else 0)
        | None =>
          if is_err o && nocalls then Some 1
          else if (blen input <? 128) && is_ok o && nocalls then Some 11
          else Some 0
        end
      else if addr =? 0x64 then
        if blen input <? 20 then (if is_err o && nocalls then Some 1 else if is_ok o && nocalls then Some 11 else Some 0)
        else let hc := HGet (firstn 20 input) (skipn 20 input) in
             Some (if hcalls_match [hc] calls && (if top then res_matches (test_host hc) obs else Bool.eqb (is_ok o) (is_ok (test_host hc))) then 1 else 0)
      else if addr =? 0x65 then
        if blen input =? 0 then (if is_err o && nocalls then Some 1 else if is_ok o && nocalls then Some 11 else Some 0)
        else if blen input =? 32 then
          let hc := HJit input in
          Some (if hcalls_match [hc] calls &&
                   (if top then res_matches (match test_host hc with Ok a => Ok (left_pad 32 a) | r => r end) obs
                    else Bool.eqb (is_ok o) (is_ok (test_host hc))) then 1 else 0)
        else Some 1 (* hash payloads of other lengths: left to the model comparison *)
      else None
    end
  | _ => None
  end.
