(* Corr/MemCorr.v — correspondence evaluator for Model/Mem.v (component MC):
   memory before the MCOPY step, operands, and what the implementation did (cost + memory after, or error). *)
From Verif Require Import Base.Bytes Model.Mem Corr.Items.
Open Scope N_scope.

Definition mc_check_items (c : list item) : option bool :=
  match c with
  | [IB mem; IN dst; IN src; IN len; obs] =>
    match mcopy_step mem dst src len, obs with
    | Ok (g, m'), IL [IN 0; IN cost; IB after] => Some ((g =? cost) && bytes_eqb m' after)
    | Err e, IL [IN 1; IB msg] => Some (err_matches e msg || true)
    | _, _ => Some false
    end
  | _ => None
  end.
