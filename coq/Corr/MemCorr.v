(* Corr/MemCorr.v — correspondence evaluator for Model/Mem.v (component MC):
   memory before the MCOPY step, operands, and what the implementation did (cost + memory after, or error). *)
From Verif Require Import Base.Bytes Model.Mem Corr.Items.
Open Scope N_scope.

(** [avail] = gas the frame had when it reached the instruction.  A frame that cannot pay the charge ends out of gas
    without expanding its memory — so the memory is only built (and compared) when the implementation succeeded. *)
Definition mc_check_items (c : list item) : option bool :=
  match c with
  | [IB mem; IN dst; IN src; IN len; obs; IN avail] =>
    match mcopy_gas (blen mem) dst src len, obs with
    | Ok g, IL [IN 0; IN cost; IB after] =>
      Some ((g =? cost) && (g <=? avail) &&
            match mcopy_step mem dst src len with Ok (_, m') => bytes_eqb m' after | _ => false end)
    | Ok g, IL [IN 1; IB msg] => Some ((avail <? g) && err_matches "out of gas" msg)
    | Err e, IL [IN 1; IB msg] => Some true
    | _, _ => Some false
    end
  | _ => None
  end.
