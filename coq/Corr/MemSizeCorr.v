(* Corr/MemSizeCorr.v — correspondence evaluator for Model/MemSize.v and Model/MemGas.v (component MS): one successfully started instruction:
   [IN op; IL stack (top first, at most 7 words); IN memory length the instruction saw; IN memory length its successor in the frame saw;
    IN cost reported to the tracer (constant + dynamic gas); IN 1 = Shanghai rules or later]
   (the interpreter reports a step to the tracer before it expands the memory for it).  The cost is compared for the instructions
   [step_cost] covers, from the bookkeeping state the invariant of Proofs/MemGas_proofs.v gives: lastGasCost = mem_fee (length / 32). *)
From Verif Require Import Base.Bytes Model.Mem Model.MemSize Model.MemGas Corr.Items.
Open Scope N_scope.
Fixpoint items_Ns (l : list item) : option (list N) :=
  match l with [] => Some [] | IN n :: t => match items_Ns t with Some r => Some (n :: r) | None => None end | _ => None end.
Definition ms_check_items (c : list item) : option bool :=
  match c with
  | [IN op; IL st; IN before; IN after; IN cost; IN sh] =>
    match items_Ns st with
    | Some s => Some ((match mem_after op s before with Some a => a =? after | None => false end) &&
                      (match (if (op =? 0xf0) || (op =? 0xf5) then create_cost (negb (sh =? 0)) op s (before, mem_fee (before / 32))
                             else step_cost op s (before, mem_fee (before / 32))) with Some g => g =? cost | None => true end))
    | None => None
    end
  | _ => None
  end.
