(* Corr/TracerCorr.v — correspondence evaluator for Model/KeyTree.v, CallTree.v, Tracer.v against
   the exported API of vm.Tracer (component TH: a history of operations and queries, each with the
   answer the implementation gave). *)
From Verif Require Import Base.Bytes Model.KeyTree Model.CallTree Model.Tracer Corr.Items.
Open Scope N_scope.

Definition opt_n (i : item) : option (option N) :=
  match i with IL [] => Some None | IL [IN x] => Some (Some x) | _ => None end.
Definition opt_nn (i : item) : option (option (N * N)) :=
  match i with IL [] => Some None | IL [IN x; IN y] => Some (Some (x, y)) | _ => None end.

Fixpoint items_bytes (l : list item) : option (list bytes) :=
  match l with
  | [] => Some []
  | IB b :: t => match items_bytes t with Some r => Some (b :: r) | None => None end
  | _ => None
  end.
Fixpoint items_nats (l : list item) : option (list nat) :=
  match l with
  | [] => Some []
  | IN n :: t => match items_nats t with Some r => Some (N.to_nat n :: r) | None => None end
  | _ => None
  end.

Fixpoint list_eqb {A} (eq : A -> A -> bool) (a b : list A) : bool :=
  match a, b with
  | [], [] => true
  | x :: s, y :: t => eq x y && list_eqb eq s t
  | _, _ => false
  end.

(** changes sorted by call index (the Go side is a map) *)
Fixpoint insert_chg (x : N * list bytes) (l : changes) : changes :=
  match l with
  | [] => [x]
  | y :: t => if fst x <=? fst y then x :: l else y :: insert_chg x t
  end.
Definition sort_chg (c : changes) : changes := fold_right insert_chg [] c.

Fixpoint chg_items_match (c : changes) (l : list item) : bool :=
  match c, l with
  | [], [] => true
  | (k, vs) :: s, IL [IN k'; IL vs'] :: t =>
    (k =? k') && match items_bytes vs' with Some b => list_eqb bytes_eqb vs b | None => false end && chg_items_match s t
  | _, _ => false
  end.
(** observed: [IL []] = nil pointer, [IL [IL entries]] = a StorageChanges *)
Definition chg_match (c : option changes) (i : item) : bool :=
  match c, i with
  | None, IL [] => true
  | Some c, IL [IL l] => chg_items_match (sort_chg c) l
  | _, _ => false
  end.

Definition unit_res_match (r : res unit) (i : item) : bool :=
  match r, i with
  | Ok _, IL [IN 0; IB _] => true
  | Err e, IL [IN 1; IB m] => err_matches e m
  | _, _ => false
  end.

Definition opt_str_match (e : option string) (i : item) : bool :=
  match e, i with
  | None, IL [] => true
  | Some s, IL [IB m] => bytes_eqb (string_to_bytes s) m
  | _, _ => false
  end.
Definition opt_nat_match (e : option nat) (i : item) : bool :=
  match e, i with
  | None, IL [] => true
  | Some k, IL [IN m] => N.of_nat k =? m
  | _, _ => false
  end.
Definition opt_N_match (e : option N) (i : item) : bool :=
  match e, i with
  | None, IL [] => true
  | Some k, IL [IN m] => k =? m
  | _, _ => false
  end.

Definition call_match (c : call) (i : item) : bool :=
  match i with
  | IL [IN from; to; IB data; IN value; IN gas; parent; IL ch; IB ret; IN rgas; err] =>
    (c_from c =? from) && opt_N_match (c_to c) to && bytes_eqb (c_data c) data && (c_value c =? value) &&
    (c_gas c =? gas) && opt_nat_match (c_parent c) parent &&
    match items_nats ch with Some l => list_eqb Nat.eqb (c_children c) l | None => false end &&
    bytes_eqb (c_ret c) ret && (c_rgas c =? rgas) && opt_str_match (c_err c) err
  | _ => false
  end.
Fixpoint calls_match (cs : list call) (l : list item) : bool :=
  match cs, l with
  | [], [] => true
  | c :: s, i :: t => call_match c i && calls_match s t
  | _, _ => false
  end.

Definition key_obs_match (t : tracer) (k : option id) (obs : item) : bool :=
  match k, obs with
  | None, IL [] => true
  | Some k, IL [IN slot; IN off; IN nt; IL ch; chg] =>
    match nth_error (nodes (tk t)) k with
    | Some n =>
      (n_slot n =? slot) && (n_off n =? off) && (node_type (tk t) k =? nt) &&
      match items_bytes ch with Some l => list_eqb bytes_eqb (children_indices (tk t) k) l | None => false end &&
      chg_match (changes_of (tk t) k) chg
    | None => false
    end
  | _, _ => false
  end.

(** one operation or query: new state and whether the observation agrees *)
Definition th_step (t : tracer) (op : item) : option (tracer * bool) :=
  match op with
  | IL [IN 0; IN acct; parent; IN slot; off; IN ty; IB data; obs] =>
    match opt_nn parent, opt_n off with
    | Some p, Some o => let '(t', r) := t_save_key t acct p slot o ty data in Some (t', unit_res_match r obs)
    | _, _ => None end
  | IL [IN 1; IN acct; IN slot; off; IN ty; IB v; obs] =>
    match opt_n off with
    | Some o => let '(t', r) := t_save_change t acct slot o ty v in Some (t', unit_res_match r obs)
    | None => None end
  | IL [IN 2; IN from; to; IB data; IN value; IN gas] =>
    match opt_n to with Some to' => Some (t_save_call t from to' data value gas, true) | None => None end
  | IL [IN 3; IN rgas; IB ret; err] =>
    match err with
    | IL [] => Some (t_exit_call t rgas ret None, true)
    | IL [IB m] => Some (t_exit_call t rgas ret (Some (string_of_list_ascii (map ascii_of_N m))), true)
    | _ => None end
  | IL [IN 4; IN from; IN to; IN b0f; IN b0t; IN b1f; IN b1t] =>
    Some (t_transfer_record t from to b0f b0t b1f b1t, true)
  | IL [IN 5; IN acct; IN slot; IN w] => Some (t_save_raw t acct slot w, true)
  | IL [IN 10; IN acct; IB name; IL idxs; obs] =>
    match items_bytes idxs with
    | Some ix => Some (t, key_obs_match t (find_key_indices (tk t) acct name ix) obs)
    | None => None end
  | IL [IN 11; IN acct; IN slot; off; IN ty; obs] =>
    match opt_n off with
    | Some o =>
      Some (t, match slot_lookup (tk t) acct slot o ty, obs with
               | Ok c, IL [IN 0; chg] => chg_match c chg
               | Err e, IL [IN 1; IB m] => err_matches e m
               | _, _ => false end)
    | None => None end
  | IL [IN 12; IN acct; IB name; IL idxs; obs] =>
    match items_bytes idxs with
    | Some ix =>
      Some (t, match indices_of_changes (tk t) acct name ix, obs with
               | None, IL [IN 0] => true
               | Some l, IL [IN 1; IL l'] => match items_bytes l' with Some b => list_eqb bytes_eqb l b | None => false end
               | _, _ => false end)
    | None => None end
  | IL [IN 13; IN acct; chg] => Some (t, chg_match (balance (tk t) acct) chg)
  | IL [IN 14; IL nodes; cur] =>
    Some (t, calls_match (calls (tc t)) nodes && opt_nat_match (current (tc t)) cur)
  | IL [IN 15; IN acct; IB name; IL idxs; chg] =>
    match items_bytes idxs with
    | Some ix => Some (t, chg_match (variable (tk t) acct name ix) chg)
    | None => None end
  | IL [IN 16; IN acct; IB name; IL idxs; IN slot; off; IN ty; IN agree] =>
    (* do the lookup by path and the lookup by (slot, offset, type) reach the same record,
       and does that record carry changes?  (observed through pointer equality) *)
    match items_bytes idxs, opt_n off with
    | Some ix, Some o =>
      let m := match find_key_indices (tk t) acct name ix, offset_u8 o with
               | Some i, Ok o8 =>
                 match find_key (tk t) acct slot o8 ty with
                 | Some j => Nat.eqb i j && match changes_of (tk t) i with Some _ => true | None => false end
                 | None => false end
               | _, _ => false end in
      Some (t, Bool.eqb m (agree =? 1))
    | _, _ => None end
  | _ => None
  end.

Fixpoint th_run (t : tracer) (ops : list item) : option bool :=
  match ops with
  | [] => Some true
  | o :: rest =>
    match th_step t o with
    | Some (t', ok) => if ok then th_run t' rest else Some false
    | None => None
    end
  end.

(** same, returning the final state *)
Fixpoint th_run_state (t : tracer) (ops : list item) : option (tracer * bool) :=
  match ops with
  | [] => Some (t, true)
  | o :: rest =>
    match th_step t o with
    | Some (t', ok) => if ok then th_run_state t' rest else Some (t', false)
    | None => None
    end
  end.

Definition th_check_items (c : list item) : option bool :=
  match c with
  | [IL ops] => th_run tracer_empty ops
  | _ => None
  end.
