(* Corr/CancelCorr.v — correspondence evaluator for Model/Cancel.v (component CN): the code of one frame and the program
   counters it executed from the moment Cancel() had been called (observed through CaptureState on the real interpreter).
   The model: they are a prefix of the straight-line path from the first of them, checked step by step ([follows]). *)
From Verif Require Import Base.Bytes Model.Cancel Corr.Items.
Open Scope N_scope.

Fixpoint items_nats (l : list item) : option (list nat) :=
  match l with
  | [] => Some []
  | IN n :: t => match items_nats t with Some r => Some (N.to_nat n :: r) | None => None end
  | _ => None
  end.

Definition cn_check_items (c : list item) : option bool :=
  match c with
  | [IB code; IL pcs] =>
    match items_nats pcs with
    | Some [] => Some true
    | Some (p0 :: rest) => Some (follows code (p0 :: rest))      (* implied by the theorem: Proofs/Cancel_proofs.v prefix_follows *)
    | None => None
    end
  | _ => None
  end.
