(* Corr/JumpDestCorr.v — correspondence evaluator for Model/JumpDest.v (component JD): a code, a destination (256-bit word)
   and whether the interpreter's JUMP to it was accepted.  The model runs the byte-level bit-vector analysis itself. *)
From Verif Require Import Base.Bytes Model.JumpDest Corr.Items.
Open Scope N_scope.

Definition jd_check_items (c : list item) : option bool :=
  match c with
  | [IB code; IN d; IN obs] =>
    match item_bool (IN obs) with
    | Some accepted =>
      if 0x10000 <=? d then Some (negb accepted)        (* beyond any code the harness builds; also every d >= 2^64 *)
      else match valid_jumpdest code (N.to_nat d) with
           | Ok v => Some (Bool.eqb v accepted)
           | _ => Some false
           end
    | None => None
    end
  | _ => None
  end.
