(* Corr/CallGasCorr.v — correspondence evaluator for Model/CallGas.v (component CG): one executed CALL-family instruction:
   [IN eip150; IN gas before; IN total charge; IN requested (256-bit operand); IN value<>0; IN kind; IN forwarded; IL [callee gas]?]
   The charge includes the forwarded amount: what is left after the instruction's other costs is gas - (charge - forwarded). *)
From Verif Require Import Base.Bytes Model.CallGas Corr.Items.
Open Scope N_scope.

Definition cg_check_items (c : list item) : option bool :=
  match c with
  | [IN e; IN gas; IN cost; IN req; IN v; IN kind; IN fwd; IL callee] =>
    match item_bool (IN e), item_bool (IN v) with
    | Some eip150, Some value =>
      if (cost <? fwd) || (gas <? cost - fwd) then Some false else
      let left := gas - (cost - fwd) in
      Some (match call_gas eip150 left 0 req with Ok g => g =? fwd | _ => false end &&
            match callee with
            | [] => true                                   (* refused before the callee frame was announced *)
            | [IN cgas] => cgas =? callee_gas kind value fwd
            | _ => false
            end)
    | _, _ => None
    end
  | _ => None
  end.
