(* Corr/CallTracerCorr.v — correspondence evaluator for Model/CallTracer.v (component TR): an event
   stream, the configuration, and the nested / flat results the real tracers produced. *)
From Verif Require Import Base.Bytes Model.CallTracer Corr.Items Corr.TracerCorr.
Open Scope N_scope.

Definition bytes_to_str (b : bytes) : string := string_of_list_ascii (map ascii_of_N b).
Definition opt_err (i : item) : option string :=
  match i with IL [IB m] => Some (bytes_to_str m) | _ => None end.

Fixpoint items_Ns (l : list item) : option (list N) :=
  match l with
  | [] => Some []
  | IN n :: t => match items_Ns t with Some r => Some (n :: r) | None => None end
  | _ => None
  end.

Definition item_tev (i : item) : option tev :=
  match i with
  | IL [IN 0; IN g] => Some (TTxStart g)
  | IL [IN 1; IN r] => Some (TTxEnd r)
  | IL [IN 2; IN f; IN t; IN c; IB inp; IN g; IN v] => Some (TStart f t (negb (c =? 0)) inp g v)
  | IL [IN 3; IB out; IN u; e] => Some (TEnd out u (opt_err e))
  | IL [IN 4; IN ty; IN f; IN t; IB inp; IN g; v] =>
    match opt_n v with Some v' => Some (TEnter ty f t inp g v') | None => None end
  | IL [IN 5; IB out; IN u; e] => Some (TExit out u (opt_err e))
  | IL [IN 6; IN jp; IN f; IN t; IN a; IB inp; IN g; v] =>
    match opt_n v with Some v' => Some (TAspEnter jp f t a inp g v') | None => None end
  | IL [IN 7; IN jp; IN g; IB ret; e] => Some (TAspExit jp g ret (opt_err e))
  | IL [IN 8; IN addr; IL topics; IB data] =>
    match items_Ns topics with Some ts => Some (TLog addr ts data) | None => None end
  | _ => None
  end.
Fixpoint items_tevs (l : list item) : option (list tev) :=
  match l with
  | [] => Some []
  | i :: t => match item_tev i, items_tevs t with Some e, Some r => Some (e :: r) | _, _ => None end
  end.

Fixpoint logs_match (l : list clog) (o : list item) : bool :=
  match l, o with
  | [], [] => true
  | (addr, topics, data) :: s, IL [IN addr'; IL topics'; IB data'] :: t =>
    (addr =? addr') && match items_Ns topics' with Some ts => list_eqb N.eqb topics ts | None => false end &&
    bytes_eqb data data' && logs_match s t
  | _, _ => false
  end.

(** withLog off: LOG steps are not looked at; withLog on: CaptureTxEnd also clears the logs of failed frames *)
Fixpoint with_log_stream (with_log : bool) (es : list tev) : list tev :=
  match es with
  | [] => []
  | TLog a t d :: r => if with_log then TLog a t d :: with_log_stream with_log r else with_log_stream with_log r
  | TTxEnd g :: r => if with_log then TTxEnd g :: TClearLogs :: with_log_stream with_log r else TTxEnd g :: with_log_stream with_log r
  | e :: r => e :: with_log_stream with_log r
  end.

(** compare a model frame with the observed frame item (structural recursion on the item) *)
Fixpoint cframe_match (fuel : nat) (f : cframe) (i : item) : bool :=
  match fuel with
  | O => false
  | S k =>
    match f, i with
    | CF typ from to input gas used out err calls jps value logs,
      IL [IN typ'; IN from'; to'; IB input'; IN gas'; IN used'; IB out'; IB err'; IL calls'; IL jps'; value'; IL logs'] =>
      logs_match logs logs' &&
      (typ =? typ') && (from =? from') && opt_N_match to to' && bytes_eqb input input' && (gas =? gas') && (used =? used') &&
      bytes_eqb out out' && bytes_eqb (string_to_bytes err) err' && opt_N_match value value' &&
      (fix cm (a : list cframe) (b : list item) : bool :=
         match a, b with [], [] => true | x :: s, y :: t => cframe_match k x y && cm s t | _, _ => false end) calls calls' &&
      (fix am (a : list aframe) (b : list item) : bool :=
         match a, b with [], [] => true | x :: s, y :: t => aframe_match k x y && am s t | _, _ => false end) jps jps'
    | _, _ => false
    end
  end
with aframe_match (fuel : nat) (a : aframe) (i : item) : bool :=
  match fuel with
  | O => false
  | S k =>
    match a, i with
    | AF jp asp from to input gas used out err calls value _,
      IL [IN jp'; IN asp'; IN from'; IN to'; IB input'; IN gas'; IN used'; IB out'; IB err'; IL calls'; IN value'] =>
      (jp =? jp') && (asp =? asp') && (from =? from') && (to =? to') && bytes_eqb input input' && (gas =? gas') && (used =? used') &&
      bytes_eqb out out' && bytes_eqb (string_to_bytes err) err' && (value =? value') &&
      (fix cm (a : list cframe) (b : list item) : bool :=
         match a, b with [], [] => true | x :: s, y :: t => cframe_match k x y && cm s t | _, _ => false end) calls calls'
    | _, _ => false
    end
  end.

Fixpoint flat_match (l : list flat) (o : list item) : bool :=
  match l, o with
  | [], [] => true
  | f :: s, IL [IL addr; IN sub; IN isasp; IB err; IN typ; IN from; to; IN gas; IB input; value; IN has; IN used; IB out] :: t =>
    match items_nats addr with
    | Some a => list_eqb Nat.eqb (fl_addr f) a && (N.of_nat (fl_subtraces f) =? sub) && Bool.eqb (fl_is_aspect f) (isasp =? 1) &&
                bytes_eqb (string_to_bytes (fl_err f)) err && (fl_typ f =? typ) && (fl_from f =? from) && opt_N_match (fl_to f) to &&
                (fl_gas f =? gas) && bytes_eqb (fl_input f) input && opt_N_match (fl_value f) value &&
                Bool.eqb (fl_has_result f) (has =? 1) && (fl_used f =? used) && bytes_eqb (fl_output f) out && flat_match s t
    | None => false end
  | _, _ => false
  end.

(** precompile addresses the flat tracer filters (Berlin and later: 1..9 and the Artela ones) *)
Definition is_active_precompile (a : N) : bool := ((1 <=? a) && (a <=? 9)) || ((0x64 <=? a) && (a <=? 0x66)).

Definition lift {A B} (r : res A) (f : A -> res B) : res B :=
  match r with Ok x => f x | Err e => Err e | Panic e => Panic e end.

(** kind 0: callTracer (only-top-call flag); kind 1: flatCallTracer (include-precompiles, parity errors) *)
Definition tr_check_items (c : list item) : option bool :=
  match c with
  | [IN 0; IN onlytop; IN withlog; IL evs; obs] =>
    match items_tevs evs with
    | None => None
    | Some es0 =>
      let es := with_log_stream (negb (withlog =? 0)) es0 in
      Some (match lift (ct_run (negb (onlytop =? 0)) t_init es) ct_result, obs with
            | Ok f, IL [IN 0; fi] => cframe_match 200 f fi
            | Err _, IL [IN 1; IB _] => true
            | Panic _, IL [IN 2; IB _] => true
            | _, _ => false
            end)
    end
  | [IN 1; IN include_pre; IN convert; IL evs; obs] =>
    match items_tevs evs with
    | None => None
    | Some es =>
      Some (match lift (ctf_run (negb (include_pre =? 0)) is_active_precompile t_init es) (ctf_result (negb (convert =? 0)) flat_fuel), obs with
            | Ok l, IL [IN 0; IL fo] => flat_match l fo
            | Err _, IL [IN 1; IB _] => true
            | Panic _, IL [IN 2; IB _] => true
            | _, _ => false
            end)
    end
  | _ => None
  end.
