(* Corr/ModExpCorr.v — correspondence evaluator for Model/ModExp.v (component MG): [IN eip2565; IB input; IN gas] *)
From Verif Require Import Base.Bytes Model.ModExp Corr.Items.
Open Scope N_scope.
Definition mg_check_items (c : list item) : option bool :=
  match c with
  | [IN e; IB input; IN gas] =>
    match item_bool (IN e) with
    | Some eip2565 => Some (modexp_required_gas eip2565 input =? gas)
    | None => None
    end
  | _ => None
  end.
