(* Corr/ExecCorr.v — correspondence evaluator for the frame model (component EX).
   A case carries the configuration, the pre-state, the Aspect bindings and behaviours, the entry
   point, the recorded per-frame instruction scripts, and everything the implementation showed:
   result, interleaved event stream, call tree, world state, journal queries. *)
From Verif Require Import Base.Bytes Model.KeyTree Model.CallTree Model.Tracer Model.Precompile Model.Exec Model.ScriptInst
  Corr.Items Corr.TracerCorr Corr.PrecompileCorr Corr.JournalCorr.
Open Scope N_scope.

Definition item_flag (i : item) : bool := match i with IN 0 => false | _ => true end.

Definition bytes_to_string (b : bytes) : string := string_of_list_ascii (map ascii_of_N b).

Definition item_verr (i : item) : option (option verr) :=
  match i with
  | IL [] => Some None
  | IL [IN 0] => Some (Some VRevert)
  | IL [IN 1] => Some (Some VOog)
  | IL [IN 2; IB t] => Some (Some (VOther (bytes_to_string t)))
  | _ => None
  end.

Definition item_effect (i : item) : option effect :=
  match i with
  | IL [IN 0; IN k; IN v] => Some (ESStore k v)
  | IL [IN 1; IN k; IN v] => Some (ETStore k v)
  | IL [IN 2; IN n] => Some (ELog n)
  | IL [IN 3; IN b] => Some (ESuicide b)
  | _ => None
  end.
Fixpoint items_effects (l : list item) : option (list effect) :=
  match l with
  | [] => Some []
  | i :: t => match item_effect i, items_effects t with Some e, Some r => Some (e :: r) | _, _ => None end
  end.

Fixpoint items_pairs (l : list item) : list (N * N) :=
  match l with
  | IL [IN a; IN b] :: t => (a, b) :: items_pairs t
  | _ :: t => items_pairs t
  | [] => []
  end.

(** scripts are trees: decode with explicit fuel (the nesting depth of the item itself bounds it) *)
Fixpoint item_script (fuel : nat) (l : list item) {struct fuel} : option script :=
  match fuel with
  | O => None
  | S f =>
    (fix go (l : list item) : option script :=
       match l with
       | [] => Some []
       | a :: t =>
         let act :=
           match a with
           | IL [IN 0; IN pc; IN op; IN cost; IL eff] =>
             match items_effects eff with Some e => Some (AOp pc op cost e) | None => None end
           | IL [IN 1; IN pc; IN op; IN cost; IN k; IN to; IB input; IN gas; IN value; IL sub] =>
             match item_script f sub with
             | Some s => Some (ACall pc op cost (match k with 0 => KCall | 1 => KCallCode | 2 => KDelegateCall | _ => KStaticCall end)
                                     to input gas value s)
             | None => None end
           | IL [IN 2; IN pc; IN op; IN cost; IN typ; IB code; IN gas; IN value; IN addr; IL sub] =>
             match item_script f sub with Some s => Some (ACreate pc op cost typ code gas value addr s) | None => None end
           | IL [IN 3; IN pc; IN op; IN cost; IL stack; IB mem; IL stor] =>
             match items_Ns stack with Some sk => Some (AJournal pc op cost sk mem (items_pairs stor)) | None => None end
           | IL [IN 4; IN pc; IN op; IN cost; IB ret; err; IL eff] =>
             match item_verr err, items_effects eff with Some e, Some ef => Some (AHalt pc op cost ret e ef) | _, _ => None end
           | _ => None
           end in
         match act, go t with Some x, Some r => Some (x :: r) | _, _ => None end
       end) l
  end.

(** pre-state *)
Fixpoint world_accounts (l : list item) (w : sworld) : sworld :=
  match l with
  | IL [IN a; IN bal; IN nonce; IB code; IN ex] :: t =>
    world_accounts t
      {| sw_bal := aset N.eqb (sw_bal w) a bal; sw_nonce := aset N.eqb (sw_nonce w) a nonce; sw_stor := sw_stor w;
         sw_tstor := sw_tstor w; sw_code := aset N.eqb (sw_code w) a code;
         sw_exist := if ex =? 1 then add_addr a (sw_exist w) else sw_exist w; sw_logs := sw_logs w;
         sw_suicide := sw_suicide w; sw_acl := sw_acl w |}
  | _ :: t => world_accounts t w
  | [] => w
  end.
Fixpoint world_storage (l : list item) (w : sworld) : sworld :=
  match l with
  | IL [IN a; IN k; IN v] :: t => world_storage t (apply_effect a w (ESStore k v))
  | _ :: t => world_storage t w
  | [] => w
  end.
Definition empty_world : sworld :=
  {| sw_bal := []; sw_nonce := []; sw_stor := []; sw_tstor := []; sw_code := []; sw_exist := []; sw_logs := [];
     sw_suicide := []; sw_acl := [] |}.

(** provider table: [ [pre contract kind [ids]] ], default: nothing bound *)
Fixpoint bound_of (tbl : list item) (pre : bool) (contract : N) : res (list N) :=
  match tbl with
  | IL [IN p; IN c; IN kind; IL ids] :: t =>
    if Bool.eqb (negb (p =? 0)) pre && (c =? contract) then
      (if kind =? 0 then match items_Ns ids with Some l => Ok l | None => Ok [] end else Err "provider error"%string)
    else bound_of t pre contract
  | _ :: t => bound_of t pre contract
  | [] => Ok []
  end.

(** Aspect behaviours, indexed by firing number: [burn errkind ret] *)
Definition aspect_of (tbl : list item) (n : nat) (pre : bool) (a gas : N) (p : jpin) : bytes * N * option string :=
  match nth_error tbl n with
  | Some (IL [IN burn; IN kind; IB ret]) =>
    let left := if burn <=? gas then gas - burn else 0 in
    match kind with
    | 0 => (ret, left, None)
    | 1 => ([], 0, Some "out of gas"%string)
    | 2 => ([], left, Some "execution reverted"%string)
    | 4 => ([], left, Some "aspect: inner call failed: out of gas"%string)   (* contains the words, is not the out-of-gas error *)
    | 5 => ([], left, Some "contract creation code storage out of gas"%string)
    | _ => ([], left, Some "aspect failed"%string)
    end
  | _ => ([], gas, None)
  end.

(** ** comparing the model's events with the implementation's *)
(** observed errors are encoded like script errors: [] none, [0] the interpreter's revert (identity),
    [1] the EVM's out-of-gas (identity), [2 text] anything else (texts compared by class) *)
Definition opt_verr_match (e : option verr) (i : item) : bool :=
  match e, item_verr i with
  | None, Some None => true
  | Some VRevert, Some (Some VRevert) => true
  | Some VOog, Some (Some VOog) => true
  | Some (VOther a), Some (Some (VOther b)) => err_matches a (string_to_bytes b)
  | _, _ => false
  end.
Definition opt_text_match (e : option string) (i : item) : bool :=
  match e, i with
  | None, IL [] => true
  | Some x, IL [IB m] => err_matches x m
  | _, _ => false
  end.

Definition event_match (e : event) (i : item) : bool :=
  match e, i with
  | EvStart f t c inp g v, IL [IN 0; IN f'; IN t'; IN c'; IB inp'; IN g'; IN v'] =>
    (f =? f') && (t =? t') && Bool.eqb c (c' =? 1) && bytes_eqb inp inp' && (g =? g') && (v =? v')
  | EvEnd out used err, IL [IN 1; IB out'; IN used'; err'] =>
    bytes_eqb out out' && (used =? used') && opt_verr_match err err'
  | EvEnter k f t inp g v, IL [IN 2; IN k'; IN f'; IN t'; IB inp'; IN g'; v'] =>
    (k =? k') && (f =? f') && (t =? t') && bytes_eqb inp inp' && (g =? g') && opt_N_match v v'
  | EvExit out used err, IL [IN 3; IB out'; IN used'; err'] =>
    bytes_eqb out out' && (used =? used') && opt_verr_match err err'
  | EvStep d info, IL [IN 4; IN d'; IN pc; IN op; IN g; IN cost] =>
    (N.of_nat d =? d') && bytes_eqb info (step_info pc op g cost)
  | EvProvider pre c, IL [IN 6; IN pre'; IN c'] => Bool.eqb pre (pre' =? 1) && (c =? c')
  | EvAspEnter pre f t a inp g v, IL [IN 7; IN pre'; IN f'; IN t'; IN a'; IB inp'; IN g'; IN v'] =>
    Bool.eqb pre (pre' =? 1) && (f =? f') && (t =? t') && (a =? a') && bytes_eqb inp inp' && (g =? g') && (v =? v')
  | EvFire pre a p, IL [IN 8; IN pre'; IN a'; IL [IN f; IN t; IN idx; IB data; IN v; IN g; IB ret; IB etext]] =>
    Bool.eqb pre (pre' =? 1) && (a =? a') && (j_from p =? f) && (j_to p =? t) && (j_index p =? idx) &&
    bytes_eqb (j_data p) data && (j_value p =? v) && (j_gas p =? g) && bytes_eqb (j_ret p) ret &&
    (err_class (string_to_bytes (j_errtext p)) =? err_class etext) &&
    Bool.eqb (match string_to_bytes (j_errtext p) with [] => true | _ => false end) (match etext with [] => true | _ => false end)
  | EvAspExit pre g ret err, IL [IN 9; IN pre'; IN g'; IB ret'; err'] =>
    Bool.eqb pre (pre' =? 1) && (g =? g') && bytes_eqb ret ret' && opt_text_match err err'
  | _, _ => false
  end.

(** journal bookkeeping events are model-only; step events exist only with a debug tracer attached *)
Definition observable (dbg : bool) (e : event) : bool :=
  match e with EvJournal _ _ _ _ _ => false | EvStep _ _ => dbg | _ => true end.

Fixpoint events_match (es : list event) (l : list item) : bool :=
  match es, l with
  | [], [] => true
  | e :: s, i :: t => event_match e i && events_match s t
  | _, _ => false
  end.

(** world after the execution *)
Fixpoint accounts_match (w : sworld) (l : list item) : bool :=
  match l with
  | [] => true
  | IL [IN a; IN bal; IN nonce; IN codelen; IN ex; IN sui] :: t =>
    (s_balance w a =? bal) && (s_get_nonce w a =? nonce) && (blen (s_code_of w a) =? codelen) &&
    Bool.eqb (s_exists w a) (ex =? 1) && Bool.eqb (mem_addr a (sw_suicide w)) (sui =? 1) && accounts_match w t
  | _ => false
  end.
Fixpoint storage_match (w : sworld) (l : list item) : bool :=
  match l with
  | [] => true
  | IL [IN a; IN k; IN v] :: t =>
    ((match aget eq_nn (sw_stor w) (a, k) with Some x => x | None => 0 end) =? v) && storage_match w t
  | _ => false
  end.
Fixpoint logs_match (l : list (N * N)) (o : list item) : bool :=
  match l, o with
  | [], [] => true
  | (a, n) :: s, IL [IN a'; IN n'] :: t => (a =? a') && (n =? n') && logs_match s t
  | _, _ => false
  end.

Fixpoint first_bad_event (n : N) (es : list event) (l : list item) : N :=
  match es, l with
  | [], [] => 100000
  | e :: s, i :: t => if event_match e i then first_bad_event (n + 1) s t else n
  | [], _ => 200000 + n
  | _, [] => 300000 + n
  end.

Definition ex_fuel : nat := N.to_nat 30000.

Definition ex_eval_items (c : list item) : option (bool * bool * bool * bool * N) :=
  match c with
  | [IL [IN artela; IN jp; IN dbg; IN alog; IN homestead; IN eip158; IN berlin; IN london];
     IL [IL accts; IL stor]; IL btbl; IL atbl; IL kk;
     IL [IN kind; IN caller; IN to; IB input; IN gas; IN value; IN caddr];
     IL scr;
     IL [IL [IB oret; IN ogas; oerr]; IL oevents; IL otracer; IL [IL oaccts; IL ostor; IL ologs]]] =>
    match item_script 1100 scr with
    | None => None
    | Some scr0 =>
      let w0 := world_storage stor (world_accounts accts empty_world) in
      let fl := fun n : N => negb (n =? 0) in
      let run_entry :=
        let s0 := {| xw := w0; xt := tracer_empty; xe := []; xn := O |} in
        let callerfc := {| f_self := caller; f_code_addr := caller; f_caller := caller; f_value := value; f_input := [];
                           f_code := []; f_static := false; f_create := false |} in
        match kind with
        | 0 => do_call sworld smachine script s_can_transfer s_transfer s_balance s_exists s_create_account s_code_of s_collides
                       s_get_nonce s_set_nonce s_acl_add s_set_code s_touch (fl homestead) (fl eip158) (fl berlin) (fl london) 24576
                       (s_is_precompile (fl berlin)) (s_precompile test_host (fl berlin)) s_step s_init (lookup_bn kk)
                       (fl artela) (fl jp) (fl dbg) (fl alog) (bound_of btbl) (aspect_of atbl)
                       ex_fuel 0 scr0 false caller to input gas value s0
        | 1 => do_callcode sworld smachine script s_can_transfer s_transfer s_balance s_exists s_create_account s_code_of s_collides
                       s_get_nonce s_set_nonce s_acl_add s_set_code s_touch (fl homestead) (fl eip158) (fl berlin) (fl london) 24576
                       (s_is_precompile (fl berlin)) (s_precompile test_host (fl berlin)) s_step s_init (lookup_bn kk)
                       (fl artela) (fl jp) (fl dbg) (fl alog) (bound_of btbl) (aspect_of atbl)
                       ex_fuel 0 scr0 callerfc to input gas value s0
        | 2 => do_delegatecall sworld smachine script s_can_transfer s_transfer s_balance s_exists s_create_account s_code_of s_collides
                       s_get_nonce s_set_nonce s_acl_add s_set_code s_touch (fl homestead) (fl eip158) (fl berlin) (fl london) 24576
                       (s_is_precompile (fl berlin)) (s_precompile test_host (fl berlin)) s_step s_init (lookup_bn kk)
                       (fl artela) (fl jp) (fl dbg) (fl alog) (bound_of btbl) (aspect_of atbl)
                       ex_fuel 0 scr0 callerfc to input gas s0
        | 3 => do_staticcall sworld smachine script s_can_transfer s_transfer s_balance s_exists s_create_account s_code_of s_collides
                       s_get_nonce s_set_nonce s_acl_add s_set_code s_touch (fl homestead) (fl eip158) (fl berlin) (fl london) 24576
                       (s_is_precompile (fl berlin)) (s_precompile test_host (fl berlin)) s_step s_init (lookup_bn kk)
                       (fl artela) (fl jp) (fl dbg) (fl alog) (bound_of btbl) (aspect_of atbl)
                       ex_fuel 0 scr0 callerfc to input gas s0
        | _ => do_create sworld smachine script s_can_transfer s_transfer s_balance s_exists s_create_account s_code_of s_collides
                       s_get_nonce s_set_nonce s_acl_add s_set_code s_touch (fl homestead) (fl eip158) (fl berlin) (fl london) 24576
                       (s_is_precompile (fl berlin)) (s_precompile test_host (fl berlin)) s_step s_init (lookup_bn kk)
                       (fl artela) (fl jp) (fl dbg) (fl alog) (bound_of btbl) (aspect_of atbl)
                       ex_fuel 0 scr0 caller input gas value caddr (if kind =? 4 then 0xf0 else 0xf5) s0
        end in
      match run_entry with
      | None => None
      | Some (r, s) =>
        let res_ok := bytes_eqb (r_ret r) oret && (r_gas r =? ogas) && opt_verr_match (r_err r) oerr in
        let ev_ok := events_match (filter (observable (fl dbg)) (xe s)) oevents in
        let w_ok := accounts_match (xw s) oaccts && storage_match (xw s) ostor && logs_match (sw_logs (xw s)) ologs in
        let t_ok := match th_run (xt s) otracer with Some b => b | None => false end in
        Some (res_ok, ev_ok, w_ok, t_ok, first_bad_event 0 (filter (observable (fl dbg)) (xe s)) oevents)
      end
    end
  | _ => None
  end.

Definition ex_check_items (c : list item) : option bool :=
  match ex_eval_items c with
  | Some (a, b, c, d, _) => Some (a && b && c && d)
  | None => None
  end.

(** Which part disagrees (for replay files): 1 = agrees; otherwise 1000000 * (16 + bits) + index of the first differing event, bits = (1 result, 2 events, 4 world, 8 tracer queries). *)
Definition ex_diag_items (c : list item) : option N :=
  match ex_eval_items c with
  | Some (a, b, c, d, fb) =>
    if a && b && c && d then Some 1
    else Some (1000000 * (16 + (if a then 0 else 1) + (if b then 0 else 2) + (if c then 0 else 4) + (if d then 0 else 8)) + fb)
  | None => None
  end.
