(* Corr/JournalCorr.v — correspondence evaluator for the journal instructions (component JO):
   a frame that executes journal opcodes; each executed journal step is given with the operands,
   memory, fee and storage contents the debug tracer saw and with the instruction's outcome; then queries on the
   tracer.  Storage and keccak are tables supplied by the harness. *)
From Verif Require Import Base.Bytes Model.KeyTree Model.CallTree Model.Journal Model.Tracer Corr.Items Corr.TracerCorr.
Open Scope N_scope.

Fixpoint lookup_nn (l : list item) (k : N) : N :=
  match l with
  | IL [IN a; IN b] :: t => if a =? k then b else lookup_nn t k
  | _ :: t => lookup_nn t k
  | [] => 0
  end.
Fixpoint lookup_bn (l : list item) (k : bytes) : N :=
  match l with
  | IL [IB a; IN b] :: t => if bytes_eqb a k then b else lookup_bn t k
  | _ :: t => lookup_bn t k
  | [] => 0
  end.

Fixpoint items_Ns (l : list item) : option (list N) :=
  match l with
  | [] => Some []
  | IN n :: t => match items_Ns t with Some r => Some (n :: r) | None => None end
  | _ => None
  end.

Definition journal_fee : N := 800.

(** run the journal steps; a step that fails ends the frame (no later step may have been seen) *)
Fixpoint jo_steps (kk : bytes -> N) (self : N) (t : tracer) (steps : list item) : option (tracer * bool) :=
  match steps with
  | [] => Some (t, true)
  | IL [IN op; IL stack; IB mem; obs; IN cost; IL stor] :: rest =>
    match items_Ns stack with
    | None => None
    | Some sk =>
      let '(t', r) := jop (lookup_nn stor) kk op self mem sk t in
      if unit_res_match r obs && (cost =? journal_fee) then
        match r with
        | Ok _ => jo_steps kk self t' rest
        | _ => Some (t', match rest with [] => true | _ => false end)
        end
      else Some (t', false)
    end
  | _ => None
  end.

Definition jo_check_items (c : list item) : option bool :=
  match c with
  | [IN self; IL kk; IL pre; IL steps; IL post] =>
    match th_run_state tracer_empty pre with
    | Some (t0, ok0) =>
      if negb ok0 then Some false else
      match jo_steps (lookup_bn kk) self t0 steps with
      | Some (t1, ok1) => if negb ok1 then Some false else th_run t1 post
      | None => None
      end
    | None => None
    end
  | _ => None
  end.
