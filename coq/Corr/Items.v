(* Corr/Items.v — generic case representation shared by all correspondence checks.
   The harness writes one case per line as a sequence of items; the OCaml driver
   (Extract/driver.ml) parses a line into [list item] and calls the component's extracted
   [*_check_items]; the thorough tier re-evaluates a sample of the same lines inside Coq. *)
From Verif Require Import Base.Bytes.
Open Scope N_scope.

Inductive item :=
| IN (n : N)
| IB (b : bytes)
| IL (l : list item).

Fixpoint string_to_bytes (s : string) : bytes :=
  match s with EmptyString => [] | String a t => N_of_ascii a :: string_to_bytes t end.

(** observed Go result: [IL [IN 0; IB ret]] = (ret, nil); [IL [IN 1; IB msg]] = error with text
    msg; [IL [IN 2; IB msg]] = panic. *)
Definition item_res (i : item) : option (res bytes) :=
  match i with
  | IL [IN 0; IB r] => Some (Ok r)
  | IL [IN 1; IB m] => Some (Err "obs")
  | IL [IN 2; IB m] => Some (Panic "obs")
  | _ => None
  end.
Definition item_res_msg (i : item) : bytes :=
  match i with IL [IN _; IB m] => m | _ => [] end.

(** Error texts are compared by class only: rewording a message is not a behavioural change, but
    the two texts the VM itself compares ("out of gas", "execution reverted") are. *)
Definition err_class (m : bytes) : N :=
  if bytes_eqb m (string_to_bytes "out of gas") then 1
  else if bytes_eqb m (string_to_bytes "execution reverted") then 2 else 0.
Definition err_matches (e : string) (m : bytes) : bool := err_class (string_to_bytes e) =? err_class m.

(** model result vs observed item: same constructor, same payload / same error class *)
Definition res_matches (r : res bytes) (i : item) : bool :=
  match r, i with
  | Ok a, IL [IN 0; IB b] => bytes_eqb a b
  | Err e, IL [IN 1; IB m] => err_matches e m
  | Panic _, IL [IN 2; IB _] => true
  | _, _ => false
  end.

Definition item_bool (i : item) : option bool :=
  match i with IN 0 => Some false | IN 1 => Some true | _ => None end.

Fixpoint mismatches_from {A} (chk : A -> bool) (i : N) (l : list A) : list N :=
  match l with
  | [] => []
  | c :: t => if chk c then mismatches_from chk (i + 1) t else i :: mismatches_from chk (i + 1) t
  end.

(** [None] = the line does not have the component's shape (harness/driver error, reported
    separately from a mismatch). *)
Definition mismatches (chk : list item -> option bool) (l : list (list item)) : list N :=
  mismatches_from (fun c => match chk c with Some true => true | _ => false end) 0 l.
