(* Corr/SStoreCorr.v — correspondence evaluator for Model/SStore.v (component SS): one executed SSTORE:
   [IN schedule (0 legacy, 1 EIP-1283, 2 EIP-2200, 3 EIP-2929 family); IN clears; IN original; IN current; IN value;
    IN gas before; IN total charge; IN refund counter before; IN refund counter after]
   Whether the slot was cold cannot be asked after the fact (the gas function has already warmed it when the tracer is
   called): the charge must be the model's for a warm or for a cold slot; the refund must be the model's exactly. *)
From Verif Require Import Base.Bytes Model.SStore Corr.Items.
Open Scope N_scope.
Definition ss_check_items (c : list item) : option bool :=
  match c with
  | [IN k; IN clears; IN o; IN cur; IN v; IN gas; IN cost; IN r0; IN r1] =>
    let sch := if k =? 0 then SLegacy else if k =? 1 then S1283 else if k =? 2 then S2200 else S2929 clears in
    Some (match sstore sch o cur v gas false with
          | Ok (g, add, sub) =>
            ((cost =? g) || ((k =? 3) && (cost =? g + 2100))) &&
            match apply_refund r0 add sub with Ok r => r =? r1 | _ => false end
          | _ => false
          end)
  | _ => None
  end.
