(* Findings/PreFix_Ceil.v — history (finding F17): the reference journal's slot count as it was computed before the
   "fix:" commit, `(nom + denom - 1) / denom` on uint64 operands.  For a long-form length within 31 of 2^64 the sum
   wraps around, no data slot is read and the Go slice expression `stateBytes[:length]` on the empty slice panics.
   Not part of the current-tree claim. *)
From Verif Require Import Base.Bytes Model.Journal Model.SolLayout Proofs.Journal_proofs.
Open Scope N_scope.

Definition u64_ceiling32_prefix (n : N) : N := u64 (n + 31) / 32.

(** the storage word 2^65 - 1 is a well-formed long-form length word (odd, length 2^64 - 1 >= 32, fits uint64) ... *)
Example prefix_word_accepted : extract_storage_len (2 * two64 - 1) = Ok (two64 - 1).
Proof. vm_compute. reflexivity. Qed.

(** ... for which the wrapped count is 0 instead of 2^59 ... *)
Example prefix_count_wraps : u64_ceiling32_prefix (two64 - 1) = 0 /\ u64_ceiling32 (two64 - 1) = 0x800000000000000.
Proof. split; vm_compute; reflexivity. Qed.

(** ... and the instruction panicked: a Go panic reachable from storage content alone (C03), for the flat fee. *)
Theorem prefix_reference_journal_panics :
  is_panic (vr_read_with (fun _ => 2 * two64 - 1) (fun _ => 0) u64_ceiling32_prefix 0) = true.
Proof. vm_compute. reflexivity. Qed.

(** every length in the last 31 values of uint64 did *)
Theorem prefix_panics_on_the_whole_window st keccak slot len :
  two64 - 31 <= len -> len < two64 -> st slot = 2 * len + 1 ->
  is_panic (vr_read_with st keccak u64_ceiling32_prefix slot) = true.
Proof.
  intros Hlo Hhi Hw. unfold vr_read_with. rewrite Hw.
  assert (E : extract_storage_len (2 * len + 1) = Ok len).
  { rewrite extract_len_valid.
    - replace ((2 * len + 1) mod 2 =? 0) with false by lia. f_equal. lia.
    - unfold valid_len_word. replace ((2 * len + 1) mod 2 =? 0) with false by lia. unfold two64 in *. lia.
    - intros _. lia. }
  rewrite E. cbn [bind]. unfold two64 in *. replace (len <? 32) with false by lia.
  assert (C : u64_ceiling32_prefix len = 0).
  { unfold u64_ceiling32_prefix, u64, two64. apply N.div_small.
    replace ((len + 31) mod 18446744073709551616) with (len + 31 - 18446744073709551616) by lia. lia. }
  rewrite C. unfold long_words. cbn [N.to_nat seq map flat_map]. unfold go_slice. cbn [length N.of_nat].
  replace ((0 <=? len) && (len <=? 0)) with false by lia. reflexivity.
Qed.
