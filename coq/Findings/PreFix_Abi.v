(* Findings/PreFix_Abi.v — history: the decoder as it was before the two "fix:" commits
   (2003557 uint64 wrap-around, f9c7d76 nil call context), with the witnesses on which it panics.
   Not part of the current-tree claim. *)
From Verif Require Import Base.Bytes Model.Precompile.
Open Scope N_scope.

Definition load_param_bytes_prefix (input : bytes) (index : N) : res bytes :=
  let len := blen input in
  let lo := index * 32 in
  let hi := lo + 32 in
  if len <? hi then Err "invalid input data length" else
  let w := be_to_N (slice input lo hi) in
  if two64 <=? w then Err "invalid offset" else
  let start := u64 (w + 32) in
  if len <? start then Err "invalid param length" else
  let? hd := go_slice input w start in
  if blen hd <? 32 then Panic "SetBytes32: index out of range" else
  let dl := be_to_N (firstn 32 hd) in
  if two64 <=? dl then Err "invalid length" else
  let e := u64 (start + dl) in
  if len <? e then Err "invalid param length" else
  go_slice input start e.

(** head word 2^64-1: start wraps to 31, the slice expression input[2^64-1:31] panics. *)
Theorem prefix_offset_wrap_panics :
  is_panic (load_param_bytes_prefix (N_to_be 32 (two64 - 1) ++ zeros 96) 0) = true.
Proof. vm_compute. reflexivity. Qed.

(** length word 2^64-1 at offset 64: end wraps below start, input[96:95] panics. *)
Theorem prefix_length_wrap_panics :
  is_panic (load_param_bytes_prefix (N_to_be 32 64 ++ zeros 32 ++ N_to_be 32 (two64 - 1) ++ zeros 32) 0) = true.
Proof. vm_compute. reflexivity. Qed.
