(* Extract/driver.ml — line protocol between the harness and the extracted checkers.
   One case per line:  <component> <item>*      item ::= n:<hex> | b:<hex> | [ item* ]
   Output per line: 1 (agrees) | 0 (differs) | E (line does not have the component's shape). *)
module M = Modelrun_core

let hexval c =
  match c with
  | '0'..'9' -> Char.code c - 48
  | 'a'..'f' -> Char.code c - 87
  | 'A'..'F' -> Char.code c - 55
  | _ -> failwith "bad hex digit"

(* positive from most-significant-first bit list *)
let n_of_hex (s : string) : M.n =
  let p = ref None in
  String.iter (fun c ->
    let v = hexval c in
    for k = 3 downto 0 do
      let bit = (v lsr k) land 1 = 1 in
      p := (match !p with
            | None -> if bit then Some M.XH else None
            | Some q -> Some (if bit then M.XI q else M.XO q))
    done) s;
  match !p with None -> M.N0 | Some q -> M.Npos q

let n_of_int (i : int) : M.n = n_of_hex (Printf.sprintf "%x" i)

let byte_table : M.n array = Array.init 256 n_of_int

let bytes_of_hex (s : string) : M.n list =
  let l = String.length s / 2 in
  let rec go i acc = if i < 0 then acc else go (i - 1) (byte_table.(hexval s.[2*i] * 16 + hexval s.[2*i+1]) :: acc) in
  go (l - 1) []

let rec parse_items (toks : string list) : M.item list * string list =
  match toks with
  | [] -> ([], [])
  | "]" :: rest -> ([], rest)
  | "[" :: rest ->
    let (inner, rest') = parse_items rest in
    let (more, rest'') = parse_items rest' in
    (M.IL inner :: more, rest'')
  | t :: rest ->
    let it =
      if String.length t >= 2 && t.[0] = 'n' && t.[1] = ':' then M.IN (n_of_hex (String.sub t 2 (String.length t - 2)))
      else if String.length t >= 2 && t.[0] = 'b' && t.[1] = ':' then M.IB (bytes_of_hex (String.sub t 2 (String.length t - 2)))
      else failwith ("bad token " ^ t) in
    let (more, rest') = parse_items rest in
    (it :: more, rest')

(* model-vs-implementation checkers answer a boolean, specification oracles a number *)
type verdict = VB of bool option | VN of M.n option

let dispatch (comp : string) (items : M.item list) : verdict =
  match comp with
  | "PC" -> VB (M.pc_check_items items)
  | "PCS" -> VN (M.pcs_check_items items)
  | "TH" -> VB (M.th_check_items items)
  | "JO" -> VB (M.jo_check_items items)
  | "EX" -> VB (M.ex_check_items items)
  | "EXD" -> VN (M.ex_diag_items items)
  | "MC" -> VB (M.mc_check_items items)
  | "TR" -> VB (M.tr_check_items items)
  | "CN" -> VB (M.cn_check_items items)
  | "CG" -> VB (M.cg_check_items items)
  | "JD" -> VB (M.jd_check_items items)
  | "MG" -> VB (M.mg_check_items items)
  | "MS" -> VB (M.ms_check_items items)
  | "SS" -> VB (M.ss_check_items items)
  | _ -> failwith ("unknown component " ^ comp)

let rec int_of_pos (p : M.positive) : int =
  match p with M.XH -> 1 | M.XO q -> 2 * int_of_pos q | M.XI q -> 2 * int_of_pos q + 1
let int_of_n (n : M.n) : int = match n with M.N0 -> 0 | M.Npos p -> int_of_pos p

let () =
  try
    while true do
      let line = input_line stdin in
      let toks = List.filter (fun s -> s <> "") (String.split_on_char ' ' line) in
      match toks with
      | [] -> print_endline "E"
      | comp :: rest ->
        let (items, _) = parse_items rest in
        (match dispatch comp items with
         | VB (Some true) -> print_endline "1"
         | VB (Some false) -> print_endline "0"
         | VN (Some n) -> print_endline (string_of_int (int_of_n n))
         | VB None | VN None -> print_endline "E")
    done
  with End_of_file -> ()
