(* Extract/Extract.v — extraction of the executable checkers to OCaml.
   Directives in force: exactly those of ExtrOcamlBasic (Extract Inductive for bool, option,
   unit, list, prod, sumbool, sumor; Extract Inlined Constant for fst, snd, andb, orb, negb...).
   No Extract Constant of our own; N / positive / nat / Z / string stay Coq datatypes. *)
From Coq Require Extraction.
From Coq Require Import ExtrOcamlBasic.
From Verif Require Import Base.Bytes Corr.Items Corr.PrecompileCorr Corr.TracerCorr Corr.JournalCorr Corr.ExecCorr Corr.MemCorr Corr.CallTracerCorr Corr.CancelCorr Corr.CallGasCorr Corr.JumpDestCorr Corr.ModExpCorr Corr.MemSizeCorr Corr.SStoreCorr.
Extraction "modelrun_core.ml" item pc_check_items pcs_check_items th_check_items jo_check_items ex_check_items ex_diag_items mc_check_items tr_check_items cn_check_items cg_check_items jd_check_items mg_check_items ms_check_items ss_check_items.
