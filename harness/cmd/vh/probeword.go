package main

import (
	"context"
	"fmt"
	"math/big"

	"verifharness/internal/asm"
	"verifharness/internal/impl"

	"github.com/artela-network/artela-evm/vm"
	"github.com/ethereum/go-ethereum/common"
)

func init() { commands["probe-word"] = cmdProbeWord }

// probe-word: VRJNAL on a slot holding the given word (hex); reports error / panic.
func cmdProbeWord(args []string) error {
	c := newCommon("probe-word")
	word := c.fs.String("word", "1ffffffffffffffff", "storage word (hex)")
	c.fs.Parse(args)
	self := common.HexToAddress("0xc0de")
	b := asm.New()
	b.Push(0).Push(0).Op(asm.MSTORE)
	b.Push(10).Push(1).Push(0).Op(0xe0)
	b.Push(10).Push(1).Op(0xe7)
	b.Op(asm.STOP)
	env := impl.NewEnv(impl.Opts{Fork: "Cancun"})
	env.SetCode(self, b.Bytes())
	lw, _ := new(big.Int).SetString(*word, 16)
	env.State.SetState(self, common.BigToHash(big.NewInt(1)), common.BigToHash(lw))
	env.Prepare(&self)
	var err error
	pan := impl.Guard(func() {
		_, _, err = env.EVM.Call(context.Background(), vm.AccountRef(exCaller), self, nil, 1_000_000, big.NewInt(0))
	})
	fmt.Printf("word=%s err=%v panic=%q\n", *word, err, pan)
	return nil
}
