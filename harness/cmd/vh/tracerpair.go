package main

import (
	"bytes"
	"context"
	"encoding/hex"
	"encoding/json"
	"errors"
	"fmt"
	"math/big"
	"regexp"
	"sort"
	"strings"

	"verifharness/internal/gen"
	"verifharness/internal/impl"
	"verifharness/internal/progen"
	"verifharness/internal/rng"

	atracers "github.com/artela-network/artela-evm/tracers"
	alogger "github.com/artela-network/artela-evm/tracers/logger"
	_ "github.com/artela-network/artela-evm/tracers/native"
	"github.com/artela-network/artela-evm/vm"
	"github.com/ethereum/go-ethereum/common"
	ethtypes "github.com/ethereum/go-ethereum/core/types"
	ethvm "github.com/ethereum/go-ethereum/core/vm"
	utracers "github.com/ethereum/go-ethereum/eth/tracers"
	ulogger "github.com/ethereum/go-ethereum/eth/tracers/logger"
	_ "github.com/ethereum/go-ethereum/eth/tracers/native"
)

func init() { commands["tracerpair"] = cmdTracerPair }

type tpCase struct {
	Idx     int               `json:"idx"`
	Fork    string            `json:"fork"`
	Entry   int               `json:"entry"`
	Tracer  string            `json:"tracer"`
	Config  string            `json:"config"`
	Codes   map[string]string `json:"codes"`
	Input   string            `json:"input"`
	Gas     uint64            `json:"gas"`
	OutLen  int               `json:"output_bytes"`
	Oracle  []string          `json:"oracle_fail,omitempty"`
	Skipped string            `json:"skipped,omitempty"`
}

func cmdTracerPair(args []string) error {
	c := newCommon("tracerpair")
	c.fs.Parse(args)
	r := rng.New(c.seed)
	u := progen.DefaultUniverse()
	upForks := impl.Forks[4:12] // Byzantium..Shanghai (the native tracers assume post-Byzantium semantics nowhere, but keep runs comparable)
	type tspec struct{ name, cfg string }
	native := []tspec{
		{"callTracer", ``}, {"callTracer", `{"onlyTopCall":true}`}, {"callTracer", `{"withLog":true}`},
		{"flatCallTracer", ``}, {"flatCallTracer", `{"convertParityErrors":true}`}, {"flatCallTracer", `{"includePrecompiles":true}`},
		{"prestateTracer", ``}, {"prestateTracer", `{"diffMode":true}`}, {"4byteTracer", ``}, {"noopTracer", ``},
		{"muxTracer", `{"callTracer":{"withLog":true},"4byteTracer":null}`},
	}
	structCfgs := []string{`{}`, `{"EnableMemory":true}`, `{"DisableStack":true}`, `{"DisableStorage":true}`, `{"EnableReturnData":true}`, `{"EnableMemory":true,"EnableReturnData":true,"Limit":40}`}
	var cases []tpCase
	stats := map[string]int{}
	for i := 0; i < c.n; i++ {
		rr := r.Fork()
		fork := upForks[rr.Intn(len(upForks))]
		fi := impl.ForkIndex(fork)
		cs := tpCase{Idx: len(cases), Fork: fork, Entry: []int{0, 0, 0, 4, 5}[rr.Intn(5)], Gas: 3_000_000, Codes: map[string]string{}}
		if cs.Entry == 5 && fi < 5 {
			cs.Entry = 4
		}
		if rr.Intn(5) == 0 {
			cs.Gas = uint64(30000 + rr.Intn(100000))
		}
		w := &world{Code: map[common.Address][]byte{}, Storage: map[common.Address]map[common.Hash]common.Hash{}, Balance: map[common.Address]*big.Int{}, Nonce: map[common.Address]uint64{}}
		opts := progen.Opts{Fork: fi, MaxSnips: 12}
		for _, a := range u.Contracts {
			code := progen.Program(rr, u, opts)
			if rr.Intn(8) == 0 {
				code = progen.Malformed(rr, u, opts)
			}
			w.Code[a] = code
			cs.Codes[a.Hex()] = hex.EncodeToString(code)
			w.Balance[a] = big.NewInt(1000)
			w.Storage[a] = map[common.Hash]common.Hash{common.BigToHash(big.NewInt(1)): common.BigToHash(big.NewInt(5))}
		}
		w.Balance[diffCaller] = big.NewInt(1_000_000)
		w.Balance[u.EOA] = big.NewInt(77)
		code0 := w.Code[u.Contracts[0]]
		if cs.Entry >= 4 {
			code0 = progen.Program(rr, u, progen.Opts{Fork: fi, MaxSnips: 6})
			cs.Codes["init"] = hex.EncodeToString(code0)
		}
		cs.Input = hex.EncodeToString(rr.Bytes(rr.Intn(60)))
		input := common.FromHex(cs.Input)
		to := u.Contracts[0]

		// choose the tracer pair
		var at vm.EVMLogger
		var ut ethvm.EVMLogger
		var aRes, uRes func() (string, error)
		kind := rr.Intn(10)
		switch {
		case kind < 6:
			sp := native[rr.Intn(len(native))]
			cs.Tracer, cs.Config = sp.name, sp.cfg
			var cfg json.RawMessage
			if sp.cfg != "" {
				cfg = json.RawMessage(sp.cfg)
			}
			ta, err := atracers.DefaultDirectory.New(sp.name, &atracers.Context{TxHash: common.HexToHash("0x01"), TxIndex: 3, BlockHash: common.HexToHash("0xb10c"), BlockNumber: big.NewInt(impl.BlockNumber)}, cfg)
			if err != nil {
				return fmt.Errorf("artela tracer %s: %v", sp.name, err)
			}
			tu, err := utracers.DefaultDirectory.New(sp.name, &utracers.Context{TxHash: common.HexToHash("0x01"), TxIndex: 3, BlockHash: common.HexToHash("0xb10c"), BlockNumber: big.NewInt(impl.BlockNumber)}, cfg)
			if err != nil {
				return fmt.Errorf("upstream tracer %s: %v", sp.name, err)
			}
			at, ut = ta, tu
			if rr.Intn(12) == 0 && sp.name != "flatCallTracer" { // go-ethereum v1.12.0's flat tracer panics in CaptureExit when stopped before the run (index -1); Artela's does not
				// a tracer that was told to stop (timeout / cancelled request) ignores the execution and reports the reason
				cs.Config += " (stopped before the run)"
				ta.Stop(errors.New("halted by the caller"))
				tu.Stop(errors.New("halted by the caller"))
			}
			aRes = func() (string, error) { b, e := ta.GetResult(); return string(b), e }
			uRes = func() (string, error) { b, e := tu.GetResult(); return string(b), e }
		case kind < 9:
			cs.Tracer = "structLogger"
			cs.Config = structCfgs[rr.Intn(len(structCfgs))]
			var ca alogger.Config
			var cu ulogger.Config
			json.Unmarshal([]byte(cs.Config), &ca)
			json.Unmarshal([]byte(cs.Config), &cu)
			if kind == 8 {
				// the markdown logger writes its table while the execution runs
				cs.Tracer = "mdLogger"
				var ba, bu bytes.Buffer
				at, ut = alogger.NewMarkdownLogger(&ca, &ba), ulogger.NewMarkdownLogger(&cu, &bu)
				aRes = func() (string, error) { return normTraceText(ba.String()), nil }
				uRes = func() (string, error) { return normTraceText(bu.String()), nil }
				break
			}
			la, lu := alogger.NewStructLogger(&ca), ulogger.NewStructLogger(&cu)
			at, ut = la, lu
			// GetResult plus the human-readable dump of the same logs (WriteTrace)
			aRes = func() (string, error) {
				b, e := la.GetResult()
				var tb bytes.Buffer
				alogger.WriteTrace(&tb, la.StructLogs())
				return string(b) + "\n" + normTraceText(tb.String()), e
			}
			uRes = func() (string, error) {
				b, e := lu.GetResult()
				var tb bytes.Buffer
				ulogger.WriteTrace(&tb, lu.StructLogs())
				return string(b) + "\n" + normTraceText(tb.String()), e
			}
		default:
			cs.Tracer = "accessListTracer"
			cfgc, merge := impl.ChainConfig(fork)
			rules := cfgc.Rules(big.NewInt(0), merge, 0)
			la := alogger.NewAccessListTracer(nil, diffCaller, to, ethvm.ActivePrecompiles(rules))
			lu := ulogger.NewAccessListTracer(nil, diffCaller, to, ethvm.ActivePrecompiles(rules))
			at, ut = la, lu
			// both implementations build the list by ranging over a map (inherited code): compare as sorted sets
			canon := func(al ethtypes.AccessList) string {
				var rows []string
				for _, t := range al {
					var ks []string
					for _, k := range t.StorageKeys {
						ks = append(ks, k.Hex())
					}
					sort.Strings(ks)
					rows = append(rows, t.Address.Hex()+":"+strings.Join(ks, ","))
				}
				sort.Strings(rows)
				return strings.Join(rows, ";")
			}
			aRes = func() (string, error) { return canon(la.AccessList()), nil }
			uRes = func() (string, error) { return canon(lu.AccessList()), nil }
		}
		// a recorder next to the tracer under test tells whether the program stays standard
		rec := &impl.Recorder{}
		env := impl.NewEnv(impl.Opts{Fork: fork, Tracer: muxLogger{at, rec}, JP: rr.Bool()})
		impl.Provider.Reset()
		w.apply(env.State)
		env.Prepare(&to)
		if env.Rules.IsBerlin {
			env.State.AddAddressToAccessList(diffCaller)
		}
		var leftA, leftU uint64
		panA := impl.Guard(func() {
			at.CaptureTxStart(cs.Gas)
			ctx := context.Background()
			switch cs.Entry {
			case 0:
				_, leftA, _ = env.EVM.Call(ctx, vm.AccountRef(diffCaller), to, input, cs.Gas, big.NewInt(0))
			case 4:
				_, _, leftA, _ = env.EVM.Create(ctx, vm.AccountRef(diffCaller), code0, cs.Gas, big.NewInt(0))
			default:
				_, _, leftA, _ = env.EVM.Create2(ctx, vm.AccountRef(diffCaller), code0, cs.Gas, big.NewInt(0), u256(7))
			}
			at.CaptureTxEnd(leftA)
		})
		nonstd := false
		for _, e := range rec.Events {
			if e.Kind == "state" && nonStandard(e.Op, e.Stack) {
				nonstd = true
			}
		}
		if nonstd {
			stats["skipped-nonstandard"]++
			continue
		}
		st := impl.NewState()
		w.apply(st)
		evm := gen.UpstreamEVM(fork, st, ut, nil)
		cfgc, merge := impl.ChainConfig(fork)
		rules := cfgc.Rules(big.NewInt(0), merge, 0)
		st.Prepare(rules, impl.Origin, impl.Coinbase, &to, ethvm.ActivePrecompiles(rules), nil)
		if rules.IsBerlin {
			st.AddAddressToAccessList(diffCaller)
		}
		panU := impl.Guard(func() {
			ut.CaptureTxStart(cs.Gas)
			switch cs.Entry {
			case 0:
				_, leftU, _ = evm.Call(ethvm.AccountRef(diffCaller), to, input, cs.Gas, big.NewInt(0))
			case 4:
				_, _, leftU, _ = evm.Create(ethvm.AccountRef(diffCaller), code0, cs.Gas, big.NewInt(0))
			default:
				_, _, leftU, _ = evm.Create2(ethvm.AccountRef(diffCaller), code0, cs.Gas, big.NewInt(0), u256(7))
			}
			ut.CaptureTxEnd(leftU)
		})
		ra, ea := aRes()
		ru, eu := uRes()
		if panA != panU {
			cs.Oracle = append(cs.Oracle, fmt.Sprintf("C18: panic with tracer %s: artela %q reference %q", cs.Tracer, panA, panU))
		}
		if fmt.Sprint(ea) != fmt.Sprint(eu) {
			cs.Oracle = append(cs.Oracle, fmt.Sprintf("C18: %s result error: artela %v reference %v", cs.Tracer, ea, eu))
		}
		// invalid-opcode names legitimately differ (renumbered opcode bytes): normalise them in both outputs
		na, nu := normTracerJSON(ra), normTracerJSON(ru)
		if na != nu {
			d := 0
			for d < len(na) && d < len(nu) && na[d] == nu[d] {
				d++
			}
			lo := d - 60
			if lo < 0 {
				lo = 0
			}
			hi := func(s string) string {
				e := d + 80
				if e > len(s) {
					e = len(s)
				}
				return s[lo:e]
			}
			cs.Oracle = append(cs.Oracle, fmt.Sprintf("C18: %s %s output differs at byte %d: artela ...%s... reference ...%s...", cs.Tracer, cs.Config, d, hi(na), hi(nu)))
		}
		cs.OutLen = len(ra)
		stats["tracer:"+cs.Tracer]++
		cases = append(cases, cs)
	}
	if err := writeJSON(c.out, "cases.json", cases); err != nil {
		return err
	}
	return writeJSON(c.out, "stats.json", stats)
}

// the five opcode bytes Artela renumbered or added have different NAMES in the two code bases even where both leave
// them undefined (0x5c/0x5d/0x5e are TLOAD/TSTORE/MCOPY in Artela's name table, 0xb3/0xb4 TLOAD/TSTORE in go-ethereum's)
var renumberedOpName = regexp.MustCompile(`"op":"(TLOAD|TSTORE|MCOPY|opcode 0x(5c|5d|5e|b3|b4) not defined)"`)

var renumberedOpText = regexp.MustCompile(`(?m)^(TLOAD|TSTORE|MCOPY|opcode 0x(5c|5d|5e|b3|b4) not defined) *pc=`)
var renumberedOpArg = regexp.MustCompile(`op=(TLOAD|TSTORE|MCOPY|opcode 0x(5c|5d|5e|b3|b4) not defined)`)
var renumberedOpCell = regexp.MustCompile(`\| *(TLOAD|TSTORE|MCOPY|opcode 0x(5c|5d|5e|b3|b4) not defined) *\|`)

// normTraceText: the same normalisation for the text dumps.  WriteTrace lines start with the opcode name padded to 16
// columns (longer names are not padded at all), the markdown logger right-aligns it in a cell of 10: the padding goes too.
func normTraceText(s string) string {
	s = renumberedOpText.ReplaceAllString(s, "<renumbered opcode byte> pc=")
	s = renumberedOpCell.ReplaceAllString(s, "| <renumbered opcode byte> |")
	s = renumberedOpArg.ReplaceAllString(s, "op=<renumbered opcode byte>")
	// WriteTrace prints the storage map of a step by ranging over it (Go map order, in both code bases): sort each run
	lines := strings.Split(s, "\n")
	for i := 0; i < len(lines); {
		j := i
		for j < len(lines) && storageLine.MatchString(lines[j]) {
			j++
		}
		if j > i+1 {
			sort.Strings(lines[i:j])
		}
		if j == i {
			j++
		}
		i = j
	}
	return strings.Join(lines, "\n")
}

var storageLine = regexp.MustCompile(`^[0-9a-f]{64}: [0-9a-f]{64}$`)

// normTracerJSON rewrites `invalid opcode: <name>` error texts to their class and the names of the renumbered opcode bytes.
func normTracerJSON(s string) string {
	s = renumberedOpName.ReplaceAllString(s, `"op":"<renumbered opcode byte>"`)
	b := []byte(s)
	key := []byte("invalid opcode: ")
	for {
		i := bytes.Index(b, key)
		if i < 0 {
			return string(b)
		}
		j := i + len(key)
		for j < len(b) && b[j] != '"' {
			j++
		}
		b = append(append(append([]byte{}, b[:i]...), []byte("invalid opcode")...), b[j:]...)
	}
}

// muxLogger forwards every callback to two loggers.
type muxLogger struct{ a, b vm.EVMLogger }

func (m muxLogger) CaptureTxStart(g uint64) { m.a.CaptureTxStart(g); m.b.CaptureTxStart(g) }
func (m muxLogger) CaptureTxEnd(g uint64)   { m.a.CaptureTxEnd(g); m.b.CaptureTxEnd(g) }
func (m muxLogger) CaptureStart(env *vm.EVM, from common.Address, to common.Address, create bool, input []byte, gas uint64, value *big.Int) {
	m.a.CaptureStart(env, from, to, create, input, gas, value)
	m.b.CaptureStart(env, from, to, create, input, gas, value)
}
func (m muxLogger) CaptureEnd(output []byte, gasUsed uint64, err error) {
	m.a.CaptureEnd(output, gasUsed, err)
	m.b.CaptureEnd(output, gasUsed, err)
}
func (m muxLogger) CaptureEnter(typ vm.OpCode, from common.Address, to common.Address, input []byte, gas uint64, value *big.Int) {
	m.a.CaptureEnter(typ, from, to, input, gas, value)
	m.b.CaptureEnter(typ, from, to, input, gas, value)
}
func (m muxLogger) CaptureExit(output []byte, gasUsed uint64, err error) {
	m.a.CaptureExit(output, gasUsed, err)
	m.b.CaptureExit(output, gasUsed, err)
}
func (m muxLogger) CaptureState(pc uint64, op vm.OpCode, gas, cost uint64, scope *vm.ScopeContext, rData []byte, depth int, err error) {
	m.a.CaptureState(pc, op, gas, cost, scope, rData, depth, err)
	m.b.CaptureState(pc, op, gas, cost, scope, rData, depth, err)
}
func (m muxLogger) CaptureFault(pc uint64, op vm.OpCode, gas, cost uint64, scope *vm.ScopeContext, depth int, err error) {
	m.a.CaptureFault(pc, op, gas, cost, scope, depth, err)
	m.b.CaptureFault(pc, op, gas, cost, scope, depth, err)
}
