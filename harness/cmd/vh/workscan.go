package main

import (
	"context"
	"fmt"
	"math/big"
	"runtime"

	"verifharness/internal/asm"
	"verifharness/internal/impl"
	"verifharness/internal/rng"

	"github.com/artela-network/artela-evm/vm"
	"github.com/ethereum/go-ethereum/common"
	"github.com/holiman/uint256"
)

func init() { commands["workscan"] = cmdWorkScan }

type workCase struct {
	Idx     int      `json:"idx"`
	What    string   `json:"what"`
	K       int      `json:"k"`
	MemLen  int      `json:"mem_len"`
	Reads   int      `json:"reads"`
	Alloc   uint64   `json:"alloc_bytes"`
	GasStep uint64   `json:"gas_charged"`
	Result  string   `json:"result"`
	Oracle  []string `json:"oracle_fail,omitempty"`
	Tags    []string `json:"known_tags,omitempty"`
}

// one journal / precompile invocation with a length field of 2^k somewhere it could drive work
func cmdWorkScan(args []string) error {
	c := newCommon("workscan")
	c.fs.Parse(args)
	r := rng.New(c.seed)
	installHost()
	var cases []workCase
	stats := map[string]int{}
	self := common.HexToAddress("0xc0de")
	maxK := 16
	if c.tier == "thorough" {
		maxK = 22
	}
	run := func(what string, k int, code []byte, storage map[uint64]*big.Int) {
		rec := &impl.Recorder{KeepOps: func(op byte) bool { return op >= 0xe0 && op <= 0xe7 || op == 0xf1 }}
		env := impl.NewEnv(impl.Opts{Fork: "Cancun", Tracer: rec})
		env.SetCode(self, code)
		for s, v := range storage {
			env.State.SetState(self, common.BigToHash(new(big.Int).SetUint64(s)), common.BigToHash(v))
		}
		env.Prepare(&self)
		cnt := &countingDB{StateDB: env.State}
		env.EVM.StateDB = cnt
		var ms0, ms1 runtime.MemStats
		reads0 := 0
		var memLen int
		var gasStep uint64
		rec.OnState = func(e *impl.Event, scope *vm.ScopeContext) {
			if (e.Op >= 0xe0 && e.Op <= 0xe7) || e.Op == 0xf1 {
				runtime.ReadMemStats(&ms0)
				reads0 = cnt.reads
				memLen = scope.Memory.Len()
				gasStep = e.Cost
			}
		}
		var err error
		pan := impl.Guard(func() {
			_, _, err = env.EVM.Call(context.Background(), vm.AccountRef(exCaller), self, nil, 30_000_000, big.NewInt(0))
		})
		runtime.ReadMemStats(&ms1)
		cs := workCase{Idx: len(cases), What: what, K: k, MemLen: memLen, Reads: cnt.reads - reads0, Alloc: ms1.TotalAlloc - ms0.TotalAlloc, GasStep: gasStep}
		switch {
		case pan != "":
			cs.Result = "panic: " + pan
			cs.Oracle = append(cs.Oracle, "C20: panic "+pan)
		case err != nil:
			cs.Result = "err: " + err.Error()
		default:
			cs.Result = "ok"
		}
		// bound: at most one state read per 100 gas charged for the instruction, and retained/copied bytes
		// within a small multiple of the memory and calldata the frame already paid for
		allowedReads := int(cs.GasStep/100) + 2
		if cs.Reads > allowedReads {
			cs.Oracle = append(cs.Oracle, fmt.Sprintf("C20: %s performed %d state reads for %d gas (length field 2^%d)", what, cs.Reads, cs.GasStep, k))
			if what == "VRJNAL long-form length" {
				cs.Tags = append(cs.Tags, "F7")
			}
		}
		if cs.Alloc > 1<<17+16*uint64(memLen) {
			cs.Oracle = append(cs.Oracle, fmt.Sprintf("C20: %s allocated %d bytes with %d bytes of memory for %d gas (length field 2^%d)", what, cs.Alloc, memLen, cs.GasStep, k))
			if what == "VRJNAL long-form length" {
				cs.Tags = append(cs.Tags, "F7")
			}
		}
		stats["what:"+what]++
		cases = append(cases, cs)
	}
	for k := 5; k <= maxK; k++ {
		lw := new(big.Int).Lsh(big.NewInt(1), uint(k))
		// (1) reference journal on a long-form length word 2^k+1
		{
			b := asm.New()
			b.Push(0).Push(0).Op(asm.MSTORE)
			b.Push(10).Push(1).Push(0).Op(0xe0)
			b.Push(10).Push(1).Op(0xe7).Op(asm.STOP)
			run("VRJNAL long-form length", k, b.Bytes(), map[uint64]*big.Int{1: new(big.Int).Or(lw, big.NewInt(1))})
		}
		// (2) state-variable journal whose memory string claims 2^k bytes (memory is 64 bytes)
		{
			b := asm.New()
			x := uint256.MustFromBig(lw).Bytes32()
			b.PushBytes(x[:]).Push(0).Op(asm.MSTORE).Push(0).Push(32).Op(asm.MSTORE)
			b.Push(10).Push(1).Push(0).Op(0xe0).Op(asm.STOP)
			run("RSVJNAL memory length word", k, b.Bytes(), nil)
		}
		// (3) index journal with a hostile key pointer / length
		{
			b := asm.New()
			x := uint256.MustFromBig(lw).Bytes32()
			b.PushBytes(x[:]).Push(0).Op(asm.MSTORE)
			b.Push(11).Push(10).Push(0).Push(0).Push(2).Push(1).Op(0xe2).Op(asm.STOP)
			run("IRVVJNAL memory length word", k, b.Bytes(), nil)
		}
		// (4) context-write precompile with head/length words of 2^k in a 160-byte payload
		{
			p := encodeKV([]byte("key"), []byte("value"))
			q := append([]byte{}, p...)
			copy(q[r.Intn(2)*32:], word(lw))
			b := asm.New()
			b.MstoreBytes(0, q)
			b.Push(0).Push(0).Push(uint64(len(q))).Push(0).Push(0).Push(0x66).Op(asm.GAS).Op(asm.CALL).Op(asm.STOP)
			run("contextWriter head word", k, b.Bytes(), nil)
			q2 := append([]byte{}, p...)
			copy(q2[64:], word(lw))
			b2 := asm.New()
			b2.MstoreBytes(0, q2)
			b2.Push(0).Push(0).Push(uint64(len(q2))).Push(0).Push(0).Push(0x66).Op(asm.GAS).Op(asm.CALL).Op(asm.STOP)
			run("contextWriter length word", k, b2.Bytes(), nil)
		}
		// (5) value journal (one slot)
		{
			b := asm.New()
			b.Push(0).Push(0).Op(asm.MSTORE)
			b.Push(10).Push(0).Push(1).Push(0).Op(0xe1)
			b.Push(10).Push(32).Push(0).Push(1).Op(0xe6).Op(asm.STOP)
			run("VVJNAL", k, b.Bytes(), map[uint64]*big.Int{1: lw})
		}
	}
	// (6) pointer operands far beyond the frame's memory: the instruction must fail (or read nothing) without
	//     growing memory it was not paid for
	for k := 10; k <= 24; k += 2 {
		ptr := uint64(1) << uint(k)
		{
			b := asm.New()
			b.Push(0).Push(0).Op(asm.MSTORE)
			b.Push(10).Push(1).Push(ptr).Op(0xe0).Op(asm.STOP)
			run("RSVJNAL pointer beyond memory", k, b.Bytes(), nil)
		}
		{
			b := asm.New()
			b.Push(0).Push(0).Op(asm.MSTORE)
			b.Push(10).Push(0).Push(1).Push(ptr).Op(0xe1).Op(asm.STOP)
			run("VSVJNAL pointer beyond memory", k, b.Bytes(), nil)
		}
		{
			b := asm.New()
			b.Push(0).Push(0).Op(asm.MSTORE)
			b.Push(11).Push(10).Push(0).Push(ptr).Push(2).Push(1).Op(0xe2).Op(asm.STOP)
			run("IRVVJNAL key pointer beyond memory", k, b.Bytes(), nil)
		}
		{
			b := asm.New()
			b.Push(0).Push(0).Op(asm.MSTORE)
			b.Push(11).Push(10).Push(ptr).Push(2).Push(1).Op(0xe3).Op(asm.STOP)
			run("IRVRJNAL key pointer beyond memory", k, b.Bytes(), nil)
		}
	}
	// (7) the inherited instructions that copy, hash, log or hand over a region of attacker-chosen size 2^k: whatever they
	//     allocate or copy must have been paid for (memory expansion and per-word charges grow with the size), on the whole
	//     transaction: allocated bytes <= 256 KiB + 8 x gas used.  Beyond ~2^21 bytes 30M gas cannot pay: out of gas
	//     BEFORE anything is allocated.
	runTx := func(what string, fork string, k int, code []byte) {
		env := impl.NewEnv(impl.Opts{Fork: fork})
		env.SetCode(self, code)
		env.SetCode(common.HexToAddress("0xdead"), []byte{0x00})
		env.Prepare(&self)
		var ms0, ms1 runtime.MemStats
		var err error
		var left uint64
		const gas = 30_000_000
		runtime.GC()
		runtime.ReadMemStats(&ms0)
		pan := impl.Guard(func() {
			_, left, err = env.EVM.Call(context.Background(), vm.AccountRef(exCaller), self, make([]byte, 64), gas, big.NewInt(0))
		})
		runtime.ReadMemStats(&ms1)
		cs := workCase{Idx: len(cases), What: what + " (" + fork + ")", K: k, Alloc: ms1.TotalAlloc - ms0.TotalAlloc, GasStep: gas - left}
		switch {
		case pan != "":
			cs.Result = "panic: " + pan
			cs.Oracle = append(cs.Oracle, "C20: panic "+pan)
		case err != nil:
			cs.Result = "err: " + err.Error()
		default:
			cs.Result = "ok"
		}
		if cs.Alloc > 1<<18+8*cs.GasStep {
			cs.Oracle = append(cs.Oracle, fmt.Sprintf("C20: a transaction whose only sizeable instruction is %s with a size operand of 2^%d allocated %d bytes for %d gas", what, k, cs.Alloc, cs.GasStep))
		}
		stats["what:"+what]++
		cases = append(cases, cs)
	}
	ks := []int{12, 16, 20, 22, 24, 26}
	if c.tier == "thorough" {
		ks = []int{10, 12, 14, 16, 18, 19, 20, 21, 22, 23, 24, 26, 28, 32, 40, 63}
	}
	for _, fork := range []string{"Berlin", "Cancun"} {
		for _, k := range ks {
			size := new(big.Int).Lsh(big.NewInt(1), uint(k))
			sz := func(b *asm.B) *asm.B { return b.PushBig(size) }
			mk := func(f func(b *asm.B)) []byte { b := asm.New(); f(b); b.Op(asm.STOP); return b.Bytes() }
			runTx("CALLDATACOPY", fork, k, mk(func(b *asm.B) { sz(b).Push(0).Push(0).Op(asm.CALLDATACOPY) }))
			runTx("CODECOPY", fork, k, mk(func(b *asm.B) { sz(b).Push(0).Push(0).Op(asm.CODECOPY) }))
			runTx("EXTCODECOPY of a cold account", fork, k, mk(func(b *asm.B) { sz(b).Push(0).Push(0).PushAddr(common.HexToAddress("0xdead")).Op(0x3c) }))
			runTx("EXTCODECOPY of a warm account", fork, k, mk(func(b *asm.B) { sz(b).Push(0).Push(0).Op(0x30).Op(0x3c) }))
			runTx("RETURNDATACOPY", fork, k, mk(func(b *asm.B) { sz(b).Push(0).Push(0).Op(asm.RETURNDATACOPY) }))
			runTx("KECCAK256", fork, k, mk(func(b *asm.B) { sz(b).Push(0).Op(asm.KECCAK256).Op(asm.POP) }))
			runTx("LOG0", fork, k, mk(func(b *asm.B) { sz(b).Push(0).Op(0xa0) }))
			runTx("MLOAD at offset", fork, k, mk(func(b *asm.B) { sz(b).Op(asm.MLOAD).Op(asm.POP) }))
			runTx("MSTORE8 at offset", fork, k, mk(func(b *asm.B) { b.Push(1); sz(b).Op(asm.MSTORE8) }))
			runTx("CALL input region", fork, k, mk(func(b *asm.B) {
				b.Push(0).Push(0)
				sz(b).Push(0).Push(0).PushAddr(common.HexToAddress("0xdead")).Op(asm.GAS).Op(asm.CALL).Op(asm.POP)
			}))
			runTx("CALL output region", fork, k, mk(func(b *asm.B) {
				sz(b).Push(0).Push(0).Push(0).Push(0).PushAddr(common.HexToAddress("0xdead")).Op(asm.GAS).Op(asm.CALL).Op(asm.POP)
			}))
			runTx("STATICCALL to the identity precompile", fork, k, mk(func(b *asm.B) { b.Push(0).Push(0); sz(b).Push(0).Push(4).Op(asm.GAS).Op(asm.STATICCALL).Op(asm.POP) }))
			runTx("CREATE init code region", fork, k, mk(func(b *asm.B) { sz(b).Push(0).Push(0).Op(asm.CREATE).Op(asm.POP) }))
			runTx("RETURN region", fork, k, func() []byte { b := asm.New(); sz(b).Push(0).Op(asm.RETURN); return b.Bytes() }())
			runTx("REVERT region", fork, k, func() []byte { b := asm.New(); sz(b).Push(0).Op(asm.REVERT); return b.Bytes() }())
			if fork == "Cancun" {
				runTx("MCOPY", fork, k, mk(func(b *asm.B) { sz(b).Push(0).Push(0).Op(asm.MCOPY) }))
			}
		}
	}
	// (8) hashing that is paid per word by the instruction itself, measured as a difference: the same transaction with and
	//     without a CREATE2 over 2^k bytes of memory that is already paid for (zero-filled init code = STOP).  What the
	//     CREATE2 adds to the gas used must cover the keccak over its init code: 6 gas per word at least, wherever the
	//     region starts.
	measure := func(fork string, code []byte) (uint64, error, string) {
		env := impl.NewEnv(impl.Opts{Fork: fork})
		env.SetCode(self, code)
		env.Prepare(&self)
		var err error
		var left uint64
		const gas = 30_000_000
		pan := impl.Guard(func() {
			_, left, err = env.EVM.Call(context.Background(), vm.AccountRef(exCaller), self, nil, gas, big.NewInt(0))
		})
		return gas - left, err, pan
	}
	for _, fork := range []string{"Constantinople", "Berlin", "London"} {
		for _, k := range []int{10, 14, 18, 19, 20} {
			for _, off := range []uint64{0, 64, 1 << uint(k-1)} {
				total := uint64(1) << uint(k)
				expand := func() *asm.B { return asm.New().Push(1).Push(total - 1).Op(asm.MSTORE8) }
				base, e0, p0 := measure(fork, expand().Op(asm.STOP).Bytes())
				full, e1, p1 := measure(fork, expand().Push(7).Push(total-off).Push(off).Push(0).Op(0xf5).Op(asm.POP).Op(asm.STOP).Bytes())
				cs := workCase{Idx: len(cases), What: fmt.Sprintf("CREATE2 hashing %d bytes of init code at offset %d (%s)", total-off, off, fork), K: k, Result: "ok"}
				switch {
				case p0 != "" || p1 != "":
					cs.Result = "panic: " + p0 + p1
					cs.Oracle = append(cs.Oracle, "C20: panic "+p0+p1)
				case e0 != nil || e1 != nil:
					cs.Result = fmt.Sprintf("err: %v / %v", e0, e1)
				default:
					cs.GasStep = full - base
					if 6*(total-off) > 32*cs.GasStep {
						cs.Oracle = append(cs.Oracle, fmt.Sprintf("C20: CREATE2 hashed %d bytes of init code (offset %d, memory already paid for) for %d gas", total-off, off, cs.GasStep))
					}
				}
				stats["what:CREATE2 hashing"]++
				cases = append(cases, cs)
			}
		}
	}
	if err := writeJSON(c.out, "cases.json", cases); err != nil {
		return err
	}
	return writeJSON(c.out, "stats.json", stats)
}
