package main

import (
	"bytes"
	"context"
	"fmt"
	"math/big"
	"sort"
	"strings"

	"verifharness/internal/asm"
	"verifharness/internal/impl"
	"verifharness/internal/items"
	"verifharness/internal/rng"

	"github.com/artela-network/artela-evm/vm"
	"github.com/ethereum/go-ethereum/common"
	"github.com/ethereum/go-ethereum/crypto"
	"github.com/holiman/uint256"
)

func init() { commands["journal"] = cmdJournal }

type joCase struct {
	Idx    int      `json:"idx"`
	Fork   string   `json:"fork"`
	Desc   []string `json:"steps"`
	Code   string   `json:"code"`
	Result string   `json:"result"`
	Oracle []string `json:"oracle_fail,omitempty"`
	Class  string   `json:"class"`
	Line   string   `json:"-"`
}

var joSelf = common.HexToAddress("0x000000000000000000000000000000000000c0de")

type joKey struct {
	slot, off *uint256.Int // off nil = reference typed (no offset operand)
	ty        common.Hash
	path      [][]byte
	expect    [][]byte // expected collapsed change list under call 0
	noOracle  bool     // a hostile step may have journaled through this key
}

func big2(e uint) *uint256.Int { return new(uint256.Int).Lsh(uint256.NewInt(1), e) }

func hostileWords() []*uint256.Int {
	m1 := func(x *uint256.Int) *uint256.Int { return new(uint256.Int).Sub(x, uint256.NewInt(1)) }
	return []*uint256.Int{uint256.NewInt(0), uint256.NewInt(1), uint256.NewInt(31), uint256.NewInt(32), uint256.NewInt(33),
		m1(big2(63)), big2(63), m1(big2(64)), big2(64), m1(new(uint256.Int).SetAllOne()), new(uint256.Int).SetAllOne(), big2(255), big2(40)}
}

// solidity storage encoding of a bytes/string value
func solEncodeString(st map[common.Hash]common.Hash, slot *uint256.Int, content []byte) {
	key := common.Hash(slot.Bytes32())
	if len(content) < 32 {
		var w [32]byte
		copy(w[:], content)
		w[31] = byte(2 * len(content))
		st[key] = w
		return
	}
	st[key] = common.BigToHash(big.NewInt(int64(2*len(content) + 1)))
	base := new(uint256.Int).SetBytes(crypto.Keccak256(key[:]))
	for i := 0; i*32 < len(content); i++ {
		var w [32]byte
		end := (i + 1) * 32
		if end > len(content) {
			end = len(content)
		}
		copy(w[:], content[i*32:end])
		pos := new(uint256.Int).Add(base, uint256.NewInt(uint64(i)))
		st[common.Hash(pos.Bytes32())] = w
	}
}

func collapseAppend(l [][]byte, v []byte) [][]byte {
	if len(l) > 0 && bytes.Equal(l[len(l)-1], v) {
		return l
	}
	return append(l, append([]byte{}, v...))
}

func genJournalCase(r *rng.R, fork string) joCase {
	cs := joCase{Fork: fork, Class: "valid"}
	storage := map[common.Hash]common.Hash{}
	prog := asm.New()
	touched := map[common.Hash]bool{} // every storage position the program ever wrote
	// flush writes the difference between the generator's view and what the program has stored so far
	stored := map[common.Hash]common.Hash{}
	flush := func() {
		for _, kv := range sortedStorage(storage) {
			if stored[kv[0]] != kv[1] {
				prog.PushBytes(kv[1][:]).PushBytes(kv[0][:]).Op(asm.SSTORE)
				stored[kv[0]] = kv[1]
				touched[kv[0]] = true
			}
		}
	}
	// memory layout: strings (length word + data) written at 0x00, 0x80, 0x100, 0x180
	names := [][]byte{[]byte("balance"), []byte("a"), {}, []byte("a-rather-long-state-variable-name-over-32-bytes")}
	idxStr := [][]byte{[]byte("k1"), {0x00, 0x01}, r.Bytes(33)}
	memPtr := map[string]uint64{}
	cur := uint64(0)
	writeStr := func(b []byte) uint64 {
		if p, ok := memPtr[string(b)]; ok {
			return p
		}
		p := cur
		prog.Push(uint64(len(b))).Push(p).Op(asm.MSTORE)
		prog.MstoreBytes(p+32, b)
		cur = p + 32 + uint64((len(b)+31)/32*32)
		if len(b) == 0 {
			cur = p + 32
		}
		memPtr[string(b)] = p
		return p
	}
	slots := []*uint256.Int{uint256.NewInt(0), uint256.NewInt(1), uint256.NewInt(2), uint256.NewInt(7),
		new(uint256.Int).SetBytes(crypto.Keccak256([]byte("slot")))}
	types := []common.Hash{common.HexToHash("0x0a"), common.HexToHash("0x0b"), crypto.Keccak256Hash([]byte("t_string"))}
	var keys []*joKey
	var invalidEnc []string // hostile VRJNAL steps on words that are certainly not a valid string encoding
	pushH := func(h common.Hash) { prog.PushBytes(h[:]) }
	pushU := func(u *uint256.Int) { b := u.Bytes32(); prog.PushBytes(b[:]) }
	desc := func(f string, a ...interface{}) { cs.Desc = append(cs.Desc, fmt.Sprintf(f, a...)) }
	usedTriples := map[string]bool{}
	tkey := func(slot, off *uint256.Int, ty common.Hash) string {
		o := uint64(0)
		if off != nil {
			o = off.Uint64()
		}
		return fmt.Sprintf("%x/%d/%x", slot.Bytes32(), o, ty)
	}
	usedNames := map[string]bool{}

	regTop := func() *joKey {
		name := names[r.Intn(len(names))]
		slot := slots[r.Intn(len(slots))]
		ty := types[r.Intn(len(types))]
		p := writeStr(name)
		k := &joKey{slot: slot, ty: ty, path: [][]byte{name}}
		if r.Bool() { // value typed: VSVJNAL(namePtr, slot, offset, typeId)
			off := uint256.NewInt(uint64(r.Intn(32)))
			k.off = off
			pushH(ty)
			pushU(off)
			pushU(slot)
			prog.Push(p).Op(0xe1, asm.JUMPDEST)
			desc("VSVJNAL name=%q slot=%s off=%d ty=%x", name, slot.Hex(), off.Uint64(), ty[28:])
		} else { // RSVJNAL(namePtr, slot, typeId)
			pushH(ty)
			pushU(slot)
			prog.Push(p).Op(0xe0, asm.JUMPDEST)
			desc("RSVJNAL name=%q slot=%s ty=%x", name, slot.Hex(), ty[28:])
		}
		nk := "root/" + string(name)
		tk := tkey(k.slot, k.off, k.ty)
		if usedNames[nk] || usedTriples[tk] {
			usedNames[nk], usedTriples[tk] = true, true
			return nil // not tracked by the oracle
		}
		usedNames[nk], usedTriples[tk] = true, true
		keys = append(keys, k)
		return k
	}
	regNested := func() {
		if len(keys) == 0 {
			return
		}
		parent := keys[r.Intn(len(keys))]
		if parent.off != nil && !parent.off.IsZero() {
			return
		}
		slot := slots[r.Intn(len(slots))]
		ty := types[r.Intn(len(types))]
		k := &joKey{slot: slot, ty: ty}
		var key []byte
		kind := r.Intn(4)
		switch kind {
		case 0: // IRVVJNAL(base, slot, keyPtr, offset, typeId, parentTypeId)
			key = idxStr[r.Intn(len(idxStr))]
			p := writeStr(key)
			k.off = uint256.NewInt(uint64(r.Intn(32)))
			pushH(parent.ty)
			pushH(ty)
			pushU(k.off)
			prog.Push(p)
			pushU(slot)
			pushU(parent.slot)
			prog.Op(0xe2, asm.JUMPDEST)
		case 1: // IRVRJNAL(base, slot, keyPtr, typeId, parentTypeId)
			key = idxStr[r.Intn(len(idxStr))]
			p := writeStr(key)
			pushH(parent.ty)
			pushH(ty)
			prog.Push(p)
			pushU(slot)
			pushU(parent.slot)
			prog.Op(0xe3, asm.JUMPDEST)
		case 2: // IVVVJNAL(base, slot, keyValue, offset, typeId, parentTypeId)
			kv := uint256.NewInt(uint64(r.Intn(3)))
			b := kv.Bytes32()
			key = b[:]
			k.off = uint256.NewInt(uint64(r.Intn(32)))
			pushH(parent.ty)
			pushH(ty)
			pushU(k.off)
			pushU(kv)
			pushU(slot)
			pushU(parent.slot)
			prog.Op(0xe4, asm.JUMPDEST)
		default: // IVVRJNAL(base, slot, keyValue, typeId, parentTypeId)
			kv := uint256.NewInt(uint64(r.Intn(3)))
			b := kv.Bytes32()
			key = b[:]
			pushH(parent.ty)
			pushH(ty)
			pushU(kv)
			pushU(slot)
			pushU(parent.slot)
			prog.Op(0xe5, asm.JUMPDEST)
		}
		desc("nested kind=%d parent=(%s,%x) key=%x slot=%s ty=%x", kind, parent.slot.Hex(), parent.ty[28:], key, slot.Hex(), ty[28:])
		k.path = append(append([][]byte{}, parent.path...), key)
		nk := tkey(parent.slot, nil, parent.ty) + "/" + string(key)
		tk := tkey(k.slot, k.off, k.ty)
		if usedNames[nk] || usedTriples[tk] {
			usedNames[nk], usedTriples[tk] = true, true
			return
		}
		usedNames[nk], usedTriples[tk] = true, true
		keys = append(keys, k)
	}
	change := func() {
		if len(keys) == 0 {
			return
		}
		k := keys[r.Intn(len(keys))]
		if k.off != nil { // VVJNAL(slot, offset, typeSize, typeId)
			key := common.Hash(k.slot.Bytes32())
			if _, ok := storage[key]; !ok || r.Chance(1, 3) {
				storage[key] = common.BytesToHash(r.Bytes(32))
			}
			maxSize := 32 - int(k.off.Uint64())
			size := r.Intn(maxSize + 1)
			flush()
			pushH(k.ty)
			prog.Push(uint64(size))
			pushU(k.off)
			pushU(k.slot)
			prog.Op(0xe6, asm.JUMPDEST)
			w := storage[key]
			o := int(k.off.Uint64())
			k.expect = collapseAppend(k.expect, w[32-o-size:32-o])
			desc("VVJNAL slot=%s off=%d size=%d", k.slot.Hex(), o, size)
		} else { // VRJNAL(slot, typeId)
			lens := []int{0, 1, 2, 30, 31, 32, 33, 63, 64, 65, 96, 100, 130, 200}
			content := r.Bytes(lens[r.Intn(len(lens))])
			switch r.Intn(6) {
			case 4, 5: // whole 32-byte data words of zeros (leading, in the middle, several) with non-zero bytes after them
				for w := 0; (w+1)*32 <= len(content); w++ {
					if r.Intn(3) != 0 {
						for i := w * 32; i < (w+1)*32; i++ {
							content[i] = 0
						}
					}
				}
				if n := len(content); n > 0 && content[n-1] == 0 {
					content[n-1] = 0x5a
				}
			case 0:
				if len(content) > 0 {
					content[0] = 0
				}
			case 1:
				for i := range content {
					content[i] = 0
				}
			}
			// a long string must not collide with the registered slots (hashed positions never do in practice)
			solEncodeString(storage, k.slot, content)
			flush()
			pushH(k.ty)
			pushU(k.slot)
			prog.Op(0xe7, asm.JUMPDEST)
			k.expect = collapseAppend(k.expect, content)
			desc("VRJNAL slot=%s content=%x", k.slot.Hex(), content)
		}
	}
	hostile := func() {
		cs.Class = "hostile"
		ws := hostileWords()
		w := func() *uint256.Int { return ws[r.Intn(len(ws))] }
		switch r.Intn(6) {
		case 0: // VVJNAL with arbitrary offset/size
			slot := slots[r.Intn(len(slots))]
			off, size := w(), w()
			if r.Bool() {
				off = uint256.NewInt(uint64(r.Intn(34)))
			}
			if r.Bool() {
				size = uint256.NewInt(uint64(r.Intn(35)))
			}
			ty := types[r.Intn(len(types))]
			if len(keys) > 0 && r.Bool() {
				k := keys[r.Intn(len(keys))]
				slot, ty = k.slot, k.ty
			}
			for _, k := range keys {
				if k.slot.Eq(slot) {
					k.noOracle = true
				}
			}
			pushH(ty)
			pushU(size)
			pushU(off)
			pushU(slot)
			prog.Op(0xe6, asm.JUMPDEST)
			desc("hostile VVJNAL slot=%s off=%s size=%s", slot.Hex(), off.Hex(), size.Hex())
		case 1: // VRJNAL on an invalid / odd length word
			slot := slots[r.Intn(len(slots))]
			ty := types[r.Intn(len(types))]
			if len(keys) > 0 {
				k := keys[r.Intn(len(keys))]
				slot, ty = k.slot, k.ty
			}
			for _, k := range keys {
				if k.slot.Eq(slot) {
					k.noOracle = true
				}
			}
			var word common.Hash
			switch r.Intn(4) {
			case 0: // short form with a length of 32 or more
				word = common.BytesToHash(r.Bytes(32))
				word[31] = byte(2 * (32 + r.Intn(96))) // every even low byte 0x40..0xfe
				invalidEnc = append(invalidEnc, fmt.Sprintf("short form (even low byte %#x) announcing %d >= 32 bytes", word[31], word[31]/2))
			case 1: // long form with a length below 32
				word = common.BigToHash(big.NewInt(int64(2*r.Intn(32) + 1)))
				invalidEnc = append(invalidEnc, fmt.Sprintf("long form (odd word %#x) announcing %d < 32 bytes", word[31], word[31]/2))
			case 2: // long form, moderate length, data slots unset
				word = common.BigToHash(big.NewInt(int64(2*(32+r.Intn(3000)) + 1)))
			default:
				word = common.BytesToHash(r.Bytes(32))
				if word[31]&1 == 1 { // avoid astronomically long loops (known finding F7 is probed separately)
					word = common.BigToHash(new(big.Int).SetUint64(uint64(2*(32+r.Intn(5000)) + 1)))
				}
			}
			storage[common.Hash(slot.Bytes32())] = word
			flush()
			pushH(ty)
			pushU(slot)
			prog.Op(0xe7, asm.JUMPDEST)
			desc("hostile VRJNAL slot=%s word=%x", slot.Hex(), word)
		case 2, 3: // state-var journal with a hostile memory pointer
			ptr := w()
			if r.Bool() {
				// around the end of memory
				ptr = uint256.NewInt(cur - uint64(r.Intn(40)))
				if r.Bool() {
					ptr = uint256.NewInt(cur + uint64(r.Intn(40)))
				}
			}
			ty := types[r.Intn(len(types))]
			pushH(ty)
			pushU(slots[r.Intn(len(slots))])
			pushU(ptr)
			prog.Op(0xe0, asm.JUMPDEST)
			desc("hostile RSVJNAL ptr=%s (msize=%d)", ptr.Hex(), cur)
		case 4: // length word larger than memory
			p := cur
			lw := w()
			b := lw.Bytes32()
			prog.PushBytes(b[:]).Push(p).Op(asm.MSTORE)
			cur = p + 32
			pushH(types[0])
			pushU(uint256.NewInt(uint64(r.Intn(32))))
			pushU(slots[r.Intn(len(slots))])
			prog.Push(p).Op(0xe1, asm.JUMPDEST)
			desc("hostile VSVJNAL length word=%s at end of memory", lw.Hex())
		default: // nested under an unknown parent / hostile offset
			key := idxStr[0]
			p := writeStr(key)
			pushH(types[r.Intn(len(types))])
			pushH(types[r.Intn(len(types))])
			pushU(w())
			prog.Push(p)
			pushU(slots[r.Intn(len(slots))])
			pushU(slots[r.Intn(len(slots))])
			prog.Op(0xe2, asm.JUMPDEST)
			desc("hostile IRVVJNAL")
		}
	}

	n := 1 + r.Intn(10)
	for i := 0; i < n; i++ {
		switch x := r.Intn(10); {
		case x < 3:
			regTop()
		case x < 5:
			regNested()
		default:
			change()
		}
	}
	if r.Chance(2, 5) {
		hostile()
	}
	prog.Op(asm.STOP)
	code := prog.Bytes()
	cs.Code = fmt.Sprintf("%x", code)

	// ---- run on the implementation
	rec := &impl.Recorder{KeepMem: true, KeepOps: func(op byte) bool { return true }}
	env := impl.NewEnv(impl.Opts{Fork: fork, Tracer: rec, JP: false})
	_ = sortedStorage
	env.SetCode(joSelf, code)
	// storage positions whose content the model may ask for: everything the program writes, the
	// registered slots, and a window after each hashed string position
	var watch []common.Hash
	for k := range touched {
		watch = append(watch, k)
	}
	for _, s := range slots {
		watch = append(watch, common.Hash(s.Bytes32()))
		for _, pre := range [][]byte{func() []byte { b := s.Bytes32(); return b[:] }(), s.Bytes()} {
			base := new(uint256.Int).SetBytes(crypto.Keccak256(pre))
			for i := uint64(0); i < 6; i++ {
				watch = append(watch, common.Hash(new(uint256.Int).Add(base, uint256.NewInt(i)).Bytes32()))
			}
		}
	}
	sort.Slice(watch, func(i, j int) bool { return bytes.Compare(watch[i][:], watch[j][:]) < 0 }) // canonical: the case line is also compared across runs (C16)
	rec.OnState = func(e *impl.Event, scope *vm.ScopeContext) {
		if e.Op >= 0xe6 && e.Op <= 0xe7 {
			var buf []byte
			for _, k := range watch {
				v := env.State.GetState(joSelf, k)
				if v != (common.Hash{}) {
					buf = append(buf, k[:]...)
					buf = append(buf, v[:]...)
				}
			}
			e.RData = buf // re-used as the storage snapshot of this step
		}
	}
	env.Prepare(&joSelf)
	var ret []byte
	var left uint64
	var err error
	gas := uint64(5_000_000)
	pan := impl.Guard(func() {
		ret, left, err = env.EVM.Call(context.Background(), vm.AccountRef(impl.Origin), joSelf, []byte{1, 2, 3}, gas, big.NewInt(0))
	})
	tr := env.EVM.Tracer()

	l := items.New("JO")
	impl.AddrN(l, joSelf)
	// keccak table: padded and minimal forms of every slot (a wrong preimage then reads other data, it does not go unnoticed)
	l.Open()
	for _, s := range slots {
		b32 := s.Bytes32()
		l.Open().B(b32[:]).Big(new(big.Int).SetBytes(crypto.Keccak256(b32[:]))).Close()
		l.Open().B(s.Bytes()).Big(new(big.Int).SetBytes(crypto.Keccak256(s.Bytes()))).Close()
	}
	l.Close()
	// pre: the SaveCall of the top-level frame
	l.Open().Open().N(2)
	impl.AddrN(l, impl.Origin)
	l.Open()
	impl.AddrN(l, joSelf)
	l.Close().B([]byte{1, 2, 3}).N(0).N(gas).Close().Close()
	// steps
	l.Open()
	evs := rec.Events
	pops := map[byte]int{0xe0: 3, 0xe1: 4, 0xe2: 6, 0xe3: 5, 0xe4: 6, 0xe5: 5, 0xe6: 4, 0xe7: 2}
	for i, e := range evs {
		if e.Kind != "state" || e.Op < 0xe0 || e.Op > 0xe7 {
			continue
		}
		np := pops[e.Op]
		l.Open().N(uint64(e.Op)).Open()
		for j := 0; j < np && j < len(e.Stack); j++ {
			l.Big(e.Stack[len(e.Stack)-1-j].ToBig())
		}
		l.Close().B(e.Mem)
		// outcome: a following step in the same frame means success
		ok := false
		var next *impl.Event
		for j := i + 1; j < len(evs); j++ {
			if evs[j].Kind == "state" || evs[j].Kind == "fault" {
				next = &evs[j]
				break
			}
		}
		if next != nil && next.Kind == "state" && !next.HasErr && next.Pc == e.Pc+1 {
			ok = true
		}
		if ok {
			l.Res(0, nil)
			// invisibility oracle (C12): operands popped, rest of the stack and memory untouched
			if len(next.Stack) != len(e.Stack)-np {
				cs.Oracle = append(cs.Oracle, fmt.Sprintf("step pc=%d: stack height %d -> %d, expected %d pops", e.Pc, len(e.Stack), len(next.Stack), np))
			} else {
				for j := range next.Stack {
					if !next.Stack[j].Eq(&e.Stack[j]) {
						cs.Oracle = append(cs.Oracle, fmt.Sprintf("step pc=%d: stack below the operands changed", e.Pc))
						break
					}
				}
			}
			if !bytes.Equal(next.Mem, e.Mem) {
				cs.Oracle = append(cs.Oracle, fmt.Sprintf("step pc=%d: memory changed", e.Pc))
			}
			if e.Gas-next.Gas != 800 {
				cs.Oracle = append(cs.Oracle, fmt.Sprintf("step pc=%d: charged %d", e.Pc, e.Gas-next.Gas))
			}
		} else {
			msg := "halt"
			if err != nil {
				msg = err.Error()
			}
			if pan != "" {
				l.Res(2, []byte(pan))
			} else {
				l.Res(1, []byte(msg))
			}
		}
		l.N(e.Cost).Open()
		for j := 0; j+64 <= len(e.RData) && e.Op >= 0xe6; j += 64 {
			l.Open().Big(new(big.Int).SetBytes(e.RData[j : j+32])).Big(new(big.Int).SetBytes(e.RData[j+32 : j+64])).Close()
		}
		l.Close().Close()
	}
	l.Close()
	// post: the deferred ExitCall, then queries
	l.Open()
	if pan == "" {
		l.Open().N(3).N(left).B(ret).Open()
		if err != nil {
			l.S(err.Error())
		}
		l.Close().Close()
		for _, k := range keys {
			// by path
			kc := tr.StateChanges().FindKeyIndices(joSelf, string(k.path[0]), k.path[1:]...)
			l.Open().N(10)
			impl.AddrN(l, joSelf)
			l.B(k.path[0]).Open()
			for _, x := range k.path[1:] {
				l.B(x)
			}
			l.Close()
			impl.DumpKey(l, kc)
			l.Close()
			// by slot
			sc, serr := tr.StateChanges().Slot(joSelf, k.slot, k.off, k.ty)
			l.Open().N(11)
			impl.AddrN(l, joSelf)
			l.Big(k.slot.ToBig())
			optOff(l, k.off)
			l.Big(k.ty.Big()).Open()
			if serr != nil {
				l.N(1).S(serr.Error())
			} else {
				l.N(0)
				impl.DumpChanges(l, sc)
			}
			l.Close().Close()
			// C09 oracle: the recorded values are exactly the decoded storage contents
			var got [][]byte
			if sc != nil {
				got = sc.Changes()[0]
			}
			if !k.noOracle && !equalLists(got, k.expect) {
				cs.Oracle = append(cs.Oracle, fmt.Sprintf("key slot=%s off=%v: journaled %x, storage content was %x", k.slot.Hex(), k.off, got, k.expect))
			}
		}
		l.Open().N(14)
		impl.DumpCallTree(l, tr.CallTree())
		l.Close()
	}
	l.Close()
	switch {
	case pan != "":
		cs.Result = "panic: " + pan
		cs.Oracle = append(cs.Oracle, "Go panic: "+pan)
	case err != nil:
		cs.Result = "err: " + err.Error()
		if cs.Class == "valid" {
			cs.Oracle = append(cs.Oracle, "well-formed journal program failed: "+err.Error())
		}
	default:
		cs.Result = "ok"
		// C09: "Operands that do not denote ... a valid string encoding are rejected with an error"
		for _, why := range invalidEnc {
			cs.Oracle = append(cs.Oracle, "the reference-journal instruction accepted a storage word that is not a valid string encoding: "+why)
		}
	}
	cs.Line = l.String()
	return cs
}

func equalLists(a, b [][]byte) bool {
	if len(a) != len(b) {
		return false
	}
	for i := range a {
		if !bytes.Equal(a[i], b[i]) {
			return false
		}
	}
	return true
}

func sortedStorage(m map[common.Hash]common.Hash) [][2]common.Hash {
	var out [][2]common.Hash
	for k, v := range m {
		out = append(out, [2]common.Hash{k, v})
	}
	for i := 1; i < len(out); i++ {
		for j := i; j > 0 && bytes.Compare(out[j][0][:], out[j-1][0][:]) < 0; j-- {
			out[j], out[j-1] = out[j-1], out[j]
		}
	}
	return out
}

func cmdJournal(args []string) error {
	c := newCommon("journal")
	c.fs.Parse(args)
	r := rng.New(c.seed)
	forks := []string{"Frontier", "Byzantium", "Istanbul", "Berlin", "London", "Shanghai", "Cancun"}
	var cases []joCase
	stats := map[string]int{}
	var sb strings.Builder
	for i := 0; i < c.n; i++ {
		cs := genJournalCase(r.Fork(), forks[r.Intn(len(forks))])
		cs.Idx = i
		cases = append(cases, cs)
		sb.WriteString(cs.Line + "\n")
		stats["class:"+cs.Class]++
		stats["fork:"+cs.Fork]++
		res := cs.Result
		if len(res) > 40 {
			res = res[:40]
		}
		stats["result:"+res]++
		stats["oracle-failures"] += len(cs.Oracle)
	}
	if err := writeFile(c.out, "cases.txt", sb.String()); err != nil {
		return err
	}
	if err := writeJSON(c.out, "cases.json", cases); err != nil {
		return err
	}
	return writeJSON(c.out, "stats.json", stats)
}
