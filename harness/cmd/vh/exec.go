package main

import (
	"bytes"
	"context"
	"errors"
	"fmt"
	"github.com/ethereum/go-ethereum/core/state"
	"math/big"
	"reflect"
	"sort"
	"strings"

	"verifharness/internal/impl"
	"verifharness/internal/items"
	"verifharness/internal/progen"
	"verifharness/internal/rng"

	"github.com/artela-network/artela-evm/vm"
	actypes "github.com/artela-network/aspect-core/types"
	"github.com/ethereum/go-ethereum/common"
	"github.com/ethereum/go-ethereum/crypto"
	"github.com/holiman/uint256"
	"google.golang.org/protobuf/proto"
)

func init() { commands["exec"] = cmdExec }

// aspect behaviour of the n-th firing (same function as Corr/ExecCorr.v aspect_of)
type aspBehaviour struct {
	Burn uint64 `json:"burn"`
	Kind int    `json:"kind"` // 0 ok, 1 out of gas, 2 "execution reverted", 3 generic failure, 4/5 failures whose text contains "out of gas"
	Ret  string `json:"ret"`
}

type binding struct {
	Pre      bool     `json:"pre"`
	Contract string   `json:"contract"`
	ProvErr  bool     `json:"provider_error"`
	Ids      []string `json:"ids"`
}

type exCase struct {
	Idx      int               `json:"idx"`
	Fork     string            `json:"fork"`
	Entry    int               `json:"entry"`
	JP       bool              `json:"jp"`
	Debug    bool              `json:"debug"`
	AspLog   bool              `json:"asp_logger"`
	Gas      uint64            `json:"gas"`
	Value    uint64            `json:"value"`
	Input    string            `json:"input"`
	Codes    map[string]string `json:"codes"`
	Bindings []binding         `json:"bindings"`
	Aspects  []aspBehaviour    `json:"aspect_behaviours"`
	Result   string            `json:"result"`
	Frames   int               `json:"frames"`
	Firings  int               `json:"firings"`
	JPFail   int               `json:"jp_failures"`
	Journal  int               `json:"journal_steps"`
	Oracle   []string          `json:"oracle_fail,omitempty"`
	Skipped  string            `json:"skipped,omitempty"`
	Toggles  []int             `json:"jp_switch_flipped_at_call_steps,omitempty"` // the host flips EVM.IsExecuteJP just before the n-th executed CALL-family instruction
	Line     string            `json:"-"`
}

// plainLogger hides the AspectLogger methods of a Recorder.
type plainLogger struct{ vm.EVMLogger }

func errItem(l *items.L, err error) {
	l.Open()
	switch {
	case err == nil:
	case err == vm.ErrExecutionReverted:
		l.N(0)
	case err == vm.ErrOutOfGas:
		l.N(1)
	default:
		l.N(2).S(err.Error())
	}
	l.Close()
}

func errItemText(l *items.L, has bool, text string, isRevertIdentity, isOogIdentity bool) {
	l.Open()
	switch {
	case !has:
	case isRevertIdentity:
		l.N(0)
	case isOogIdentity:
		l.N(1)
	default:
		l.N(2).S(text)
	}
	l.Close()
}

func zext(mem []byte, off, size uint64) []byte {
	out := make([]byte, size)
	if off < uint64(len(mem)) {
		copy(out, mem[off:])
	}
	return out
}

type exRun struct {
	transfers []transferObs
	digest0   string
	digest1   string
	regs      []regObs
	rec       *impl.Recorder
	ret       []byte
	left      uint64
	err       error
	addr      common.Address
	pan       string
	env       *impl.Env
	tracer    *vm.Tracer     // the tracer whose answers are dumped (the EVM's own; a fresh one for a reference run)
	state     *state.StateDB // the state after the run
	noArtela  bool           // the case describes a run WITHOUT the Artela additions (reference implementation)
	created   []common.Address
	touched   map[common.Address]map[common.Hash]bool
	extraAdr  map[common.Address]bool
	seen      map[common.Address]bool // every address the execution mentioned (the universe of the world digests)
}

// regObs is a state-variable registration a journal instruction made (for the closing queries)
type regObs struct {
	self common.Address
	name []byte
}

var exCaller = common.HexToAddress("0x00000000000000000000000000000000000ca11e")

func aspectAddr(i int) common.Address { return common.BigToAddress(big.NewInt(int64(0xa5ec00 + i))) }

// runScenario executes one configuration on the implementation.  World digests (C04 oracle) must be taken over one
// fixed set of addresses and storage keys, so a first pass collects every address and key the execution ever
// mentions and the second, reported pass starts with that set.
func runScenario(cs *exCase, w *world, u progen.Universe, code0 []byte, debug bool) *exRun {
	saved := teeTracers
	teeTracers = nil // extra loggers see the reported pass only
	first := runScenarioWith(cs, w, u, code0, true, nil, nil)
	teeTracers = saved
	if first.pan != "" {
		return first
	}
	return runScenarioWith(cs, w, u, code0, debug, first.seen, first.touched)
}

func runScenarioWith(cs *exCase, w *world, u progen.Universe, code0 []byte, debug bool, seen0 map[common.Address]bool, touched0 map[common.Address]map[common.Hash]bool) *exRun {
	r := &exRun{touched: map[common.Address]map[common.Hash]bool{}, extraAdr: map[common.Address]bool{}}
	for a, ks := range touched0 {
		r.touched[a] = map[common.Hash]bool{}
		for k := range ks {
			r.touched[a][k] = true
		}
	}
	rec := &impl.Recorder{KeepMem: true}
	r.rec = rec
	var tr vm.EVMLogger
	if debug {
		if cs.AspLog {
			tr = rec
			if len(teeTracers) > 0 {
				tr = &teeLogger{ls: append([]vm.EVMLogger{rec}, teeTracers...)}
			}
		} else {
			tr = plainLogger{rec}
		}
	}
	wrapTransfer := func(db vm.StateDB, from, to common.Address, amount *big.Int) {
		o := transferObs{From: from, To: to, B0f: new(big.Int).Set(db.GetBalance(from)), B0t: new(big.Int).Set(db.GetBalance(to)), EventPos: len(rec.Events)}
		db.SubBalance(from, amount)
		db.AddBalance(to, amount)
		o.B1f, o.B1t = new(big.Int).Set(db.GetBalance(from)), new(big.Int).Set(db.GetBalance(to))
		r.transfers = append(r.transfers, o)
	}
	env := impl.NewEnv(impl.Opts{Fork: cs.Fork, Tracer: tr, JP: cs.JP, Transfer: wrapTransfer})
	r.env = env
	r.tracer, r.state = env.EVM.Tracer(), env.State
	w.apply(env.State)
	seenAddrs := map[common.Address]bool{exCaller: true, u.EOA: true, u.Empty: true, impl.Origin: true, impl.Coinbase: true}
	for _, a := range u.Contracts {
		seenAddrs[a] = true
	}
	for _, a := range u.Precomp {
		seenAddrs[a] = true
	}
	// the address a top-level creation will use
	seenAddrs[crypto.CreateAddress(exCaller, w.Nonce[exCaller])] = true
	seenAddrs[crypto.CreateAddress2(exCaller, uint256.NewInt(7).Bytes32(), crypto.Keccak256(code0))] = true
	for a := range seen0 {
		seenAddrs[a] = true
	}
	r.seen = seenAddrs
	installHost()
	// bindings and behaviours
	impl.Provider.Reset()
	for _, b := range cs.Bindings {
		pc := actypes.POST_CONTRACT_CALL_METHOD
		if b.Pre {
			pc = actypes.PRE_CONTRACT_CALL_METHOD
		}
		c := common.HexToAddress(b.Contract)
		if b.ProvErr {
			impl.Provider.SetProviderError(c, pc, errors.New("provider error"))
		} else {
			impl.Provider.Bind(c, pc, b.Ids...)
		}
	}
	impl.Provider.Log = func(contract common.Address, pc actypes.PointCut) {
		rec.Events = append(rec.Events, impl.Event{Kind: "provider", Create: pc == actypes.PRE_CONTRACT_CALL_METHOD, To: contract})
	}
	firing := 0
	impl.Provider.Behave = func(aspectID string, pointcut string, gas int64, req []byte) ([]byte, int64, error) {
		ev := impl.Event{Kind: "fire", Create: pointcut == string(actypes.PRE_CONTRACT_CALL_METHOD), Aspect: common.HexToAddress(aspectID), Gas: uint64(gas)}
		if ev.Create {
			m := &actypes.PreContractCallInput{}
			if err := proto.Unmarshal(req, m); err == nil {
				ev.Req = m
			}
		} else {
			m := &actypes.PostContractCallInput{}
			if err := proto.Unmarshal(req, m); err == nil {
				ev.Req = m
			}
		}
		var b aspBehaviour
		if firing < len(cs.Aspects) {
			b = cs.Aspects[firing]
		}
		firing++
		left := int64(0)
		if b.Burn <= uint64(gas) {
			left = gas - int64(b.Burn)
		}
		var rret []byte
		var rerr error
		switch b.Kind {
		case 0:
			rret = common.FromHex(b.Ret)
		case 1:
			left, rerr = 0, errors.New("out of gas")
		case 2:
			rerr = errors.New("execution reverted")
		case 4: // a failure whose text merely CONTAINS the words (a wrapped inner error): not the runtime's out-of-gas
			rerr = errors.New("aspect: inner call failed: out of gas")
		case 5:
			rerr = errors.New("contract creation code storage out of gas")
		default:
			rerr = errors.New("aspect failed")
		}
		// what this firing answers (for the harness-side oracles)
		ev.ResGas = uint64(left)
		if rerr != nil {
			ev.HasErr, ev.Err = true, rerr.Error()
		}
		rec.Events = append(rec.Events, ev)
		return rret, left, rerr
	}
	// per-step observations that need the live EVM
	evmv := reflect.ValueOf(env.EVM).Elem()
	callSteps := 0
	pendingCreate := map[int]common.Address{} // depth -> creator whose CREATE step was the last step seen at that depth
	rec.OnState = func(e *impl.Event, scope *vm.ScopeContext) {
		if e.HasErr {
			delete(pendingCreate, e.Depth)
			return
		}
		if len(cs.Toggles) > 0 {
			if e.Op == 0xf1 || e.Op == 0xf2 || e.Op == 0xf4 || e.Op == 0xfa {
				for _, k := range cs.Toggles {
					if k == callSteps {
						env.EVM.IsExecuteJP = !env.EVM.IsExecuteJP
					}
				}
				callSteps++
			}
			e.Create = env.EVM.IsExecuteJP // state events of a toggled run carry the switch position
		}
		if n := len(e.Stack); n >= 2 {
			switch e.Op {
			case 0xf1, 0xf2, 0xf4, 0xfa:
				seenAddrs[common.Address(e.Stack[n-2].Bytes20())] = true
			case 0xff:
				seenAddrs[common.Address(e.Stack[n-1].Bytes20())] = true
			}
		}
		e.Digest = worldDigest(env.State, seenAddrs, r.touched)
		if n := len(e.Stack); e.Op == 0xe6 && n >= 4 && e.Stack[n-2].IsUint64() && e.Stack[n-3].IsUint64() {
			off, size := e.Stack[n-2].Uint64(), e.Stack[n-3].Uint64()
			if off <= 31 && size <= 32 && off+size <= 32 {
				w := env.State.GetState(e.Self, common.Hash(e.Stack[n-1].Bytes32()))
				e.JVal, e.HasJVal = append([]byte{}, w[32-off-size:32-off]...), true
			}
		}
		if self, ok := pendingCreate[e.Depth]; ok {
			e.Digest2 = worldDigestX(env.State, seenAddrs, r.touched, &self)
			delete(pendingCreate, e.Depth)
		}
		if e.Op == 0xf0 || e.Op == 0xf5 {
			self := e.Self
			e.Digest2 = worldDigestX(env.State, seenAddrs, r.touched, &self)
			pendingCreate[e.Depth] = self
		}
		if (e.Op == 0xe0 || e.Op == 0xe1) && len(e.Stack) >= 1 && e.Stack[len(e.Stack)-1].IsUint64() {
			ptr := e.Stack[len(e.Stack)-1].Uint64()
			if ptr+32 <= uint64(len(e.Mem)) {
				ln := new(big.Int).SetBytes(e.Mem[ptr : ptr+32])
				if ln.IsUint64() && ptr+32+ln.Uint64() <= uint64(len(e.Mem)) {
					r.regs = append(r.regs, regObs{self: e.Self, name: append([]byte{}, e.Mem[ptr+32:ptr+32+ln.Uint64()]...)})
				}
			}
		}
		switch e.Op {
		case 0xf1, 0xf2, 0xf4, 0xfa:
			e.Used = evmv.FieldByName("callGasTemp").Uint()
		case 0xf0, 0xf5:
			n := len(e.Stack)
			if (e.Op == 0xf0 && n >= 3) || (e.Op == 0xf5 && n >= 4) {
				off, size := e.Stack[n-2].Uint64(), e.Stack[n-3].Uint64()
				init := zext(e.Mem, off, size)
				if e.Op == 0xf0 {
					seenAddrs[crypto.CreateAddress(e.Self, env.State.GetNonce(e.Self))] = true
					e.To = crypto.CreateAddress(e.Self, env.State.GetNonce(e.Self))
				} else {
					salt := e.Stack[n-4].Bytes32()
					e.To = crypto.CreateAddress2(e.Self, salt, crypto.Keccak256(init))
				}
				e.Input = init
			}
		case 0x55:
			if n := len(e.Stack); n >= 2 {
				k := common.Hash(e.Stack[n-1].Bytes32())
				if r.touched[e.Self] == nil {
					r.touched[e.Self] = map[common.Hash]bool{}
				}
				r.touched[e.Self][k] = true
			}
		case 0xe6, 0xe7:
			// storage the journal instruction may read: its slot and a window after the hashed positions
			if n := len(e.Stack); n >= 1 {
				slot := e.Stack[n-1]
				var buf []byte
				add := func(k common.Hash) {
					v := env.State.GetState(e.Self, k)
					buf = append(buf, k[:]...)
					buf = append(buf, v[:]...)
				}
				b32 := slot.Bytes32()
				add(common.Hash(b32))
				for _, pre := range [][]byte{b32[:], slot.Bytes()} {
					base := new(uint256.Int).SetBytes(crypto.Keccak256(pre))
					for i := uint64(0); i < 5; i++ {
						add(common.Hash(new(uint256.Int).Add(base, uint256.NewInt(i)).Bytes32()))
					}
				}
				e.RData = buf
			}
		}
	}
	to := u.Contracts[0]
	env.Prepare(&to)
	if env.Rules.IsBerlin {
		env.State.AddAddressToAccessList(exCaller) // the transaction sender is always warm
	}
	input := common.FromHex(cs.Input)
	if len(input) == 0 {
		input = nil
	}
	value := new(big.Int).SetUint64(cs.Value)
	caller := vm.AccountRef(exCaller)
	r.digest0 = worldDigest(env.State, seenAddrs, r.touched)
	defer func() { r.digest1 = worldDigest(env.State, seenAddrs, r.touched) }()
	r.pan = impl.Guard(func() {
		ctx := context.Background()
		switch cs.Entry {
		case 0:
			r.ret, r.left, r.err = env.EVM.Call(ctx, caller, to, input, cs.Gas, value)
		case 1:
			r.ret, r.left, r.err = env.EVM.CallCode(ctx, caller, to, input, cs.Gas, value)
		case 2:
			parent := vm.NewContract(caller, caller, value, cs.Gas)
			r.ret, r.left, r.err = env.EVM.DelegateCall(ctx, parent, to, input, cs.Gas)
		case 3:
			r.ret, r.left, r.err = env.EVM.StaticCall(ctx, caller, to, input, cs.Gas)
		case 4:
			r.ret, r.addr, r.left, r.err = env.EVM.Create(ctx, caller, code0, cs.Gas, value)
		default:
			r.ret, r.addr, r.left, r.err = env.EVM.Create2(ctx, caller, code0, cs.Gas, value, uint256.NewInt(7))
		}
	})
	return r
}

// script extraction -----------------------------------------------------------------------------

type scriptParser struct {
	evs     []impl.Event
	i       int
	l       *items.L
	frames  int
	journal int
	bad     string
	created []common.Address
	extra   map[common.Address]bool
}

func isStep(e *impl.Event) bool { return e.Kind == "state" || e.Kind == "fault" }

func (p *scriptParser) effectsOf(e *impl.Event) {
	l := p.l
	n := len(e.Stack)
	l.Open()
	switch {
	case e.Op == 0x55 && n >= 2:
		l.Open().N(0).Big(e.Stack[n-1].ToBig()).Big(e.Stack[n-2].ToBig()).Close()
	case e.Op == 0x5d && n >= 2:
		l.Open().N(1).Big(e.Stack[n-1].ToBig()).Big(e.Stack[n-2].ToBig()).Close()
	case e.Op >= 0xa0 && e.Op <= 0xa4:
		l.Open().N(2).N(uint64(e.Op - 0xa0)).Close()
	case e.Op == 0xff && n >= 1:
		b := e.Stack[n-1].Bytes20()
		p.extra[common.Address(b)] = true
		l.Open().N(3).Big(new(big.Int).SetBytes(b[:])).Close()
	}
	l.Close()
}

// parseFrame writes the actions of the frame running at interpreter depth d, starting at p.i.
func (p *scriptParser) parseFrame(d int) {
	l := p.l
	p.frames++
	for p.i < len(p.evs) {
		e := &p.evs[p.i]
		if !isStep(e) {
			// events between steps of this frame that are not part of a call bracket: skip (provider/aspect events of the frame's own join points come before its first step)
			if e.Kind == "exit" || e.Kind == "end" {
				return
			}
			p.i++
			continue
		}
		if e.Depth != d {
			p.bad = fmt.Sprintf("unexpected depth %d in frame %d at event %d", e.Depth, d, p.i)
			return
		}
		p.i++
		if e.HasErr {
			// failed before being logged as a normal step: AHalt with the error; what it consumed before
			// failing (the constant part, when the dynamic part could not be paid) is read off the contract
			l.Open().N(4).N(e.Pc).N(uint64(e.Op)).N(e.Gas - e.CGas).B(nil)
			errItemText(l, true, e.Err, false, e.Err == vm.ErrOutOfGas.Error())
			l.Open().Close().Close()
			return
		}
		// did this very op fault in execute? (a fault event for the same pc follows)
		if p.i < len(p.evs) && p.evs[p.i].Kind == "fault" && p.evs[p.i].Depth == d && p.evs[p.i].Pc == e.Pc && !(e.Op >= 0xe0 && e.Op <= 0xe7) && e.Op != 0xfd {
			f := &p.evs[p.i]
			p.i++
			l.Open().N(0).N(e.Pc).N(uint64(e.Op)).N(e.Cost).Open().Close().Close()
			l.Open().N(4).N(e.Pc).N(uint64(e.Op)).N(0).B(nil)
			errItemText(l, true, f.Err, false, f.Err == vm.ErrOutOfGas.Error())
			l.Open().Close().Close()
			return
		}
		n := len(e.Stack)
		switch {
		case e.Op == 0xf1 || e.Op == 0xf2 || e.Op == 0xf4 || e.Op == 0xfa:
			kind := map[byte]uint64{0xf1: 0, 0xf2: 1, 0xf4: 2, 0xfa: 3}[e.Op]
			hasValue := e.Op == 0xf1 || e.Op == 0xf2
			need := 6
			if hasValue {
				need = 7
			}
			if n < need {
				p.bad = "short stack at call"
				return
			}
			toB := e.Stack[n-2].Bytes20()
			to := common.Address(toB)
			p.extra[to] = true
			var value *uint256.Int = uint256.NewInt(0)
			k := 3
			if hasValue {
				value = &e.Stack[n-3]
				k = 4
			}
			inOff, inSize := e.Stack[n-k].Uint64(), e.Stack[n-k-1].Uint64()
			input := zext(e.Mem, inOff, inSize)
			gas := e.Used // callGasTemp
			if hasValue && !value.IsZero() {
				gas += 2300
			}
			l.Open().N(1).N(e.Pc).N(uint64(e.Op)).N(e.Cost).N(kind).Big(new(big.Int).SetBytes(toB[:])).B(input).N(gas).Big(value.ToBig())
			l.Open()
			p.bracket(d)
			l.Close().Close()
		case e.Op == 0xf0 || e.Op == 0xf5:
			value := e.Stack[n-1]
			after := e.Gas - e.Cost
			gas := after - after/64
			if impl.ForkIndex(curFork) < 2 {
				gas = after
			}
			p.created = append(p.created, e.To)
			p.extra[e.To] = true
			l.Open().N(2).N(e.Pc).N(uint64(e.Op)).N(e.Cost).N(uint64(e.Op)).B(e.Input).N(gas).Big(value.ToBig()).Big(e.To.Big())
			l.Open()
			p.bracket(d)
			l.Close().Close()
		case e.Op >= 0xe0 && e.Op <= 0xe7:
			p.journal++
			pops := map[byte]int{0xe0: 3, 0xe1: 4, 0xe2: 6, 0xe3: 5, 0xe4: 6, 0xe5: 5, 0xe6: 4, 0xe7: 2}[e.Op]
			l.Open().N(3).N(e.Pc).N(uint64(e.Op)).N(e.Cost).Open()
			for j := 0; j < pops && j < n; j++ {
				l.Big(e.Stack[n-1-j].ToBig())
			}
			if e.Op <= 0xe3 {
				l.Close().B(e.Mem).Open() // only the instructions that take a memory pointer read memory
			} else {
				l.Close().B(nil).Open()
			}
			for j := 0; j+64 <= len(e.RData); j += 64 {
				l.Open().Big(new(big.Int).SetBytes(e.RData[j : j+32])).Big(new(big.Int).SetBytes(e.RData[j+32 : j+64])).Close()
			}
			l.Close().Close()
			// a failing journal instruction ends the frame: the fault event follows
			if p.i < len(p.evs) && p.evs[p.i].Kind == "fault" && p.evs[p.i].Depth == d && p.evs[p.i].Pc == e.Pc {
				p.i++
				return
			}
		case e.Op == 0x00 || e.Op == 0xf3 || e.Op == 0xfd || e.Op == 0xff:
			var ret []byte
			if (e.Op == 0xf3 || e.Op == 0xfd) && n >= 2 {
				ret = zext(e.Mem, e.Stack[n-1].Uint64(), e.Stack[n-2].Uint64())
			}
			l.Open().N(4).N(e.Pc).N(uint64(e.Op)).N(e.Cost).B(ret)
			l.Open()
			if e.Op == 0xfd {
				l.N(0)
			}
			l.Close()
			if e.Op == 0xff {
				p.effectsOf(e)
			} else {
				l.Open().Close()
			}
			l.Close()
			if e.Op == 0xfd && p.i < len(p.evs) && p.evs[p.i].Kind == "fault" && p.evs[p.i].Depth == d && p.evs[p.i].Pc == e.Pc {
				p.i++ // REVERT is reported to the debug tracer as a fault as well
			}
			if e.Op == 0xff && p.i+1 < len(p.evs) && p.evs[p.i].Kind == "enter" && p.evs[p.i].Op == 0xff && p.evs[p.i+1].Kind == "exit" {
				p.i += 2 // SELFDESTRUCT announces itself as a pseudo frame (instruction level, not frame logic)
			}
			return
		default:
			l.Open().N(0).N(e.Pc).N(uint64(e.Op)).N(e.Cost)
			p.effectsOf(e)
			l.Close()
		}
		if p.bad != "" {
			return
		}
	}
}

// bracket consumes the events a call/create made at depth d produced (enter ... exit), writing the
// callee's script (empty when the callee ran no code).
func (p *scriptParser) bracket(d int) {
	if p.i >= len(p.evs) || p.evs[p.i].Kind != "enter" {
		return // refused before anything was announced
	}
	p.i++
	for p.i < len(p.evs) {
		e := &p.evs[p.i]
		switch {
		case isStep(e):
			if e.Depth == d+1 {
				p.parseFrame(d + 1)
				if p.bad != "" {
					return
				}
			} else {
				p.bad = fmt.Sprintf("step at depth %d inside a bracket opened at depth %d", e.Depth, d)
				return
			}
		case e.Kind == "exit":
			p.i++
			return
		default:
			p.i++
		}
	}
}

var curFork string

func writeObservedEvents(l *items.L, evs []impl.Event) {
	l.Open()
	skipExit := false
	for i := range evs {
		e := &evs[i]
		if e.Kind == "enter" && e.Op == 0xff {
			skipExit = true // the SELFDESTRUCT pseudo frame is emitted by the instruction itself
			continue
		}
		if e.Kind == "exit" && skipExit {
			skipExit = false
			continue
		}
		switch e.Kind {
		case "start":
			l.Open().N(0)
			impl.AddrN(l, e.From)
			impl.AddrN(l, e.To)
			l.Bool(e.Create).B(e.Input).N(e.Gas).Big(bigOr0(e.Value)).Close()
		case "end", "exit":
			code := uint64(1)
			if e.Kind == "exit" {
				code = 3
			}
			l.Open().N(code).B(e.Output).N(e.Used)
			errItemText(l, e.HasErr, e.Err, e.ErrIsRevert, e.ErrIsOog)
			l.Close()
		case "enter":
			l.Open().N(2).N(uint64(e.Op))
			impl.AddrN(l, e.From)
			impl.AddrN(l, e.To)
			l.B(e.Input).N(e.Gas).Open()
			if e.Value != nil {
				l.Big(e.Value)
			}
			l.Close().Close()
		case "state", "fault":
			if e.HasErr || e.Kind == "fault" {
				continue
			}
			l.Open().N(4).N(uint64(e.Depth)).N(e.Pc).N(uint64(e.Op)).N(e.Gas).N(e.Cost).Close()
		case "provider":
			l.Open().N(6).Bool(e.Create)
			impl.AddrN(l, e.To)
			l.Close()
		case "aspenter":
			l.Open().N(7).Bool(actypes.JoinPointRunType(e.JP) == actypes.JoinPointRunType_PreContractCall)
			impl.AddrN(l, e.From)
			impl.AddrN(l, e.To)
			impl.AddrN(l, e.Aspect)
			l.B(e.Input).N(e.Gas).Big(bigOr0(e.Value)).Close()
		case "fire":
			l.Open().N(8).Bool(e.Create)
			impl.AddrN(l, e.Aspect)
			l.Open()
			switch m := e.Req.(type) {
			case *actypes.PreContractCallInput:
				c := m.GetCall()
				l.Big(new(big.Int).SetBytes(c.GetFrom())).Big(new(big.Int).SetBytes(c.GetTo())).N(c.GetIndex()).B(c.GetData()).
					Big(new(big.Int).SetBytes(c.GetValue())).N(c.GetGas()).B(nil).B(nil)
			case *actypes.PostContractCallInput:
				c := m.GetCall()
				l.Big(new(big.Int).SetBytes(c.GetFrom())).Big(new(big.Int).SetBytes(c.GetTo())).N(c.GetIndex()).B(c.GetData()).
					Big(new(big.Int).SetBytes(c.GetValue())).N(c.GetGas()).B(c.GetRet()).S(c.GetError())
			default:
				l.N(0)
			}
			l.Close().Close()
		case "aspexit":
			l.Open().N(9).Bool(actypes.JoinPointRunType(e.JP) == actypes.JoinPointRunType_PreContractCall).N(e.ResGas).B(e.Output).Open()
			if e.HasErr {
				l.S(e.Err)
			}
			l.Close().Close()
		}
	}
	l.Close()
}

func bigOr0(v *big.Int) *big.Int {
	if v == nil {
		return big.NewInt(0)
	}
	return v
}

func genBindings(r *rng.R, u progen.Universe) ([]binding, []aspBehaviour) {
	var bs []binding
	for _, c := range u.Contracts {
		for _, pre := range []bool{true, false} {
			switch r.Intn(6) {
			case 0, 1:
				n := 1 + r.Intn(2)
				var ids []string
				for i := 0; i < n; i++ {
					ids = append(ids, aspectAddr(r.Intn(4)).Hex())
				}
				bs = append(bs, binding{Pre: pre, Contract: c.Hex(), Ids: ids})
			case 2:
				if r.Intn(4) == 0 {
					bs = append(bs, binding{Pre: pre, Contract: c.Hex(), ProvErr: true})
				}
			}
		}
	}
	var as []aspBehaviour
	for i := 0; i < 24; i++ {
		b := aspBehaviour{}
		switch r.Intn(8) {
		case 0:
			b.Burn = uint64(r.Intn(3000))
		case 1:
			b.Burn = 1 << 40 // more than available
		case 2:
			b.Burn = uint64(r.Intn(50000))
			b.Ret = "0xabcdef"
		}
		switch r.Intn(10) {
		case 0:
			b.Kind = 1
		case 1:
			b.Kind = 2
		case 2:
			b.Kind = 3
		case 3:
			b.Kind = 4 + r.Intn(2)
		}
		as = append(as, b)
	}
	return bs, as
}

func cmdExec(args []string) error {
	c := newCommon("exec")
	c.fs.Parse(args)
	r := rng.New(c.seed)
	u := progen.DefaultUniverse()
	u.Precomp = []common.Address{common.BigToAddress(big.NewInt(4)), common.BigToAddress(big.NewInt(0x64)),
		common.BigToAddress(big.NewInt(0x65)), common.BigToAddress(big.NewInt(0x66))}
	forks := []string{"Byzantium", "Istanbul", "Berlin", "London", "Shanghai", "Cancun"}
	var cases []exCase
	stats := map[string]int{}
	var sb strings.Builder
	for i := 0; i < c.n; i++ {
		rr := r.Fork()
		cs, w, code0 := genExecCase(rr, u, forks)
		cs.Idx = i
		fork := cs.Fork
		run := runScenario(&cs, w, u, code0, true)
		if run.pan != "" {
			cs.Oracle = append(cs.Oracle, "Go panic: "+run.pan)
			cs.Result = "panic"
			cases = append(cases, cs)
			sb.WriteString("EX [ ]\n")
			continue
		}
		if len(run.rec.Events) > 2500 {
			// very long executions (deep recursion until gas runs out) make the case file huge and add nothing
			// the shorter ones do not show; they are counted, not compared
			stats["skipped-too-long"]++
			continue
		}
		line, skipped := buildExecLine(&cs, run, w, u, code0, true)
		if skipped != "" {
			cs.Skipped = skipped
			stats["skipped"]++
			continue
		}
		cs.Line = line
		cs.Oracle = append(cs.Oracle, frameOracles(&cs, run, run.transfers, run.digest0, run.digest1)...)
		if run.err != nil {
			cs.Result = run.err.Error()
		} else {
			cs.Result = "ok"
		}
		stats["fork:"+fork]++
		stats[fmt.Sprintf("entry:%d", cs.Entry)]++
		stats["frames"] += cs.Frames
		stats["firings"] += cs.Firings
		stats["jp-failures"] += cs.JPFail
		stats["journal-steps"] += cs.Journal
		if cs.Firings > 0 {
			stats["cases-with-firings"]++
		}
		cases = append(cases, cs)
		sb.WriteString(line + "\n")

		// the same scenario with the host flipping the join-point switch between calls (C05): judged by the oracle only
		// (the model has one switch position per execution); the case line repeats the unflipped run
		if cs.JP && cs.Frames >= 2 && rr.Intn(3) == 0 {
			cs3 := cs
			cs3.Idx = len(cases)
			cs3.Oracle = nil
			cs3.Toggles = []int{rr.Intn(3)}
			if rr.Bool() {
				cs3.Toggles = append(cs3.Toggles, cs3.Toggles[0]+1+rr.Intn(2))
			}
			run3 := runScenario(&cs3, w, u, code0, true)
			if run3.pan != "" {
				cs3.Oracle = append(cs3.Oracle, "Go panic: "+run3.pan)
			} else {
				cs3.Oracle = switchOracle(&cs3, run3)
			}
			cs3.Line = line
			stats["switch-flipped"]++
			cases = append(cases, cs3)
			sb.WriteString(line + "\n")
		}

		// the same scenario with the debug tracer off (model: debug = false, same recorded scripts)
		if rr.Intn(3) == 0 {
			cs2 := cs
			cs2.Idx = len(cases)
			cs2.Debug = false
			cs2.Oracle = nil
			run2 := runScenario(&cs2, w, u, code0, false)
			if run2.pan != "" {
				cs2.Oracle = append(cs2.Oracle, "Go panic: "+run2.pan)
			}
			line2, _ := buildExecLineFrom(&cs2, run, run2, w, u, code0)
			cs2.Line = line2
			cs2.Oracle = append(cs2.Oracle, frameOracles(&cs2, run2, run2.transfers, run2.digest0, run2.digest1)...)
			stats["debug-off"]++
			cases = append(cases, cs2)
			sb.WriteString(line2 + "\n")
		}
	}
	for i := range cases {
		cases[i].Idx = i
	}
	if err := writeFile(c.out, "cases.txt", sb.String()); err != nil {
		return err
	}
	if err := writeJSON(c.out, "cases.json", cases); err != nil {
		return err
	}
	return writeJSON(c.out, "stats.json", stats)
}

// genExecCase draws one scenario: configuration, pre-state, codes, Aspect bindings and behaviours.
func genExecCase(rr *rng.R, u progen.Universe, forks []string) (exCase, *world, []byte) {
	return genExecCaseOpts(rr, u, forks, true)
}

// genExecCaseOpts: journal = false gives standard programs only (no journal instructions)
func genExecCaseOpts(rr *rng.R, u progen.Universe, forks []string, journal bool) (exCase, *world, []byte) {
	fork := forks[rr.Intn(len(forks))]
	curFork = fork
	fi := impl.ForkIndex(fork)
	cs := exCase{Fork: fork, Entry: rr.Intn(6), JP: rr.Intn(5) != 0, Debug: true, AspLog: rr.Intn(4) != 0, Gas: 3_000_000, Codes: map[string]string{}}
	if rr.Intn(2) == 0 {
		cs.Entry = 0
	}
	if cs.Entry == 5 && fi < 5 {
		cs.Entry = 4
	}
	if (cs.Entry == 0 || cs.Entry == 1 || cs.Entry >= 4) && rr.Intn(3) == 0 {
		cs.Value = uint64(1 + rr.Intn(50))
	}
	if rr.Intn(6) == 0 {
		cs.Gas = uint64(2000 + rr.Intn(60000))
	}
	if rr.Intn(3) != 0 {
		cs.Input = fmt.Sprintf("%x", rr.Bytes(1+rr.Intn(40)))
	}
	w := &world{Code: map[common.Address][]byte{}, Storage: map[common.Address]map[common.Hash]common.Hash{},
		Balance: map[common.Address]*big.Int{}, Nonce: map[common.Address]uint64{}}
	opts := progen.Opts{Fork: fi, MaxSnips: 10, Cancun: fork == "Cancun", Journal: journal, SmallMem: true}
	// focused families: journal-heavy programs (attribution after refused creates / failed calls), reverting callees under failing Aspects
	focus := rr.Intn(4)
	opts.JournalHeavy = focus == 1
	opts.RevertBias = focus == 2
	for k, a := range u.Contracts {
		code := progen.Program(rr, u, opts)
		if k > 0 && rr.Intn(8) == 0 {
			code = nil
		}
		w.Code[a] = code
		cs.Codes[a.Hex()] = fmt.Sprintf("%x", code)
		w.Balance[a] = big.NewInt(int64(rr.Intn(3)) * 1000)
		w.Storage[a] = map[common.Hash]common.Hash{}
		for s := 0; s < 4; s++ {
			if rr.Bool() {
				w.Storage[a][common.BigToHash(big.NewInt(int64(s)))] = common.BigToHash(big.NewInt(int64(1 + rr.Intn(3))))
			}
		}
	}
	w.Balance[u.EOA] = big.NewInt(12345)
	w.Balance[exCaller] = big.NewInt(1_000_000)
	if rr.Intn(12) == 0 {
		w.Balance[exCaller] = big.NewInt(3)
	}
	w.Nonce[exCaller] = uint64(rr.Intn(3))
	switch rr.Intn(40) {
	case 0: // a creator whose nonce cannot be incremented: its CREATE/CREATE2 is refused up front (nonce overflow)
		w.Nonce[u.Contracts[rr.Intn(len(u.Contracts))]] = ^uint64(0)
	case 1:
		w.Nonce[exCaller] = ^uint64(0)
	}
	code0 := w.Code[u.Contracts[0]]
	if cs.Entry >= 4 {
		code0 = progen.Program(rr, u, progen.Opts{Fork: fi, MaxSnips: 6, Journal: journal, SmallMem: true})
		cs.Codes["init"] = fmt.Sprintf("%x", code0)
	}
	cs.Bindings, cs.Aspects = genBindings(rr, u)
	if focus == 2 {
		// Aspects fail often, in every way, with gas left
		for i := range cs.Aspects {
			cs.Aspects[i].Kind = rr.Intn(6)
			if rr.Bool() {
				cs.Aspects[i].Burn = uint64(rr.Intn(2000))
			}
		}
	}

	return cs, w, code0
}

func buildExecLine(cs *exCase, run *exRun, w *world, u progen.Universe, code0 []byte, debug bool) (string, string) {
	return buildExecLineFrom(cs, run, run, w, u, code0)
}

// buildExecLineFrom writes the case: scripts come from scriptRun (a run with the debug tracer on),
// observations from obsRun (the run under the case's own configuration).
func buildExecLineFrom(cs *exCase, scriptRun, obsRun *exRun, w *world, u progen.Universe, code0 []byte) (string, string) {
	fi := impl.ForkIndex(cs.Fork)
	l := items.New("EX")
	// cfg
	l.Open().Bool(!obsRun.noArtela).Bool(cs.JP).Bool(cs.Debug).Bool(cs.AspLog && cs.Debug).Bool(fi >= 1).Bool(fi >= 3).Bool(fi >= 8).Bool(fi >= 9).Close()
	// world
	l.Open().Open()
	var addrs []common.Address
	seen := map[common.Address]bool{}
	addA := func(a common.Address) {
		if !seen[a] {
			seen[a] = true
			addrs = append(addrs, a)
		}
	}
	for _, a := range u.Contracts {
		addA(a)
	}
	addA(u.EOA)
	addA(exCaller)
	pre := impl.NewState()
	w.apply(pre)
	for _, a := range addrs {
		l.Open()
		impl.AddrN(l, a)
		l.Big(pre.GetBalance(a)).N(pre.GetNonce(a)).B(pre.GetCode(a)).Bool(pre.Exist(a)).Close()
	}
	l.Close().Open()
	for _, a := range u.Contracts {
		var ks []common.Hash
		for k := range w.Storage[a] {
			ks = append(ks, k)
		}
		sort.Slice(ks, func(i, j int) bool { return bytes.Compare(ks[i][:], ks[j][:]) < 0 })
		for _, k := range ks {
			l.Open()
			impl.AddrN(l, a)
			l.Big(k.Big()).Big(w.Storage[a][k].Big()).Close()
		}
	}
	l.Close().Close()
	// bindings
	l.Open()
	for _, b := range cs.Bindings {
		l.Open().Bool(b.Pre)
		impl.AddrN(l, common.HexToAddress(b.Contract))
		if b.ProvErr {
			l.N(1).Open().Close()
		} else {
			l.N(0).Open()
			for _, id := range b.Ids {
				impl.AddrN(l, common.HexToAddress(id))
			}
			l.Close()
		}
		l.Close()
	}
	l.Close()
	// behaviours
	l.Open()
	for _, a := range cs.Aspects {
		l.Open().N(a.Burn).N(uint64(a.Kind)).B(common.FromHex(a.Ret)).Close()
	}
	l.Close()
	// keccak table for the journal instructions: 32-byte and minimal forms of small slots
	l.Open()
	for s := uint64(0); s < 8; s++ {
		v := uint256.NewInt(s)
		b32 := v.Bytes32()
		l.Open().B(b32[:]).Big(new(big.Int).SetBytes(crypto.Keccak256(b32[:]))).Close()
		l.Open().B(v.Bytes()).Big(new(big.Int).SetBytes(crypto.Keccak256(v.Bytes()))).Close()
	}
	l.Close()
	// entry
	input := common.FromHex(cs.Input)
	l.Open().N(uint64(cs.Entry))
	impl.AddrN(l, exCaller)
	impl.AddrN(l, u.Contracts[0])
	if cs.Entry >= 4 {
		l.B(code0)
	} else {
		l.B(input)
	}
	l.N(cs.Gas).N(cs.Value)
	impl.AddrN(l, obsRun.addr)
	l.Close()
	// scripts
	p := &scriptParser{evs: scriptRun.rec.Events, l: l, extra: map[common.Address]bool{}}
	l.Open()
	for p.i < len(p.evs) && !isStep(&p.evs[p.i]) {
		p.i++
	}
	if p.i < len(p.evs) {
		p.parseFrame(1)
	}
	l.Close()
	if p.bad != "" {
		return "", p.bad
	}
	cs.Frames, cs.Journal = p.frames, p.journal
	for _, e := range obsRun.rec.Events {
		if e.Kind == "fire" {
			cs.Firings++
		}
		if e.Kind == "aspexit" && e.HasErr {
			cs.JPFail++
		}
	}
	// observations
	l.Open()
	l.Open().B(obsRun.ret).N(obsRun.left)
	errItem(l, obsRun.err)
	l.Close()
	writeObservedEvents(l, obsRun.rec.Events)
	// tracer queries: call tree + balance journals of every account seen
	tr := obsRun.tracer
	l.Open()
	l.Open().N(14)
	if !impl.DumpCallTree(l, tr.CallTree()) {
		cs.Oracle = append(cs.Oracle, "call tree accessors contradict each other")
	}
	l.Close()
	if cs.Entry >= 4 {
		addA(obsRun.addr)
	}
	for a := range p.extra {
		addA(a)
	}
	regSeen := map[string]bool{}
	for _, rg := range scriptRun.regs {
		k := string(rg.self[:]) + "/" + string(rg.name)
		if regSeen[k] {
			continue
		}
		regSeen[k] = true
		l.Open().N(10)
		impl.AddrN(l, rg.self)
		l.B(rg.name).Open().Close()
		impl.DumpKey(l, tr.StateChanges().FindKeyIndices(rg.self, string(rg.name)))
		l.Close()
	}
	sort.Slice(addrs, func(i, j int) bool { return bytes.Compare(addrs[i][:], addrs[j][:]) < 0 })
	for _, a := range addrs {
		l.Open().N(13)
		impl.AddrN(l, a)
		impl.DumpChanges(l, tr.StateChanges().Balance(a))
		l.Close()
	}
	l.Close()
	// world after
	st := obsRun.state
	l.Open().Open()
	for _, a := range addrs {
		l.Open()
		impl.AddrN(l, a)
		l.Big(st.GetBalance(a)).N(st.GetNonce(a)).N(uint64(len(st.GetCode(a)))).Bool(st.Exist(a)).Bool(st.HasSuicided(a)).Close()
	}
	l.Close().Open()
	for _, a := range addrs {
		keys := map[common.Hash]bool{}
		for k := range w.Storage[a] {
			keys[k] = true
		}
		for k := range scriptRun.touched[a] {
			keys[k] = true
		}
		var ks []common.Hash
		for k := range keys {
			ks = append(ks, k)
		}
		sort.Slice(ks, func(i, j int) bool { return bytes.Compare(ks[i][:], ks[j][:]) < 0 })
		for _, k := range ks {
			l.Open()
			impl.AddrN(l, a)
			l.Big(k.Big()).Big(st.GetState(a, k).Big()).Close()
		}
	}
	l.Close().Open()
	for _, lg := range st.Logs() {
		l.Open()
		impl.AddrN(l, lg.Address)
		l.N(uint64(len(lg.Topics))).Close()
	}
	l.Close().Close()
	l.Close()
	return l.String(), ""
}
