package main

import (
	"context"
	"fmt"
	"math/big"
	"os"
	"os/exec"
	"strings"
	"time"

	"verifharness/internal/asm"
	"verifharness/internal/impl"
	"verifharness/internal/progen"
	"verifharness/internal/rng"

	"github.com/artela-network/artela-evm/vm"
	"github.com/ethereum/go-ethereum/common"
	"github.com/holiman/uint256"
)

func init() {
	commands["fuzzcrash"] = cmdFuzzCrash
	commands["probe-f7"] = cmdProbeF7
}

type crashCase struct {
	Idx    int               `json:"idx"`
	Class  string            `json:"class"`
	Fork   string            `json:"fork"`
	Entry  int               `json:"entry"`
	Codes  map[string]string `json:"codes"`
	Input  string            `json:"input"`
	Gas    uint64            `json:"gas"`
	Result string            `json:"result"`
	Steps  int               `json:"steps"`
	Oracle []string          `json:"oracle_fail,omitempty"`
	Tags   []string          `json:"known_tags,omitempty"`
}

// hostile journal program: one journal instruction with operands from the boundary set, memory and
// storage prepared with boundary contents
func hostileJournalProgram(r *rng.R) []byte {
	ws := hostileWords()
	w := func() *uint256.Int {
		if r.Intn(3) == 0 {
			return uint256.NewInt(uint64(r.Intn(70)))
		}
		return ws[r.Intn(len(ws))]
	}
	b := asm.New()
	// some memory: a few words, one of them a hostile length word
	n := r.Intn(5)
	for i := 0; i < n; i++ {
		x := w().Bytes32()
		b.PushBytes(x[:]).Push(uint64(i * 32)).Op(asm.MSTORE)
	}
	// storage word at slot 0..2: hostile length encodings, but never a long form above 2^20 (known finding F7 is probed separately)
	for s := uint64(0); s < 3; s++ {
		x := w()
		if x.Uint64()&1 == 1 && x.BitLen() > 21 {
			x = uint256.NewInt(x.Uint64()&0xfffff | 1)
		}
		xb := x.Bytes32()
		b.PushBytes(xb[:]).Push(s).Op(asm.SSTORE)
	}
	op := byte(0xe0 + r.Intn(8))
	pops := map[byte]int{0xe0: 3, 0xe1: 4, 0xe2: 6, 0xe3: 5, 0xe4: 6, 0xe5: 5, 0xe6: 4, 0xe7: 2}[op]
	for i := 0; i < pops; i++ {
		x := w()
		if (op == 0xe6 || op == 0xe7) && i == pops-1 {
			x = uint256.NewInt(uint64(r.Intn(3))) // slot operand: one of the prepared slots
		}
		xb := x.Bytes32()
		b.PushBytes(xb[:])
	}
	b.Op(op).Op(asm.STOP)
	return b.Bytes()
}

// depthLimitProgram: a frame calls itself with all gas (so the chain reaches the call depth limit), then tries
// a CREATE/CREATE2 and a CALL of its own — which are refused in the deepest frames — with a journal
// instruction and a value-less call before and after.
func depthLimitProgram(r *rng.R, self, other common.Address, fi int) []byte {
	b := asm.New()
	kind := r.Intn(4)
	if kind == 2 && fi < 1 || kind == 3 && fi < 4 {
		kind = 0
	}
	b.Push(0).Push(0).Push(0).Push(0)
	if kind == 0 || kind == 1 {
		b.Push(0)
	}
	b.PushAddr(self).Op(asm.GAS).Op([]byte{asm.CALL, asm.CALLCODE, asm.DELEGATECALL, asm.STATICCALL}[kind]).Op(asm.POP)
	init := []byte{0x00}
	for i := 0; i < 1+r.Intn(2); i++ {
		switch r.Intn(3) {
		case 0:
			b.MstoreBytes(0x200, init).Push(1).Push(0x200).Push(uint64(r.Intn(2))).Op(asm.CREATE).Op(asm.POP)
		case 1:
			if fi >= 5 {
				b.MstoreBytes(0x200, init).Push(uint64(r.Intn(1 << 30))).Push(1).Push(0x200).Push(0).Op(asm.CREATE2).Op(asm.POP)
			}
		default:
			b.Push(0).Push(0).Push(0).Push(0).Push(0).PushAddr(other).Push(20000).Op(asm.CALL).Op(asm.POP)
		}
	}
	b.Op(asm.STOP)
	return b.Bytes()
}

// treeStructure checks the call tree's own accessors against each other.
func treeStructure(t *vm.CallTree) []string {
	var bad []string
	n := 0
	for ; t.FindCall(uint64(n)) != nil; n++ {
	}
	seen := map[uint64]int{}
	for i := 0; i < n && len(bad) < 4; i++ {
		c := t.FindCall(uint64(i))
		if c.Index != uint64(i) {
			bad = append(bad, fmt.Sprintf("C07: FindCall(%d) returns the node with index %d", i, c.Index))
		}
		if c.IsRoot() != (c.Parent == nil) {
			bad = append(bad, fmt.Sprintf("C07: node %d: IsRoot() = %v but its parent is %v", i, c.IsRoot(), c.Parent != nil))
		}
		ci, ch := c.ChildrenIndices(), t.ChildrenOf(uint64(i))
		if len(ci) != len(ch) {
			bad = append(bad, fmt.Sprintf("C07: node %d: ChildrenIndices() has %d entries, ChildrenOf() %d", i, len(ci), len(ch)))
		} else {
			for k := range ci {
				if ci[k] != ch[k].Index {
					bad = append(bad, fmt.Sprintf("C07: node %d: ChildrenIndices()[%d] = %d but the %d-th child is node %d", i, k, ci[k], k, ch[k].Index))
					break
				}
			}
		}
		if p := t.ParentOf(uint64(i)); p != c.Parent {
			bad = append(bad, fmt.Sprintf("C07: ParentOf(%d) and the node's parent differ", i))
		}
		if c.Parent != nil && c.Parent.Index >= uint64(i) {
			bad = append(bad, fmt.Sprintf("C07: node %d has parent %d (not entered before it)", i, c.Parent.Index))
		}
		last := int64(-1)
		for _, ch := range t.ChildrenOf(uint64(i)) {
			seen[ch.Index]++
			if int64(ch.Index) <= last {
				bad = append(bad, fmt.Sprintf("C07: children of node %d are not in entry order", i))
			}
			last = int64(ch.Index)
			if ch.Parent == nil || ch.Parent.Index != uint64(i) {
				bad = append(bad, fmt.Sprintf("C07: node %d is listed as a child of %d but its parent is another node", ch.Index, i))
			}
		}
	}
	for i := 0; i < n && len(bad) < 4; i++ {
		c := t.FindCall(uint64(i))
		if c.Parent != nil && seen[uint64(i)] != 1 {
			bad = append(bad, fmt.Sprintf("C07: node %d occurs %d times in its parent's children", i, seen[uint64(i)]))
		}
		if c.Parent == nil && seen[uint64(i)] != 0 {
			bad = append(bad, fmt.Sprintf("C07: root node %d is listed as somebody's child", i))
		}
	}
	return bad
}

func cmdFuzzCrash(args []string) error {
	c := newCommon("fuzzcrash")
	only := c.fs.String("class", "", "run only this class of programs")
	c.fs.Parse(args)
	r := rng.New(c.seed)
	u := progen.DefaultUniverse()
	u.Precomp = append(u.Precomp, common.BigToAddress(big.NewInt(0x64)), common.BigToAddress(big.NewInt(0x65)), common.BigToAddress(big.NewInt(0x66)))
	installHost()
	var cases []crashCase
	stats := map[string]int{}
	for i := 0; i < c.n; i++ {
		rr := r.Fork()
		fork := impl.Forks[rr.Intn(len(impl.Forks))]
		fi := impl.ForkIndex(fork)
		cs := crashCase{Idx: i, Fork: fork, Entry: rr.Intn(6), Gas: 2_000_000, Codes: map[string]string{}}
		if cs.Entry == 5 && fi < 5 {
			cs.Entry = 4
		}
		if cs.Entry == 3 && fi < 4 {
			cs.Entry = 0
		}
		if cs.Entry == 2 && fi < 1 {
			cs.Entry = 0
		}
		w := &world{Code: map[common.Address][]byte{}, Storage: map[common.Address]map[common.Hash]common.Hash{},
			Balance: map[common.Address]*big.Int{}, Nonce: map[common.Address]uint64{}}
		opts := progen.Opts{Fork: fi, MaxSnips: 10, Cancun: fork == "Cancun", Journal: true}
		switch rr.Intn(4) {
		case 0:
			cs.Class = "random-bytes"
		case 1:
			cs.Class = "hostile-journal"
		case 2:
			cs.Class = "malformed"
		default:
			cs.Class = "programs"
		}
		if i%25 == 7 {
			cs.Class = "depth-limit"
		}
		if *only != "" {
			cs.Class = *only
		}
		if cs.Class == "depth-limit" {
			cs.Gas = 1 << 50
			if cs.Entry >= 4 {
				cs.Entry = 0
			}
		}
		for k, a := range u.Contracts {
			var code []byte
			switch cs.Class {
			case "random-bytes":
				code = rr.Bytes(rr.Intn(80))
				// keep VRJNAL on attacker-chosen storage out of the random stream (known finding F7): its opcode byte is replaced
				for j := range code {
					if code[j] == 0xe7 {
						code[j] = 0xe6
					}
				}
			case "hostile-journal":
				if k == 0 {
					code = hostileJournalProgram(rr)
				} else {
					code = progen.Program(rr, u, opts)
				}
			case "malformed":
				code = progen.Malformed(rr, u, opts)
			case "depth-limit":
				if k == 0 {
					code = depthLimitProgram(rr, a, u.Contracts[1], fi)
				} else {
					code = []byte{0x00}
				}
			default:
				code = progen.Program(rr, u, opts)
			}
			w.Code[a] = code
			cs.Codes[a.Hex()] = fmt.Sprintf("%x", code)
			w.Balance[a] = big.NewInt(int64(rr.Intn(3)) * 1000)
		}
		w.Balance[exCaller] = big.NewInt(1_000_000)
		cs.Input = fmt.Sprintf("%x", rr.Bytes(rr.Intn(40)))
		rec := &impl.Recorder{KeepOps: func(op byte) bool { return false }}
		env := impl.NewEnv(impl.Opts{Fork: fork, Tracer: rec, JP: rr.Bool()})
		impl.Provider.Reset()
		w.apply(env.State)
		to := u.Contracts[0]
		env.Prepare(&to)
		if env.Rules.IsBerlin {
			env.State.AddAddressToAccessList(exCaller)
		}
		caller := vm.AccountRef(exCaller)
		input := common.FromHex(cs.Input)
		var err error
		code0 := w.Code[to]
		if cs.Entry >= 4 {
			code0 = hostileJournalProgram(rr)
			if rr.Bool() {
				code0 = progen.Program(rr, u, opts)
			}
			cs.Codes["init"] = fmt.Sprintf("%x", code0)
		}
		pan := impl.Guard(func() {
			ctx := context.Background()
			switch cs.Entry {
			case 0:
				_, _, err = env.EVM.Call(ctx, caller, to, input, cs.Gas, big.NewInt(0))
			case 1:
				_, _, err = env.EVM.CallCode(ctx, caller, to, input, cs.Gas, big.NewInt(0))
			case 2:
				_, _, err = env.EVM.DelegateCall(ctx, vm.NewContract(caller, caller, big.NewInt(0), cs.Gas), to, input, cs.Gas)
			case 3:
				_, _, err = env.EVM.StaticCall(ctx, caller, to, input, cs.Gas)
			case 4:
				_, _, _, err = env.EVM.Create(ctx, caller, code0, cs.Gas, big.NewInt(0))
			default:
				_, _, _, err = env.EVM.Create2(ctx, caller, code0, cs.Gas, big.NewInt(0), uint256.NewInt(1))
			}
		})
		switch {
		case pan != "":
			cs.Result = "panic: " + pan
			cs.Oracle = append(cs.Oracle, "C03: Go panic escaped the entry point: "+pan)
		case err != nil:
			cs.Result = "err"
		default:
			cs.Result = "ok"
		}
		// bookkeeping closed: no call left open, and a follow-up call is announced at depth 0 again
		if pan == "" {
			if cur := env.EVM.Tracer().CallTree().Current(); cur != nil {
				cs.Oracle = append(cs.Oracle, fmt.Sprintf("C03: call %d left open after the entry point returned", cur.Index))
				cs.Oracle = append(cs.Oracle, fmt.Sprintf("C07: call %d left open after the entry point returned", cur.Index))
			}
			cs.Oracle = append(cs.Oracle, treeStructure(env.EVM.Tracer().CallTree())...)
			nBefore := 0
			for ; env.EVM.Tracer().CallTree().FindCall(uint64(nBefore)) != nil; nBefore++ {
			}
			before := len(rec.Events)
			pan2 := impl.Guard(func() {
				env.EVM.Call(context.Background(), caller, u.EOA, nil, 50000, big.NewInt(0))
			})
			if pan2 != "" {
				cs.Oracle = append(cs.Oracle, "C03: follow-up call panicked: "+pan2)
			} else if len(rec.Events) <= before || rec.Events[before].Kind != "start" {
				cs.Oracle = append(cs.Oracle, "C03: a follow-up top-level call was not announced as a depth-0 start (call depth not back to rest)")
			} else if nc := env.EVM.Tracer().CallTree().FindCall(uint64(nBefore)); nc == nil || nc.Parent != nil {
				cs.Oracle = append(cs.Oracle, "C07: a follow-up top-level call is not recorded as a new parentless node")
			}
		}
		cs.Steps = len(rec.Events)
		stats["class:"+cs.Class]++
		stats["result:"+strings.SplitN(cs.Result, ":", 2)[0]]++
		stats["fork:"+fork]++
		cases = append(cases, cs)
	}
	if err := writeJSON(c.out, "cases.json", cases); err != nil {
		return err
	}
	return writeJSON(c.out, "stats.json", stats)
}

// probe-f7 runs, in THIS process, a reference journal on a long-form length word of 2^k and reports how
// many storage reads and how much time it took.  The check driver runs it as a child under a timeout
// and an address-space limit: the instruction is unbounded for a flat fee (known finding F7).
func cmdProbeF7(args []string) error {
	c := newCommon("probe-f7")
	k := c.fs.Int("k", 16, "length word = 2^k+1 (long form)")
	c.fs.Parse(args)
	self := common.HexToAddress("0xc0de")
	b := asm.New()
	b.Push(10).Push(0).Push(0).Op(0xe0) // RSVJNAL name ptr 0 (empty name: memory empty -> rejected) — replaced below
	b = asm.New()
	b.Push(0).Push(0).Op(asm.MSTORE)    // memory: length word 0 at 0 (empty name)
	b.Push(10).Push(1).Push(0).Op(0xe0) // register slot 1, type 10, name ""
	b.Push(10).Push(1).Op(0xe7)         // VRJNAL slot 1
	b.Op(asm.STOP)
	cnt := &countingDB{}
	env := impl.NewEnv(impl.Opts{Fork: "Cancun"})
	env.SetCode(self, b.Bytes())
	lw := new(big.Int).Lsh(big.NewInt(1), uint(*k))
	lw.Or(lw, big.NewInt(1))
	env.State.SetState(self, common.BigToHash(big.NewInt(1)), common.BigToHash(lw))
	env.Prepare(&self)
	cnt.StateDB = env.State
	env.EVM.StateDB = cnt
	t0 := time.Now()
	_, left, err := env.EVM.Call(context.Background(), vm.AccountRef(exCaller), self, nil, 1_000_000, big.NewInt(0))
	fmt.Printf("F7 k=%d reads=%d gas_used=%d wall_ms=%d err=%v\n", *k, cnt.reads, 1_000_000-left, time.Since(t0).Milliseconds(), err)
	return nil
}

type countingDB struct {
	vm.StateDB
	reads int
}

func (c *countingDB) GetState(a common.Address, k common.Hash) common.Hash {
	c.reads++
	return c.StateDB.GetState(a, k)
}

var _ = os.Getpid
var _ = exec.Command
