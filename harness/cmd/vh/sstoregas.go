package main

import (
	"context"
	"fmt"
	"math/big"
	"strings"

	"verifharness/internal/impl"
	"verifharness/internal/items"
	"verifharness/internal/progen"
	"verifharness/internal/rng"

	"github.com/artela-network/artela-evm/vm"
	"github.com/ethereum/go-ethereum/common"
	"github.com/ethereum/go-ethereum/core/state"
)

func init() { commands["sstoregas"] = cmdSStoreGas }

// Every successfully charged SSTORE of generated executions on all 13 rule sets (legacy, the Constantinople-only EIP-1283,
// EIP-2200, EIP-2929 with the EIP-2200 and with the EIP-3529 refund): committed, current and new value, gas in front of
// the instruction, its charge, and the refund counter before and after (component SS: Model/SStore.v).

type ssStep struct {
	sched, clears         uint64
	orig, cur, val        *big.Int
	gas, cost, ref0, ref1 uint64
	fork                  string
}

type ssTracer struct {
	st      *state.StateDB
	fork    string
	sched   uint64
	clears  uint64
	lastRef uint64
	lastOK  bool // the previous callback was a step of the same frame that cannot have touched the counter itself
	lastDep int
	steps   []ssStep
}

func (t *ssTracer) CaptureTxStart(uint64) {}
func (t *ssTracer) CaptureTxEnd(uint64)   {}
func (t *ssTracer) CaptureStart(env *vm.EVM, from, to common.Address, create bool, input []byte, gas uint64, value *big.Int) {
	t.lastOK = false
}
func (t *ssTracer) CaptureEnd([]byte, uint64, error) { t.lastOK = false }
func (t *ssTracer) CaptureEnter(typ vm.OpCode, from, to common.Address, input []byte, gas uint64, value *big.Int) {
	t.lastOK = false
}
func (t *ssTracer) CaptureExit([]byte, uint64, error) { t.lastOK = false }
func (t *ssTracer) CaptureState(pc uint64, op vm.OpCode, gas, cost uint64, scope *vm.ScopeContext, rData []byte, depth int, err error) {
	ref := t.st.GetRefund()
	if err == nil && byte(op) == 0x55 && t.lastOK && t.lastDep == depth {
		d := scope.Stack.Data()
		if n := len(d); n >= 2 {
			slot := common.Hash(d[n-1].Bytes32())
			a := scope.Contract.Address()
			t.steps = append(t.steps, ssStep{sched: t.sched, clears: t.clears, fork: t.fork,
				orig: t.st.GetCommittedState(a, slot).Big(), cur: t.st.GetState(a, slot).Big(), val: d[n-2].ToBig(),
				gas: gas, cost: cost, ref0: t.lastRef, ref1: ref})
		}
	}
	t.lastRef, t.lastDep = ref, depth
	// the refund counter is changed by the gas function of SSTORE (seen above) and by SELFDESTRUCT's execution
	t.lastOK = err == nil && byte(op) != 0xff
}
func (t *ssTracer) CaptureFault(pc uint64, op vm.OpCode, gas, cost uint64, scope *vm.ScopeContext, depth int, err error) {
	t.lastOK = false
}

type ssCase struct {
	Idx  int    `json:"idx"`
	Fork string `json:"fork"`
	Orig string `json:"original"`
	Cur  string `json:"current"`
	Val  string `json:"value"`
	Gas  uint64 `json:"gas_before"`
	Cost uint64 `json:"cost"`
	Ref0 uint64 `json:"refund_before"`
	Ref1 uint64 `json:"refund_after"`
}

func cmdSStoreGas(args []string) error {
	c := newCommon("sstoregas")
	c.fs.Parse(args)
	r := rng.New(c.seed)
	u := progen.DefaultUniverse()
	u.Precomp = []common.Address{common.BigToAddress(big.NewInt(4))}
	installHost()
	var cases []ssCase
	var lines []string
	stats := map[string]int{}
	for i := 0; i < c.n; i++ {
		rr := r.Fork()
		fork := impl.Forks[rr.Intn(len(impl.Forks))]
		if rr.Intn(4) == 0 {
			fork = "Constantinople" // the only rule set with EIP-1283
		}
		fi := impl.ForkIndex(fork)
		w := &world{Code: map[common.Address][]byte{}, Storage: map[common.Address]map[common.Hash]common.Hash{}, Balance: map[common.Address]*big.Int{}, Nonce: map[common.Address]uint64{}}
		for _, a := range u.Contracts {
			// storage-heavy programs: the SSTORE snippets of the grammar write slots 0..3 with values from {0,1,2,3,4,0xffff}
			code := progen.Program(rr, u, progen.Opts{Fork: fi, MaxSnips: 10, Cancun: fork == "Cancun"})
			for k := 0; k < 3; k++ {
				code = append(progen.StorageDance(rr), code...)
			}
			w.Code[a] = code
			w.Balance[a] = big.NewInt(1000)
			w.Storage[a] = map[common.Hash]common.Hash{}
			for s := 0; s < 4; s++ {
				if rr.Bool() {
					w.Storage[a][common.BigToHash(big.NewInt(int64(s)))] = common.BigToHash(big.NewInt(int64(1 + rr.Intn(3))))
				}
			}
		}
		w.Balance[exCaller] = big.NewInt(1_000_000)
		tr := &ssTracer{fork: fork}
		switch {
		case fi >= 9: // London and later
			tr.sched, tr.clears = 3, 4800
		case fi == 8:
			tr.sched, tr.clears = 3, 15000
		case fi == 7:
			tr.sched = 2
		case fi == 5:
			tr.sched = 1
		}
		env := impl.NewEnv(impl.Opts{Fork: fork, Tracer: tr})
		tr.st = env.State
		w.apply(env.State)
		env.State.Commit(false) // the pre-state is the committed state: "original" values
		to := u.Contracts[0]
		env.Prepare(&to)
		if env.Rules.IsBerlin {
			env.State.AddAddressToAccessList(exCaller)
		}
		gas := uint64(200_000 + rr.Intn(800_000))
		if rr.Intn(6) == 0 {
			gas = uint64(22_000 + rr.Intn(6000)) // around the re-entrancy sentry
		}
		impl.Guard(func() {
			env.EVM.Call(context.Background(), vm.AccountRef(exCaller), to, rr.Bytes(rr.Intn(20)), gas, big.NewInt(0))
		})
		for _, s := range tr.steps {
			cases = append(cases, ssCase{Idx: len(cases), Fork: s.fork, Orig: s.orig.Text(16), Cur: s.cur.Text(16), Val: s.val.Text(16), Gas: s.gas, Cost: s.cost, Ref0: s.ref0, Ref1: s.ref1})
			lines = append(lines, items.New("SS").N(s.sched).N(s.clears).Big(s.orig).Big(s.cur).Big(s.val).N(s.gas).N(s.cost).N(s.ref0).N(s.ref1).String())
			stats["fork:"+s.fork]++
			switch {
			case s.cur.Cmp(s.val) == 0:
				stats["no-op"]++
			case s.orig.Cmp(s.cur) == 0:
				stats["clean"]++
			default:
				stats["dirty"]++
				if s.orig.Cmp(s.val) == 0 {
					stats["dirty-reset-to-original"]++
				}
			}
			if s.ref1 < s.ref0 {
				stats["refund-decreased"]++
			}
		}
	}
	_ = fmt.Sprint
	if err := writeFile(c.out, "cases.txt", strings.Join(lines, "\n")+"\n"); err != nil {
		return err
	}
	if err := writeJSON(c.out, "cases.json", cases); err != nil {
		return err
	}
	return writeJSON(c.out, "stats.json", stats)
}
