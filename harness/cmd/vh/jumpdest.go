package main

import (
	"context"
	"math/big"
	"strings"

	"verifharness/internal/asm"
	"verifharness/internal/impl"
	"verifharness/internal/items"
	"verifharness/internal/rng"

	"github.com/artela-network/artela-evm/vm"
	"github.com/ethereum/go-ethereum/common"
)

func init() { commands["jumpdest"] = cmdJumpDest }

// Jump-destination analysis, observed through the JUMP instruction: code = PUSH32 d, JUMP, tail, where the tail is dense
// in PUSH opcodes of every width and JUMPDEST bytes (many of them inside push data, at byte boundaries of the analysis bit
// vector, truncated pushes at the end).  For every destination d (every position of the code and some beyond, plus huge
// words) the jump is accepted or refused; Model/JumpDest.v runs the same bit-vector algorithm byte by byte (component JD).

type jdCase struct {
	Idx      int    `json:"idx"`
	CodeLen  int    `json:"code_len"`
	Dest     string `json:"dest"`
	Accepted bool   `json:"accepted"`
	IsJD     bool   `json:"byte_is_jumpdest"`
}

func cmdJumpDest(args []string) error {
	c := newCommon("jumpdest")
	c.fs.Parse(args)
	r := rng.New(c.seed)
	var cases []jdCase
	var lines []string
	stats := map[string]int{}
	self := common.HexToAddress("0xc0de")
	for i := 0; i < c.n; i++ {
		rr := r.Fork()
		n := rr.Intn(160)
		tail := make([]byte, 0, n+33)
		for len(tail) < n {
			switch x := rr.Intn(10); {
			case x < 4:
				tail = append(tail, byte(0x60+rr.Intn(32))) // PUSH1..PUSH32 (its data is whatever follows)
			case x < 7:
				tail = append(tail, 0x5b)
			case x < 8:
				tail = append(tail, 0x00)
			default:
				tail = append(tail, byte(rr.Intn(256)))
			}
		}
		if rr.Intn(3) == 0 {
			tail = append(tail, byte(0x60+rr.Intn(32))) // a PUSH whose data runs past the end of the code
		}
		var dests []*big.Int
		for d := 0; d < 34+len(tail)+40; d++ {
			dests = append(dests, big.NewInt(int64(d)))
		}
		for _, e := range []uint{16, 32, 63, 64, 65, 128, 255} {
			p := new(big.Int).Lsh(big.NewInt(1), e)
			dests = append(dests, p, new(big.Int).Add(p, big.NewInt(int64(34+rr.Intn(len(tail)+1)))))
		}
		for _, d := range dests {
			b := asm.New()
			w := common.LeftPadBytes(d.Bytes(), 32)
			b.PushBytes(w).Op(asm.JUMP)
			code := append(b.Bytes(), tail...)
			rec := &impl.Recorder{MaxSteps: 3}
			env := impl.NewEnv(impl.Opts{Fork: "Cancun", Tracer: rec})
			env.SetCode(self, code)
			env.Prepare(&self)
			impl.Guard(func() {
				env.EVM.Call(context.Background(), vm.AccountRef(exCaller), self, nil, 30000, big.NewInt(0))
			})
			// the step after the JUMP (the second instruction): executed at pc = d iff the jump was accepted
			accepted := false
			steps := 0
			for _, e := range rec.Events {
				if e.Kind == "state" && !e.HasErr { // the refused JUMP is reported again as a fault at its own pc: not a step
					steps++
					if steps == 3 && e.Depth == 1 && d.IsUint64() && e.Pc == d.Uint64() {
						accepted = true
					}
				}
			}
			cs := jdCase{Idx: len(cases), CodeLen: len(code), Dest: d.Text(16), Accepted: accepted}
			if d.IsUint64() && d.Uint64() < uint64(len(code)) {
				cs.IsJD = code[d.Uint64()] == 0x5b
			}
			cases = append(cases, cs)
			lines = append(lines, items.New("JD").B(code).Big(d).Bool(accepted).String())
			if accepted {
				stats["accepted"]++
			} else if cs.IsJD {
				stats["refused-jumpdest-byte-inside-push-data"]++
			} else {
				stats["refused"]++
			}
		}
		stats["codes"]++
	}
	if err := writeFile(c.out, "cases.txt", strings.Join(lines, "\n")+"\n"); err != nil {
		return err
	}
	if err := writeJSON(c.out, "cases.json", cases); err != nil {
		return err
	}
	return writeJSON(c.out, "stats.json", stats)
}
