package main

import (
	"fmt"
	"math/big"

	"verifharness/internal/rng"

	acore "github.com/artela-network/artela-evm/core"
	"github.com/ethereum/go-ethereum/common"
	"github.com/ethereum/go-ethereum/consensus"
	"github.com/ethereum/go-ethereum/consensus/ethash"
	ucore "github.com/ethereum/go-ethereum/core"
	"github.com/ethereum/go-ethereum/core/types"
)

func init() { commands["corectx"] = cmdCoreCtx }

// The glue of package core (block context from a header, BLOCKHASH lookup through the header chain, transaction context
// from a message) on the same headers and messages as go-ethereum v1.12.0's core: every field and every hash must agree,
// and the message handed to Aspects through TxContext.Msg() must be the transaction's.

type fakeChain struct {
	byNum map[uint64]*types.Header
	eng   consensus.Engine
	gets  int
}

func (f *fakeChain) Engine() consensus.Engine { return f.eng }
func (f *fakeChain) GetHeader(h common.Hash, n uint64) *types.Header {
	f.gets++
	hd := f.byNum[n]
	if hd == nil || hd.Hash() != h {
		return nil
	}
	return hd
}

type ccCase struct {
	Idx    int      `json:"idx"`
	Kind   string   `json:"kind"`
	Height uint64   `json:"height"`
	Probes int      `json:"probes,omitempty"`
	Oracle []string `json:"oracle_fail,omitempty"`
}

func cmdCoreCtx(args []string) error {
	c := newCommon("corectx")
	c.fs.Parse(args)
	r := rng.New(c.seed)
	var cases []ccCase
	stats := map[string]int{}
	for i := 0; i < c.n; i++ {
		height := uint64(1 + r.Intn(700))
		if r.Intn(5) == 0 {
			height = uint64(1 + r.Intn(5))
		}
		// a header chain 0..height; optionally with a gap (an ancestor the chain does not know)
		mk := func() *fakeChain {
			ch := &fakeChain{byNum: map[uint64]*types.Header{}, eng: ethash.NewFaker()}
			parent := common.Hash{}
			for n := uint64(0); n <= height; n++ {
				h := &types.Header{Number: new(big.Int).SetUint64(n), ParentHash: parent, Coinbase: common.BigToAddress(big.NewInt(int64(0xc0 + n%7))),
					Difficulty: big.NewInt(int64(1 + n%3)), GasLimit: 30_000_000 + n, Time: 1000 + 12*n, Extra: []byte{byte(i)}}
				if n%5 == 0 {
					h.BaseFee = big.NewInt(int64(7 + n))
				}
				if n%4 == 3 {
					h.Difficulty = big.NewInt(0) // post-merge header: random from the mix digest
					h.MixDigest = common.BigToHash(big.NewInt(int64(0xabc000 + n)))
				}
				ch.byNum[n] = h
				parent = h.Hash()
			}
			return ch
		}
		ca, cu := mk(), mk()
		gap := uint64(0)
		if r.Intn(4) == 0 && height > 10 {
			gap = 1 + uint64(r.Intn(int(height)-2))
			delete(ca.byNum, gap)
			delete(cu.byNum, gap)
		}
		ref := ca.byNum[height]
		cs := ccCase{Idx: len(cases), Kind: "blockhash", Height: height}
		fa, fu := acore.GetHashFn(ref, ca), ucore.GetHashFn(cu.byNum[height], cu)
		// probes in random order (the function caches what it has walked)
		var probes []uint64
		for k := 0; k < 30; k++ {
			switch r.Intn(5) {
			case 0:
				probes = append(probes, height+uint64(r.Intn(3)))
			case 1:
				probes = append(probes, uint64(r.Intn(3)))
			default:
				probes = append(probes, uint64(r.Intn(int(height)+1)))
			}
		}
		for _, n := range probes {
			if a, u := fa(n), fu(n); a != u {
				cs.Oracle = append(cs.Oracle, fmt.Sprintf("C01: GetHashFn at height %d (gap at %d): hash of block %d is %x, go-ethereum gives %x", height, gap, n, a, u))
				break
			}
		}
		if ca.gets != cu.gets {
			cs.Oracle = append(cs.Oracle, fmt.Sprintf("C01: GetHashFn made %d header lookups for the same probes, go-ethereum %d", ca.gets, cu.gets))
		}
		cs.Probes = len(probes)
		cases = append(cases, cs)
		stats["blockhash"]++

		// block context
		cs = ccCase{Idx: len(cases), Kind: "block-context", Height: height}
		var author *common.Address
		if r.Bool() {
			a := common.BigToAddress(big.NewInt(int64(0xa0 + r.Intn(9))))
			author = &a
		}
		hn := uint64(r.Intn(int(height) + 1))
		for ca.byNum[hn] == nil {
			hn = height
		}
		ba, bu := acore.NewEVMBlockContext(ca.byNum[hn], ca, author), ucore.NewEVMBlockContext(cu.byNum[hn], cu, author)
		bigEq := func(x, y *big.Int) bool { return (x == nil) == (y == nil) && (x == nil || x.Cmp(y) == 0) }
		switch {
		case ba.Coinbase != bu.Coinbase:
			cs.Oracle = append(cs.Oracle, fmt.Sprintf("C01: block context of header %d: coinbase %x vs %x", hn, ba.Coinbase, bu.Coinbase))
		case !bigEq(ba.BlockNumber, bu.BlockNumber) || ba.Time != bu.Time || !bigEq(ba.Difficulty, bu.Difficulty) || ba.GasLimit != bu.GasLimit || !bigEq(ba.BaseFee, bu.BaseFee):
			cs.Oracle = append(cs.Oracle, fmt.Sprintf("C01: block context of header %d differs: number %v/%v time %d/%d difficulty %v/%v gas limit %d/%d base fee %v/%v", hn,
				ba.BlockNumber, bu.BlockNumber, ba.Time, bu.Time, ba.Difficulty, bu.Difficulty, ba.GasLimit, bu.GasLimit, ba.BaseFee, bu.BaseFee))
		case (ba.Random == nil) != (bu.Random == nil) || (ba.Random != nil && *ba.Random != *bu.Random):
			cs.Oracle = append(cs.Oracle, fmt.Sprintf("C01: block context of header %d: random %v vs %v", hn, ba.Random, bu.Random))
		case ba.GetHash(hn-hn/2) != bu.GetHash(hn-hn/2):
			cs.Oracle = append(cs.Oracle, fmt.Sprintf("C01: block context of header %d: GetHash differs", hn))
		case ba.CanTransfer == nil || ba.Transfer == nil:
			cs.Oracle = append(cs.Oracle, "C01: block context without transfer functions")
		}
		cases = append(cases, cs)
		stats["block-context"]++

		// transaction context and the message view handed to Aspects
		cs = ccCase{Idx: len(cases), Kind: "tx-context", Height: height}
		to := common.BigToAddress(big.NewInt(int64(r.Intn(1000))))
		msg := &ucore.Message{From: common.BigToAddress(big.NewInt(int64(1 + r.Intn(1000)))), To: &to, Nonce: r.U64(), Value: big.NewInt(int64(r.Intn(1 << 30))),
			GasLimit: r.U64() >> 20, GasPrice: big.NewInt(int64(1 + r.Intn(1<<20))), GasFeeCap: big.NewInt(int64(r.Intn(1 << 20))), GasTipCap: big.NewInt(int64(r.Intn(1 << 10))), Data: r.Bytes(r.Intn(40))}
		if r.Intn(4) == 0 {
			msg.To = nil
		}
		ta, tu := acore.NewEVMTxContext(msg), ucore.NewEVMTxContext(msg)
		if ta.Origin != tu.Origin || ta.GasPrice.Cmp(tu.GasPrice) != 0 {
			cs.Oracle = append(cs.Oracle, fmt.Sprintf("C01: transaction context: origin %x/%x gas price %v/%v", ta.Origin, tu.Origin, ta.GasPrice, tu.GasPrice))
		}
		if ta.GasPrice == msg.GasPrice {
			cs.Oracle = append(cs.Oracle, "C01: transaction context shares the message's gas price value (go-ethereum copies it)")
		}
		m := ta.Msg()
		same := m.From() == msg.From && (m.To() == nil) == (msg.To == nil) && (m.To() == nil || *m.To() == *msg.To) && m.Nonce() == msg.Nonce &&
			m.Value().Cmp(msg.Value) == 0 && m.Gas() == msg.GasLimit && m.GasPrice().Cmp(msg.GasPrice) == 0 && m.GasFeeCap().Cmp(msg.GasFeeCap) == 0 &&
			m.GasTipCap().Cmp(msg.GasTipCap) == 0 && string(m.Data()) == string(msg.Data)
		if !same {
			cs.Oracle = append(cs.Oracle, "C05: TxContext.Msg() does not report the fields of the transaction's message")
		}
		cases = append(cases, cs)
		stats["tx-context"]++
	}
	if err := writeJSON(c.out, "cases.json", cases); err != nil {
		return err
	}
	return writeJSON(c.out, "stats.json", stats)
}
