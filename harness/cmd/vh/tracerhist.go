package main

import (
	"errors"
	"fmt"
	"math/big"
	"strings"

	"verifharness/internal/impl"
	"verifharness/internal/items"
	"verifharness/internal/rng"

	"github.com/artela-network/artela-evm/vm"
	"github.com/ethereum/go-ethereum/common"
	"github.com/holiman/uint256"
)

func init() { commands["tracerhist"] = cmdTracerHist }

type thKey struct {
	acct   common.Address
	path   [][]byte // name, idx...
	slot   *uint256.Int
	off    *uint256.Int // nil = no offset operand
	ty     common.Hash
	clean  bool // registered under the functional discipline (fresh name, fresh triple)
	parent *thKey
}

type thCase struct {
	Idx     int      `json:"idx"`
	Ops     []string `json:"ops"`
	NOps    int      `json:"nops"`
	Regs    int      `json:"registrations"`
	Changes int      `json:"changes"`
	Calls   int      `json:"calls"`
	Raw     int      `json:"raw_changes,omitempty"`
	Oracle  []string `json:"oracle_fail,omitempty"`
	Line    string   `json:"-"`
	// Children() of every looked-up key in returned order (not part of the model's case line; compared across replays)
	ChildrenOrder string `json:"-"`
}

func u256(v uint64) *uint256.Int { return uint256.NewInt(v) }

func resItem(l *items.L, err error) {
	if err == nil {
		l.Res(0, nil)
	} else {
		l.Res(1, []byte(err.Error()))
	}
}

func optOff(l *items.L, off *uint256.Int) {
	l.Open()
	if off != nil {
		l.Big(off.ToBig())
	}
	l.Close()
}

func genHistory(r *rng.R, nops int, exhaustiveSmall bool) thCase {
	tr := vm.NewTracer()
	st := impl.NewState()
	accts := []common.Address{common.HexToAddress("0xaa01"), common.HexToAddress("0xaa02")}
	slots := []*uint256.Int{u256(0), u256(1), u256(5), u256(7),
		new(uint256.Int).SetBytes(common.FromHex("0xb10e2d527612073b26eecdfd717e6a320cf44b4afac2b0732d9fcbe2b7fa0cf6"))}
	big200 := new(uint256.Int).Lsh(u256(1), 200)
	offs := []*uint256.Int{nil, u256(0), u256(1), u256(16), u256(31), u256(32), new(uint256.Int).Lsh(u256(1), 64), big200,
		u256(255), u256(256), u256(257), u256(256 + 16), u256(1<<32 + 1), u256(1<<63 + 31)}
	goodOffs := []*uint256.Int{nil, u256(0), u256(1), u256(16), u256(31)}
	types := []common.Hash{common.HexToHash("0x0a"), common.HexToHash("0x0b"), common.HexToHash("0xc0000000000000000000000000000000000000000000000000000000000000cc")}
	names := [][]byte{[]byte("a"), []byte("b"), []byte("balance"), {}}
	idxKeys := [][]byte{[]byte("k1"), []byte("k2"), common.LeftPadBytes([]byte{7}, 32), {0x00}, {}}
	vals := [][]byte{{1}, {2}, {1, 2, 3}, {}, {0}, common.LeftPadBytes([]byte{9}, 32)}

	var keys []*thKey
	usedNames := map[string]bool{}
	usedTriples := map[string]bool{}
	l := items.New("TH").Open()
	var opsDesc []string
	cs := thCase{}
	poison := false

	tripleKey := func(a common.Address, slot, off *uint256.Int, ty common.Hash) string {
		o := uint64(0)
		if off != nil {
			o = off.Uint64()
		}
		return fmt.Sprintf("%x/%x/%d/%x", a, slot.Bytes32(), o, ty)
	}
	nameKey := func(a common.Address, pslot *uint256.Int, pty common.Hash, key []byte) string {
		p := "root"
		if pslot != nil {
			p = tripleKey(a, pslot, nil, pty)
		}
		return fmt.Sprintf("%x/%s/%x", a, p, key)
	}
	pick := func(n int) int { return r.Intn(n) }

	regTop := func() {
		a := accts[pick(2)]
		name := names[pick(len(names))]
		slot := slots[pick(len(slots))]
		var off *uint256.Int
		if r.Chance(5, 6) {
			off = goodOffs[pick(len(goodOffs))]
		} else {
			off = offs[pick(len(offs))]
		}
		ty := types[pick(len(types))]
		err := tr.SaveStateKey(a, nil, slot, off, ty, common.Hash{}, name)
		l.Open().N(0)
		impl.AddrN(l, a)
		l.Open().Close().Big(slot.ToBig())
		optOff(l, off)
		l.Big(ty.Big()).B(name)
		resItem(l, err)
		l.Close()
		opsDesc = append(opsDesc, fmt.Sprintf("regTop(%x,%q,slot=%s,off=%v,ty=%x)=%v", a[18:], name, slot.Hex(), off, ty[31:], err))
		if err == nil {
			nk, tk := nameKey(a, nil, common.Hash{}, name), tripleKey(a, slot, off, ty)
			k := &thKey{acct: a, path: [][]byte{name}, slot: slot, off: off, ty: ty, clean: !usedNames[nk] && !usedTriples[tk]}
			usedNames[nk], usedTriples[tk] = true, true
			keys = append(keys, k)
			cs.Regs++
		}
	}
	regNested := func() {
		var parent *thKey
		a := accts[pick(2)]
		var pslot *uint256.Int
		var pty common.Hash
		if len(keys) > 0 && r.Chance(7, 8) {
			parent = keys[pick(len(keys))]
			a, pslot, pty = parent.acct, parent.slot, parent.ty
		} else {
			pslot, pty = slots[pick(len(slots))], types[pick(len(types))]
		}
		key := idxKeys[pick(len(idxKeys))]
		slot := slots[pick(len(slots))]
		var off *uint256.Int
		if r.Chance(5, 6) {
			off = goodOffs[pick(len(goodOffs))]
		} else {
			off = offs[pick(len(offs))]
		}
		ty := types[pick(len(types))]
		err := tr.SaveStateKey(a, pslot, slot, off, ty, pty, key)
		l.Open().N(0)
		impl.AddrN(l, a)
		l.Open().Big(pslot.ToBig()).Big(pty.Big()).Close().Big(slot.ToBig())
		optOff(l, off)
		l.Big(ty.Big()).B(key)
		resItem(l, err)
		l.Close()
		opsDesc = append(opsDesc, fmt.Sprintf("regNested(%x,parent=(%s,%x),%x,slot=%s,off=%v,ty=%x)=%v", a[18:], pslot.Hex(), pty[31:], key, slot.Hex(), off, ty[31:], err))
		if err == nil {
			nk, tk := nameKey(a, pslot, pty, key), tripleKey(a, slot, off, ty)
			if parent == nil || !(parent.off == nil || parent.off.IsZero()) {
				// registered under a parent the generator does not track: remember the name and the triple as used
				usedNames[nk], usedTriples[tk] = true, true
				cs.Regs++
				return
			}
			k := &thKey{acct: a, path: append(append([][]byte{}, parent.path...), key), slot: slot, off: off, ty: ty,
				clean: parent.clean && !usedNames[nk] && !usedTriples[tk], parent: parent}
			usedNames[nk], usedTriples[tk] = true, true
			keys = append(keys, k)
			cs.Regs++
		}
	}
	change := func() {
		a := accts[pick(2)]
		slot := slots[pick(len(slots))]
		off := offs[pick(len(offs))]
		ty := types[pick(len(types))]
		if len(keys) > 0 && r.Chance(5, 6) {
			k := keys[pick(len(keys))]
			a, slot, off, ty = k.acct, k.slot, k.off, k.ty
		}
		v := vals[pick(len(vals))]
		err := tr.SaveStateChange(a, slot, off, ty, v)
		l.Open().N(1)
		impl.AddrN(l, a)
		l.Big(slot.ToBig())
		optOff(l, off)
		l.Big(ty.Big()).B(v)
		resItem(l, err)
		l.Close()
		opsDesc = append(opsDesc, fmt.Sprintf("change(%x,slot=%s,off=%v,ty=%x,%x)=%v", a[18:], slot.Hex(), off, ty[31:], v, err))
		if err == nil && off != nil && (!off.IsUint64() || off.Uint64() > 31) {
			// C11: "a change for ... an out-of-range offset is refused without modifying anything"
			cs.Oracle = append(cs.Oracle, fmt.Sprintf("change journaled at the out-of-range offset %v (slot=%s type=%x) was accepted instead of refused", off, slot.Hex(), ty[31:]))
		}
		if err == nil {
			cs.Changes++
		}
	}
	saveCall := func() {
		from := accts[pick(2)]
		var to *common.Address
		if r.Chance(3, 4) {
			t := accts[pick(2)]
			to = &t
		}
		data := r.Bytes(r.Intn(5))
		value, gas := u256(uint64(r.Intn(3))), u256(uint64(1000+r.Intn(1000)))
		tr.SaveCall(from, to, data, value, gas)
		l.Open().N(2)
		impl.AddrN(l, from)
		l.Open()
		if to != nil {
			impl.AddrN(l, *to)
		}
		l.Close().B(data).Big(value.ToBig()).Big(gas.ToBig()).Close()
		opsDesc = append(opsDesc, "saveCall")
		cs.Calls++
	}
	exitCall := func() {
		var err error
		if r.Chance(1, 3) {
			err = errors.New([]string{"out of gas", "execution reverted", "boom"}[pick(3)])
		}
		g := uint64(r.Intn(500))
		ret := r.Bytes(r.Intn(4))
		tr.ExitCall(g, ret, err)
		l.Open().N(3).N(g).B(ret).Open()
		if err != nil {
			l.S(err.Error())
		}
		l.Close().Close()
		opsDesc = append(opsDesc, fmt.Sprintf("exitCall(%v)", err))
	}
	transfer := func() {
		from, to := accts[pick(2)], accts[pick(2)]
		if st.GetBalance(from).Sign() == 0 {
			st.AddBalance(from, big.NewInt(int64(10+r.Intn(100))))
		}
		amt := big.NewInt(int64(r.Intn(5)))
		if amt.Cmp(st.GetBalance(from)) > 0 {
			amt = new(big.Int).Set(st.GetBalance(from))
		}
		b0f, b0t := new(big.Int).Set(st.GetBalance(from)), new(big.Int).Set(st.GetBalance(to))
		tr.TransferWithRecord(st, from, to, amt, func(db vm.StateDB, s, rcp common.Address, a *big.Int) {
			db.SubBalance(s, a)
			db.AddBalance(rcp, a)
		})
		b1f, b1t := st.GetBalance(from), st.GetBalance(to)
		l.Open().N(4)
		impl.AddrN(l, from)
		impl.AddrN(l, to)
		l.Big(b0f).Big(b0t).Big(b1f).Big(b1t).Close()
		opsDesc = append(opsDesc, fmt.Sprintf("transfer(%x->%x,%v)", from[18:], to[18:], amt))
	}
	pathOf := func() (common.Address, [][]byte) {
		if len(keys) > 0 && r.Chance(4, 5) {
			k := keys[pick(len(keys))]
			return k.acct, k.path
		}
		p := [][]byte{names[pick(len(names))]}
		for r.Chance(1, 3) {
			p = append(p, idxKeys[pick(len(idxKeys))])
		}
		return accts[pick(2)], p
	}
	writePath := func(a common.Address, p [][]byte) {
		impl.AddrN(l, a)
		l.B(p[0]).Open()
		for _, x := range p[1:] {
			l.B(x)
		}
		l.Close()
	}
	qFind := func(a common.Address, p [][]byte) {
		k := tr.StateChanges().FindKeyIndices(a, string(p[0]), p[1:]...)
		l.Open().N(10)
		writePath(a, p)
		impl.DumpKey(l, k)
		l.Close()
		if k != nil {
			// C16: the child records come back in the same, specified order as their index keys
			ci, ch := k.ChildrenIndices(), k.Children()
			if len(ci) != len(ch) {
				cs.Oracle = append(cs.Oracle, fmt.Sprintf("C16: Children() returns %d records, ChildrenIndices() %d keys", len(ch), len(ci)))
			}
			cl := items.New("CH")
			for i := range ch {
				impl.DumpKey(cl, ch[i])
				if i < len(ci) {
					path := append(append([][]byte{}, p[1:]...), ci[i])
					if want := tr.StateChanges().FindKeyIndices(a, string(p[0]), path...); want != ch[i] {
						cs.Oracle = append(cs.Oracle, fmt.Sprintf("C16: Children()[%d] is not the record of index key %x (ChildrenIndices()[%d]): the two lists are ordered differently", i, ci[i], i))
					}
				}
			}
			cs.ChildrenOrder += cl.String() + ";"
		}
	}
	qVariable := func(a common.Address, p [][]byte) {
		c := tr.StateChanges().Variable(a, string(p[0]), p[1:]...)
		l.Open().N(15)
		writePath(a, p)
		impl.DumpChanges(l, c)
		l.Close()
	}
	qIndices := func(a common.Address, p [][]byte) {
		res := tr.StateChanges().IndicesOfChanges(a, string(p[0]), p[1:]...)
		l.Open().N(12)
		writePath(a, p)
		l.Open()
		if res == nil {
			l.N(0)
		} else {
			l.N(1).Open()
			for _, x := range res {
				l.B(x)
			}
			l.Close()
		}
		l.Close().Close()
	}
	qSlot := func(a common.Address, slot, off *uint256.Int, ty common.Hash) {
		c, err := tr.StateChanges().Slot(a, slot, off, ty)
		l.Open().N(11)
		impl.AddrN(l, a)
		l.Big(slot.ToBig())
		optOff(l, off)
		l.Big(ty.Big()).Open()
		if err != nil {
			l.N(1).S(err.Error())
		} else {
			l.N(0)
			impl.DumpChanges(l, c)
		}
		l.Close().Close()
	}
	qBalance := func(a common.Address) {
		l.Open().N(13)
		impl.AddrN(l, a)
		impl.DumpChanges(l, tr.StateChanges().Balance(a))
		l.Close()
	}
	qCallTree := func() {
		l.Open().N(14)
		if !impl.DumpCallTree(l, tr.CallTree()) {
			poison = true
		}
		l.Close()
	}
	qAgree := func(k *thKey) {
		kc := tr.StateChanges().FindKeyIndices(k.acct, string(k.path[0]), k.path[1:]...)
		sc, err := tr.StateChanges().Slot(k.acct, k.slot, k.off, k.ty)
		agree := kc != nil && err == nil && kc.Changes() != nil && sc == kc.Changes()
		l.Open().N(16)
		writePath(k.acct, k.path)
		l.Big(k.slot.ToBig())
		optOff(l, k.off)
		l.Big(k.ty.Big()).Bool(agree).Close()
		// property-level oracle (C11): a key registered under the functional discipline must be reached both ways
		if k.clean && !agree {
			cs.Oracle = append(cs.Oracle, fmt.Sprintf("key registered as path=%x triple=(%s,%v,%x): lookup by path and lookup by (slot,offset,type) do not reach the same record", k.path, k.slot.Hex(), k.off, k.ty[31:]))
		}
	}
	// journal a marker through the (slot, offset, type) triple of a registered key
	markKey := func(i int, k *thKey) {
		v := []byte{0xEE, byte(i)}
		err := tr.SaveStateChange(k.acct, k.slot, k.off, k.ty, v)
		l.Open().N(1)
		impl.AddrN(l, k.acct)
		l.Big(k.slot.ToBig())
		optOff(l, k.off)
		l.Big(k.ty.Big()).B(v)
		resItem(l, err)
		l.Close()
		if k.clean && err != nil {
			cs.Oracle = append(cs.Oracle, fmt.Sprintf("change for registered key path=%x triple=(%s,%v,%x) refused: %v", k.path, k.slot.Hex(), k.off, k.ty[31:], err))
		}
	}

	for i := 0; i < nops; i++ {
		if r.Chance(1, 12) {
			// a raw (undecoded) state change: write-only bookkeeping of its own — nothing the queries answer may change
			// (it is not part of the case line: the model does not know it happened)
			tr.SaveRawStateChange(accts[pick(2)], *slots[pick(len(slots))], common.BytesToHash(vals[pick(len(vals))]))
			cs.Raw++
		}
		switch x := r.Intn(100); {
		case x < 22:
			regTop()
		case x < 40:
			regNested()
		case x < 62:
			change()
		case x < 69:
			saveCall()
		case x < 76:
			exitCall()
		case x < 80:
			transfer()
		case x < 85:
			a, p := pathOf()
			qFind(a, p)
		case x < 88:
			a, p := pathOf()
			qVariable(a, p)
		case x < 91:
			a, p := pathOf()
			qIndices(a, p)
		case x < 95:
			if len(keys) > 0 && r.Chance(3, 4) {
				k := keys[pick(len(keys))]
				qSlot(k.acct, k.slot, k.off, k.ty)
			} else {
				qSlot(accts[pick(2)], slots[pick(len(slots))], offs[pick(len(offs))], types[pick(len(types))])
			}
		case x < 97:
			qBalance(accts[pick(2)])
		default:
			qCallTree()
		}
	}
	// closing sweep: every registered key both ways, all balances, the call tree
	for i, k := range keys {
		markKey(i, k)
		qFind(k.acct, k.path)
		qSlot(k.acct, k.slot, k.off, k.ty)
		qIndices(k.acct, k.path)
		qAgree(k)
	}
	for _, a := range accts {
		qBalance(a)
	}
	qCallTree()
	if poison {
		l.Open().N(99).Close()
	}
	l.Close()
	cs.Ops, cs.NOps, cs.Line = opsDesc, nops, l.String()
	return cs
}

func cmdTracerHist(args []string) error {
	c := newCommon("tracerhist")
	c.fs.Parse(args)
	r := rng.New(c.seed)
	var cases []thCase
	stats := map[string]int{}
	var sb strings.Builder
	for i := 0; i < c.n; i++ {
		n := 5 + r.Intn(56)
		if i%4 == 0 {
			n = 2 + r.Intn(6)
		}
		cs := genHistory(r.Fork(), n, false)
		cs.Idx = i
		cases = append(cases, cs)
		sb.WriteString(cs.Line + "\n")
		stats[fmt.Sprintf("ops<=%d", (n/10+1)*10)]++
		stats["registrations"] += cs.Regs
		stats["changes"] += cs.Changes
		stats["calls"] += cs.Calls
		stats["oracle-failures"] += len(cs.Oracle)
	}
	if err := writeFile(c.out, "cases.txt", sb.String()); err != nil {
		return err
	}
	if err := writeJSON(c.out, "cases.json", cases); err != nil {
		return err
	}
	return writeJSON(c.out, "stats.json", stats)
}
