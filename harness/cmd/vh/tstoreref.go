package main

import (
	"context"
	"fmt"
	"math/big"
	"strings"

	"verifharness/internal/gen"
	"verifharness/internal/impl"
	"verifharness/internal/progen"
	"verifharness/internal/ref"
	"verifharness/internal/rng"

	"github.com/artela-network/artela-evm/vm"
	"github.com/ethereum/go-ethereum/common"
	"github.com/ethereum/go-ethereum/core/state"
	ethvm "github.com/ethereum/go-ethereum/core/vm"
)

func init() { commands["tstoreref"] = cmdTstoreRef }

// rewrite1153 maps Artela's TLOAD/TSTORE bytes (0x5c/0x5d) to go-ethereum v1.12.0's (0xb3/0xb4) at
// instruction positions only (PUSH data is skipped).
func rewrite1153(code []byte) []byte {
	out := append([]byte{}, code...)
	for i := 0; i < len(out); i++ {
		op := out[i]
		switch {
		case op == 0x5c:
			out[i] = 0xb3
		case op == 0x5d:
			out[i] = 0xb4
		case op >= 0x60 && op <= 0x7f:
			i += int(op - 0x5f)
		}
	}
	return out
}

type tsCase struct {
	Idx    int               `json:"idx"`
	Entry  int               `json:"entry"`
	Codes  map[string]string `json:"codes"`
	Input  string            `json:"input"`
	Gas    uint64            `json:"gas"`
	TOps   int               `json:"transient_ops"`
	Result string            `json:"result"`
	Oracle []string          `json:"oracle_fail,omitempty"`
}

func stateDigest(st *state.StateDB, u progen.Universe) string {
	h := ""
	for _, a := range append(append([]common.Address{}, u.Contracts...), u.EOA, u.Empty, diffCaller) {
		h += fmt.Sprintf("%x:%s:%d:%v:%v|", a[17:], st.GetBalance(a), st.GetNonce(a), st.Exist(a), st.HasSuicided(a))
		for k := 0; k < 6; k++ {
			key := common.BigToHash(big.NewInt(int64(k)))
			h += st.GetState(a, key).Hex()[58:] + st.GetTransientState(a, key).Hex()[58:]
		}
	}
	return h + fmt.Sprintf("logs=%d refund=%d", len(st.Logs()), st.GetRefund())
}

func cmdTstoreRef(args []string) error {
	c := newCommon("tstoreref")
	c.fs.Parse(args)
	r := rng.New(c.seed)
	u := progen.DefaultUniverse()
	var cases []tsCase
	stats := map[string]int{}
	normOp := func(op byte) byte {
		switch op {
		case 0xb3:
			return 0x5c
		case 0xb4:
			return 0x5d
		}
		return op
	}
	for i := 0; i < c.n; i++ {
		rr := r.Fork()
		cs := tsCase{Idx: len(cases), Entry: []int{0, 0, 0, 1, 2, 3}[rr.Intn(6)], Gas: 3_000_000, Codes: map[string]string{}}
		if rr.Intn(6) == 0 {
			cs.Gas = uint64(3000 + rr.Intn(80000))
		}
		wa := &world{Code: map[common.Address][]byte{}, Storage: map[common.Address]map[common.Hash]common.Hash{}, Balance: map[common.Address]*big.Int{}, Nonce: map[common.Address]uint64{}}
		wu := &world{Code: map[common.Address][]byte{}, Storage: map[common.Address]map[common.Hash]common.Hash{}, Balance: map[common.Address]*big.Int{}, Nonce: map[common.Address]uint64{}}
		opts := progen.Opts{Fork: 12, MaxSnips: 14, Cancun: true, NoMcopy: true, NoCreate: true, NoCodeRead: true}
		for _, a := range u.Contracts {
			code := progen.Program(rr, u, opts)
			// more transient-storage traffic: prepend a few TSTORE/TLOAD
			pre := []byte{}
			for k := 0; k < rr.Intn(4); k++ {
				pre = append(pre, 0x60, byte(rr.Intn(5)), 0x60, byte(rr.Intn(4)), 0x5d)       // PUSH1 v PUSH1 k TSTORE
				pre = append(pre, 0x60, byte(rr.Intn(4)), 0x5c, 0x60, byte(rr.Intn(4)), 0x55) // PUSH1 k TLOAD PUSH1 s SSTORE
			}
			// jump targets in the generated body are absolute: keep the body first, append the extra traffic where control falls through
			code = append(append([]byte{}, pre...), shiftJumps(code, len(pre))...)
			wa.Code[a] = code
			wu.Code[a] = rewrite1153(code)
			cs.Codes[a.Hex()] = fmt.Sprintf("%x", code)
			wa.Balance[a], wu.Balance[a] = big.NewInt(1000), big.NewInt(1000)
		}
		wa.Balance[diffCaller], wu.Balance[diffCaller] = big.NewInt(1_000_000), big.NewInt(1_000_000)
		cs.Input = fmt.Sprintf("%x", rr.Bytes(rr.Intn(40)))
		input := common.FromHex(cs.Input)
		to := u.Contracts[0]
		// Artela under Cancun rules
		recA := &impl.Recorder{}
		env := impl.NewEnv(impl.Opts{Fork: "Cancun", Tracer: recA, JP: rr.Bool()})
		impl.Provider.Reset()
		wa.apply(env.State)
		env.Prepare(&to)
		env.State.AddAddressToAccessList(diffCaller)
		var ra, ru struct {
			ret  []byte
			left uint64
			err  error
			pan  string
		}
		ra.pan = impl.Guard(func() {
			ctx := context.Background()
			caller := vm.AccountRef(diffCaller)
			switch cs.Entry {
			case 0:
				ra.ret, ra.left, ra.err = env.EVM.Call(ctx, caller, to, input, cs.Gas, big.NewInt(0))
			case 1:
				ra.ret, ra.left, ra.err = env.EVM.CallCode(ctx, caller, to, input, cs.Gas, big.NewInt(0))
			case 2:
				ra.ret, ra.left, ra.err = env.EVM.DelegateCall(ctx, vm.NewContract(caller, caller, big.NewInt(0), cs.Gas), to, input, cs.Gas)
			default:
				ra.ret, ra.left, ra.err = env.EVM.StaticCall(ctx, caller, to, input, cs.Gas)
			}
		})
		// go-ethereum v1.12.0 under Shanghai rules + EIP-1153
		recU := &ref.Recorder{}
		st := impl.NewState()
		wu.apply(st)
		evm := gen.UpstreamEVM("Shanghai", st, recU, []int{1153})
		cfg, merge := impl.ChainConfig("Shanghai")
		rules := cfg.Rules(big.NewInt(0), merge, 0)
		st.Prepare(rules, impl.Origin, impl.Coinbase, &to, ethvm.ActivePrecompiles(rules), nil)
		st.AddAddressToAccessList(diffCaller)
		ru.pan = impl.Guard(func() {
			caller := ethvm.AccountRef(diffCaller)
			switch cs.Entry {
			case 0:
				ru.ret, ru.left, ru.err = evm.Call(caller, to, input, cs.Gas, big.NewInt(0))
			case 1:
				ru.ret, ru.left, ru.err = evm.CallCode(caller, to, input, cs.Gas, big.NewInt(0))
			case 2:
				ru.ret, ru.left, ru.err = evm.DelegateCall(ethvm.NewContract(caller, caller, big.NewInt(0), cs.Gas), to, input, cs.Gas)
			default:
				ru.ret, ru.left, ru.err = evm.StaticCall(caller, to, input, cs.Gas)
			}
		})
		add := func(f string, x ...interface{}) { cs.Oracle = append(cs.Oracle, "C15: "+fmt.Sprintf(f, x...)) }
		nonstd := false
		for _, e := range recA.Events {
			if e.Kind == "state" {
				if e.Op == 0x5c || e.Op == 0x5d {
					cs.TOps++
				}
				if nonStandard(e.Op, e.Stack) || e.Op == 0x5e || e.Op == 0xb3 || e.Op == 0xb4 {
					nonstd = true
				}
			}
		}
		if nonstd {
			stats["skipped"]++
			continue
		}
		ea, eu := fmt.Sprint(ra.err), fmt.Sprint(ru.err)
		if normErr(ea) != normErr(eu) || ra.pan != ru.pan {
			add("outcome: artela %v %s, go-ethereum+EIP-1153 %v %s", ra.err, ra.pan, ru.err, ru.pan)
		}
		if fmt.Sprintf("%x", ra.ret) != fmt.Sprintf("%x", ru.ret) {
			add("return data differs")
		}
		if ra.left != ru.left {
			add("leftover gas %d vs %d", ra.left, ru.left)
		}
		if da, du := stateDigest(env.State, u), stateDigest(st, u); da != du {
			add("post-state (incl. transient storage) differs: %s vs %s", da, du)
		}
		// step streams
		var sa, su []string
		for _, e := range recA.Events {
			if e.Kind == "state" || e.Kind == "fault" {
				sa = append(sa, fmt.Sprintf("%s pc=%d op=%02x gas=%d cost=%d depth=%d err=%q n=%d", e.Kind, e.Pc, e.Op, e.Gas, e.Cost, e.Depth, normErr(e.Err), len(e.Stack)))
			}
		}
		for _, e := range recU.Events {
			if e.Kind == "state" || e.Kind == "fault" {
				su = append(su, fmt.Sprintf("%s pc=%d op=%02x gas=%d cost=%d depth=%d err=%q n=%d", e.Kind, e.Pc, normOp(e.Op), e.Gas, e.Cost, e.Depth, normErr(e.Err), len(e.Stack)))
			}
		}
		for k := 0; k < len(sa) && k < len(su); k++ {
			if sa[k] != su[k] {
				add("step %d: artela %s, reference %s", k, sa[k], su[k])
				break
			}
		}
		if len(sa) != len(su) {
			add("number of steps %d vs %d", len(sa), len(su))
		}
		cs.Result = strings.SplitN(ea, ":", 2)[0]
		stats["result:"+cs.Result]++
		if cs.TOps > 0 {
			stats["with-transient-ops"]++
		}
		cases = append(cases, cs)
	}
	if err := writeJSON(c.out, "cases.json", cases); err != nil {
		return err
	}
	return writeJSON(c.out, "stats.json", stats)
}

// shiftJumps adds delta to every PUSH2 immediately followed by JUMP/JUMPI (the generator's jump idiom).
func shiftJumps(code []byte, delta int) []byte {
	out := append([]byte{}, code...)
	for i := 0; i < len(out); i++ {
		op := out[i]
		if op == 0x61 && i+3 < len(out) && (out[i+3] == 0x56 || out[i+3] == 0x57) {
			v := int(out[i+1])<<8 | int(out[i+2])
			v += delta
			out[i+1], out[i+2] = byte(v>>8), byte(v)
		}
		if op >= 0x60 && op <= 0x7f {
			i += int(op - 0x5f)
		}
	}
	return out
}
